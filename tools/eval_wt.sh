#!/bin/bash
# usage: tools/eval_wt.sh [prop ...]   — evaluates the sub-agents' deliveries under /tmp/wt/<prop>/mutants/<n>/ (demo on the
# clean tree, suite with the patch, demo with the patch, the target property's check), six at a time; prints one line each.
cd "$(dirname "$0")/.."
PROPS=${*:-$(ls /tmp/wt 2>/dev/null)}
for p in $PROPS; do for d in /tmp/wt/$p/mutants/[0-9]*; do [ -f $d/patch.diff ] && echo "$p $d"; done; done |
xargs -P 6 -L 1 sh -c 'out=$(tools/eval_seeded.sh $1 $0 2>&1); echo "$0/$(basename $1): clean=$(echo "$out" | grep -c "demo on clean tree : ok") suite=$(echo "$out" | grep "suite with patch" | grep -o "[0-9]*/[0-9]*") demo=$(echo "$out" | grep "demo with patch" | sed "s/.*: //") $(echo "$out" | grep DETECTED)"' | sort
