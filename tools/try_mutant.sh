#!/bin/bash
# usage: tools/try_mutant.sh <patch.diff> [property ...]
# Applies the patch to a scratch worktree of /repo's HEAD (never to /repo itself), runs the checks on it
# (all 20 unless properties are given) without writing evidence, prints which raise a VIOLATION, removes the worktree.
set -u
PATCH=$(readlink -f "$1"); shift
PROPS=${*:-C01 C02 C03 C04 C05 C06 C07 C08 C09 C10 C11 C12 C13 C14 C15 C16 C17 C18 C19 C20}
WT=$(mktemp -d /tmp/mutant-eval-XXXXXX)
rmdir "$WT"
git -C /repo worktree add -q --detach "$WT" HEAD || exit 2
trap 'git -C /repo worktree remove --force "$WT" >/dev/null 2>&1; rm -rf "$WT"' EXIT
if ! git -C "$WT" apply "$PATCH"; then echo "PATCH DOES NOT APPLY"; exit 2; fi
export GOFLAGS=-mod=mod GOPROXY=off GOSUMDB=off GOTOOLCHAIN=local
(cd "$WT" && go build ./... ) || { echo "DOES NOT COMPILE"; exit 2; }
HIT=""
for p in $PROPS; do
  OUT=$(/verif/bin/minicheck -repo "$WT" -verif /verif -prop $p -no-evidence 2>&1)
  if echo "$OUT" | grep -q "^VIOLATION"; then
    HIT="$HIT $p"
    echo "$OUT" | grep "^VIOLATED\|^UNDECIDED\|^ERROR" | sed "s|$WT/||g" | cut -c1-420
  fi
done
echo "DETECTED-BY:${HIT:- none}"
