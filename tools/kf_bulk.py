#!/usr/bin/env python3
"""usage: tools/kf_bulk.py PROPERTY RULE 'what'  — registers every currently reported violation of PROPERTY/RULE as a known finding
(a one-off triage aid used while building; never run by a check)."""
import json, subprocess, sys, re, os
prop, rule, what = sys.argv[1:4]
here = os.path.dirname(os.path.dirname(os.path.abspath(__file__)))
out = subprocess.run([os.path.join(here, "bin/minicheck"), "-prop", prop, "-no-evidence", "-verif", here], capture_output=True, text=True).stdout
p = os.path.join(here, "known_findings.json")
kf = json.load(open(p))
n = 0
for line in out.splitlines():
    m = re.match(r"(VIOLATED|UNDECIDED) property=(\S+) rule=(\S+) construct=(.*?) at (\S+) \[", line)
    if not m or m.group(3) != rule:
        continue
    cons = m.group(4)
    if any(e["property"] == prop and e["rule"] == rule and e["construct"] == cons for e in kf):
        continue
    kf.append({"property": prop, "rule": rule, "construct": cons, "status": "known", "what": what, "record": "known: property=%s %s" % (prop, what)})
    n += 1
json.dump(kf, open(p, "w"), indent=1)
print("added", n)
