#!/usr/bin/env python3
"""usage: tools/kf.py PROPERTY RULE CONSTRUCT known|fixed WHAT [COMMIT] [DEMO]  — edits known_findings.json (never done at check time)"""
import json, sys, os
p = os.path.join(os.path.dirname(os.path.dirname(os.path.abspath(__file__))), "known_findings.json")
kf = json.load(open(p))
prop, rule, cons, status, what = sys.argv[1:6]
commit = sys.argv[6] if len(sys.argv) > 6 else None
demo = sys.argv[7] if len(sys.argv) > 7 else None
kf = [e for e in kf if not (e["property"] == prop and e["rule"] == rule and e["construct"] == cons)]
e = {"property": prop, "rule": rule, "construct": cons, "status": status, "what": what}
if commit: e["commit"] = commit
if demo: e["demo"] = demo
e["record"] = ("fixed: property=%s %s %s" % (prop, commit, what)) if status == "fixed" else ("known: property=%s %s" % (prop, what))
kf.append(e)
json.dump(kf, open(p, "w"), indent=1)
print(len(kf), "entries")
