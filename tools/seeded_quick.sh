#!/bin/bash
# usage: tools/seeded_quick.sh [jobs]  — for every seeded change: does the TARGET property's check report it? (no demo, no suite:
# that is tools/seeded_meta.py). Prints the ones that are missed; exit 1 if any.
cd "$(dirname "$0")/.."
JOBS=${1:-8}
ls -d seeded/*/ | while read d; do [ -f "${d}patch.diff" ] && echo "$d"; done |
xargs -P "$JOBS" -I{} sh -c 'n=$(basename {}); p=${n%%-*}; r=$(tools/try_mutant.sh {}patch.diff $p 2>&1 | tail -1); case "$r" in *"$p"*) ;; *) echo "MISSED $n $r";; esac' | sort > /tmp/seeded-quick.$$ 
cat /tmp/seeded-quick.$$; n=$(wc -l < /tmp/seeded-quick.$$); rm -f /tmp/seeded-quick.$$
echo "seeded-quick: $(ls -d seeded/*/ | wc -l) changes, $n missed"
[ "$n" = 0 ]
