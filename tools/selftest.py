#!/usr/bin/env python3
"""Self-validation of the checker (both directions). For every entry of selftest/mutants.py: apply it to a scratch
worktree of /repo's HEAD (under $TMPDIR, never /repo), run the relevant checks there without writing evidence, remove the worktree.
  mutant   -> the property's check must report a VIOLATION (and the entry compiles)
  refactor -> no check may report a VIOLATION
usage: tools/selftest.py [--only PROP] [--jobs N] [--json out.json]
Exit status 0 iff every applicable entry behaved as expected."""
import json, os, subprocess, sys, tempfile, concurrent.futures, importlib.util
here = os.path.dirname(os.path.dirname(os.path.abspath(__file__)))
spec = importlib.util.spec_from_file_location("mutants", os.path.join(here, "selftest", "mutants.py"))
mod = importlib.util.module_from_spec(spec); spec.loader.exec_module(mod)
ALL = ["C%02d" % i for i in range(1, 21)]
ENV = dict(os.environ, GOFLAGS="-mod=mod", GOPROXY="off", GOSUMDB="off", GOTOOLCHAIN="local")
ENV.pop("GOWORK", None)

def run_entry(m):
    wt = tempfile.mkdtemp(prefix="selftest-")
    os.rmdir(wt)
    res = dict(kind=m["kind"], prop=m["prop"], name=m["name"], why=m["why"])
    try:
        subprocess.run(["git", "-C", "/repo", "worktree", "add", "-q", "--detach", wt, "HEAD"], check=True, capture_output=True)
        if m.get("base"):
            # the entry is a change on top of one of the behaviour-preserving refactorings of /verif/refactors
            a = subprocess.run(["git", "-C", wt, "apply", os.path.join(here, m["base"])], capture_output=True, text=True)
            if a.returncode != 0:
                res["status"] = "skipped (base patch does not apply)"; return res
        path = os.path.join(wt, m["file"])
        src = open(path).read()
        if src.count(m["old"]) != 1:
            res["status"] = "skipped (pattern occurs %d times)" % src.count(m["old"]); return res
        open(path, "w").write(src.replace(m["old"], m["new"]))
        b = subprocess.run(["go", "build", "./..."], cwd=wt, env=ENV, capture_output=True, text=True)
        if b.returncode != 0:
            res["status"] = "does not compile: " + b.stderr.strip().splitlines()[-1][:200]; return res
        props = ALL if m["kind"] == "refactor" else [m["prop"]]
        hits, lines = [], []
        for p in props:
            out = subprocess.run([os.path.join(here, "bin/minicheck"), "-repo", wt, "-verif", here, "-prop", p, "-no-evidence"], env=ENV, capture_output=True, text=True).stdout
            if "VIOLATION property=" in out:
                hits.append(p)
                lines += [l.replace(wt + "/", "")[:300] for l in out.splitlines() if l.startswith(("VIOLATED", "UNDECIDED"))][:3]
        res["detected_by"] = hits; res["reports"] = lines
        if m["kind"] == "mutant":
            res["status"] = "ok" if hits else "MISSED"
        else:
            res["status"] = "ok" if not hits else "FALSE-ALARM"
        return res
    finally:
        subprocess.run(["git", "-C", "/repo", "worktree", "remove", "--force", wt], capture_output=True)
        subprocess.run(["rm", "-rf", wt])

def main():
    only = None; jobs = 8; outp = None
    a = sys.argv[1:]
    while a:
        x = a.pop(0)
        if x == "--only": only = a.pop(0)
        elif x == "--jobs": jobs = int(a.pop(0))
        elif x == "--json": outp = a.pop(0)
    entries = [m for m in mod.M if only is None or m["prop"] in (only, "*") or (only.endswith("+") and m["name"].startswith(only)) or (only.startswith("~") and only[1:] in m["name"])]
    with concurrent.futures.ThreadPoolExecutor(max_workers=jobs) as ex:
        results = list(ex.map(run_entry, entries))
    bad = 0
    for r in results:
        flag = r["status"]
        print("%-11s %-4s %-32s %s %s" % (flag if len(flag) < 12 else flag[:60], r["prop"], r["name"], ",".join(r.get("detected_by", [])), ""))
        if flag in ("MISSED", "FALSE-ALARM"):
            bad += 1
            for l in r.get("reports", []): print("      ", l)
    print("selftest: %d entries, %d unexpected" % (len(results), bad))
    if outp: json.dump(results, open(outp, "w"), indent=1)
    sys.exit(1 if bad else 0)
main()
