#!/bin/bash
# usage: tools/refactor_corpus.sh [jobs]
# Behaviour-preserving refactorings of /repo (written by sub-agents that saw nothing of /verif; each passes the
# 201-test suite). Every check must stay silent on every one of them: a VIOLATION here is a false alarm of the checker.
# Each patch is applied to a scratch worktree of /repo's HEAD (never to /repo), checked, and the worktree removed.
cd "$(dirname "$0")/.."
JOBS=${1:-6}
OUT=$(mktemp -d /tmp/refcorpus-XXXXXX)
trap 'rm -rf "$OUT"' EXIT
ls -d refactors/*/ | while read d; do [ -f "${d}patch.diff" ] && echo "$d"; done | xargs -P "$JOBS" -I{} sh -c 'n=$(basename {}); tools/try_mutant.sh {}patch.diff > '"$OUT"'/$n.txt 2>&1'
bad=0
for f in "$OUT"/*.txt; do
  n=$(basename "$f" .txt)
  last=$(tail -1 "$f")
  if [ "$last" = "DETECTED-BY: none" ]; then echo "silent   $n"; else echo "ALARM    $n  $last"; grep "^VIOLATED\|^UNDECIDED\|PATCH DOES NOT\|DOES NOT COMPILE" "$f" | cut -c1-300; bad=1; fi
done
exit $bad
