#!/usr/bin/env python3
"""Generates /verif/MANIFEST.json from the table below (kept in one place so that claims, techniques and
not_applicable stay consistent)."""
import json, os, sys
here = os.path.dirname(os.path.dirname(os.path.abspath(__file__)))

CLAIMED = {
 # id: (technique, level text, level note, design ref)
 "C01": ("path-case effect analysis (T-CASE) of every Data/SortedKeys mutator on the SSA CFG + who-may-write field census + interprocedural key/value provenance tracing",
         "Structural necessary conditions only: every mutator preserves 'SortedKeys is the sorted key set of Data' on every path (net effect on the map must be matched by the insertion+sort / binary-search removal of the same key), every Data access uses the table's own GetKey derivation, stored maps are private copies, upsert starts from the request key, GetItem output derives from Data[key]. Induction over histories lifts 'all paths' to 'all histories'. Does not decide item contents (C07), key injectivity (C13) or value equality.",
         "go/ssa + go/types of x/tools v0.29.0; invariant assumed at mutator entry (induction); the 'search missed a key that a lookup just found' branch is treated as infeasible", "DESIGN.md §4 C01"),
 "C03": ("path-case effect analysis (T-CASE) of every refs/sortedKeys mutator, post-dominance of the per-index update loop after every Data write, who-may-call analysis for index creation, field-flow of ItemCount",
         "Structural: index mutators preserve 'sortedKeys = sorted multiset of values(refs)' in all five cases (new, unchanged, changed, dropped, absent); every Data write is followed on every success path by an unconditional update of every index with the same key; Clear clears every index; new indexes are back-filled or provably created on an empty table; ItemCount is plumbed. Does not decide key derivation values (C13) or iteration (C02).",
         "same trusted base as C01", "DESIGN.md §4 C03"),
 "C05": ("SSA value-origin tracing of the item handed to the condition evaluator, field-store census of QueryInput.ConditionExpression at every SearchData call, typestate (verdict before first write), constant/table checks of the refusal code and the v2 error mapper",
         "Structural: the write condition is evaluated on Data[GetKey(request)] or the empty item, never through a table iteration; the verdict precedes every state write and the refused edge reaches no write; refusal carries ConditionalCheckFailedException and is mapped with its Item. The truth value of the condition is C06's and is not decided.",
         "go/ssa; MatcherFunc callbacks assumed read-only", "DESIGN.md §4 C05"),
 "C08": ("two-state typestate over the SSA CFG (clean→dirty on the first state write; error return or documented panic only in clean) with may-write and mutated-parameter callee summaries; dominance of error tests over the interpreter's commit point; error-propagation check",
         "Structural and sufficient for the clause it covers: no failure exit is reachable after a write in any core function that writes table/index state, the interpreter applies an update to the caller's map only on the success edges of all its error tests, client methods reach the core mutator only on the nil edge of every fallible pre-step and propagate its error. State equality is implied (no write happened), not computed. Batch prefixes and table-management calls are outside the statement.",
         "go/ssa + VTA call graph; SDK code assumed not to mutate minidyn state", "DESIGN.md §4 C08"),
 "C11": ("interprocedural lockset analysis of Client.mu (per-instruction held/unheld dataflow, calling contexts joined over package-local call edges resolved with VTA), re-entrancy and release-on-all-exits checks, critical-section shape",
         "Decides the lock discipline that data-race freedom and per-call atomicity rest on, for every schedule and any number of goroutines: every access to shared client/table state is under the mutex in every calling context; no re-acquisition while held (batch methods re-enter unheld); every acquire released on every exit and by defer where a callee may panic; one critical section per call; mutex never copied. Linearizability of batch calls as a unit and user callbacks are not covered.",
         "Go memory model; guarded-state definition in the evidence; SDK/stdlib opaque", "DESIGN.md §4 C11"),
 "C15": ("dominance analysis of the forceFailureErr test over every state-touching instruction in each data method (classified by SDK operation name) combined with the lockset result; post-dominance in the batch error handler; table checks of the condition map and its single writer; sibling comparison v1/v2",
         "Structural: while a failure is configured every direct data method returns the configured error value itself before touching any state (so nothing can change); batch write routes every request through the checked single-item methods and its handler never drops a request; conditions are exhaustive, None↦nil, single writer (reversible). One known finding: v1 has no BatchGetItem.",
         "go/ssa; data operations identified by DynamoDB API names", "DESIGN.md §4 C15"),
 "C10": ("table agreement / exhaustiveness over go/types: the SDK's AttributeValue union is enumerated and matched against the type tests of the v2 conversion; presence tests classified (nil vs len) per field of types.Item; composite-literal field tables of the v1 conversions; Type()/ToDynamoDB tag agreement; copy-loop completeness on SSA",
         "Structural: every conversion on the write/read path is total over the ten types, maps type X to X, and decides presence by nil-ness rather than emptiness (sets excepted, with the reason). Two known findings (empty list / empty map through v2, asserted by baseline tests). Value fidelity inside a branch, numerals (C12) and set equality are not decided.",
         "go/types view of the pinned SDK packages; DynamoDB has no empty sets", "DESIGN.md §4 C10"),
 "C13": ("idiom classification of the composite-key rendering (injective vs raw join), error-discipline census over all GetKey call sites, switch-label/field agreement in the key accessors, dominance of a key re-derivation before the update commit, key provenance",
         "Structural necessary conditions of key fidelity; three known findings (non-injective '.' join; discarded error in parseStartKey; UpdateItem may change a key attribute – the last blocked by a baseline test). Does not decide per-type rendering injectivity.",
         "go/ssa", "DESIGN.md §4 C13"),
 "C14": ("ownership (T-COPY) analysis on SSA: origin classification fresh/alias of every reference-typed component stored into the result of each attribute-value conversion (discovered by signature), escape check of singleton addresses, output-provenance tracing in the client data methods",
         "Sufficient for the boundary it covers: no pointer, slice or map stored by, or returned from, the adapters' conversions is shared with caller-owned structures, and client outputs carry stored data only through those conversions. Relies on Go string immutability; user callbacks excluded.",
         "go/ssa; conversions discovered by signature (types.Item vs SDK AttributeValue)", "DESIGN.md §4 C14"),
 "C16": ("table equality of the reserved-word map against an embedded reference list, dominance of the reserved-word test over the single environment-lookup funnel with call-site census of the toplevel flag, idiom classification of the used-placeholder test, constant/regex tables, batch-limit counter analysis on SSA phis",
         "Structural; five known findings recorded (substring-based used-test x2 and unbound placeholders – both blocked by baseline tests that depend on the lax behaviour – and the missing key-condition shape validation x2).",
         "reference list is a transcription of the AWS page (cannot be re-fetched offline)", "DESIGN.md §4 C16"),
 "C18": ("dominance and provenance analysis of CreateTable/DeleteTable, field census of Client.tables, constructor freshness, description plumbing (SSA origins + composite-literal tables), census of stores through package-level variables and escaping singleton addresses, hygiene scan",
         "Structural: catalogue discipline (exists-test before insert, only fully built tables published, checked lookups), fresh containers per table, description fields plumbed from the live containers, no mutable package-level state shared between clients, data methods operate on the table named by the request.",
         "go/ssa + go/ast", "DESIGN.md §4 C18"),
 "C19": ("field-provenance (T-FLOW) of the single-item requests built by the batch dispatchers, loop-condition analysis (every request visited), post-dominance in the error handler, error-origin analysis in the BatchGetItem helper",
         "By construction: the batch is literally its decomposition into the client's own checked single-item calls. Two known findings: v2 BatchGetItem reports absent keys as unprocessed (asserted by a baseline test) and v1 has no BatchGetItem.",
         "go/ssa", "DESIGN.md §4 C19"),
 "C20": ("sibling agreement of registry key construction (separator, normaliser, kind→map) between registration and lookup on SSA, effect exclusion on the normaliser (no sort / map iteration), dominance of found-edges over callback invocation, fallback discipline, field provenance of MatchInput/UpdateInput, propagation of interpreter settings",
         "Structural reasons why exactly the registered callback is reached and why a miss falls back or fails safely. Which callback runs for a concrete request at run time is not computed.",
         "go/ssa", "DESIGN.md §4 C20"),
 "C09": ("type-fact analysis (T-GUARD) for every single-result type assertion (tag tests, matchTypes, same-type classes, facts at all call sites, constant-specialised callee results), bounds-fact analysis for every index/slice expression, nil-implies-recorded-error dominance in the parser, natural-loop and call-graph-SCC progress analysis (T-PROG), sentence-count check of the two parser entry points",
         "Panic-freedom and termination obligations over every function of interpreter and interpreter/language reachable from Language.Match/Update (13 assertions, 58 indexing sites, 12 nil obligations, 59 loops, 8 recursive components), plus the top-level acceptance condition (one sentence, empty rejected). Three indexing sites rest on named assumptions listed in the evidence. Does not decide that every ungrammatical string is rejected by the inner productions, nor stack depth for deeply nested finite inputs.",
         "go/ssa + VTA call graph; AST nodes and objects are finite acyclic trees", "DESIGN.md §4 C09"),
 "C02": ("comparator lint of the index ordering function on SSA (projection agreement, decided cases, tie-break), control-dependence analysis of the single result append in the search loop, short-circuit/phi analysis of the filter conjunction, field-provenance (T-FLOW) tables for Count/Items and for the QueryInput of all four client sites, dominance of the index-list rebuild over the loop",
         "Structural necessary conditions of exact iteration: a strict lexicographic (index key, primary key) order, emission governed exactly by the per-item verdict, filter AND key condition, outputs derived from the one search result, request fields plumbed, index list rebuilt once with the same direction flag. The truth of conditions (C06) and the position arithmetic are not decided.",
         "go/ssa; I1-I3 of C01/C03", "DESIGN.md §4 C02"),
 "C04": ("field-provenance of start key / limit / last key through the four client sites, loop-carried-value analysis of the item the continuation key is built from, idiom classification (equality vs ordered) of the resume test, error-discipline at the start-key rendering",
         "ONLY necessary conditions: page accounting (count/scanned/limit arithmetic) is value-level and not decidable by this family – 'at most Limit per page', 'no loss or duplicate at a boundary' are NOT decided. Two known findings (equality resume; discarded start-key error).",
         "go/ssa", "DESIGN.md §4 C04"),
 "C06": ("table checks on the typed AST and SSA: precedence constants and their use in the Pratt parser, comparator switch labels vs Go operators and operand order, BETWEEN decomposition, exhaustiveness of Eval and of the registries, NULL-tag idiom lint, effect exclusion (no mutator reachable from Match), undefined-operand constants",
         "Decides the clauses that are visible in the shape of the code (precedence, operator/label agreement, dispatch exhaustiveness, purity, NULL exists, missing-operand results). The truth value of an arbitrary expression on an arbitrary item is value-level and NOT decided.",
         "go/ssa + go/ast + VTA call graph", "DESIGN.md §4 C06"),
 "C07": ("table agreement of the four actions across parser/dispatch/continuation list, per-action may-effect analysis over the call graph (cut at the dispatcher), fall-through return classification per handler, commit-after-success dominance, write-back idiom checks in Environment.Apply, arithmetic label/operator agreement, single-loop evaluate-and-write idiom",
         "Decides dispatch, permitted effects per action, error on unsupported targets, commit discipline and removal on write-back. Two known findings (every attribute re-serialised; right-hand sides see earlier actions). Resulting values are NOT decided.",
         "go/ssa + call graph", "DESIGN.md §4 C07"),
 "C12": ("census of lossy numeric sites: float-typed fields of number objects, numeral<->float conversions, float arithmetic/comparison/map keys on SSA, raw numeral text in key rendering, string ordering of key lists",
         "Decides the representation only: every site where a DynamoDB number is forced through float64 or compared/ordered as text is listed; all 19 sites found today are known findings (exact decimals need a different number type). Any new or changed site is reported. Numeric results themselves are NOT decided.",
         "go/ssa + go/types", "DESIGN.md §4 C12"),
 "C17": ("sibling cross-check: per-operation summaries (guard events, core calls, failure test) extracted from SSA and compared after normalisation; error-code coverage of the v2 mapper against the codes emitted by core; field coverage of description mappers; nil-test dominance before dereference of optional request pointers; provenance comparison of validation arguments and QueryInput fields",
         "Agreement of the two adapters' structure; 8 known findings (v1-only SDK request validation x7, BatchGetItem missing in v1). Equality of outputs as values is not decided.",
         "go/ssa + go/ast", "DESIGN.md §4 C17"),
}

# techniques added after the seeded rounds / refactor corpus (appended to the technique string of the property)
MORE = {
 "C01": "census of text/number transformations on the key-derivation path; branch-origin check that 'start from the request key' is selected by the presence lookup only (flags resolved through callers); must-pass-through of every success return of Put/Update by the store into Data (CFG, through helpers)",
 "C02": "decision tables (abstract evaluation of the EFFECTIVE comparator – closure, helper, sort.Interface, sort.Reverse, alternatives under the direction flag – over both directions × the 9 orderings); cursor-step recognition and field-based resolution of local record types for loop state held in objects; counted-loop and page-limit exit classification; alias of the I1 path-case analysis",
 "C03": "closed state model of the index (T-FIELD closure, coherence of derived fields); zero-key-with-error discipline of the key derivation (sparse indexes)",
 "C04": "dominance of every returned key by the table-key derivation; unconditional hand-over of the engine's resume key; classification of the resume comparison (operator, direction dependence, operands = primary key of the position vs rendered start key); aliases: verbatim S/N flow through the adapters, loop-exit classification",
 "C05": "CFG exploration under facts for the refused edge (verdict forwarders); decision table of the engine's verdict (abstract evaluation over presence × verdict of the three expression kinds, unknown tests enumerated both ways); verdict helpers (refusal turned into an error by a helper: tested at the call, refused edge reaches no write); alias of the lossless-key census",
 "C06": "operand flow (value-origin tracing, eval-of mode) from the parser's node stores to the comparators' parameters; built-ins resolved from their registry key through function variables and function-building helpers; dynamic dispatch in the type-fact domain; decision table of the undefined-operand handler; pointer-identity comparison census with type-tag facts; dominance of the undefined test over every comparing use of the left operand in IN/BETWEEN; function-parameter sensitive reachability",
 "C07": "key agreement between the environment's store and removed-set; closed state model of the environment; purity of the update grammar's functions w.r.t. their operands (derived-value store census); copy-on-SET with mutability of object types computed from their methods; must-non-nil analysis of the type field in ToDynamoDB",
 "C08": "immutability census of *types.Item (no store through an Item that was not allocated locally)",
 "C09": "length facts through closure-bound arities (free variable → binding → construction-site constant); guard check that identifier nodes are built from tokens checked to be identifiers; position-vs-length guard of the EOF token; list-member loops run to exhaustion unless an error object is returned",
 "C10": "presence→object-tag agreement of the attribute→object conversion (case chains and (predicate, constructor) tables; branch facts incl. short-circuit phis); value-origin tracing of every S/N slot store in all four mapper directions (package-local helpers looked into); must-non-nil analysis (make/literal/append/phi/helper returns/field invariants) of the type-carrying field per SDK member case and per object kind; aliases: lossless keys, ownership of conversion results",
 "C12": "canonicaliser recognition restricted to math/big; per-key-list text-order findings; boundary sites keyed by kind and operand origin (value-origin tracing); who-may-write census of Number.Value",
 "C13": "error-class dataflow for the key derivation's errors; interprocedural dominance of success returns by the key derivation; composition forms (Join, concatenation, multi-verb Sprintf); guarded-write census of Table.AttributesDef against operations other than table creation; alias of the lossless-key census; census of byte-slice→text conversions on the key derivation path (followed to their sinks)",
 "C14": "shared package-level results; shallow element copies (copy / append(dst, src...) on slices of references)",
 "C16": "operand-evaluation dominance per node evaluator (no short-circuit before a non-error result), member loops; decision table of the write-request validator",
 "C17": "error-class dataflow (every returnable error value classified nil/sdk/engine/bare/sentinel/configured through helpers, phis and the mapper); pairwise dominance order of the checks per operation; events collected through helpers only one client has; aliases: verbatim scalars, type-field non-nilness, batch validators",
 "C18": "closed state model (field census against a confirmed table; coherence of derived fields by post-dominance of rewrites over the writers of their sources); escape analysis of loop-variable (and loop-variable field) addresses under pre-1.22 semantics; aliases of the attribute-definition guard and of the I1 path-case analysis (item count); must-pass-through of the store into Table.Indexes for index creation",
 "C19": "field-forwarding table KeysAndAttributes→GetItemInput; error-classification guard on the unprocessed edge; accumulation analysis in the function that holds the key loop; allocation-site analysis of every slice stored under a table name (both batch operations); inline form of the batch-write handler (CFG exploration under the fact that the dispatch failed, the recording as a barrier)",
 "C20": "decision table of the native/language dispatch (unknown tests enumerated both ways); closed state model of the native interpreter; registry accesses through selector helpers; unconditional propagation (only loop progress and panicking guards may govern the per-table store)",
}

PENDING = {}

def main():
    props = [json.loads(l) for l in open(os.path.join(here, "properties.jsonl"))]
    ids = [p["id"] for p in props]
    extra = {}
    exec(open(os.path.join(here, "tools", "manifest_claims.py")).read(), extra) if os.path.exists(os.path.join(here, "tools", "manifest_claims.py")) else None
    claimed = dict(CLAIMED); claimed.update(extra.get("CLAIMED", {}))
    na = dict(extra.get("NOT_APPLICABLE", {}))
    checks = []
    for i in ids:
        if i in claimed:
            tech, text, note, ref = claimed[i]
            checks.append({
                "property_id": i,
                "quick_cmd": "./run.sh %s quick" % i,
                "thorough_cmd": "./run.sh %s thorough" % i,
                "evidence_file": "/verif/evidence/%s.json" % i,
                "replay_cmd_template": "bin/minicheck -replay {path}",
                "engine": "minicheck",
                "level_claimed": {"category": "other", "text": text, "design_ref": ref},
                "level_note": note,
                "technique": "static analysis: " + tech + ("; " + MORE[i] if i in MORE else ""),
            })
    not_applicable = []
    for i in ids:
        if i not in claimed:
            not_applicable.append({"property_id": i, "reason": na.get(i, "check not built yet in this round (work in progress; see DESIGN.md §4 for the planned static rules)")})
    m = {
        "version": 1,
        "setup_cmd": "cd checker && GOFLAGS=-mod=mod GOPROXY=off GOSUMDB=off GOTOOLCHAIN=local go build -o ../bin/minicheck .",
        "hooks": {"guard": "verif", "enable": "no hooks are needed: the checker only reads /repo's source; it loads it with -tags verif so that any future guarded file is analysed too",
                  "baseline_off_cmd": "tools/suite.sh /repo", "source_commits": [], "add_only": True},
        "engines": [{"name": "minicheck", "path": "/verif/checker", "serves_properties": [c["property_id"] for c in checks],
                     "kind_free_text": "repository-specific static analyser (Go; golang.org/x/tools v0.29.0: go/packages type-checked AST, go/ssa, VTA call graph). Nothing from /repo is executed."}],
        "checks": checks,
        "not_applicable": not_applicable,
        "notes": "All claims are level 'other': each check decides structural necessary (sometimes sufficient) conditions of its property by static analysis of the current source and says in its evidence what is not decided. Known findings: /verif/known_findings.json. fix: commits in /repo are listed there as status=fixed.",
    }
    json.dump(m, open(os.path.join(here, "MANIFEST.json"), "w"), indent=1)
    print("claimed:", len(checks), "not_applicable:", len(not_applicable))

main()
