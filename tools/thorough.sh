#!/bin/bash
# usage: tools/thorough.sh <property-id> [repo]
# Thorough tier of one property:
#   1. self-validation of the checker for this property on scratch worktrees (own mutants, behaviour-preserving refactors,
#      the seeded changes kept under seeded/<id>-*): recorded in the evidence, never changes the exit status;
#   2. cross-reference linters on /repo (go vet, staticcheck, errcheck -asserts): counts recorded, never decide;
#   3. the property's rules on three build configurations (tags on, tags off, GOARCH=386): THIS decides the exit status.
set -u
cd "$(dirname "$0")/.."
ID=$1; REPO=${2:-/repo}
export GOFLAGS=-mod=mod GOPROXY=off GOSUMDB=off GOTOOLCHAIN=local
unset GOWORK
mkdir -p evidence
EXTRA=$(mktemp)
python3 tools/thorough_extra.py "$ID" "$REPO" > "$EXTRA" 2>/dev/null || echo '{}' > "$EXTRA"
bin/minicheck -repo "$REPO" -verif "$(pwd)" -prop "$ID" -tier thorough -extra "$EXTRA"
RC=$?
rm -f "$EXTRA"
exit $RC
