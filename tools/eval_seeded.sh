#!/bin/bash
# usage: tools/eval_seeded.sh <dir with patch.diff + demo_test.go> [props...]
# Confirms a seeded change in a scratch worktree of /repo's HEAD (never /repo): (1) demo passes on the clean tree,
# (2) patch applies and compiles, (3) the existing suite passes with it, (4) the demo fails with it,
# (5) runs the checks (all 20 by default) on the patched tree and lists which report a VIOLATION.
set -u
D=$(readlink -f "$1"); shift
PROPS=${*:-C01 C02 C03 C04 C05 C06 C07 C08 C09 C10 C11 C12 C13 C14 C15 C16 C17 C18 C19 C20}
WT=$(mktemp -d /tmp/seeded-eval-XXXXXX); rmdir "$WT"
git -C /repo worktree add -q --detach "$WT" HEAD || exit 2
trap 'git -C /repo worktree remove --force "$WT" >/dev/null 2>&1; rm -rf "$WT"' EXIT
export GOFLAGS=-mod=mod GOPROXY=off GOSUMDB=off GOTOOLCHAIN=local
DEST=$(head -1 "$D/demo_test.go" | sed -n 's|.*copy to: *\([A-Za-z0-9_./-]*\).*|\1|p' | sed 's|/$||')
[ -z "$DEST" ] && { echo "cannot find 'copy to:' in demo"; exit 2; }
RACE=""; grep -qi "\-race" "$D/notes.md" 2>/dev/null && RACE="-race"
cp "$D/demo_test.go" "$WT/$DEST/zz_seeded_demo_test.go"
TESTS=$(grep -o "^func Test[A-Za-z0-9_]*" "$D/demo_test.go" | sed 's/func //' | paste -sd'|')
clean=$(cd "$WT" && go test $RACE -vet=off -count=1 -run "^($TESTS)\$" ./$DEST 2>&1 | tail -1)
echo "demo on clean tree : $clean"
rm "$WT/$DEST/zz_seeded_demo_test.go"
git -C "$WT" apply "$D/patch.diff" || { echo "PATCH DOES NOT APPLY"; exit 2; }
(cd "$WT" && go build ./...) || { echo "DOES NOT COMPILE"; exit 2; }
suite=$(/verif/tools/suite.sh "$WT" 2>&1 | head -3 | tr '\n' ' ')
echo "suite with patch   : $suite"
cp "$D/demo_test.go" "$WT/$DEST/zz_seeded_demo_test.go"
mut=$(cd "$WT" && go test $RACE -vet=off -count=1 -run "^($TESTS)\$" ./$DEST 2>&1 | grep -c "^--- FAIL\|^FAIL\|panic:\|DATA RACE")
echo "demo with patch    : $([ "$mut" -gt 0 ] && echo FAILS || echo passes)"
rm "$WT/$DEST/zz_seeded_demo_test.go"
HIT=""
for p in $PROPS; do
  OUT=$(/verif/bin/minicheck -repo "$WT" -verif /verif -prop $p -no-evidence 2>&1)
  if echo "$OUT" | grep -q "^VIOLATION"; then
    HIT="$HIT $p"
    echo "$OUT" | grep "^VIOLATED\|^UNDECIDED\|^ERROR" | sed "s|$WT/||g" | cut -c1-330 | head -4
  fi
done
echo "DETECTED-BY:${HIT:- none}"
