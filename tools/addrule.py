"""helper for editing rules_cNN.go: addrule(file, rule_line, decided_addition) – escapes the addition for a Go string literal"""
import re, json
def addrule(p, newrule, decided_add):
    s = open(p).read()
    a = s.index('Rules: []RuleDef{')
    m = re.compile(r'\n\t\t\},\n\t\}\)\n').search(s, a)
    assert m, p
    s = s[:m.start()] + '\n' + newrule + s[m.start():]
    m = re.search(r'(Decided:\s+"(?:[^"\\]|\\.)*)"', s)
    old = m.group(1)
    esc = json.dumps(decided_add, ensure_ascii=False)[1:-1]
    s = s.replace(old, old.rstrip('.') + esc, 1)
    open(p, 'w').write(s)
def desc(text):
    return json.dumps(text, ensure_ascii=False)
