#!/usr/bin/env python3
"""Self-validation and cross-reference part of the thorough tier; prints a JSON object that minicheck embeds in the evidence."""
import json, os, subprocess, sys, tempfile, importlib.util, concurrent.futures, glob, re
here = os.path.dirname(os.path.dirname(os.path.abspath(__file__)))
prop, repo = sys.argv[1], sys.argv[2]
ENV = dict(os.environ, GOFLAGS="-mod=mod", GOPROXY="off", GOSUMDB="off", GOTOOLCHAIN="local"); ENV.pop("GOWORK", None)
spec = importlib.util.spec_from_file_location("mutants", os.path.join(here, "selftest", "mutants.py"))
mod = importlib.util.module_from_spec(spec); spec.loader.exec_module(mod)

def check(wt):
    out = subprocess.run([os.path.join(here, "bin/minicheck"), "-repo", wt, "-verif", here, "-prop", prop, "-no-evidence"], env=ENV, capture_output=True, text=True).stdout
    return "VIOLATION property=" in out, [l.replace(wt + "/", "")[:240] for l in out.splitlines() if l.startswith(("VIOLATED", "UNDECIDED"))][:2]

def scratch():
    wt = tempfile.mkdtemp(prefix="thorough-"); os.rmdir(wt)
    subprocess.run(["git", "-C", repo, "worktree", "add", "-q", "--detach", wt, "HEAD"], check=True, capture_output=True)
    return wt
def drop(wt):
    subprocess.run(["git", "-C", repo, "worktree", "remove", "--force", wt], capture_output=True); subprocess.run(["rm", "-rf", wt])

def run_entry(m):
    wt = scratch()
    try:
        if m.get("base") and subprocess.run(["git", "-C", wt, "apply", os.path.join(here, m["base"])], capture_output=True).returncode != 0:
            return dict(name=m["name"], kind=m["kind"], outcome="skipped: base patch no longer applies")
        path = os.path.join(wt, m["file"]); src = open(path).read()
        if src.count(m["old"]) != 1:
            return dict(name=m["name"], kind=m["kind"], outcome="skipped: no longer applies")
        open(path, "w").write(src.replace(m["old"], m["new"]))
        if subprocess.run(["go", "build", "./..."], cwd=wt, env=ENV, capture_output=True).returncode != 0:
            return dict(name=m["name"], kind=m["kind"], outcome="skipped: does not compile")
        hit, rep = check(wt)
        exp = (m["kind"] == "mutant")
        return dict(name=m["name"], kind=m["kind"], outcome="as expected" if hit == exp else ("MISSED" if exp else "FALSE-ALARM"), report=rep)
    finally:
        drop(wt)

def run_seeded(d):
    wt = scratch()
    try:
        if subprocess.run(["git", "-C", wt, "apply", os.path.join(d, "patch.diff")], capture_output=True).returncode != 0:
            return dict(name=os.path.basename(d), kind="seeded", outcome="skipped: patch no longer applies")
        hit, rep = check(wt)
        return dict(name=os.path.basename(d), kind="seeded", outcome="as expected" if hit else "MISSED", report=rep)
    finally:
        drop(wt)

def run_refactor(d):
    wt = scratch()
    try:
        if subprocess.run(["git", "-C", wt, "apply", os.path.join(d, "patch.diff")], capture_output=True).returncode != 0:
            return dict(name=os.path.basename(d), kind="refactor-corpus", outcome="skipped: patch no longer applies")
        hit, rep = check(wt)
        return dict(name=os.path.basename(d), kind="refactor-corpus", outcome="as expected" if not hit else "FALSE-ALARM", report=rep)
    finally:
        drop(wt)

entries = [m for m in mod.M if m["prop"] in (prop, "*")]
refactors = sorted(d for d in glob.glob(os.path.join(here, "refactors", "*")) if os.path.isfile(os.path.join(d, "patch.diff")))
seeded = sorted(glob.glob(os.path.join(here, "seeded", prop + "-*")))
res = []
with concurrent.futures.ThreadPoolExecutor(max_workers=8) as ex:
    res += list(ex.map(run_entry, entries))
    res += list(ex.map(run_seeded, seeded))
    res += list(ex.map(run_refactor, refactors))
# cross-reference linters (never decide)
xref = {}
for name, cmd in (("go vet", ["go", "vet", "./..."]), ("staticcheck", ["staticcheck", "./..."]), ("errcheck -asserts", ["errcheck", "-asserts", "./..."])):
    try:
        r = subprocess.run(cmd, cwd=repo, env=ENV, capture_output=True, text=True, timeout=600)
        lines = [l for l in (r.stdout + r.stderr).splitlines() if re.match(r"^[\w./-]+\.go:\d+", l) and "_test.go" not in l]
        xref[name] = dict(diagnostics=len(lines), sample=lines[:3])
    except Exception as e:
        xref[name] = dict(error=str(e)[:100])
print(json.dumps(dict(self_validation=dict(entries=len(res), unexpected=sum(1 for r in res if r["outcome"] in ("MISSED", "FALSE-ALARM")), results=res), cross_reference=xref)))
