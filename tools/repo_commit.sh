#!/bin/bash
# usage: tools/repo_commit.sh <message-file>   — commits /repo's working tree only if the baseline suite still passes
set -e
/verif/tools/suite.sh /repo || { echo "SUITE FAILED: not committing"; exit 1; }
(cd /repo && test -z "$(gofmt -l core interpreter types aws-v1 aws-v2)" || { echo "gofmt issues"; exit 1; })
git -C /repo add -A && git -C /repo commit -q -F "$1" && git -C /repo log --oneline | head -1
