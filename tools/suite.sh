#!/bin/bash
# Runs the repository's own test suite (guard tag off) and compares with the 201 stable tests of the baseline.
# usage: tools/suite.sh [repo-dir] [extra go test flags]
REPO=${1:-/repo}; shift
export GOFLAGS=-mod=mod GOPROXY=off GOSUMDB=off GOTOOLCHAIN=local
unset GOWORK
OUT=$(mktemp)
(cd "$REPO" && go test -mod=mod -json -vet=off -count=1 -timeout 25m "$@" ./... > "$OUT" 2>&1)
python3 - "$OUT" <<'PY'
import json,sys
base=json.load(open('/root/.vp/BASELINE.json'))
want=set(base['stable_pass'])
res={}
for l in open(sys.argv[1]):
    try: ev=json.loads(l)
    except Exception: continue
    if ev.get('Test') and ev.get('Action') in('pass','fail','skip'):
        res[ev['Package']+'::'+ev['Test']]=ev['Action']
missing=[t for t in sorted(want) if res.get(t)!='pass']
newfail=[t for t,a in sorted(res.items()) if a=='fail' and t not in want]
print("baseline stable tests passing: %d/%d"%(len(want)-len(missing),len(want)))
for t in missing: print("  NOT PASSING:",t,res.get(t))
for t in newfail: print("  failing (not in stable baseline):",t)
sys.exit(1 if missing else 0)
PY
RC=$?
[ $RC -ne 0 ] && grep -h '"Output"' "$OUT" | grep -- "--- FAIL\|Error:\|expected\|actual\|panic:" | cut -c1-300 | head -15
rm -f "$OUT"
exit $RC
