#!/usr/bin/env python3
"""Re-evaluates every /verif/seeded/<id>/ (patch.diff, demo_test.go, notes.md) with tools/eval_seeded.sh and writes meta.json:
which property it breaks, what it needs to manifest, what was run and observed, which checks detect it."""
import json, os, re, subprocess, sys, concurrent.futures
here = os.path.dirname(os.path.dirname(os.path.abspath(__file__)))
sd = os.path.join(here, "seeded")
def one(name):
    d = os.path.join(sd, name)
    if not os.path.isfile(os.path.join(d, "patch.diff")):
        return None
    out = subprocess.run([os.path.join(here, "tools/eval_seeded.sh"), d], capture_output=True, text=True, errors="replace").stdout
    g = lambda pat: (re.search(pat, out) or [None, ""])[1].strip()
    notes = open(os.path.join(d, "notes.md")).read() if os.path.exists(os.path.join(d, "notes.md")) else ""
    title = next((l.lstrip("# ").strip() for l in notes.splitlines() if l.strip()), name)
    needs = ""
    m = re.search(r"(?is)(needs?[^\n]*manifest[^\n]*|what it (takes|needs)[^\n]*|\*\*needed[^\n]*|needs:?)(.*?)(\n\s*\n|\n#|\n\*\*|\Z)", notes)
    if m:
        needs = re.sub(r"\s+", " ", (m.group(1) + m.group(3))).strip()[:600]
    files = sorted(set(re.findall(r"^\+\+\+ b/(\S+)", open(os.path.join(d, "patch.diff")).read(), re.M)))
    meta = {
        "id": name,
        "breaks_property": name.split("-")[0],
        "source": "independent sub-agent given only the property text and a scratch worktree of /repo (no access to /verif)",
        "summary": title,
        "files_touched": files,
        "needs_to_manifest": needs,
        "confirmed": {
            "command": "tools/eval_seeded.sh seeded/%s  (scratch worktree of /repo HEAD; /repo itself untouched)" % name,
            "demo_on_clean_tree": g(r"demo on clean tree : (.*)"),
            "existing_suite_with_patch": g(r"suite with patch   : (.*)"),
            "demo_with_patch": g(r"demo with patch    : (.*)"),
        },
        "detected_by": g(r"DETECTED-BY:(.*)").split(),
        "reports": [l[:300] for l in out.splitlines() if l.startswith(("VIOLATED", "UNDECIDED"))][:6],
    }
    json.dump(meta, open(os.path.join(d, "meta.json"), "w"), indent=1)
    return name, meta["detected_by"], meta["confirmed"]["demo_with_patch"], meta["confirmed"]["existing_suite_with_patch"]
names = sorted(os.listdir(sd)) if len(sys.argv) < 2 else sys.argv[1:]
with concurrent.futures.ThreadPoolExecutor(max_workers=6) as ex:
    for r in ex.map(one, names):
        if r:
            tgt = r[0].split("-")[0]
            print("%-8s target-detected=%-5s detected_by=%s demo=%s suite=%s" % (r[0], tgt in r[1], ",".join(r[1]), r[2], r[3][:40]))
