#!/usr/bin/env python3
"""Regenerates the machine-derived tables of DESIGN.md (between BEGIN/END markers) from known_findings.json,
seeded/*/meta.json and selftest/mutants.py, so that the document cannot drift from the data the checks use."""
import json, os, re, glob, importlib.util
here = os.path.dirname(os.path.dirname(os.path.abspath(__file__)))
def esc(s): return str(s).replace("|", "\\|").replace("\n", " ")
kf = json.load(open(os.path.join(here, "known_findings.json")))
rows = ["| property | rule | construct | status | commit | what |", "|---|---|---|---|---|---|"]
for e in sorted(kf, key=lambda e: (e["property"], e["rule"], e["status"], e["construct"])):
    rows.append("| %s | %s | `%s` | %s | %s | %s |" % (e["property"], e["rule"], esc(e["construct"])[:110], e["status"], e.get("commit", ""), esc(e["what"])[:330]))
nk = sum(1 for e in kf if e["status"] == "known"); nf = len(kf) - nk
findings = "%d entries: %d known (reported as KNOWN-FINDING on every run), %d fixed (suppress nothing).\n\n" % (len(kf), nk, nf) + "\n".join(rows)

rows = ["| seeded change | breaks | files | detected by | needs to manifest |", "|---|---|---|---|---|"]
for f in sorted(glob.glob(os.path.join(here, "seeded", "*", "meta.json"))):
    m = json.load(open(f))
    rows.append("| %s – %s | %s | %s | %s | %s |" % (m["id"], esc(m["summary"])[:120], m["breaks_property"], ", ".join(m["files_touched"]), ", ".join(m["detected_by"]) or "**none**", esc(m.get("needs_to_manifest", ""))[:260]))
seeded = "\n".join(rows)

spec = importlib.util.spec_from_file_location("mutants", os.path.join(here, "selftest", "mutants.py"))
mod = importlib.util.module_from_spec(spec); spec.loader.exec_module(mod)
rows = ["| kind | property | name | what |", "|---|---|---|---|"]
for m in mod.M:
    rows.append("| %s | %s | %s | %s |" % (m["kind"], m["prop"], m["name"], esc(m["why"])[:200]))
selft = "%d entries (%d mutants, %d behaviour-preserving refactors); run with `tools/selftest.py`.\n\n" % (len(mod.M), sum(1 for m in mod.M if m["kind"] == "mutant"), sum(1 for m in mod.M if m["kind"] == "refactor")) + "\n".join(rows)

p = os.path.join(here, "DESIGN.md")
s = open(p).read()
for tag, body in (("findings", findings), ("seeded", seeded), ("selftest", selft)):
    pat = re.compile(r"(<!-- BEGIN:%s -->).*?(<!-- END:%s -->)" % (tag, tag), re.S)
    if not pat.search(s):
        print("marker missing:", tag); continue
    s = pat.sub(lambda m: m.group(1) + "\n" + body + "\n" + m.group(2), s)
open(p, "w").write(s)
print("tables regenerated")
