package main

import (
	"go/types"
	"regexp"
	"sort"
	"strings"

	"golang.org/x/tools/go/ssa"
)

// The closed state model (T-FIELD closure).
//
// Every property quantifies over the state of the fake: tables, key lists, indexes, the client's catalogue and switches,
// the evaluation environment, the matcher registries. The rules enumerate that state field by field; what they decide is
// only as complete as the enumeration. The fields below are the ones read and confirmed on the reference tree, each with
// its role. A field that is not in the table is NEW STATE: a cache, a memo, a saved previous value, a snapshot. The
// checker then tries to classify it:
//
//   - never read                                  -> harmless (listed);
//   - its stored values derive from other state   -> derived state: every function that writes one of the primary fields
//     it derives from must also write it on every path that follows (reset or recompute), otherwise a reader can see a
//     value that the primary state no longer justifies – reported with the writer that leaves it stale;
//   - anything else                               -> not decided (reported: the relation between the new field and the
//     property is not something the checker can know).
//
// Removing or renaming a known field does not concern this rule (the rules anchored on it report an unresolved anchor).

type stateField struct {
	name        string
	role        string // primary | derived | config | lock | link
	derivedFrom string // for derived fields: the primary field(s) they are computed from
}

type stateStruct struct {
	role, typ string
	fields    []stateField
}

var stateModel = []stateStruct{
	{"core", "Table", []stateField{
		{"Name", "config", ""}, {"Indexes", "primary", ""}, {"AttributesDef", "primary", ""},
		{"SortedKeys", "derived", "Data"}, {"Data", "primary", ""}, {"KeySchema", "primary", ""},
		{"BillingMode", "config", ""}, {"UseNativeInterpreter", "config", ""}, {"NativeInterpreter", "config", ""},
		{"LangInterpreter", "config", ""}}},
	{"core", "index", []stateField{
		{"keySchema", "primary", ""}, {"sortedKeys", "derived", "refs"}, {"sortedRefs", "derived", "refs"},
		{"typ", "config", ""}, {"projection", "config", ""}, {"Table", "link", ""}, {"refs", "primary", ""}}},
	{"v1", "Client", []stateField{
		{"DynamoDBAPI", "link", ""}, {"tables", "primary", ""}, {"mu", "lock", ""}, {"itemCollectionMetrics", "config", ""},
		{"langInterpreter", "config", ""}, {"nativeInterpreter", "config", ""}, {"useNativeInterpreter", "config", ""},
		{"forceFailureErr", "primary", ""}}},
	{"v2", "Client", []stateField{
		{"tables", "primary", ""}, {"mu", "lock", ""}, {"itemCollectionMetrics", "config", ""},
		{"langInterpreter", "config", ""}, {"nativeInterpreter", "config", ""}, {"useNativeInterpreter", "config", ""},
		{"forceFailureErr", "primary", ""}}},
	{"lang", "Environment", []stateField{
		{"store", "primary", ""}, {"Aliases", "config", ""}, {"toCompact", "derived", "store"}, {"removed", "primary", ""}}},
	{"interp", "Native", []stateField{
		{"filterExpressions", "primary", ""}, {"keyExpressions", "primary", ""}, {"writeCondExpressions", "primary", ""},
		{"updateExpressions", "primary", ""}}},
	{"interp", "Language", []stateField{{"Debug", "config", ""}}},
	// the value objects of the expression language: what an object IS is its Value (structural equality, conversion back
	// to an attribute and the comparators read nothing else); a field added to one of them is a second representation of
	// the value (the numeral it was read from, a cached rendering) that equality and copying would have to know about
	{"lang", "Number", []stateField{{"Value", "primary", ""}}},
	{"lang", "String", []stateField{{"Value", "primary", ""}}},
	{"lang", "Binary", []stateField{{"Value", "primary", ""}}},
	{"lang", "Boolean", []stateField{{"Value", "primary", ""}}},
	{"lang", "Null", []stateField{{"IsUndefined", "primary", ""}}},
	{"lang", "Map", []stateField{{"Value", "primary", ""}}},
	{"lang", "List", []stateField{{"Value", "primary", ""}, {"dirty", "derived", "Value"}}},
	{"lang", "StringSet", []stateField{{"Value", "primary", ""}}},
	{"lang", "NumberSet", []stateField{{"Value", "primary", ""}}},
	{"lang", "BinarySet", []stateField{{"Value", "primary", ""}}},
}

var fieldOriginRe = regexp.MustCompile(`field[: ]([A-Za-z_][A-Za-z0-9_]*)\.([A-Za-z_][A-Za-z0-9_]*)`)

// stateModelClosed emits, under rule id, one obligation per struct of the model accepted by keep ("role.Type") and one per
// field that is not in the table.
func stateModelClosed(e *Engine, id string, keep func(string) bool) {
	all := e.funcs("core", "v1", "v2", "lang", "interp", "types")
	known := map[string]stateField{} // "Type.field" within role -> entry
	for _, st := range stateModel {
		for _, f := range st.fields {
			known[st.role+"."+st.typ+"."+f.name] = f
		}
	}
	// primary leaves of a field of the model
	var primaryOf func(role, typ, name string, depth int) []string
	primaryOf = func(role, typ, name string, depth int) []string {
		f, ok := known[role+"."+typ+"."+name]
		if !ok || depth > 3 {
			return nil
		}
		if f.role == "derived" {
			var out []string
			for _, s := range strings.Split(f.derivedFrom, ",") {
				out = append(out, primaryOf(role, typ, strings.TrimSpace(s), depth+1)...)
			}
			return out
		}
		if f.role == "primary" {
			return []string{typ + "." + name}
		}
		return nil
	}
	for _, st := range stateModel {
		key := st.role + "." + st.typ
		if keep != nil && !keep(key) {
			continue
		}
		pkg := e.Pkgs[st.role]
		if pkg == nil {
			continue
		}
		obj := pkg.Types.Scope().Lookup(st.typ)
		if !e.anchor(id, key, obj == nil) {
			continue
		}
		str, ok := obj.Type().Underlying().(*types.Struct)
		if !ok {
			e.undecided(id, "state:"+key, e.pos(obj.Pos()), "%s is no longer a struct: the state model cannot be matched against it", key)
			continue
		}
		var fresh []*types.Var
		for i := 0; i < str.NumFields(); i++ {
			if _, ok := known[key+"."+str.Field(i).Name()]; !ok {
				fresh = append(fresh, str.Field(i))
			}
		}
		if len(fresh) == 0 {
			e.pass(id, "state:"+key, e.pos(obj.Pos()), "the %d fields of %s are the ones of the confirmed state model (no new state)", str.NumFields(), key)
		}
		for _, f := range fresh {
			construct := "state:" + key + "." + f.Name()
			acc := e.fieldAccesses(f, all)
			reads, writes := 0, 0
			var stores []Access
			for _, a := range acc {
				if a.Write {
					writes++
					if !a.Fresh {
						stores = append(stores, a)
					}
				} else {
					reads++
				}
			}
			if reads == 0 {
				e.ob(id, construct, e.pos(f.Pos()), Pass, false, "new field %s.%s is never read (%d writes): it cannot influence any result", key, f.Name(), writes)
				continue
			}
			// what it is computed from: state fields among the origins of the stored values; when a stored value is built
			// in place (a fresh struct or slice), the state fields read by the storing function and its local callees
			src := map[string]bool{}
			for _, a := range stores {
				var val ssa.Value
				switch x := a.Instr.(type) {
				case *ssa.Store:
					val = x.Val
				case *ssa.MapUpdate:
					val = x.Value
				}
				found := false
				if val != nil {
					for _, o := range e.origins(val) {
						for _, m := range fieldOriginRe.FindAllStringSubmatch(o, -1) {
							if m[1] == st.typ && m[2] == f.Name() {
								continue
							}
							for _, p := range primaryOf(st.role, m[1], m[2], 0) {
								src[p] = true
								found = true
							}
						}
					}
				}
				if !found && val != nil && (builtInPlace(val) || e.freshlyBuilt(val)) {
					e.walkLocal(st.role, a.Fn, 2, func(in ssa.Instruction, _ []callCtx) {
						var fv *types.Var
						switch x := in.(type) {
						case *ssa.FieldAddr:
							fv = fieldOf(x)
						case *ssa.Field:
							fv = fieldOf(x)
						}
						if fv == nil || fv == f {
							return
						}
						for _, p := range primaryOf(st.role, fieldOwner(fv), fv.Name(), 0) {
							src[p] = true
						}
					})
				}
			}
			if len(src) == 0 {
				// a companion of another new field (the direction a cached list was sorted in, the key a memo was computed
				// for): written only where that field is written; it is judged with it
				companion := ""
				for _, g := range fresh {
					if g == f {
						continue
					}
					gacc := e.fieldAccesses(g, all)
					all2 := len(stores) > 0
					for _, a := range stores {
						with := false
						for _, b := range gacc {
							if b.Write && b.Instr.Block() == a.Instr.Block() {
								with = true
							}
						}
						if !with {
							all2 = false
						}
					}
					if all2 {
						companion = g.Name()
					}
				}
				if companion != "" {
					e.ob(id, construct, e.pos(f.Pos()), Pass, false, "new field %s.%s is written only together with the new field %s: judged with it", key, f.Name(), companion)
					continue
				}
				e.undecided(id, construct, e.pos(f.Pos()), "new state: field %s.%s (read at %d site(s), written at %d) is not part of the confirmed state model and is not computed from it: what it means for the property cannot be established here", key, f.Name(), reads, writes)
				continue
			}
			// coherence: every non-constructor write of a primary source is followed, on every path, by a write of the field
			var stale []string
			for _, s := range sortedKeys(src) {
				parts := strings.SplitN(s, ".", 2)
				sf := e.field(st.role, parts[0], parts[1])
				if sf == nil {
					continue
				}
				for _, w := range e.fieldAccesses(sf, all) {
					if !w.Write || w.Fresh {
						continue
					}
					covered := false
					for _, a := range acc {
						if a.Write && a.Fn == w.Fn && (e.ipostdominates(a.Instr, w.Instr) || (a.Instr.Block() == w.Instr.Block() && instrIndex(a.Instr) > instrIndex(w.Instr))) {
							covered = true
						}
					}
					// a callee that always rewrites the field, called after the source write
					if !covered {
						instrs(w.Fn, func(in ssa.Instruction) {
							c, ok := in.(*ssa.Call)
							if !ok || c.Call.StaticCallee() == nil || covered {
								return
							}
							g := c.Call.StaticCallee()
							rewrites := false
							for _, a := range acc {
								if a.Write && a.Fn == g && a.Instr.Block() == g.Blocks[0] {
									rewrites = true
								}
							}
							if rewrites && (e.ipostdominates(in, w.Instr) || (in.Block() == w.Instr.Block() && instrIndex(in) > instrIndex(w.Instr))) {
								covered = true
							}
						})
					}
					if !covered {
						stale = append(stale, e.fname(w.Fn)+" (writes "+s+" at "+e.ipos(w.Instr)+")")
					}
				}
			}
			sort.Strings(stale)
			stale = uniqStrings(stale)
			if len(stale) > 0 {
				shown := stale
				if len(shown) > 4 {
					shown = append(append([]string{}, shown[:4]...), "…")
				}
				e.fail(id, construct, e.pos(f.Pos()), "new derived state: field %s.%s is computed from %s but %d writer(s) of that state leave it untouched on some path – %s: a later read sees a value the current state no longer justifies (a stale cache, memo or snapshot)", key, f.Name(), strings.Join(sortedKeys(src), ", "), len(stale), strings.Join(shown, "; "))
			} else {
				e.pass(id, construct, e.pos(f.Pos()), "new derived field %s.%s (from %s): every writer of its sources rewrites it on every path that follows", key, f.Name(), strings.Join(sortedKeys(src), ", "))
			}
		}
	}
}

// builtInPlace: the value is an object constructed where it is stored (a struct literal, a made slice or map, the result
// of a constructor call): what it contains is what the constructing code reads.
func builtInPlace(v ssa.Value) bool {
	switch x := strip(v).(type) {
	case *ssa.Alloc, *ssa.MakeSlice, *ssa.MakeMap:
		return true
	case *ssa.Call:
		return x.Call.StaticCallee() != nil
	case *ssa.Extract:
		_, ok := x.Tuple.(*ssa.Call)
		return ok
	case *ssa.Slice:
		return builtInPlace(x.X)
	}
	return false
}

// freshlyBuilt: every origin of the value is a container made on the spot (a slice grown by append in a loop, a map
// filled entry by entry): its contents are what the building code reads.
func (e *Engine) freshlyBuilt(v ssa.Value) bool {
	os := e.origins(v)
	if len(os) == 0 {
		return false
	}
	for _, o := range os {
		switch {
		case o == "fresh-slice" || o == "fresh-map" || o == "alloc" || strings.HasPrefix(o, "const:"):
		default:
			return false
		}
	}
	return true
}

func uniqStrings(in []string) []string {
	var out []string
	for i, s := range in {
		if i == 0 || s != in[i-1] {
			out = append(out, s)
		}
	}
	return out
}
