package main

import (
	"fmt"
	"go/ast"
	"go/token"
	"go/types"
	"strings"

	"golang.org/x/tools/go/ssa"
)

// indexLoop describes a `for _, idx := range <table>.Indexes { ... idx.mutator(key, ...) ... }` loop.
type indexLoop struct {
	rng   *ssa.Range
	next  *ssa.Next
	calls []*ssa.Call // calls in the loop body whose receiver is the loop's index value
}

// indexLoops finds the range loops over a load of Table.Indexes in fn.
func (cs *coreState) indexLoops(fn *ssa.Function) []indexLoop {
	var out []indexLoop
	instrs(fn, func(in ssa.Instruction) {
		rg, ok := in.(*ssa.Range)
		if !ok {
			return
		}
		if f, _ := loadedField(rg.X); f != cs.Indexes {
			return
		}
		il := indexLoop{rng: rg}
		for _, r := range refsOf(rg) {
			if nx, ok := r.(*ssa.Next); ok {
				il.next = nx
			}
		}
		if il.next == nil {
			return
		}
		var idxVals []ssa.Value
		for _, ex := range extractOf(il.next, 2) {
			idxVals = append(idxVals, ex)
		}
		instrs(fn, func(j ssa.Instruction) {
			c, ok := j.(*ssa.Call)
			if !ok || isBuiltin(c) || len(c.Call.Args) == 0 {
				return
			}
			for _, iv := range idxVals {
				if c.Call.Args[0] == iv {
					il.calls = append(il.calls, c)
				}
			}
		})
		out = append(out, il)
	})
	return out
}

// unconditionalInLoop: the call executes on every iteration: its block is governed only by the loop's progress
// condition (and conditions that already held before the loop).
func unconditionalInLoop(c ssa.Instruction, nx *ssa.Next) (bool, string) {
	outer := condsAt(nx.Block())
	for _, cond := range condsAt(c.Block()) {
		if ex, ok := cond.V.(*ssa.Extract); ok && ex.Tuple == ssa.Value(nx) {
			continue
		}
		isOuter := false
		for _, o := range outer {
			if o.V == cond.V {
				isOuter = true
			}
		}
		if isOuter {
			continue
		}
		return false, cond.V.String()
	}
	return true, ""
}

// infeasibleSearchMiss: edge (from→to) is the "binary search found nothing" branch for a key that a comma-ok lookup
// on Data just found (infeasible under I1).
func (cs *coreState) infeasibleSearchMiss(from, to *ssa.BasicBlock) bool {
	ifi, ok := from.Instrs[len(from.Instrs)-1].(*ssa.If)
	if !ok {
		return false
	}
	if cs.missFlagEdge(ifi, from, to) {
		return true
	}
	b, ok := ifi.Cond.(*ssa.BinOp)
	if !ok {
		return false
	}
	bx, by, bop := b.X, b.Y, b.Op
	if sc, isC := strip(by).(*ssa.Call); isC && staticCalleeName(sc) == "sort.SearchStrings" {
		bx, by, bop = by, bx, flipOp(bop)
	}
	c, ok := strip(bx).(*ssa.Call)
	if !ok || staticCalleeName(c) != "sort.SearchStrings" {
		return false
	}
	if f, _ := loadedField(c.Call.Args[0]); f != cs.SortedKeys && f != cs.sortedKeys {
		return false
	}
	lc, ok := by.(*ssa.Call)
	if !ok || staticCalleeName(lc) != "builtin.len" {
		return false
	}
	// which successor is the "not found" one?
	missOnTrue := bop == token.EQL || bop == token.GEQ
	missOnFalse := bop == token.LSS || bop == token.NEQ
	if !(missOnTrue || missOnFalse) {
		return false
	}
	miss := from.Succs[0]
	if missOnFalse {
		miss = from.Succs[1]
	}
	if to != miss {
		return false
	}
	return cs.presenceKnown(from, c.Call.Args[1])
}

// presenceKnown: a comma-ok lookup of key on Data/refs is known to have succeeded when control is at block `at`.
func (cs *coreState) presenceKnown(at *ssa.BasicBlock, key ssa.Value) bool {
	known := false
	for _, cd := range condsAt(at) {
		cd = normCond(cd)
		ex, ok := cd.V.(*ssa.Extract)
		if !ok || !cd.Val || ex.Index != 1 {
			continue
		}
		lk, ok := ex.Tuple.(*ssa.Lookup)
		if !ok {
			continue
		}
		if f, _ := loadedField(lk.X); (f == cs.Data || f == cs.refs) && strip(lk.Index) == strip(key) {
			known = true
		}
	}
	return known
}

func init() {
	register(&Prop{
		ID:         "C03",
		Title:      "Secondary indexes always mirror the base table",
		Decided:    "the representation invariants I2 (index.sortedKeys is the sorted multiset of the values of index.refs) and I3 (every base-table mutation is mirrored in every index) are preserved on every path: (R1) only core functions write index.refs/index.sortedKeys/Table.Indexes after construction; (R2) path-case analysis of every index mutator: the net change of refs[k] (absent→v, old→v, old→absent, unchanged) is matched by exactly the corresponding removal of the old index key and insertion (then sort) of the new one in sortedKeys, with presence established by a comma-ok lookup; (R3) every core function that changes Table.Data is followed on every success path by a range over t.Indexes whose body unconditionally calls an index mutator, (R4) with the same primary key; (R5) every call of Table.Clear is followed by a range over the same table's Indexes that clears each index, and the clear resets both containers; (R6) a function that inserts into Table.Indexes either back-fills the new index from the table's items or is only reachable on a table that was created in the same call (provably empty); (R7) per-index ItemCount flows from len(sortedKeys) through IndexesDescription into both SDK descriptions; (R8) GetKey turns a missing index attribute into success for secondary schemas (sparse index) and hands the key through: the key derivation it calls must return the empty key with every error, otherwise an item lacking the range attribute of an index enters that index under its hash part; (R9) what DescribeTable reports per index is built per index: no address of a loop-carried variable (or of one of its fields) is retained across iterations (= C18.R9), otherwise every index reports the values of the last one; (R10) an index has no state beyond the confirmed fields; derived state added later must be kept coherent by every writer of refs.",
		NotDecided: "that the index key derivation (GetKey with the index schema) yields the right key (C13) and that reading through the index iterates correctly (C02); values of attributes (C10).",
		Assumes:    []string{"I2/I3 assumed at mutator entry (induction hypothesis)"},
		Rules: []RuleDef{
			{ID: "R1", Desc: "who-may-write index.refs / index.sortedKeys / Table.Indexes (T-FIELD)", Run: func(e *Engine) {
				cs := e.coreModel()
				if !e.anchor("R1", "core index fields", cs == nil) {
					return
				}
				for _, f := range []*typesVar{cs.refs, cs.sortedKeys, cs.Indexes} {
					for fn, accs := range e.writersOf(f, e.all) {
						fresh := true
						for _, a := range accs {
							if !a.Fresh {
								fresh = false
							}
						}
						construct := e.fname(fn) + ":writes-" + f.Name()
						switch {
						case fresh:
							e.ob("R1", construct, e.ipos(accs[0].Instr), Pass, false, "constructor initialising its own fresh object")
						case e.fnRole(fn) != "core":
							e.fail("R1", construct, e.ipos(accs[0].Instr), "%s is modified outside package core (%s)", f.Name(), accs[0].Kind)
						default:
							e.pass("R1", construct, e.ipos(accs[0].Instr), "core mutator (%d write site(s))", len(accs))
						}
					}
				}
				e.minCount("R1", 8)
			}},
			{ID: "R2", Desc: "path-case analysis of every refs/sortedKeys mutator against the I2 case table (T-CASE)", Run: func(e *Engine) {
				cs := e.coreModel()
				if !e.anchor("R2", "core model", cs == nil) {
					return
				}
				tc := &tcase{e: e, spec: indexPair(cs)}
				seen := map[*ssa.Function]bool{}
				n := 0
				for _, f := range []*typesVar{cs.refs, cs.sortedKeys} {
					for fn, accs := range e.writersOf(f, e.all) {
						if seen[fn] {
							continue
						}
						seen[fn] = true
						allFresh := true
						for _, a := range accs {
							if !a.Fresh {
								allFresh = false
							}
						}
						if allFresh {
							continue
						}
						// helpers whose every caller is itself a mutator of the pair are analysed inlined in their callers
						if tc.onlyCalledByMutators(fn, seen) {
							e.ob("R2", e.fname(fn)+":refs/sortedKeys", e.pos(fn.Pos()), Pass, false, "helper analysed inlined in its callers")
							continue
						}
						n++
						tc.run("R2", fn)
					}
				}
				e.minCount("R2", 2)
			}},
			{ID: "R3", Desc: "every change of Table.Data is followed by an update of every index (T-PDOM)", Run: c03R3},
			{ID: "R5", Desc: "every Table.Clear call is followed by clearing every index of the same table (T-PDOM)", Run: c03R5},
			{ID: "R6", Desc: "a new index is back-filled, or the table is provably empty (who-may-call)", Run: c03R6},
			{ID: "R7", Desc: "per-index ItemCount flows from len(sortedKeys) into both SDK descriptions (T-FLOW)", Run: c03R7},
			{ID: "R8", Desc: "sparse indexes: when the index key cannot be derived the EMPTY key is produced (zero key with every error)", Run: c03R8},
			{ID: "R9", Desc: "per-index descriptions (names, key schemas, item counts) do not alias one loop variable (= C18.R9)", Run: aliasRule("R9", c18R9, nil)},
			{ID: "R10", Desc: "the state of an index is the confirmed set of fields; new derived state (a cached entry list) must be rewritten by every writer of refs on every path (T-FIELD closure)", Run: func(e *Engine) { stateModelClosed(e, "R10", func(k string) bool { return k == "core.index" }) }},
		},
	})
}

// onlyCalledByMutators: fn is unexported and all its callers directly write the pair too (then it is inlined there).
func (tc *tcase) onlyCalledByMutators(fn *ssa.Function, _ map[*ssa.Function]bool) bool {
	if fn.Object() == nil || fn.Object().Exported() {
		return false
	}
	callers := tc.e.callersOf(fn)
	if len(callers) == 0 {
		return false
	}
	for _, c := range callers {
		if !tc.touches(c.Parent()) {
			return false
		}
	}
	return true
}

func c03R3(e *Engine) {
	cs := e.coreModel()
	if !e.anchor("R3", "core model", cs == nil) {
		return
	}
	// functions with a Data element write (direct or via a callee that writes Data), excluding resets
	dataWriters := map[*ssa.Function]bool{}
	for fn, accs := range e.writersOf(cs.Data, e.all) {
		for _, a := range accs {
			if !a.Fresh && (a.Kind == "map-update" || a.Kind == "map-delete") {
				dataWriters[fn] = true
			}
		}
	}
	type site struct {
		in  ssa.Instruction
		key ssa.Value
	}
	sitesOf := func(fn *ssa.Function) []site {
		var out []site
		instrs(fn, func(in ssa.Instruction) {
			switch x := in.(type) {
			case *ssa.MapUpdate:
				if f, _ := loadedField(x.Map); f == cs.Data {
					out = append(out, site{in, x.Key})
				}
			case *ssa.Call:
				if staticCalleeName(x) == "builtin.delete" {
					if f, _ := loadedField(x.Call.Args[0]); f == cs.Data {
						out = append(out, site{in, x.Call.Args[1]})
					}
					return
				}
				if g := x.Call.StaticCallee(); g != nil && dataWriters[g] && g != fn {
					// key argument: the string parameter of the helper that is used as Data key
					var key ssa.Value
					for i, p := range g.Params {
						if types.Identical(p.Type().Underlying(), types.Typ[types.String]) && i < len(x.Call.Args) {
							key = x.Call.Args[i]
						}
					}
					out = append(out, site{in, key})
				}
			}
		})
		return out
	}
	n := 0
	for _, fn := range e.funcs("core") {
		sites := sitesOf(fn)
		if len(sites) == 0 {
			continue
		}
		loops := cs.indexLoops(fn)
		construct := e.fname(fn) + ":indexes-follow-data-write"
		if len(loops) == 0 {
			// delegated to callers?
			callers := e.callersOf(fn)
			deleg := fn.Object() != nil && !fn.Object().Exported() && len(callers) > 0
			for _, c := range callers {
				if len(sitesOf(c.Parent())) == 0 {
					deleg = false
				}
			}
			if deleg {
				e.ob("R3", construct, e.pos(fn.Pos()), Pass, false, "unexported helper; the index update is the responsibility of its %d caller(s), each checked here", len(callers))
				continue
			}
			n++
			e.fail("R3", construct, e.ipos(sites[0].in), "Table.Data is changed but no loop over t.Indexes updates the secondary indexes: index reads go stale")
			continue
		}
		n++
		pd := computePdom(fn, cs.infeasibleSearchMiss)
		bad := ""
		for _, s := range sites {
			okSite := false
			why := "no index loop post-dominates the write"
			for _, lp := range loops {
				// the loop header (Next) must be on every path from the write to a normal return
				if !(pd.canReturn[s.in.Block()] && (pd.pdom[s.in.Block()][lp.next.Block()] || s.in.Block() == lp.next.Block())) {
					continue
				}
				if !mayFollow(s.in, lp.next) {
					continue
				}
				// body: an unconditional call on the loop's index value that may write index state, with the same key
				for _, c := range lp.calls {
					g := c.Call.StaticCallee()
					if g == nil || !cs.mayWrite[g] {
						continue
					}
					if ok, cond := unconditionalInLoop(c, lp.next); !ok {
						why = "the index update is conditional on " + cond
						continue
					}
					sameKey := false
					for _, a := range c.Call.Args[1:] {
						if s.key != nil && strip(a) == strip(s.key) {
							sameKey = true
						}
					}
					if !sameKey {
						why = fmt.Sprintf("the index mutator %s is not called with the primary key used for the Data write", e.fname(g))
						continue
					}
					okSite = true
				}
			}
			if !okSite {
				bad = fmt.Sprintf("after the Data write at %s: %s", e.ipos(s.in), why)
			}
		}
		if bad != "" {
			e.fail("R3", construct, e.ipos(sites[0].in), "%s – some index is not brought up to date on a success path", bad)
		} else {
			e.pass("R3", construct, e.ipos(sites[0].in), "%d Data write site(s); each is followed on every path to a normal return by a range over t.Indexes that unconditionally calls an index mutator with the same key", len(sites))
		}
	}
	if n < 3 {
		e.minCount("R3", 3)
	}
}

func c03R5(e *Engine) {
	cs := e.coreModel()
	clr := e.fn("core", "Table.Clear")
	if !e.anchor("R5", "core.Table.Clear", cs == nil || clr == nil) {
		return
	}
	// index-level clear functions: functions on *index whose T-CASE effect is reset of both
	tc := &tcase{e: e, spec: indexPair(cs)}
	isIndexClear := func(g *ssa.Function) bool {
		ps, prob := tc.paths(g, 8)
		if prob != "" || len(ps) == 0 {
			return false
		}
		for _, p := range ps {
			mc, sc := false, false
			for _, ef := range p.effects {
				if ef.kind == effMapClear {
					mc = true
				}
				if ef.kind == effSliceClear {
					sc = true
				}
			}
			if !mc || !sc {
				return false
			}
		}
		return true
	}
	sites := e.callersOf(clr)
	for _, c := range sites {
		fn := c.Parent()
		construct := e.fname(fn) + ":Clear-then-indexes"
		tbl := c.Common().Args[0]
		ok := false
		why := "no loop over the table's Indexes follows"
		instrs(fn, func(in ssa.Instruction) {
			rg, isR := in.(*ssa.Range)
			if !isR {
				return
			}
			f, base := loadedField(rg.X)
			if f != cs.Indexes || base != tbl {
				return
			}
			var nx *ssa.Next
			for _, r := range refsOf(rg) {
				if n, ok := r.(*ssa.Next); ok {
					nx = n
				}
			}
			if nx == nil || !e.ipostdominates(nx, c.(ssa.Instruction)) && !e.ipostdominates(rg, c.(ssa.Instruction)) {
				if nx == nil || !idominates(c.(ssa.Instruction), rg) {
					return
				}
			}
			for _, ex := range extractOf(nx, 2) {
				for _, r := range refsOf(ex) {
					cc, isC := r.(*ssa.Call)
					if !isC || cc.Call.StaticCallee() == nil {
						continue
					}
					if !isIndexClear(cc.Call.StaticCallee()) {
						why = e.fname(cc.Call.StaticCallee()) + " does not reset both refs and sortedKeys"
						continue
					}
					if u, cond := unconditionalInLoop(cc, nx); !u {
						why = "index clear is conditional on " + cond
						continue
					}
					ok = true
				}
			}
		})
		// the range must be reached on every path from the Clear call to a return
		e.check(ok, "R5", construct, e.ipos(c.(ssa.Instruction)), "Table.Clear() is followed by clearing every index of the same table (%s)", map[bool]string{true: "range over Indexes, unconditional index reset", false: why}[ok])
	}
	e.minCount("R5", 2)
}

func c03R6(e *Engine) {
	cs := e.coreModel()
	if !e.anchor("R6", "core model", cs == nil) {
		return
	}
	newTable := e.fn("core", "NewTable")
	for fn, accs := range e.writersOf(cs.Indexes, e.all) {
		inserts := false
		var site ssa.Instruction
		for _, a := range accs {
			if a.Kind == "map-update" && !a.Fresh {
				inserts = true
				site = a.Instr
			}
		}
		if !inserts {
			continue
		}
		construct := e.fname(fn) + ":new-index-consistent"
		// (a) back-fill: a range over SortedKeys/Data of the table with a call to an index mutator
		backfill := false
		instrs(fn, func(in ssa.Instruction) {
			if backfill {
				return
			}
			var ranged ssa.Value
			switch x := in.(type) {
			case *ssa.Range:
				ranged = x.X
			case *ssa.Call:
				// range over slice is lowered to index loop: look for len(load SortedKeys) used as loop bound
				if staticCalleeName(x) == "builtin.len" {
					ranged = x.Call.Args[0]
				}
			}
			if ranged == nil {
				return
			}
			f, _ := loadedField(ranged)
			if f != cs.SortedKeys && f != cs.Data {
				return
			}
			instrs(fn, func(j ssa.Instruction) {
				c, ok := j.(*ssa.Call)
				if !ok || isBuiltin(c) {
					return
				}
				if g := c.Call.StaticCallee(); g != nil && cs.mayWrite[g] && e.fnRole(g) == "core" && mayFollow(in, j) {
					if n := namedOf(g.Signature.Recv().Type()); g.Signature.Recv() != nil && n != nil && n.Obj().Name() == "index" {
						backfill = true
					}
				}
			})
		})
		if backfill {
			e.pass("R6", construct, e.ipos(site), "the new index is populated from the table's existing items before it becomes visible")
			continue
		}
		// (b) only reachable on a table created in the same client call
		var offending []string
		seen := map[*ssa.Function]bool{}
		var up func(g *ssa.Function, tblArgIdx int, depth int)
		up = func(g *ssa.Function, tblArgIdx int, depth int) {
			if seen[g] || depth > 6 {
				return
			}
			seen[g] = true
			callers := e.callersOf(g)
			if len(callers) == 0 {
				offending = append(offending, e.fname(g)+" (exported entry)")
				return
			}
			for _, c := range callers {
				args := c.Common().Args
				if tblArgIdx >= len(args) {
					offending = append(offending, e.fname(c.Parent()))
					continue
				}
				t := strip(args[tblArgIdx])
				if call, ok := t.(*ssa.Call); ok && call.Call.StaticCallee() == newTable && newTable != nil {
					continue // fresh table: empty
				}
				if p, ok := t.(*ssa.Parameter); ok {
					idx := 0
					for i, pp := range c.Parent().Params {
						if pp == p {
							idx = i
						}
					}
					up(c.Parent(), idx, depth+1)
					continue
				}
				offending = append(offending, e.fname(c.Parent())+" at "+e.ipos(c.(ssa.Instruction)))
			}
		}
		up(fn, 0, 0)
		if len(offending) == 0 {
			e.pass("R6", construct, e.ipos(site), "no back-fill, but every call chain reaches this function with a table returned by core.NewTable in the same call (empty)")
		} else {
			e.fail("R6", construct, e.ipos(site), "a new index is registered without being populated from the existing items, and it is reachable on a non-empty table via %s: items written before the index was created never appear in it", strings.Join(offending, ", "))
		}
	}
	e.minCount("R6", 2)
}

func c03R7(e *Engine) {
	cs := e.coreModel()
	if !e.anchor("R7", "core model", cs == nil) {
		return
	}
	// (a) core: ItemCount of both index description types derives from len(sortedKeys)
	n := 0
	for _, fn := range e.funcs("core") {
		instrs(fn, func(in ssa.Instruction) {
			st, ok := in.(*ssa.Store)
			if !ok {
				return
			}
			f := fieldOf(st.Addr)
			if f == nil || f.Name() != "ItemCount" {
				return
			}
			owner := fieldOwner(f)
			if !strings.HasSuffix(owner, "SecondaryIndexDescription") {
				return
			}
			n++
			os := e.origins(st.Val)
			good := len(os) > 0
			for _, o := range os {
				if o != "len-of field:index.sortedKeys" {
					good = false
				}
			}
			e.check(good, "R7", "core:"+owner+".ItemCount", e.ipos(in), "origin: %s (want len-of field:index.sortedKeys)", strings.Join(os, "; "))
		})
	}
	if n < 2 {
		e.fail("R7", "core:index-descriptions-carry-ItemCount", "-", "only %d of the 2 index description kinds (global, local) receive an ItemCount", n)
	}
	// (b) clients: every composite literal of the SDK's {Global,Local}SecondaryIndexDescription sets ItemCount from the input's ItemCount
	for _, role := range clientRoles {
		p := e.Pkgs[role]
		for _, kind := range []string{"GlobalSecondaryIndexDescription", "LocalSecondaryIndexDescription"} {
			found := 0
			for _, file := range p.Syntax {
				ast.Inspect(file, func(nd ast.Node) bool {
					cl, ok := nd.(*ast.CompositeLit)
					if !ok {
						return true
					}
					tv, ok := p.TypesInfo.Types[cl]
					if !ok {
						return true
					}
					nt := namedOf(tv.Type)
					if nt == nil || nt.Obj().Name() != kind || !strings.Contains(nt.Obj().Pkg().Path(), "aws-sdk-go") {
						return true
					}
					found++
					fields := compositeFields(cl)
					v, has := fields["ItemCount"]
					construct := role + ":" + kind + ".ItemCount"
					if !has {
						e.fail("R7", construct, e.pos(cl.Pos()), "the SDK description built here never sets ItemCount: DescribeTable reports no item count for this kind of index")
						return true
					}
					e.check(strings.Contains(exprStr(v), ".ItemCount"), "R7", construct, e.pos(v.Pos()), "ItemCount ← %s", exprStr(v))
					return true
				})
			}
			if found == 0 {
				e.fail("R7", role+":"+kind+".ItemCount", "-", "no SDK %s is ever built in this client", kind)
			}
		}
	}
}

// missFlag describes a slice helper that reports "the searched key was not in the list" through a boolean result:
// removeSorted(keys, key) ([]string, bool). The flag has value missVal exactly on the returns reached through the miss
// edge of a pos==len(keys) test with pos = SearchStrings(keys, key).
type missFlag struct {
	sliceParam, keyParam, result int
	missVal                      bool
}

func searchMissFlagOf(g *ssa.Function) *missFlag {
	if g == nil || g.Blocks == nil || g.Signature.Results().Len() < 2 {
		return nil
	}
	for ri := 1; ri < g.Signature.Results().Len(); ri++ {
		if b, ok := g.Signature.Results().At(ri).Type().Underlying().(*types.Basic); !ok || b.Kind() != types.Bool {
			continue
		}
		// the search test
		var test *ssa.If
		var miss *ssa.BasicBlock
		var sp, kp = -1, -1
		instrs(g, func(in ssa.Instruction) {
			ifi, ok := in.(*ssa.If)
			if !ok || test != nil {
				return
			}
			b, ok := ifi.Cond.(*ssa.BinOp)
			if !ok {
				return
			}
			bx, by, bop := b.X, b.Y, b.Op
			if sc, isC := strip(by).(*ssa.Call); isC && staticCalleeName(sc) == "sort.SearchStrings" {
				bx, by, bop = by, bx, flipOp(bop)
			}
			c, ok := strip(bx).(*ssa.Call)
			if !ok || staticCalleeName(c) != "sort.SearchStrings" {
				return
			}
			lc, ok := by.(*ssa.Call)
			if !ok || staticCalleeName(lc) != "builtin.len" || strip(lc.Call.Args[0]) != strip(c.Call.Args[0]) {
				return
			}
			ps, okS := strip(c.Call.Args[0]).(*ssa.Parameter)
			pk, okK := strip(c.Call.Args[1]).(*ssa.Parameter)
			if !okS || !okK {
				return
			}
			for i, p := range g.Params {
				if p == ps {
					sp = i
				}
				if p == pk {
					kp = i
				}
			}
			switch bop {
			case token.EQL, token.GEQ:
				test, miss = ifi, ifi.Block().Succs[0]
			case token.LSS, token.NEQ:
				test, miss = ifi, ifi.Block().Succs[1]
			}
		})
		if test == nil || sp < 0 || kp < 0 {
			continue
		}
		// flag values on the returns: constant everywhere, one value on the miss side, the other elsewhere
		okAll := true
		var missVal, haveMiss, haveHit bool
		for _, r := range returnsOf(g) {
			v, isC := constBool(retVals(r)[ri])
			if !isC {
				okAll = false
				break
			}
			onMiss := (r.Block() == miss || miss.Dominates(r.Block())) && reachesOnlyVia(test.Block(), miss, r.Block())
			if onMiss {
				if haveMiss && v != missVal {
					okAll = false
				}
				missVal, haveMiss = v, true
			} else {
				if haveHit && v != !missVal && haveMiss {
					okAll = false
				}
				haveHit = true
				if haveMiss && v == missVal {
					okAll = false
				}
			}
		}
		// second pass for hits seen before the miss value was known
		if okAll && haveMiss {
			for _, r := range returnsOf(g) {
				v, _ := constBool(retVals(r)[ri])
				onMiss := (r.Block() == miss || miss.Dominates(r.Block())) && reachesOnlyVia(test.Block(), miss, r.Block())
				if onMiss != (v == missVal) {
					okAll = false
				}
			}
		}
		if okAll && haveMiss && haveHit {
			return &missFlag{sp, kp, ri, missVal}
		}
	}
	return nil
}

// missFlagEdge: the branch tests the not-found flag of such a helper applied to a key list of the model, the edge is the
// "not found" side, and the key is known to be present (so, under I1/I2, it is in the list).
func (cs *coreState) missFlagEdge(ifi *ssa.If, from, to *ssa.BasicBlock) bool {
	cond, neg := ifi.Cond, false
	for {
		if u, ok := cond.(*ssa.UnOp); ok && u.Op == token.NOT {
			cond, neg = u.X, !neg
			continue
		}
		break
	}
	ex, ok := cond.(*ssa.Extract)
	if !ok {
		return false
	}
	c, ok := ex.Tuple.(*ssa.Call)
	if !ok {
		return false
	}
	mf := searchMissFlagOf(c.Call.StaticCallee())
	if mf == nil || mf.result != ex.Index || mf.sliceParam >= len(c.Call.Args) || mf.keyParam >= len(c.Call.Args) {
		return false
	}
	if f, _ := loadedField(c.Call.Args[mf.sliceParam]); f != cs.SortedKeys && f != cs.sortedKeys {
		return false
	}
	// flag == missVal  <=>  cond == (missVal != neg)
	missOnTrue := mf.missVal != neg
	missSucc := from.Succs[1]
	if missOnTrue {
		missSucc = from.Succs[0]
	}
	return to == missSucc && cs.presenceKnown(from, c.Call.Args[mf.keyParam])
}

// c03R8: for a secondary schema GetKey swallows the missing-field error and passes the derived key on; "" then means "this
// item is not in the index". That only holds if the derivation returns the empty key whenever it returns an error – a partial
// key returned together with the error (hash part built, range attribute missing) puts the item into the index.
func c03R8(e *Engine) {
	gk := e.fn("core", "keySchema.GetKey")
	if !e.anchor("R8", "core.keySchema.GetKey", gk == nil) {
		return
	}
	// alternative: GetKey itself zeroes the key on the swallow path
	selfZero := false
	for _, r := range returnsOf(gk) {
		rv := retVals(r)
		if len(rv) == 2 {
			if k, ok := constString(rv[0]); ok && k == "" && isNilConst(rv[1]) {
				selfZero = true
			}
		}
	}
	n := 0
	for g := range e.reach(gk) {
		if g == gk || e.fnRole(g) != "core" || g.Signature.Results().Len() != 2 || !isStringType(g.Signature.Results().At(0).Type()) || !isErrorType(g.Signature.Results().At(1).Type()) {
			continue
		}
		n++
		construct := e.fname(g) + ":zero-key-with-error"
		bad := ""
		for _, r := range returnsOf(g) {
			rv := retVals(r)
			if isNilConst(rv[1]) {
				continue
			}
			if k, ok := constString(rv[0]); ok && k == "" {
				continue
			}
			// (key, err) handed through unchanged from a callee that itself obeys the rule is fine
			if ex, ok := rv[0].(*ssa.Extract); ok && ex.Index == 0 {
				if ex2, ok := rv[1].(*ssa.Extract); ok && ex2.Tuple == ex.Tuple && ex2.Index == 1 {
					continue
				}
			}
			bad = e.ipos(r)
		}
		switch {
		case bad == "":
			e.pass("R8", construct, e.pos(g.Pos()), "every return with a possibly non-nil error carries the empty key")
		case selfZero:
			e.pass("R8", construct, e.pos(g.Pos()), "a key may accompany an error (%s) but GetKey returns the empty key itself when it swallows the error", bad)
		default:
			e.fail("R8", construct, e.pos(g.Pos()), "the return at %s can yield a non-empty key together with an error: GetKey swallows the missing-field error for secondary schemas and keeps that key, so an item that lacks an index key attribute is entered into (or never leaves) the index", bad)
		}
	}
	if n == 0 {
		e.undecided("R8", "core:key-derivation", "-", "no (string, error) key derivation reachable from GetKey")
	}
}
