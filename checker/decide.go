package main

import (
	"go/constant"
	"go/token"

	"golang.org/x/tools/go/ssa"
)

// Decision tables: small functions whose outcome depends only on a few tests over a finite set of cases (nil / non-nil
// of two fields, the three orderings of two pairs of strings, a boolean flag) are evaluated abstractly for every case.
// The interpreter follows the CFG for one assignment of truth values to the atomic tests; boolean connectives, negation,
// comparison of booleans and phis are interpreted, everything else must be answered by the atom callback.

// interpBool runs fn under the assignment given by atom and returns the return instruction reached together with an
// evaluator for boolean values at that point. ok is false when a branch condition could not be decided.
func interpBool(fn *ssa.Function, atom func(ssa.Value) (val, known bool)) (ret *ssa.Return, evalAt func(ssa.Value) (bool, bool), ok bool) {
	ret, evalAt, _, ok = interpBoolP(fn, atom)
	return
}

// interpBoolP additionally hands back a resolver for (non-boolean) phis of the block the run ended in: the edge value that
// corresponds to the branch taken.
func interpBoolP(fn *ssa.Function, atom func(ssa.Value) (val, known bool)) (ret *ssa.Return, evalAt func(ssa.Value) (bool, bool), edgeOf func(*ssa.Phi) ssa.Value, ok bool) {
	ret, evalAt, edgeOf, _, ok = interpRun(fn, atom, nil)
	return
}

// interpReaches: under the assignment, does control reach block target before it reaches a return? (used for loops whose
// body never changes the atoms: "is the loop entered at all")
func interpReaches(fn *ssa.Function, atom func(ssa.Value) (val, known bool), target *ssa.BasicBlock) (reached, ok bool) {
	_, _, _, reached, ok = interpRun(fn, atom, target)
	return
}

func interpRun(fn *ssa.Function, atom func(ssa.Value) (val, known bool), target *ssa.BasicBlock) (ret *ssa.Return, evalAt func(ssa.Value) (bool, bool), edgeOf func(*ssa.Phi) ssa.Value, hitTarget, ok bool) {
	var prev *ssa.BasicBlock
	edgeOf = func(ph *ssa.Phi) ssa.Value {
		for i, p := range ph.Block().Preds {
			if p == prev {
				return ph.Edges[i]
			}
		}
		return nil
	}
	phiVal := map[*ssa.Phi]bool{} // boolean phis, resolved on entry to their block against the edge taken
	var eval func(v ssa.Value, d int) (bool, bool)
	enter := func(b *ssa.BasicBlock) {
		vals := map[*ssa.Phi]bool{}
		for _, in := range b.Instrs {
			ph, isPhi := in.(*ssa.Phi)
			if !isPhi {
				break
			}
			for i, p := range b.Preds {
				if p == prev {
					if r, ok := eval(ph.Edges[i], 0); ok {
						vals[ph] = r
					} else {
						delete(phiVal, ph)
					}
				}
			}
		}
		for ph, r := range vals { // phis of one block are assigned simultaneously
			phiVal[ph] = r
		}
	}
	eval = func(v ssa.Value, d int) (bool, bool) {
		if d > 20 {
			return false, false
		}
		if r, known := atom(v); known {
			return r, true
		}
		switch x := v.(type) {
		case *ssa.Const:
			if x.Value != nil && x.Value.Kind() == constant.Bool {
				return constant.BoolVal(x.Value), true
			}
		case *ssa.UnOp:
			if x.Op == token.NOT {
				r, ok := eval(x.X, d+1)
				return !r, ok
			}
		case *ssa.Phi:
			r, ok := phiVal[x]
			return r, ok
		case *ssa.BinOp:
			if x.Op != token.EQL && x.Op != token.NEQ {
				return false, false
			}
			a, ok1 := eval(x.X, d+1)
			b, ok2 := eval(x.Y, d+1)
			if ok1 && ok2 {
				return (a == b) == (x.Op == token.EQL), true
			}
		}
		return false, false
	}
	evalAt = func(v ssa.Value) (bool, bool) { return eval(v, 0) }
	if len(fn.Blocks) == 0 {
		return nil, evalAt, edgeOf, false, false
	}
	b := fn.Blocks[0]
	for steps := 0; steps < 200; steps++ {
		if target != nil && b == target {
			return nil, evalAt, edgeOf, true, true
		}
		switch t := b.Instrs[len(b.Instrs)-1].(type) {
		case *ssa.If:
			c, ok := eval(t.Cond, 0)
			if !ok {
				return nil, evalAt, edgeOf, false, false
			}
			prev = b
			if c {
				b = b.Succs[0]
			} else {
				b = b.Succs[1]
			}
			enter(b)
		case *ssa.Jump:
			prev, b = b, b.Succs[0]
			enter(b)
		case *ssa.Return:
			return t, evalAt, edgeOf, false, true
		default:
			return nil, evalAt, edgeOf, false, false
		}
	}
	return nil, evalAt, edgeOf, false, false
}

// decideByNilness evaluates fn for one assignment of nil/non-nil to the values recognised by isNil. It reports whether
// the function returns a non-nil first result, and whether the evaluation could be carried through.
func decideByNilness(fn *ssa.Function, isNil func(ssa.Value) (val, known bool)) (isErr, decided bool) {
	ret, _, ok := interpBool(fn, func(v ssa.Value) (bool, bool) {
		b, isB := v.(*ssa.BinOp)
		if !isB {
			return false, false
		}
		t, nonNilOnTrue, isTest := nilTest(b)
		if !isTest {
			return false, false
		}
		n, known := isNil(t)
		if !known {
			return false, false
		}
		return n != nonNilOnTrue, true
	})
	if !ok {
		return false, false
	}
	rv := retVals(ret)
	if len(rv) == 0 {
		return false, false
	}
	if ph, isPhi := rv[0].(*ssa.Phi); isPhi {
		// a phi of nil / non-nil constants at the return: not resolved by the boolean evaluator
		_ = ph
		return false, false
	}
	return !isNilConst(rv[0]), true
}

// cmpHolds: does `a op b` hold when a is related to b by ord (-1: a<b, 0: a==b, 1: a>b)?
func cmpHolds(op token.Token, ord int) (bool, bool) {
	switch op {
	case token.LSS:
		return ord < 0, true
	case token.LEQ:
		return ord <= 0, true
	case token.GTR:
		return ord > 0, true
	case token.GEQ:
		return ord >= 0, true
	case token.EQL:
		return ord == 0, true
	case token.NEQ:
		return ord != 0, true
	}
	return false, false
}
