package main

import (
	"fmt"

	"golang.org/x/tools/go/ssa"
)

// loopExit describes an edge leaving a natural loop.
type loopExit struct {
	from, to *ssa.BasicBlock
	cond     ssa.Value // condition of the If that decides the exit (nil for unconditional)
	onTrue   bool
}

func loopExits(body map[*ssa.BasicBlock]bool) []loopExit {
	var out []loopExit
	for b := range body {
		for i, s := range b.Succs {
			if body[s] {
				continue
			}
			ex := loopExit{from: b, to: s}
			if ifi, ok := b.Instrs[len(b.Instrs)-1].(*ssa.If); ok {
				ex.cond, ex.onTrue = ifi.Cond, i == 0
			}
			out = append(out, ex)
		}
	}
	return out
}

// isProgressCond: the exit is the loop's own exhaustion test (range over map/slice/string).
func isProgressCond(v ssa.Value) bool {
	if v == nil {
		return false
	}
	if isIndexLoopCond(v) {
		return true
	}
	if ex, ok := v.(*ssa.Extract); ok {
		if _, isNext := ex.Tuple.(*ssa.Next); isNext && ex.Index == 0 {
			return true
		}
	}
	return false
}

// onlyErrorReturnsFrom: every path starting at block b reaches a return with a non-nil error (an abort), never a normal return.
func onlyErrorReturnsFrom(b *ssa.BasicBlock) bool {
	fn := b.Parent()
	ei := errResultIndex(fn)
	if ei < 0 {
		return false
	}
	seen := map[*ssa.BasicBlock]bool{}
	work := []*ssa.BasicBlock{b}
	found := false
	for len(work) > 0 {
		x := work[len(work)-1]
		work = work[:len(work)-1]
		if seen[x] {
			continue
		}
		seen[x] = true
		if r, ok := x.Instrs[len(x.Instrs)-1].(*ssa.Return); ok {
			if isNilConst(retVals(r)[ei]) {
				return false
			}
			found = true
			continue
		}
		work = append(work, x.Succs...)
	}
	return found
}

// visitsEveryElement checks that the natural loops enclosing instruction `in` are left only by exhaustion or by an
// error abort; `allow` may accept further exit conditions (e.g. the page limit). Returns "" or a description.
func (e *Engine) visitsEveryElement(in ssa.Instruction, allow func(ex loopExit) bool) (int, string) {
	fn := in.Parent()
	n := 0
	for _, body := range naturalLoops(fn) {
		if !body[in.Block()] {
			continue
		}
		n++
		for _, ex := range loopExits(body) {
			if isProgressCond(ex.cond) {
				continue
			}
			if onlyErrorReturnsFrom(ex.to) {
				continue
			}
			if allow != nil && allow(ex) {
				continue
			}
			what := "an unconditional jump"
			if ex.cond != nil {
				what = "the condition " + ex.cond.String()
			}
			pos := e.ipos(ex.from.Instrs[len(ex.from.Instrs)-1])
			return n, fmt.Sprintf("the loop is left early at %s on %s: the remaining elements are skipped", pos, what)
		}
	}
	return n, ""
}
