package main

import (
	"fmt"
	"go/token"
	"go/types"

	"golang.org/x/tools/go/ssa"
)

// loopExit describes an edge leaving a natural loop.
type loopExit struct {
	from, to *ssa.BasicBlock
	cond     ssa.Value // condition of the If that decides the exit (nil for unconditional)
	onTrue   bool
}

func loopExits(body map[*ssa.BasicBlock]bool) []loopExit {
	var out []loopExit
	for b := range body {
		for i, s := range b.Succs {
			if body[s] {
				continue
			}
			ex := loopExit{from: b, to: s}
			if ifi, ok := b.Instrs[len(b.Instrs)-1].(*ssa.If); ok {
				ex.cond, ex.onTrue = ifi.Cond, i == 0
			}
			out = append(out, ex)
		}
	}
	return out
}

// isProgressCond: the exit is the loop's own exhaustion test (range over map/slice/string).
func isProgressCond(v ssa.Value) bool {
	if v == nil {
		return false
	}
	if isIndexLoopCond(v) {
		return true
	}
	if ex, ok := v.(*ssa.Extract); ok {
		if _, isNext := ex.Tuple.(*ssa.Next); isNext && ex.Index == 0 {
			return true
		}
	}
	return false
}

// onlyErrorReturnsFrom: every path starting at block b reaches a return with a non-nil error (an abort), never a normal return.
func onlyErrorReturnsFrom(b *ssa.BasicBlock) bool {
	fn := b.Parent()
	ei := errResultIndex(fn)
	if ei < 0 {
		return false
	}
	seen := map[*ssa.BasicBlock]bool{}
	work := []*ssa.BasicBlock{b}
	found := false
	for len(work) > 0 {
		x := work[len(work)-1]
		work = work[:len(work)-1]
		if seen[x] {
			continue
		}
		seen[x] = true
		if r, ok := x.Instrs[len(x.Instrs)-1].(*ssa.Return); ok {
			if isNilConst(retVals(r)[ei]) {
				return false
			}
			found = true
			continue
		}
		work = append(work, x.Succs...)
	}
	return found
}

// visitsEveryElement checks that the natural loops enclosing instruction `in` are left only by exhaustion or by an
// error abort; `allow` may accept further exit conditions (e.g. the page limit). Returns "" or a description.
func (e *Engine) visitsEveryElement(in ssa.Instruction, allow func(ex loopExit) bool) (int, string) {
	fn := in.Parent()
	n := 0
	for _, body := range naturalLoops(fn) {
		if !body[in.Block()] {
			continue
		}
		n++
		for _, ex := range loopExits(body) {
			if isProgressCond(ex.cond) || e.cursorProgress(ex.cond) {
				continue
			}
			if onlyErrorReturnsFrom(ex.to) {
				continue
			}
			if allow != nil && allow(ex) {
				continue
			}
			what := "an unconditional jump"
			if ex.cond != nil {
				what = "the condition " + ex.cond.String()
			}
			pos := e.ipos(ex.from.Instrs[len(ex.from.Instrs)-1])
			return n, fmt.Sprintf("the loop is left early at %s on %s: the remaining elements are skipped", pos, what)
		}
	}
	return n, ""
}

// cursorStep: g is the step function of a cursor over a list – a method on a local record R with fields (list, size,
// pos, …) that
//   - reports exhaustion (second result false) only where pos >= size is known,
//   - otherwise reads the element for the CURRENT pos, advances pos by exactly one and reports true,
//
// while, over the whole package, pos is written by nothing but that increment (it starts at the zero value) and size by
// nothing but len(list) of the list stored next to it. A loop driven by `x, more := c.step(); more; x, more = c.step()`
// then visits positions 0 … len(list)-1 once each. Returns the call inside g that reads the element (the position step).
func (e *Engine) cursorStep(g *ssa.Function) (ssa.Instruction, bool) {
	if g == nil || g.Blocks == nil || g.Signature.Recv() == nil || g.Signature.Results().Len() != 2 || len(g.Params) != 1 {
		return nil, false
	}
	if !isBoolType(g.Signature.Results().At(1).Type()) {
		return nil, false
	}
	rt := namedOf(g.Signature.Recv().Type())
	if rt == nil || !e.localRecord(rt) {
		return nil, false
	}
	recv := g.Params[0]
	fieldIdx := func(v ssa.Value) int {
		v = strip(v)
		for {
			if cv, ok := v.(*ssa.Convert); ok && isIntType(cv.Type()) && isIntType(cv.X.Type()) {
				v = cv.X
				continue
			}
			break
		}
		u, ok := v.(*ssa.UnOp)
		if !ok || u.Op != token.MUL {
			return -1
		}
		fa, ok := u.X.(*ssa.FieldAddr)
		if !ok || fa.X != ssa.Value(recv) {
			return -1
		}
		return fa.Field
	}
	// the exhaustion test and which fields it compares
	pos, size := -1, -1
	okShape := true
	for _, r := range returnsOf(g) {
		more, isC := constBool(retVals(r)[1])
		if !isC {
			return nil, false
		}
		exhausted := false
		for _, cd := range condsAt(r.Block()) {
			cd = normCond(cd)
			b, ok := cd.V.(*ssa.BinOp)
			if !ok {
				continue
			}
			op := b.Op
			if !cd.Val {
				op = negOp(op)
			}
			l, rr := fieldIdx(b.X), fieldIdx(b.Y)
			if l < 0 || rr < 0 {
				continue
			}
			switch op {
			case token.GEQ: // pos >= size
			case token.LEQ: // size <= pos
				l, rr = rr, l
			case token.LSS: // pos < size: not exhausted
				if (pos >= 0 && (pos != l || size != rr)) || more == false {
					okShape = false
				}
				pos, size = l, rr
				continue
			case token.GTR:
				l, rr = rr, l
				if (pos >= 0 && (pos != l || size != rr)) || more == false {
					okShape = false
				}
				pos, size = l, rr
				continue
			default:
				continue
			}
			if pos >= 0 && (pos != l || size != rr) {
				okShape = false
			}
			pos, size = l, rr
			exhausted = true
		}
		if !more && !exhausted {
			okShape = false // reports the end without knowing pos >= size
		}
		if more && exhausted {
			okShape = false
		}
	}
	if !okShape || pos < 0 || size < 0 || pos == size {
		return nil, false
	}
	// stores to pos over the package: exactly the increments by one of its own value in g, each on a path that returns true
	incs := 0
	for _, st := range e.recordFieldStores(rt, pos) {
		if c, isK := constInt(st.Val); isK && c == 0 {
			continue
		}
		if st.Parent() != g {
			return nil, false
		}
		add, ok := st.Val.(*ssa.BinOp)
		if !ok || add.Op != token.ADD || fieldIdx(add.X) != pos {
			return nil, false
		}
		if n, isK := constInt(add.Y); !isK || n != 1 {
			return nil, false
		}
		incs++
	}
	if incs != 1 {
		return nil, false
	}
	// the element read: a call (or index) that takes the current pos – before the increment is stored
	var step ssa.Instruction
	list := -1
	instrs(g, func(in ssa.Instruction) {
		c, ok := in.(*ssa.Call)
		if !ok || c.Call.StaticCallee() == nil || e.fnRole(c.Call.StaticCallee()) == "" {
			return
		}
		usesPos := false
		for _, a := range c.Call.Args {
			if fieldIdx(a) == pos {
				usesPos = true
			}
			if _, isSl := a.Type().Underlying().(*types.Slice); isSl && fieldIdx(a) >= 0 {
				list = fieldIdx(a)
			}
		}
		if usesPos {
			step = in
		}
	})
	if step == nil || list < 0 {
		return nil, false
	}
	// size is len(list) wherever the record is built
	for _, st := range e.recordFieldStores(rt, size) {
		v := strip(st.Val)
		for {
			if cv, ok := v.(*ssa.Convert); ok && isIntType(cv.Type()) && isIntType(cv.X.Type()) {
				v = cv.X
				continue
			}
			break
		}
		c, ok := v.(*ssa.Call)
		if !ok || staticCalleeName(c) != "builtin.len" {
			return nil, false
		}
		// the list stored into the same record in the same function
		same := false
		for _, ls := range e.recordFieldStores(rt, list) {
			if ls.Parent() == st.Parent() && sameSlice(ls.Val, c.Call.Args[0]) {
				if fa1, ok1 := ls.Addr.(*ssa.FieldAddr); ok1 {
					if fa2, ok2 := st.Addr.(*ssa.FieldAddr); ok2 && fa1.X == fa2.X {
						same = true
					}
				}
			}
		}
		if !same {
			return nil, false
		}
	}
	if len(e.recordFieldStores(rt, size)) == 0 {
		return nil, false
	}
	return step, true
}

// cursorProgress: the exit condition is the "more" flag of a cursor step function (see cursorStep), directly or carried
// by the loop.
func (e *Engine) cursorProgress(v ssa.Value) bool {
	if v == nil {
		return false
	}
	srcs := []ssa.Value{v}
	if ph, ok := v.(*ssa.Phi); ok {
		srcs = phiSources(ph)
	}
	if len(srcs) == 0 {
		return false
	}
	for _, s := range srcs {
		ex, ok := s.(*ssa.Extract)
		if !ok || ex.Index != 1 {
			return false
		}
		c, ok := ex.Tuple.(*ssa.Call)
		if !ok {
			return false
		}
		if _, isStep := e.cursorStep(c.Call.StaticCallee()); !isStep {
			return false
		}
	}
	return true
}
