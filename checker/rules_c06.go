package main

import (
	"fmt"
	"go/ast"
	"go/constant"
	"go/token"
	"go/types"
	"os"
	"sort"
	"strings"

	"golang.org/x/tools/go/ssa"
)

func init() {
	register(&Prop{
		ID:         "C06",
		Title:      "Condition, filter and key expressions evaluate per DynamoDB semantics",
		Decided:    "the clauses that are visible in the shape of the code: (R1) the precedence table orders OR < AND < NOT < every comparator, NOT's operand and every infix operator's right operand are parsed at the operator's own level (left-associative), and the set of tokens with an infix handler equals the set with a precedence; (R2) in each comparator function (a switch over the operator string with the six comparator labels) the case for label c returns left ⊙ right with the Go operator that c denotes, operands in (left,right) order; (R3) BETWEEN is min <= v AND v <= max for each comparable type; (R4) exhaustiveness: Eval has a case for every node kind the condition parser can build, every registered infix token is handled, the function registry is exactly the six condition and two update functions with the right ForUpdate flags, the type-name table has the ten types and the comparable types are N, S, B; (R5) existence of an attribute is decided with the undefined test, never with the NULL type tag (a NULL-typed attribute exists); (R6) evaluating a condition reaches no object or environment mutator and never writes the caller's item; (R7) with a missing operand '=' is false and '<>' is true; (R8) two evaluator objects are compared by pointer identity only against the process-wide singletons (TRUE, FALSE, UNDEFINED) or when both are known booleans – an identity shortcut elsewhere makes two different missing operands equal and two equal numbers different; (R9) in the evaluators of IN and BETWEEN every use of the left operand's value in a comparison, equality or containment call is dominated by the not-undefined side of the undefined test of that value: a missing attribute makes the condition false, it never equals another missing attribute; (R10) the environment is filled with the stored item first and the request's expression attribute values second, in both interpreters' entry points: a stored attribute that happens to be named like a placeholder (\":owner\") cannot replace the value the request supplied; (R11) attribute_type, = and <> see the type an operand was written with only if the adapter keeps it: every member case of the SDK v2 → internal conversion applies to every value of that member and sets the member's own type field (= C10.R7b); (R12) the expression parsed before a binary operator is stored as the node's Left and the one parsed after it as Right, and the comparator functions receive Eval(node.Left) as their left and Eval(node.Right) as their right parameter (through helpers, operand records and dispatching methods); (R13) begins_with(a, b) is decided by HasPrefix(a, b) – or len(a) >= len(b) && a[:len(b)] == b – and contains on S/B by Contains(a, b), operands in that order; (R14) empty containers keep their type on the way into the evaluator (= C10.R11); (R15) the value objects have no field beyond their value: equality, IN and contains compare values, not how a value was written; (R16) the structural equality function answers only through symmetric constructs; (R17) the literal store lookup in the environment's read accessor is unconditional.",
		NotDecided: "the truth value of an arbitrary expression on an arbitrary item: structural equality of documents, set semantics, IN, contains, size, begins_with results, independence from attribute order – all value-level.",
		Rules: []RuleDef{
			{ID: "R1", Desc: "precedence table and its use by the Pratt parser (T-TABLE)", Run: c06R1},
			{ID: "R2", Desc: "comparator label ↔ Go operator agreement (T-TABLE on SSA)", Run: c06R2},
			{ID: "R3", Desc: "BETWEEN = (min <= v) AND (v <= max) (T-TABLE)", Run: c06R3},
			{ID: "R4", Desc: "exhaustiveness of Eval, registrations, function registry, type tables (T-TABLE)", Run: c06R4},
			{ID: "R5", Desc: "existence decided by the undefined test, not the NULL tag (idiom)", Run: c06R5},
			{ID: "R6", Desc: "condition evaluation is free of mutation (T-PURE)", Run: c06R6},
			{ID: "R7", Desc: "missing-operand semantics of = and <> (T-TABLE)", Run: c06R7},
			{ID: "R8", Desc: "objects are compared by identity only against the singletons or when both are known booleans (T-GUARD)", Run: c06R8},
			{ID: "R9", Desc: "IN and BETWEEN: the left operand is only compared once it is known to be defined (T-DOM)", Run: c06R9},
			{ID: "R10", Desc: "the request's values are loaded into the environment after the item: a placeholder is never shadowed by a stored attribute of the same name (T-DOM)", Run: c06R10},
			{ID: "R11", Desc: "an operand keeps its type on the way into the engine: every SDK member case sets its own type field for every value (= C10.R7b)", Run: aliasRule("R11", c10R7, func(c string) bool { return strings.HasPrefix(c, "v2.") })},
			{ID: "R12", Desc: "the comparator functions receive the evaluated left operand of the parsed comparison on the left and the right one on the right (T-FLOW, eval-of)", Run: c06R12},
			{ID: "R13", Desc: "begins_with and contains on strings/binaries are the library prefix/substring predicates with the operands in order (or the explicit length-guarded comparison) (T-TABLE)", Run: c06R13},
			{ID: "R14", Desc: "an operand that is an empty map or list reaches the evaluator as a value of its type (= C10.R11): an attribute value with no type set is rejected by the evaluator and the request panics", Run: aliasRule("R14", c10R11, nil)},
			{ID: "R15", Desc: "the value objects of the expression language carry their value and nothing else: a field added to one of them is a second representation that structural equality (reflect.DeepEqual), copying and conversion would have to agree on (T-FIELD closure)", Run: func(e *Engine) { stateModelClosed(e, "R15", func(k string) bool { return k == "lang.Number" || k == "lang.String" || k == "lang.Binary" || k == "lang.Boolean" || k == "lang.Null" || k == "lang.Map" || k == "lang.List" || k == "lang.StringSet" || k == "lang.NumberSet" || k == "lang.BinarySet" }) }},
			{ID: "R16", Desc: "structural equality is symmetric: it answers through reflect.DeepEqual / bytes.Equal / comparisons only, never through a one-sided containment test", Run: c06R16},
			{ID: "R17", Desc: "an attribute is looked up under its resolved name before the name is split as a document path – unconditionally (T-DOM)", Run: c06R17},
		},
	})
}

// constIntByName returns the value of package-level integer constant name.
func (e *Engine) constIntByName(role, name string) (int64, bool) {
	c, ok := e.Pkgs[role].Types.Scope().Lookup(name).(*types.Const)
	if !ok {
		return 0, false
	}
	return constant.Int64Val(c.Val())
}

// tokenConstName maps a token-type string value back to a readable name.
func tokenName(s string) string { return s }

// precedenceTable evaluates the `precedences` map literal: token string -> level.
func (e *Engine) precedenceTable() (map[string]int64, token.Pos) {
	init, info := e.varInit("lang", "precedences")
	if init == nil {
		return nil, token.NoPos
	}
	cl, ok := unparen(init).(*ast.CompositeLit)
	if !ok {
		return nil, init.Pos()
	}
	out := map[string]int64{}
	for _, el := range cl.Elts {
		kv, ok := el.(*ast.KeyValueExpr)
		if !ok {
			continue
		}
		k, v := info.Types[kv.Key], info.Types[kv.Value]
		if k.Value == nil || v.Value == nil {
			return nil, init.Pos()
		}
		n, _ := constant.Int64Val(v.Value)
		out[constant.StringVal(k.Value)] = n
	}
	return out, init.Pos()
}

// registrations returns token -> handler name for what the constructor fn puts into the parser's prefix/infix table
// (which = "registerPrefix" / "registerInfix" selects the table). The writes are found wherever they happen – directly,
// through the register helper, through a variadic or looping helper – by following the map updates of the table field
// through package-local calls and resolving key and handler in the calling context.
func (e *Engine) registrations(fn *ssa.Function, which string) map[string]string {
	field := "prefixParseFns"
	if which == "registerInfix" {
		field = "infixParseFns"
	}
	out := map[string]string{}
	var walk func(g *ssa.Function, ctx []callCtx, depth int)
	walk = func(g *ssa.Function, ctx []callCtx, depth int) {
		instrs(g, func(in ssa.Instruction) {
			switch x := in.(type) {
			case *ssa.MapUpdate:
				if f, _ := loadedField(x.Map); f == nil || f.Name() != field {
					// a table built as a map literal and then assigned to the field
					mk, isMk := strip(x.Map).(*ssa.MakeMap)
					if !isMk {
						return
					}
					assigned := false
					for _, r := range refsOf(mk) {
						if st, isSt := r.(*ssa.Store); isSt && st.Val == ssa.Value(mk) {
							if sf := fieldOf(st.Addr); sf != nil && sf.Name() == field {
								assigned = true
							}
						}
					}
					if !assigned {
						return
					}
				}
				h := "?"
				for _, hf := range e.closuresOf(x.Value, ctx, 0) {
					h = hf.Name()
				}
				for _, tok := range e.constStringsOf(x.Key, ctx, 0) {
					out[tok] = h
				}
			case *ssa.Call:
				c := x.Call.StaticCallee()
				if c == nil || c.Blocks == nil || e.fnRole(c) != "lang" || depth >= 3 || c == fn {
					return
				}
				// only helpers that can write the table
				writes := false
				for h := range e.reach(c) {
					instrs(h, func(j ssa.Instruction) {
						if mu, ok := j.(*ssa.MapUpdate); ok {
							if f, _ := loadedField(mu.Map); f != nil && f.Name() == field {
								writes = true
							}
						}
						if st, ok := j.(*ssa.Store); ok {
							if sf := fieldOf(st.Addr); sf != nil && sf.Name() == field {
								writes = true
							}
						}
					})
				}
				if writes {
					walk(c, append(append([]callCtx{}, ctx...), callCtx{x, c}), depth+1)
				}
			}
		})
	}
	walk(fn, nil, 0)
	return out
}

// constStringsOf: the constant strings v can be, resolving parameters through ctx, phis, and the elements of slices
// built in place (variadic arguments, slice literals ranged over).
func (e *Engine) constStringsOf(v ssa.Value, ctx []callCtx, depth int) []string {
	if depth > 8 {
		return nil
	}
	v = strip(v)
	if s, ok := constString(v); ok {
		return []string{s}
	}
	var out []string
	switch x := v.(type) {
	case *ssa.Parameter:
		if rv, rctx := resolveParam(x, ctx); rv != ssa.Value(x) {
			return e.constStringsOf(rv, rctx, depth+1)
		}
	case *ssa.Phi:
		for _, ed := range x.Edges {
			out = append(out, e.constStringsOf(ed, ctx, depth+1)...)
		}
	case *ssa.Extract:
		if nx, ok := x.Tuple.(*ssa.Next); ok && x.Index == 2 {
			if rg, ok := nx.Iter.(*ssa.Range); ok {
				return e.elemStringsOf(rg.X, ctx, depth+1)
			}
		}
	case *ssa.UnOp:
		// element of a slice/array: s[i]
		if ia, ok := x.X.(*ssa.IndexAddr); ok && x.Op == token.MUL {
			return e.elemStringsOf(ia.X, ctx, depth+1)
		}
	case *ssa.Index:
		return e.elemStringsOf(x.X, ctx, depth+1)
	}
	return out
}

// elemStringsOf: the constant strings stored in the slice/array s.
func (e *Engine) elemStringsOf(s ssa.Value, ctx []callCtx, depth int) []string {
	if depth > 8 {
		return nil
	}
	s = strip(s)
	switch x := s.(type) {
	case *ssa.Parameter:
		if rv, rctx := resolveParam(x, ctx); rv != ssa.Value(x) {
			return e.elemStringsOf(rv, rctx, depth+1)
		}
	case *ssa.Slice:
		return e.elemStringsOf(x.X, ctx, depth+1)
	case *ssa.UnOp:
		if x.Op == token.MUL {
			return e.elemStringsOf(x.X, ctx, depth+1)
		}
	case *ssa.Alloc:
		var out []string
		for _, r := range refsOf(x) {
			if ia, ok := r.(*ssa.IndexAddr); ok {
				for _, st := range storesTo(ia) {
					out = append(out, e.constStringsOf(st.Val, ctx, depth+1)...)
				}
			}
		}
		for _, st := range storesTo(x) { // whole-array store of a composite value
			out = append(out, e.elemStringsOf(st.Val, ctx, depth+1)...)
		}
		return out
	case *ssa.Phi:
		var out []string
		for _, ed := range x.Edges {
			out = append(out, e.elemStringsOf(ed, ctx, depth+1)...)
		}
		return out
	}
	return nil
}

// closuresOf: the functions (bound methods unwrapped) that the function value v can be.
func (e *Engine) closuresOf(v ssa.Value, ctx []callCtx, depth int) []*ssa.Function {
	if depth > 8 {
		return nil
	}
	v = strip(v)
	switch x := v.(type) {
	case *ssa.MakeClosure:
		var out []*ssa.Function
		if f := e.unwrap(x.Fn.(*ssa.Function)); f != nil {
			out = append(out, f)
		}
		// functions composed into the closure: a function-typed binding is what the closure goes on to call
		for _, b := range x.Bindings {
			bv := bindingValue(b)
			if _, isSig := bv.Type().Underlying().(*types.Signature); isSig {
				out = append(out, e.closuresOf(bv, ctx, depth+1)...)
			}
		}
		return out
	case *ssa.Function:
		return []*ssa.Function{x}
	case *ssa.Parameter:
		if rv, rctx := resolveParam(x, ctx); rv != ssa.Value(x) {
			return e.closuresOf(rv, rctx, depth+1)
		}
	case *ssa.UnOp:
		// a package-level function variable: whatever is stored into it (by the package initialiser or later)
		if g, ok := x.X.(*ssa.Global); ok && x.Op == token.MUL {
			var out []*ssa.Function
			for _, st := range e.globalStores(g) {
				out = append(out, e.closuresOf(st.Val, nil, depth+1)...)
			}
			return out
		}
	case *ssa.Call:
		// the result of a function-building helper: what it returns, in the context of this call
		if m := x.Call.StaticCallee(); m != nil && m.Blocks != nil {
			var out []*ssa.Function
			for _, r := range returnsOf(m) {
				for _, rv := range retVals(r) {
					if _, isSig := rv.Type().Underlying().(*types.Signature); isSig {
						out = append(out, e.closuresOf(rv, append(append([]callCtx{}, ctx...), callCtx{x, m}), depth+1)...)
					}
				}
			}
			return out
		}
	case *ssa.Phi:
		var out []*ssa.Function
		for _, ed := range x.Edges {
			out = append(out, e.closuresOf(ed, ctx, depth+1)...)
		}
		return out
	}
	return nil
}

// globalStores: every store to the package-level variable g (the package initialiser included).
func (e *Engine) globalStores(g *ssa.Global) []*ssa.Store {
	var out []*ssa.Store
	scan := append([]*ssa.Function{}, e.all...)
	for _, sp := range e.SSA {
		if f := sp.Func("init"); f != nil {
			scan = append(scan, f)
		}
	}
	seen := map[*ssa.Function]bool{}
	for _, fn := range scan {
		if seen[fn] {
			continue
		}
		seen[fn] = true
		instrs(fn, func(in ssa.Instruction) {
			if st, ok := in.(*ssa.Store); ok && st.Addr == ssa.Value(g) {
				out = append(out, st)
			}
		})
	}
	return out
}

// builtinImpls: the functions that implement the built-in registered under `key` in the evaluator's function table: the
// function value stored in the entry, resolved through function variables and function-building helpers (the returned
// closure and the functions composed into it).
func (e *Engine) builtinImpls(key string) []*ssa.Function {
	init := e.SSA["lang"].Func("init")
	if init == nil {
		return nil
	}
	var out []*ssa.Function
	seen := map[*ssa.Function]bool{}
	instrs(init, func(in ssa.Instruction) {
		mu, ok := in.(*ssa.MapUpdate)
		if !ok {
			return
		}
		k, isK := constString(mu.Key)
		if !isK || k != key {
			return
		}
		nt := namedOf(mu.Value.Type())
		if nt == nil || nt.Obj().Name() != "Function" {
			return
		}
		for _, r := range refsOf(strip(mu.Value)) {
			fa, ok := r.(*ssa.FieldAddr)
			if !ok || fieldOf(fa) == nil || fieldOf(fa).Name() != "Value" {
				continue
			}
			for _, r2 := range refsOf(fa) {
				if st, ok := r2.(*ssa.Store); ok {
					for _, f := range e.closuresOf(st.Val, nil, 0) {
						if !seen[f] {
							seen[f] = true
							out = append(out, f)
						}
					}
				}
			}
		}
	})
	sort.Slice(out, func(i, j int) bool { return e.fname(out[i]) < e.fname(out[j]) })
	return out
}

func c06R1(e *Engine) {
	prec, pos := e.precedenceTable()
	if !e.anchor("R1", "lang.precedences", prec == nil) {
		return
	}
	lvl := func(name string) int64 { v, _ := e.constIntByName("lang", name); return v }
	not := lvl("precedenceValueNOT")
	or, and := prec["OR"], prec["AND"]
	comparators := []string{"=", "<>", "<", "<=", ">", ">=", "BETWEEN", "IN"}
	minCmp := int64(1 << 30)
	for _, c := range comparators {
		v, ok := prec[c]
		if !ok {
			e.fail("R1", "precedences["+c+"]", e.pos(pos), "comparator %s has no precedence entry: it is parsed at the lowest level", c)
			continue
		}
		if v < minCmp {
			minCmp = v
		}
	}
	e.check(or > 0 && or < and, "R1", "precedences:OR<AND", e.pos(pos), "OR (%d) binds looser than AND (%d)", or, and)
	e.check(and < not, "R1", "precedences:AND<NOT", e.pos(pos), "AND (%d) binds looser than NOT (%d)", and, not)
	e.check(not < minCmp, "R1", "precedences:NOT<comparators", e.pos(pos), "NOT (%d) binds looser than every comparator (min %d): `NOT a = b` negates the comparison", not, minCmp)
	// NOT's operand parsed at NOT's level
	pp := e.fn("lang", "Parser.parsePrefixExpression")
	pe := e.fn("lang", "Parser.parseExpression")
	if e.anchor("R1", "lang.Parser.parsePrefixExpression/parseExpression", pp == nil || pe == nil) {
		ok := false
		instrs(pp, func(in ssa.Instruction) {
			if c, isC := in.(*ssa.Call); isC && c.Call.StaticCallee() == pe {
				if n, isK := constInt(c.Call.Args[1]); isK && n == not {
					ok = true
				}
			}
		})
		e.check(ok, "R1", "lang.Parser.parsePrefixExpression:operand-level", e.pos(pp.Pos()), "the operand of NOT is parsed at NOT's own precedence")
	}
	// infix: right operand parsed at the operator's own precedence (looked up in the table by the current token)
	pi := e.fn("lang", "Parser.parseInfixExpression")
	if e.anchor("R1", "lang.Parser.parseInfixExpression", pi == nil) {
		ok := false
		detail := ""
		instrs(pi, func(in ssa.Instruction) {
			c, isC := in.(*ssa.Call)
			if !isC || c.Call.StaticCallee() != pe {
				return
			}
			// the level handed down: looked up in the precedence table under the CURRENT token's type (directly or
			// through a helper), with the lowest level as the only alternative
			os, ks := e.originsAndKeys(c.Call.Args[1])
			fromTable, other, cur := false, "", false
			for _, o := range os {
				switch {
				case o == "mapval-of global:precedences":
					fromTable = true
				case strings.HasPrefix(o, "const:"):
				default:
					other = o
				}
			}
			for _, k := range ks {
				if k == "path:curToken.Type" {
					cur = true
				}
				if strings.HasPrefix(k, "path:") && k != "path:curToken.Type" {
					other = k
				}
			}
			detail = fmt.Sprintf("(level ← %s keyed by %s)", strings.Join(os, "|"), strings.Join(ks, "|"))
			ok = fromTable && cur && other == ""
		})
		e.check(ok, "R1", "lang.Parser.parseInfixExpression:operand-level", e.pos(pi.Pos()), "the right operand of a binary operator is parsed at that operator's own precedence (left-associative) %s", detail)
	}
	// the climbing loop compares with the precedence of the peek token
	if pe != nil {
		ok := false
		why := "no comparison of the caller's precedence with the next operator's precedence decides the loop"
		loops := naturalLoops(pe)
		instrs(pe, func(in ssa.Instruction) {
			b, isB := in.(*ssa.BinOp)
			if !isB || (b.Op != token.LSS && b.Op != token.GTR && b.Op != token.LEQ && b.Op != token.GEQ) {
				return
			}
			isPeekPrec := func(v ssa.Value) bool {
				os, ks := e.originsAndKeys(v)
				table, peek := false, false
				for _, o := range os {
					if o == "mapval-of global:precedences" {
						table = true
					}
				}
				for _, k := range ks {
					if k == "path:peekToken.Type" {
						peek = true
					}
				}
				return table && peek
			}
			var paramLeft bool
			switch {
			case isParamOf(b.X, pe) && isPeekPrec(b.Y):
				paramLeft = true
			case isParamOf(b.Y, pe) && isPeekPrec(b.X):
				paramLeft = false
			default:
				return
			}
			// which truth value of the comparison keeps the loop going
			for _, r := range refsOf(b) {
				ifi, isIf := r.(*ssa.If)
				if !isIf {
					continue
				}
				for _, body := range loops {
					if !body[ifi.Block()] {
						continue
					}
					in0, in1 := body[ifi.Block().Succs[0]], body[ifi.Block().Succs[1]]
					if in0 == in1 {
						continue
					}
					continuesOnTrue := in0
					// normalise to: continue iff param < peek
					op := b.Op
					if !paramLeft {
						op = flipOp(op)
					}
					good := (op == token.LSS && continuesOnTrue) || (op == token.GEQ && !continuesOnTrue)
					if good {
						ok = true
					} else {
						why = fmt.Sprintf("the loop continues on %v of `precedence %s next`, i.e. not exactly while the caller's precedence is strictly lower", continuesOnTrue, op)
					}
				}
			}
		})
		_ = why
		e.check(ok, "R1", "lang.Parser.parseExpression:climb", e.pos(pe.Pos()), "the loop continues while the caller's precedence is strictly lower than the next operator's")
	}
	// registered infix tokens == precedence keys
	np, nu := e.fn("lang", "NewParser"), e.fn("lang", "NewUpdateParser")
	if e.anchor("R1", "lang.NewParser/NewUpdateParser", np == nil || nu == nil) {
		reg := map[string]bool{}
		for t := range e.registrations(np, "registerInfix") {
			reg[t] = true
			if _, ok := prec[t]; !ok {
				e.fail("R1", "infix["+t+"]", e.pos(np.Pos()), "token %s has an infix handler in the condition parser but no precedence: it can never be applied", t)
			} else {
				e.pass("R1", "infix["+t+"]", e.pos(np.Pos()), "infix token %s has precedence %d", t, prec[t])
			}
		}
		for t := range e.registrations(nu, "registerInfix") {
			reg[t] = true
		}
		for _, t := range sortedKeys(prec) {
			if !reg[t] {
				e.fail("R1", "precedences["+t+"]:registered", e.pos(pos), "token %s has a precedence but no infix handler in either parser", t)
			}
		}
	}
	e.minCount("R1", 18)
}

func goOpFor(label string) (token.Token, bool) {
	switch label {
	case "<":
		return token.LSS, true
	case "<=":
		return token.LEQ, true
	case ">":
		return token.GTR, true
	case ">=":
		return token.GEQ, true
	case "=":
		return token.EQL, true
	case "<>":
		return token.NEQ, true
	}
	return 0, false
}

// comparatorFunctions: functions of lang with a switch over a string parameter carrying >= 4 comparator labels.
func (e *Engine) comparatorFunctions() map[*ssa.Function]*ssa.Parameter {
	out := map[*ssa.Function]*ssa.Parameter{}
	for _, fn := range e.funcs("lang") {
		labels := map[string]bool{}
		var opP *ssa.Parameter
		instrs(fn, func(in ssa.Instruction) {
			b, ok := in.(*ssa.BinOp)
			if !ok || b.Op != token.EQL {
				return
			}
			p, isP := b.X.(*ssa.Parameter)
			s, isC := constString(b.Y)
			if isP && isC {
				if _, ok := goOpFor(s); ok {
					labels[s] = true
					opP = p
				}
			}
		})
		if len(labels) >= 4 && len(fn.Params) == 3 {
			out[fn] = opP
		}
	}
	return out
}

// operandSide: does v derive from the left (1) or right (2) operand parameter of comparator fn (0 = neither)?
func operandSide(fn *ssa.Function, opP *ssa.Parameter, v ssa.Value) int {
	var others []*ssa.Parameter
	for _, p := range fn.Params {
		if p != opP {
			others = append(others, p)
		}
	}
	if len(others) != 2 {
		return 0
	}
	seen := map[ssa.Value]bool{}
	var walk func(x ssa.Value) int
	walk = func(x ssa.Value) int {
		x = strip(x)
		if seen[x] {
			return 0
		}
		seen[x] = true
		switch y := x.(type) {
		case *ssa.Parameter:
			if y == others[0] {
				return 1
			}
			if y == others[1] {
				return 2
			}
		case *ssa.UnOp:
			return walk(y.X)
		case *ssa.FieldAddr:
			return walk(y.X)
		case *ssa.Field:
			return walk(y.X)
		case *ssa.TypeAssert:
			return walk(y.X)
		case *ssa.Extract:
			return walk(y.Tuple)
		}
		return 0
	}
	return walk(v)
}

func c06R2(e *Engine) {
	cfs := e.comparatorFunctions()
	if len(cfs) < 3 {
		e.fail("R2", "count:R2", "-", "only %d comparator functions found (number, string, binary expected)", len(cfs))
	}
	var fns []*ssa.Function
	for f := range cfs {
		fns = append(fns, f)
	}
	sort.Slice(fns, func(i, j int) bool { return e.fname(fns[i]) < e.fname(fns[j]) })
	for _, fn := range fns {
		opP := cfs[fn]
		seenLabels := map[string]bool{}
		instrs(fn, func(in ssa.Instruction) {
			b, ok := in.(*ssa.BinOp)
			if !ok || b.Op != token.EQL || b.X != ssa.Value(opP) {
				return
			}
			label, ok := constString(b.Y)
			if !ok {
				return
			}
			want, isCmp := goOpFor(label)
			if !isCmp {
				return
			}
			for _, r := range refsOf(b) {
				ifi, ok := r.(*ssa.If)
				if !ok {
					continue
				}
				blk := ifi.Block().Succs[0]
				ret, ok := blk.Instrs[len(blk.Instrs)-1].(*ssa.Return)
				if !ok {
					continue
				}
				seenLabels[label] = true
				construct := e.fname(fn) + ":case[" + label + "]"
				// returned: f(cmp) where cmp is BinOp / Call
				var inner ssa.Value = retVals(ret)[0]
				if mi, ok := inner.(*ssa.MakeInterface); ok {
					inner = mi.X
				}
				if c, ok := inner.(*ssa.Call); ok && len(c.Call.Args) == 1 {
					inner = c.Call.Args[0]
				}
				neg := false
				if u, ok := inner.(*ssa.UnOp); ok && u.Op == token.NOT {
					inner, neg = u.X, true
				}
				got, okShape, order := token.ILLEGAL, false, false
				switch x := inner.(type) {
				case *ssa.BinOp:
					if c, isCall := x.X.(*ssa.Call); isCall && staticCalleeName(c) == "bytes.Compare" {
						if n, isK := constInt(x.Y); isK && n == 0 {
							got, okShape = x.Op, true
							order = operandSide(fn, opP, c.Call.Args[0]) == 1 && operandSide(fn, opP, c.Call.Args[1]) == 2
						}
					} else {
						got, okShape = x.Op, true
						order = operandSide(fn, opP, x.X) == 1 && operandSide(fn, opP, x.Y) == 2
						// equality is symmetric: accept swapped operands for = and <>
						if !order && (x.Op == token.EQL || x.Op == token.NEQ) {
							order = operandSide(fn, opP, x.X) == 2 && operandSide(fn, opP, x.Y) == 1
						}
					}
				case *ssa.Call:
					if staticCalleeName(x) == "bytes.Equal" {
						got, okShape = token.EQL, true
						s1, s2 := operandSide(fn, opP, x.Call.Args[0]), operandSide(fn, opP, x.Call.Args[1])
						order = s1 != 0 && s2 != 0 && s1 != s2
					}
				}
				if neg && got == token.EQL {
					got = token.NEQ
				} else if neg {
					okShape = false
				}
				switch {
				case !okShape:
					e.undecided("R2", construct, e.ipos(ret), "the value returned for %q is not a recognised comparison form", label)
				case got != want:
					e.fail("R2", construct, e.ipos(ret), "the case for %q computes left %s right: the comparator is evaluated as a different operator", label, got)
				case !order:
					e.fail("R2", construct, e.ipos(ret), "the case for %q does not compare (left, right) in that order", label)
				default:
					e.pass("R2", construct, e.ipos(ret), "%q ↦ left %s right", label, got)
				}
			}
		})
		for _, l := range []string{"<", "<=", ">", ">=", "=", "<>"} {
			if !seenLabels[l] {
				e.fail("R2", e.fname(fn)+":case["+l+"]", e.pos(fn.Pos()), "comparator %q has no case: it falls to the default (unknown operator)", l)
			}
		}
	}
}

// c06R12: the value compared on the left of a comparator is the evaluated LEFT operand of the parsed comparison (and the
// right one the right operand), from the node built by the parser to the parameters of the comparator functions.
func c06R12(e *Engine) {
	cfs := e.comparatorFunctions()
	var fns []*ssa.Function
	for f := range cfs {
		fns = append(fns, f)
	}
	sort.Slice(fns, func(i, j int) bool { return e.fname(fns[i]) < e.fname(fns[j]) })
	c06R12parser(e)
	for _, fn := range fns {
		var others []*ssa.Parameter
		for _, p := range fn.Params {
			if p != cfs[fn] {
				others = append(others, p)
			}
		}
		if len(others) != 2 {
			continue
		}
		o0, o1 := e.originsEval(others[0]), e.originsEval(others[1])
		if os.Getenv("MINICHECK_TRACE") != "" {
			fmt.Println("TRACE operand-flow", e.fname(fn), "o0=", o0, "o1=", o1)
		}
		has := func(list []string, side string) bool {
			for _, o := range list {
				if strings.Contains(o, "eval-of") && strings.Contains(o, "InfixExpression."+side) {
					return true
				}
			}
			return false
		}
		construct := e.fname(fn) + ":operand-flow"
		switch {
		case has(o0, "Right") || has(o1, "Left"):
			e.fail("R12", construct, e.pos(fn.Pos()), "the left parameter of the comparator receives the evaluated RIGHT operand of the comparison node (or the right one the left): `a < b` is decided as `b < a`")
		case !has(o0, "Left") || !has(o1, "Right"):
			e.undecided("R12", construct, e.pos(fn.Pos()), "the operands of the comparator could not be traced back to the evaluated Left/Right fields of the comparison node (left: %v, right: %v)", o0, o1)
		default:
			e.pass("R12", construct, e.pos(fn.Pos()), "left parameter ← Eval(node.Left), right parameter ← Eval(node.Right)")
		}
	}
	// BETWEEN: the range function receives (value, lower bound, upper bound) = the evaluated (Left, Range[0], Range[1]) of
	// the node – the bounds are not exchanged, sorted or defaulted on the way
	for _, fn := range e.funcs("lang") {
		if fn.Parent() != nil {
			continue
		}
		instrs(fn, func(in ssa.Instruction) {
			c, ok := in.(*ssa.Call)
			if !ok || c.Call.StaticCallee() == nil || len(c.Call.Args) != 3 {
				return
			}
			g := c.Call.StaticCallee()
			if !e.isRangeFunction(g, cfs) {
				return
			}
			want := []string{"BetweenExpression.Left", "elem[0]-of field:BetweenExpression.Range", "elem[1]-of field:BetweenExpression.Range"}
			okAll := true
			var got []string
			for i, a := range c.Call.Args {
				os := e.originsEval(a)
				got = append(got, strings.Join(os, "|"))
				has, other := false, false
				for _, o := range os {
					if !strings.Contains(o, "eval-of") {
						continue
					}
					if strings.Contains(o, want[i]) {
						has = true
					} else if strings.Contains(o, "BetweenExpression.") {
						other = true
					}
				}
				if !has || other {
					okAll = false
				}
			}
			if os.Getenv("MINICHECK_TRACE") != "" {
				fmt.Println("TRACE between-flow", e.fname(fn), got)
			}
			e.check(okAll, "R12", e.fname(fn)+":between-operands", e.ipos(in), "the range comparison receives (value, lower, upper) = the evaluated (Left, Range[0], Range[1]) of the BETWEEN node – got (%s)", strings.Join(got, " ; "))
		})
	}
	e.minCount("R12", 6)
}

// isRangeFunction: g combines two comparator calls over its three parameters (the function C06.R3 judges).
func (e *Engine) isRangeFunction(g *ssa.Function, cfs map[*ssa.Function]*ssa.Parameter) bool {
	if g == nil || g.Blocks == nil || len(g.Params) != 3 || e.fnRole(g) != "lang" {
		return false
	}
	if _, isCmp := cfs[g]; isCmp {
		return false
	}
	n := 0
	instrs(g, func(in ssa.Instruction) {
		c, ok := in.(*ssa.Call)
		if !ok || isBuiltin(c) {
			return
		}
		if c.Call.IsInvoke() {
			if len(c.Call.Args) < 1 {
				return
			}
			if _, isK := constString(c.Call.Args[0]); !isK {
				return
			}
			for _, h := range e.callees(c) {
				if comparatorForwarder(h, cfs) != nil {
					n++
					return
				}
			}
			return
		}
		if len(c.Call.Args) < 1 {
			return
		}
		if _, isK := constString(c.Call.Args[0]); !isK {
			return // a dispatcher hands its own operator on; a range function names the operator
		}
		if h := c.Call.StaticCallee(); h != nil {
			if _, isCmp := cfs[h]; isCmp {
				n++
			}
			return
		}
		for _, h := range e.closuresOf(c.Call.Value, nil, 0) {
			if _, isCmp := cfs[h]; isCmp {
				n++
				return
			}
		}
	})
	return n >= 2
}

// c06R12parser: the parser side of the operand flow. The node of a binary operator takes the expression parsed BEFORE the
// operator (the handler's parameter) as Left and the expression parsed after it (a parse call's result) as Right.
func c06R12parser(e *Engine) {
	var classify func(v ssa.Value, depth int, out map[string]bool)
	classify = func(v ssa.Value, depth int, out map[string]bool) {
		v = strip(v)
		if depth > 6 {
			out["?"] = true
			return
		}
		switch x := v.(type) {
		case *ssa.Parameter:
			idx := -1
			for i, p := range x.Parent().Params {
				if p == x {
					idx = i
				}
			}
			static := 0
			for _, c := range e.callersOf(x.Parent()) {
				if c.Common().StaticCallee() == x.Parent() && idx < len(c.Common().Args) {
					static++
					classify(c.Common().Args[idx], depth+1, out)
				}
			}
			if static == 0 {
				out["already-parsed"] = true // the handler's own parameter: the expression to the left of the operator
			}
		case *ssa.Phi:
			for _, ed := range x.Edges {
				classify(ed, depth+1, out)
			}
		case *ssa.Call:
			out["parsed-after"] = true
		case *ssa.Extract:
			classify(x.Tuple, depth+1, out)
		case *ssa.Const:
			out["nil"] = true
		default:
			out["?"] = true
		}
	}
	n := 0
	for _, fn := range e.funcs("lang") {
		instrsDeep(fn, func(in ssa.Instruction) {
			st, ok := in.(*ssa.Store)
			if !ok {
				return
			}
			fa, ok := st.Addr.(*ssa.FieldAddr)
			if !ok {
				return
			}
			nt := namedOf(fa.X.Type())
			fv := fieldOf(fa)
			if nt == nil || nt.Obj().Name() != "InfixExpression" || fv == nil {
				return
			}
			name := fv.Name()
			if name != "Left" && name != "Right" {
				return
			}
			got := map[string]bool{}
			classify(st.Val, 0, got)
			delete(got, "nil")
			want, other := "already-parsed", "parsed-after"
			if name == "Right" {
				want, other = other, want
			}
			construct := e.fname(fn) + ":node." + name
			n++
			switch {
			case got[other]:
				e.fail("R12", construct, e.ipos(in), "the %s operand of the binary node is the expression %s the operator: the operands of every comparison are swapped", name, map[string]string{"already-parsed": "parsed before", "parsed-after": "parsed after"}[other])
			case got["?"] || !got[want]:
				e.undecided("R12", construct, e.ipos(in), "the value stored as the %s operand is neither the handler's parameter nor a parse result", name)
			default:
				e.pass("R12", construct, e.ipos(in), "%s operand ← %s", name, want)
			}
		})
	}
	if n < 2 {
		e.fail("R12", "count:R12-parser", "-", "only %d operand stores of the binary node found in the parser", n)
	}
}

// comparatorForwarder: method g does nothing but hand its (operator, left, right) parameters, in that order, to a
// comparator function, whose result it returns.
func comparatorForwarder(g *ssa.Function, cfs map[*ssa.Function]*ssa.Parameter) *ssa.Function {
	if g == nil || g.Blocks == nil || g.Signature.Recv() == nil || len(g.Params) != 4 {
		return nil
	}
	var target *ssa.Function
	for _, r := range returnsOf(g) {
		c, ok := strip(retVals(r)[0]).(*ssa.Call)
		if !ok || c.Call.StaticCallee() == nil || len(c.Call.Args) != 3 {
			return nil
		}
		if _, isCmp := cfs[c.Call.StaticCallee()]; !isCmp {
			return nil
		}
		for k := 0; k < 3; k++ {
			if strip(c.Call.Args[k]) != ssa.Value(g.Params[k+1]) {
				return nil
			}
		}
		if target != nil && target != c.Call.StaticCallee() {
			return nil
		}
		target = c.Call.StaticCallee()
	}
	return target
}

func c06R3(e *Engine) {
	cfs := e.comparatorFunctions()
	// the range function: calls a comparator twice with "<=" and combines with "AND"
	n := 0
	for _, fn := range e.funcs("lang") {
		type pair struct{ lo, hi *ssa.Call }
		var calls []*ssa.Call
		// comparator calls: direct, or through a function value chosen among comparators (cmp := evalNumberInfix… per type)
		chosen := map[*ssa.Call][]*ssa.Function{}
		instrs(fn, func(in ssa.Instruction) {
			c, ok := in.(*ssa.Call)
			if !ok || isBuiltin(c) {
				return
			}
			if c.Call.IsInvoke() {
				// a dynamically dispatched comparison: every implementation forwards (operator, left, right) to a comparator
				var fs []*ssa.Function
				all := len(c.Call.Args) == 3
				for _, g := range e.callees(c) {
					if t := comparatorForwarder(g, cfs); t != nil {
						fs = append(fs, t)
					} else {
						all = false
					}
				}
				if all && len(fs) > 0 {
					calls = append(calls, c)
					chosen[c] = fs
				}
				return
			}
			if g := c.Call.StaticCallee(); g != nil {
				if _, isCmp := cfs[g]; isCmp {
					calls = append(calls, c)
					chosen[c] = []*ssa.Function{g}
				}
				return
			}
			fs := e.closuresOf(c.Call.Value, nil, 0)
			all := len(fs) > 0
			for _, g := range fs {
				if _, isCmp := cfs[g]; !isCmp {
					all = false
				}
			}
			if all {
				calls = append(calls, c)
				chosen[c] = fs
			}
		})
		if len(calls) < 2 || len(fn.Params) != 3 {
			continue
		}
		if _, isCmp := cfs[fn]; isCmp {
			continue
		}
		// group by block
		byBlock := map[*ssa.BasicBlock][]*ssa.Call{}
		for _, c := range calls {
			byBlock[c.Block()] = append(byBlock[c.Block()], c)
		}
		valP, minP, maxP := fn.Params[0], fn.Params[1], fn.Params[2]
		side := func(v ssa.Value) string {
			seen := map[ssa.Value]bool{}
			var walk func(ssa.Value) string
			walk = func(x ssa.Value) string {
				x = strip(x)
				if seen[x] {
					return ""
				}
				seen[x] = true
				switch y := x.(type) {
				case *ssa.Parameter:
					switch y {
					case valP:
						return "v"
					case minP:
						return "min"
					case maxP:
						return "max"
					}
				case *ssa.Extract:
					return walk(y.Tuple)
				case *ssa.TypeAssert:
					return walk(y.X)
				case *ssa.MakeInterface:
					return walk(y.X)
				}
				return ""
			}
			return walk(v)
		}
		for blk, cs := range byBlock {
			if len(cs) != 2 {
				continue
			}
			n += len(chosen[cs[0]])
			var names []string
			for _, g := range chosen[cs[0]] {
				names = append(names, strings.TrimPrefix(e.fname(g), "lang."))
			}
			sort.Strings(names)
			cmpName := strings.Join(names, "|")
			construct := e.fname(fn) + ":range[" + cmpName + "]"
			op1, _ := constString(cs[0].Call.Args[0])
			op2, _ := constString(cs[1].Call.Args[0])
			a1, b1 := side(cs[0].Call.Args[1]), side(cs[0].Call.Args[2])
			a2, b2 := side(cs[1].Call.Args[1]), side(cs[1].Call.Args[2])
			lower := op1 == "<=" && a1 == "min" && b1 == "v"
			upper := op2 == "<=" && a2 == "v" && b2 == "max"
			// combined with AND
			and := false
			for _, in := range blk.Instrs {
				if c, ok := in.(*ssa.Call); ok && c.Call.StaticCallee() != nil && len(c.Call.Args) == 3 {
					if s, isK := constString(c.Call.Args[0]); isK && s == "AND" {
						if derivesFrom(c.Call.Args[1], cs[0]) && derivesFrom(c.Call.Args[2], cs[1]) || derivesFrom(c.Call.Args[1], cs[1]) && derivesFrom(c.Call.Args[2], cs[0]) {
							and = true
						}
					}
				}
			}
			if lower && upper && and {
				e.pass("R3", construct, e.ipos(cs[0]), "(min <= v) AND (v <= max)")
			} else {
				e.fail("R3", construct, e.ipos(cs[0]), "BETWEEN is computed as (%s %s %s) %s (%s %s %s): not the inclusive range min <= v AND v <= max", a1, op1, b1, map[bool]string{true: "AND", false: "?"}[and], a2, op2, b2)
			}
		}
	}
	if n < 3 {
		e.fail("R3", "count:R3", "-", "only %d range comparisons found (N, S, B expected)", n)
	}
}

func c06R4(e *Engine) {
	// (a) Eval's type switch covers every Expression implementation the condition parser can build
	eval := e.fn("lang", "Eval")
	np := e.fn("lang", "NewParser")
	if e.anchor("R4", "lang.Eval / lang.NewParser", eval == nil || np == nil) {
		handled := map[string]bool{}
		instrs(eval, func(in ssa.Instruction) {
			if ta, ok := in.(*ssa.TypeAssert); ok && ta.CommaOk {
				if nt := namedOf(ta.AssertedType); nt != nil {
					handled[nt.Obj().Name()] = true
				}
			}
		})
		// node kinds built by handlers registered in NewParser (+ the entry point's statement)
		built := map[string]bool{}
		var roots []*ssa.Function
		for _, h := range e.registrations(np, "registerPrefix") {
			if f := e.fn("lang", "Parser."+h); f != nil {
				roots = append(roots, f)
			}
		}
		for _, h := range e.registrations(np, "registerInfix") {
			if f := e.fn("lang", "Parser."+h); f != nil {
				roots = append(roots, f)
			}
		}
		if f := e.fn("lang", "Parser.ParseConditionalExpression"); f != nil {
			roots = append(roots, f)
		}
		exprIface, _ := e.Pkgs["lang"].Types.Scope().Lookup("Node").Type().Underlying().(*types.Interface)
		for _, r := range roots {
			instrs(r, func(in ssa.Instruction) {
				al, ok := in.(*ssa.Alloc)
				if !ok || !al.Heap {
					return
				}
				if exprIface != nil && types.Implements(al.Type(), exprIface) {
					built[namedOf(al.Type()).Obj().Name()] = true
				}
			})
		}
		for _, k := range sortedKeys(built) {
			e.check(handled[k], "R4", "lang.Eval:case["+k+"]", e.pos(eval.Pos()), "node kind %s, which the condition parser builds, has a case in Eval", k)
		}
		if len(built) < 7 {
			e.fail("R4", "count:R4-nodes", "-", "only %d node kinds found in the condition parser's handlers", len(built))
		}
	}
	// (b) every registered infix token reaches an operator switch: comparison/logic tokens are labels somewhere in the evaluator
	labels := map[string]bool{}
	for _, fn := range e.funcs("lang") {
		instrs(fn, func(in ssa.Instruction) {
			if b, ok := in.(*ssa.BinOp); ok && b.Op == token.EQL {
				if s, ok := constString(b.Y); ok {
					labels[s] = true
				}
			}
		})
	}
	if np != nil {
		for t, h := range e.registrations(np, "registerInfix") {
			if h != "parseInfixExpression" {
				continue
			}
			e.check(labels[t], "R4", "operator["+t+"]", e.pos(np.Pos()), "binary operator token %s is a label of an operator switch in the evaluator", t)
		}
	}
	// (c) function registry
	init, info := e.varInit("lang", "functions")
	if e.anchor("R4", "lang.functions", init == nil) {
		want := map[string]bool{"attribute_exists": false, "attribute_not_exists": false, "attribute_type": false, "begins_with": false, "contains": false, "size": false, "if_not_exists": true, "list_append": true}
		got := map[string]bool{}
		if cl, ok := unparen(init).(*ast.CompositeLit); ok {
			for _, el := range cl.Elts {
				kv := el.(*ast.KeyValueExpr)
				k := info.Types[kv.Key]
				if k.Value == nil {
					continue
				}
				name := constant.StringVal(k.Value)
				forUpdate := false
				val := unparen(kv.Value)
				if u, ok := val.(*ast.UnaryExpr); ok {
					val = u.X
				}
				if icl, ok := val.(*ast.CompositeLit); ok {
					fs := compositeFields(icl)
					if v, ok := fs["ForUpdate"]; ok {
						if tv := info.Types[v]; tv.Value != nil {
							forUpdate = constant.BoolVal(tv.Value)
						}
					}
					if nv, ok := fs["Name"]; ok {
						if tv := info.Types[nv]; tv.Value != nil && constant.StringVal(tv.Value) != name {
							e.fail("R4", "functions["+name+"]:name", e.pos(kv.Pos()), "registry key %q and Function.Name %q differ", name, constant.StringVal(tv.Value))
						}
					}
				}
				got[name] = forUpdate
			}
		}
		for _, n := range sortedKeys(want) {
			fu, ok := got[n]
			e.check(ok && fu == want[n], "R4", "functions["+n+"]", e.pos(init.Pos()), "function %s registered (present:%v) with ForUpdate=%v (want %v)", n, ok, fu, want[n])
		}
		for _, n := range sortedKeys(got) {
			if _, ok := want[n]; !ok {
				e.fail("R4", "functions["+n+"]", e.pos(init.Pos()), "unexpected function %s in the registry", n)
			}
		}
	}
	// (d) type tables
	for _, tbl := range []struct {
		name string
		want []string
	}{{"dynamodbTypes", itemFields}, {"comparableTypes", []string{"B", "N", "S"}}} {
		init, info := e.varInit("lang", tbl.name)
		if !e.anchor("R4", "lang."+tbl.name, init == nil) {
			continue
		}
		got := map[string]bool{}
		if cl, ok := unparen(init).(*ast.CompositeLit); ok {
			for _, el := range cl.Elts {
				kv := el.(*ast.KeyValueExpr)
				k, v := info.Types[kv.Key], info.Types[kv.Value]
				if k.Value != nil && v.Value != nil && constant.BoolVal(v.Value) {
					got[constant.StringVal(k.Value)] = true
				}
			}
		}
		gs := sortedKeys(got)
		ws := append([]string{}, tbl.want...)
		sort.Strings(ws)
		e.check(strings.Join(gs, ",") == strings.Join(ws, ","), "R4", "lang."+tbl.name, e.pos(init.Pos()), "%s = {%s} (want {%s})", tbl.name, strings.Join(gs, ","), strings.Join(ws, ","))
	}
}

func c06R5(e *Engine) {
	// every comparison of X.Type() with the NULL tag in functions reachable from Eval/EvalUpdate that decides existence
	roots := []*ssa.Function{e.fn("lang", "Eval"), e.fn("lang", "EvalUpdate")}
	scope := map[*ssa.Function]bool{}
	for _, r := range roots {
		if r != nil {
			for g := range e.reach(r) {
				scope[g] = true
			}
		}
	}
	// builtin functions are reached through the registry (function values): include functions referenced by the registry init
	for _, fn := range e.funcs("lang") {
		if fn.Signature.Variadic() && fn.Signature.Results().Len() == 1 && fn.Parent() == nil {
			scope[fn] = true
		}
	}
	n := 0
	for _, fn := range sortedFns(e, scope) {
		if e.fnRole(fn) != "lang" {
			continue
		}
		instrs(fn, func(in ssa.Instruction) {
			b, ok := in.(*ssa.BinOp)
			if !ok || (b.Op != token.EQL && b.Op != token.NEQ) {
				return
			}
			s, isK := constString(b.Y)
			if !isK || s != "NULL" {
				return
			}
			if _, isT := typeCallOn(b.X); !isT {
				return
			}
			// is the comparison's result what the function returns / branches on to decide existence?
			n++
			construct := e.fname(fn) + ":Type()==NULL"
			// legitimate uses: matchTypes(ObjectTypeNull…) dispatch is not a BinOp here; attribute_type compares with a dynamic string, not the constant
			e.fail("R5", construct, e.ipos(in), "existence is decided by comparing the type tag with NULL: a NULL-typed attribute (which exists) has the same tag as an undefined one, so attribute_exists is false and attribute_not_exists / if_not_exists treat it as missing; the undefined test must be used")
		})
	}
	// the existence functions use the undefined test
	und := e.fn("lang", "isUndefined")
	for _, ent := range [][2]string{{"attribute_exists", "attributeExists"}, {"attribute_not_exists", "attributeNotExists"}, {"if_not_exists", "ifNotExists"}} {
		name := ent[1]
		impls := e.builtinImpls(ent[0])
		if !e.anchor("R5", "lang."+name, len(impls) == 0) {
			continue
		}
		uses := false
		for _, fn := range impls {
			instrsDeep(fn, func(in ssa.Instruction) {
				if c, ok := in.(*ssa.Call); ok && c.Call.StaticCallee() == und && und != nil {
					uses = true
				}
				if fa, ok := in.(*ssa.FieldAddr); ok && fieldOf(fa).Name() == "IsUndefined" {
					uses = true
				}
			})
		}
		e.check(uses, "R5", "lang."+name+":uses-undefined-test", e.pos(impls[0].Pos()), "existence decided with the undefined test (function registered as %s: %s)", ent[0], e.fname(impls[0]))
	}
	if n == 0 {
		e.pass("R5", "no-NULL-tag-existence-test", "-", "no function of the evaluator decides existence by the NULL type tag")
	}
}

func c06R6(e *Engine) {
	m := e.fn("interp", "Language.Match")
	cs := e.coreModel()
	if !e.anchor("R6", "interp.Language.Match", m == nil || cs == nil) {
		return
	}
	rs := e.reach(m)
	// mutators: methods named Add/Delete/Remove/Set/Compact/MarkToCompact/Apply on lang objects and environment, setListValue
	var bad []string
	for g := range rs {
		if e.fnRole(g) != "lang" {
			continue
		}
		recv := g.Signature.Recv()
		name := g.Name()
		isMut := false
		if recv != nil {
			rn := ""
			if nt := namedOf(recv.Type()); nt != nil {
				rn = nt.Obj().Name()
			}
			switch name {
			case "Add", "Delete", "Remove", "Compact", "MarkToCompact", "Apply":
				isMut = true
			case "Set":
				isMut = rn != "Environment" // Environment.Set populates the private environment
			}
		} else if cs.directMut[g] {
			// free functions that themselves mutate a parameter's container (setListValue …); functions that only call
			// mutators are judged by whether those mutators are reachable in this calling context
			isMut = true
		}
		if isMut {
			bad = append(bad, e.fname(g))
		}
	}
	sort.Strings(bad)
	if len(bad) > 0 {
		e.fail("R6", "interp.Language.Match:reaches-no-mutator", e.pos(m.Pos()), "condition evaluation can reach mutators: %s", strings.Join(bad, ", "))
	} else {
		e.pass("R6", "interp.Language.Match:reaches-no-mutator", e.pos(m.Pos()), "%d functions reachable; none of the object/environment mutators among them", len(rs))
	}
	// Match never mutates its input maps
	mp := cs.mutParams[m]
	e.check(len(mp) == 0, "R6", "interp.Language.Match:input-untouched", e.pos(m.Pos()), "no store, delete or mutating call reaches a map of the MatchInput (mutated params: %v)", mp)
	// the environment works on a private copy of the item (fresh map) – shared with C10.R5
	fresh := false
	e.walkLocal("interp", m, 2, func(in ssa.Instruction, ctx []callCtx) {
		c, ok := in.(*ssa.Call)
		if !ok || c.Call.StaticCallee() == nil || c.Call.StaticCallee().Name() != "AddAttributes" {
			return
		}
		args := []ssa.Value{c.Call.Args[1]}
		if els := literalRangeElems(c.Call.Args[1]); len(els) > 0 {
			args = els[:1] // loads run in the order of the list: the item is the first
		}
		for _, a := range args {
			for _, o := range e.originsCtx(a, ctx) {
				if o == "fresh-map" {
					fresh = true
				}
			}
		}
	})
	e.check(fresh, "R6", "interp.Language.Match:private-copy", e.pos(m.Pos()), "the item is copied into a fresh map before it is loaded into the environment")
}

func c06R7(e *Engine) {
	// the handler of comparisons with an undefined operand: a function of (operator, left, right) that tests both operands
	// with the undefined test and distinguishes "=" and "<>". It is evaluated as a decision table over
	// (operator, left undefined?, right undefined?): with an undefined operand "=" is false, "<>" true, the rest false.
	und := e.fn("lang", "isUndefined")
	tr, fl := e.global("lang", "TRUE"), e.global("lang", "FALSE")
	if !e.anchor("R7", "lang.isUndefined/TRUE/FALSE", und == nil || tr == nil || fl == nil) {
		return
	}
	// bool → TRUE/FALSE converters
	isBoolConv := func(g *ssa.Function) bool {
		if g == nil || g.Blocks == nil || len(g.Params) != 1 || !isBoolType(g.Params[0].Type()) {
			return false
		}
		for _, in := range []bool{true, false} {
			ret, _, _, ok := interpBoolP(g, func(v ssa.Value) (bool, bool) {
				if v == ssa.Value(g.Params[0]) {
					return in, true
				}
				return false, false
			})
			if !ok {
				return false
			}
			u, isU := strip(retVals(ret)[0]).(*ssa.UnOp)
			if !isU || (in && u.X != ssa.Value(tr)) || (!in && u.X != ssa.Value(fl)) {
				return false
			}
		}
		return true
	}
	found := false
	for _, fn := range e.funcs("lang") {
		if len(fn.Params) != 3 || fn.Parent() != nil || !isStringType(fn.Params[0].Type()) {
			continue
		}
		onlyKnown, usesL, usesR := true, false, false
		instrs(fn, func(in ssa.Instruction) {
			c, ok := in.(*ssa.Call)
			if !ok || isBuiltin(c) {
				return
			}
			switch {
			case c.Call.StaticCallee() == und:
				if strip(c.Call.Args[0]) == ssa.Value(fn.Params[1]) {
					usesL = true
				}
				if strip(c.Call.Args[0]) == ssa.Value(fn.Params[2]) {
					usesR = true
				}
			case isBoolConv(c.Call.StaticCallee()):
			default:
				onlyKnown = false
			}
		})
		labels := map[string]bool{}
		instrs(fn, func(in ssa.Instruction) {
			if b, ok := in.(*ssa.BinOp); ok && b.Op == token.EQL && b.X == ssa.Value(fn.Params[0]) {
				if s, isK := constString(b.Y); isK {
					labels[s] = true
				}
			}
		})
		if !onlyKnown || !usesL || !usesR || !labels["="] || !labels["<>"] {
			continue
		}
		found = true
		for _, op := range []string{"=", "<>", "<"} {
			label := op
			if op == "<" {
				label = "other"
			}
			construct := e.fname(fn) + ":undefined[" + label + "]"
			want := op == "<>"
			bad := ""
			for _, lu := range []bool{true, false} {
				for _, ru := range []bool{true, false} {
					if !lu && !ru {
						continue
					}
					ret, evalAt, edgeOf, ok := interpBoolP(fn, func(v ssa.Value) (bool, bool) {
						switch x := v.(type) {
						case *ssa.BinOp:
							if x.Op == token.EQL && x.X == ssa.Value(fn.Params[0]) {
								if s, isK := constString(x.Y); isK {
									return s == op, true
								}
							}
						case *ssa.Call:
							if x.Call.StaticCallee() == und {
								if strip(x.Call.Args[0]) == ssa.Value(fn.Params[1]) {
									return lu, true
								}
								if strip(x.Call.Args[0]) == ssa.Value(fn.Params[2]) {
									return ru, true
								}
							}
						}
						return false, false
					})
					if !ok {
						bad = "could not be evaluated"
						continue
					}
					// the object returned: TRUE / FALSE, or a converted boolean
					v := retVals(ret)[0]
					if ph, isPhi := v.(*ssa.Phi); isPhi {
						v = edgeOf(ph)
					}
					got, known := false, false
					if v != nil {
						switch x := strip(v).(type) {
						case *ssa.UnOp:
							if x.X == ssa.Value(tr) {
								got, known = true, true
							}
							if x.X == ssa.Value(fl) {
								got, known = false, true
							}
						case *ssa.Call:
							if isBoolConv(x.Call.StaticCallee()) {
								got, known = evalAt(x.Call.Args[0])
							}
						}
					}
					switch {
					case !known:
						bad = "returns something other than TRUE / FALSE"
					case got != want:
						bad = fmt.Sprintf("yields %v for left undefined=%v, right undefined=%v", got, lu, ru)
					}
				}
			}
			if bad == "" {
				e.pass("R7", construct, e.pos(fn.Pos()), "with an undefined operand %q yields %v in all three cases", op, want)
			} else {
				e.fail("R7", construct, e.pos(fn.Pos()), "with an undefined operand the comparator %q %s (it must be %v: a missing attribute equals nothing, differs from everything and is not ordered)", op, bad, want)
			}
		}
	}
	if !found {
		e.fail("R7", "undefined-operand-handler", "-", "no function handles comparisons with an undefined operand ('=' false, '<>' true)")
	}
}

var _ = fmt.Sprint

// c06R8: `x == y` on two evaluator objects compares pointers. That is meaningful only against the process-wide singletons
// (TRUE, FALSE, UNDEFINED) or between two values known to be booleans (which are always those singletons). Anywhere else
// it makes two *different* missing operands "equal" (both are the UNDEFINED singleton) and two equal numbers "different".
func c06R8(e *Engine) {
	g := e.newGuard()
	objIface, _ := e.Pkgs["lang"].Types.Scope().Lookup("Object").Type().Underlying().(*types.Interface)
	isObj := func(t types.Type) bool {
		if objIface == nil {
			return false
		}
		if _, ok := t.Underlying().(*types.Interface); ok {
			return types.Identical(t.Underlying(), objIface) || types.Implements(t, objIface)
		}
		return types.Implements(t, objIface)
	}
	isSingleton := func(v ssa.Value) bool {
		v = strip(v)
		if u, ok := v.(*ssa.UnOp); ok {
			if gl, ok := u.X.(*ssa.Global); ok && e.roleOf(gl.Pkg.Pkg) == "lang" {
				return true
			}
		}
		return isNilConst(v)
	}
	n := 0
	for _, fn := range e.funcs("lang", "interp") {
		instrs(fn, func(in ssa.Instruction) {
			b, ok := in.(*ssa.BinOp)
			if !ok || (b.Op != token.EQL && b.Op != token.NEQ) || !isObj(b.X.Type()) || !isObj(b.Y.Type()) {
				return
			}
			n++
			construct := e.fname(fn) + ":object-identity"
			switch {
			case isSingleton(b.X) || isSingleton(b.Y):
				e.ob("R8", construct, e.ipos(in), Pass, false, "comparison with a singleton")
			case g.dynTag(b.X, in.Block(), 0) == "BOOL" && g.dynTag(b.Y, in.Block(), 0) == "BOOL":
				e.pass("R8", construct, e.ipos(in), "both operands are known booleans (always the TRUE/FALSE singletons)")
			default:
				e.fail("R8", construct, e.ipos(in), "two evaluator objects are compared by pointer identity without knowing they are booleans: two different missing operands are the same UNDEFINED object (so `missing_a = missing_b` becomes true and `<>` false) and two equal numbers or strings are different objects")
			}
		})
	}
	if n < 3 {
		e.fail("R8", "count:R8", "-", "only %d object identity comparisons found", n)
	}
}

// c06R9: IN / BETWEEN over a missing attribute are false. All missing operands evaluate to the one UNDEFINED object, so a
// generic equality or containment routine applied to the left value without the undefined test makes `a IN (b)` true when a
// and b are both missing.
func c06R9(e *Engine) {
	isUndef := e.fn("lang", "isUndefined")
	isErr := e.fn("lang", "isError")
	if !e.anchor("R9", "lang.isUndefined", isUndef == nil) {
		return
	}
	n := 0
	for _, fn := range e.funcs("lang") {
		if fn.Parent() != nil || len(fn.Params) == 0 {
			continue
		}
		var node *ssa.Parameter
		for _, p := range fn.Params {
			if nt := namedOf(p.Type()); nt != nil && (nt.Obj().Name() == "InExpression" || nt.Obj().Name() == "BetweenExpression") {
				node = p
			}
		}
		if node == nil || fn.Signature.Recv() != nil {
			continue // methods of the node types (printing) are not evaluators
		}
		// the left operand's value: result of a call fed with node.Left
		var val *ssa.Call
		instrs(fn, func(in ssa.Instruction) {
			c, ok := in.(*ssa.Call)
			if !ok || val != nil {
				return
			}
			for _, a := range c.Call.Args {
				if descendsFrom(a, node, 0) && operandName(a, node) == "Left" {
					val = c
				}
			}
		})
		construct := e.fname(fn) + ":left-operand-defined-before-compared"
		if val == nil {
			e.undecided("R9", construct, e.pos(fn.Pos()), "evaluation of the left operand not found")
			continue
		}
		n++
		bad := ""
		uses := 0
		instrs(fn, func(in ssa.Instruction) {
			c, ok := in.(*ssa.Call)
			if !ok || c == val || isBuiltin(c) {
				return
			}
			usesVal := false
			for _, a := range c.Call.Args {
				if strip(a) == ssa.Value(val) {
					usesVal = true
				}
			}
			if c.Call.IsInvoke() && strip(c.Call.Value) == ssa.Value(val) {
				switch c.Call.Method.Name() {
				case "Type", "Inspect":
					return
				}
				usesVal = true
			}
			if !usesVal {
				return
			}
			if g := c.Call.StaticCallee(); g == isUndef || (isErr != nil && g == isErr) {
				return
			}
			uses++
			guarded := false
			for _, cd := range condsAt(c.Block()) {
				cd = normCond(cd)
				if t, ok := cd.V.(*ssa.Call); ok && !cd.Val && t.Call.StaticCallee() == isUndef && len(t.Call.Args) == 1 && strip(t.Call.Args[0]) == ssa.Value(val) {
					guarded = true
				}
			}
			if !guarded {
				bad = "the left value is handed to " + staticCalleeName(c) + " at " + e.ipos(c) + " without having been tested for undefined"
				if c.Call.IsInvoke() {
					bad = "the left value is used in " + c.Call.Method.Name() + " at " + e.ipos(c) + " without having been tested for undefined"
				}
			}
		})
		if bad != "" {
			e.fail("R9", construct, e.pos(fn.Pos()), "%s: every missing attribute is the same UNDEFINED object, so a missing left operand compares equal to a missing candidate and the condition holds although the attribute does not exist", bad)
		} else {
			e.pass("R9", construct, e.pos(fn.Pos()), "%d comparing use(s) of the left value, each on the defined side of its undefined test", uses)
		}
	}
	if n < 2 {
		e.fail("R9", "count:R9", "-", "only %d IN/BETWEEN evaluators found", n)
	}
}

func isParamOf(v ssa.Value, fn *ssa.Function) bool {
	p, ok := strip(v).(*ssa.Parameter)
	return ok && p.Parent() == fn
}

// c06R10: Environment.AddAttributes overwrites entries of the same name. Attribute names may contain any character, so an
// item can hold an attribute called ":owner"; the request's :owner must still be the one an expression sees. The load of
// the item has to come before the load of the request's values on every path.
func c06R10(e *Engine) {
	for _, name := range []string{"Language.Match", "Language.Update"} {
		fn := e.fn("interp", name)
		if !e.anchor("R10", "interp."+name, fn == nil) {
			continue
		}
		type load struct {
			path []ssa.Instruction
			kind string
			sub  int // position in the literal list a single load site ranges over
		}
		var loads []load
		e.walkLocal("interp", fn, 2, func(in ssa.Instruction, ctx []callCtx) {
			c, ok := in.(*ssa.Call)
			if !ok || c.Call.StaticCallee() == nil || c.Call.StaticCallee().Name() != "AddAttributes" || len(c.Call.Args) < 2 {
				return
			}
			// for _, m := range []map{item, values} { env.AddAttributes(m) }: one site, the loads in the order of the list
			args := literalRangeElems(c.Call.Args[1])
			if len(args) == 0 {
				args = []ssa.Value{c.Call.Args[1]}
			}
			for sub, a := range args {
				kind := ""
				for _, o := range e.originsCtx(a, ctx) {
					switch {
					case strings.HasSuffix(o, "Input.Attributes") || strings.Contains(o, "Input.Attributes of"):
						kind = "values"
					case o == "fresh-map" || strings.HasSuffix(o, "Input.Item") || strings.Contains(o, "Input.Item of"):
						if kind == "" {
							kind = "item"
						}
					}
				}
				loads = append(loads, load{pathOf(in, ctx), kind, sub})
			}
		})
		construct := "interp." + name + ":values-loaded-after-item"
		var item, values *load
		for i := range loads {
			switch loads[i].kind {
			case "item":
				item = &loads[i]
			case "values":
				values = &loads[i]
			}
		}
		switch {
		case item == nil || values == nil:
			e.undecided("R10", construct, e.pos(fn.Pos()), "the two environment loads (item, request values) were not both found (%d loads)", len(loads))
		case pathBefore(item.path, values.path) || (samePath(item.path, values.path) && item.sub < values.sub):
			e.pass("R10", construct, e.pos(fn.Pos()), "the item is loaded first, the request's values overwrite entries of the same name")
		default:
			e.fail("R10", construct, e.pos(fn.Pos()), "the request's values are not loaded after the stored item: a stored attribute named like a placeholder (\":owner\") replaces the value the request supplied, and the condition is decided on the item's own data")
		}
	}
}

// c06R13: the string and binary predicates of the built-in functions. begins_with(a, b) is "b is a prefix of a" and
// contains(a, b) on strings/binaries "b occurs in a": each is decided either by the library predicate with the operands
// in that order, or – for the prefix test – by the explicit form len(a) >= len(b) && a[:len(b)] == b. A hand-written
// variant that the rule cannot read as one of these is reported (a strict length comparison, which makes a value that
// EQUALS the prefix not begin with it, is named).
func c06R13(e *Engine) {
	// which argument of a variadic built-in (or which parameter of a method) a value is taken from
	var argOf func(fn *ssa.Function, v ssa.Value, depth int) int
	argOf = func(fn *ssa.Function, v ssa.Value, depth int) int {
		if depth > 8 {
			return -1
		}
		v = strip(v)
		switch x := v.(type) {
		case *ssa.Parameter:
			for i, p := range fn.Params {
				if p == x && !(fn.Signature.Variadic() && i == len(fn.Params)-1) {
					return i
				}
			}
		case *ssa.UnOp:
			if ia, ok := x.X.(*ssa.IndexAddr); ok {
				if p, isP := strip(ia.X).(*ssa.Parameter); isP && p.Parent() == fn {
					if n, isK := constInt(ia.Index); isK {
						return int(n)
					}
				}
			}
			return argOf(fn, x.X, depth+1)
		case *ssa.FieldAddr:
			return argOf(fn, x.X, depth+1)
		case *ssa.Field:
			return argOf(fn, x.X, depth+1)
		case *ssa.TypeAssert:
			return argOf(fn, x.X, depth+1)
		case *ssa.Extract:
			return argOf(fn, x.Tuple, depth+1)
		case *ssa.Call:
			if x.Call.IsInvoke() && (x.Call.Method.Name() == "Inspect") {
				return argOf(fn, x.Call.Value, depth+1)
			}
			if g := x.Call.StaticCallee(); g != nil && g.Name() == "Inspect" && len(x.Call.Args) == 1 {
				return argOf(fn, x.Call.Args[0], depth+1)
			}
		case *ssa.Slice:
			return argOf(fn, x.X, depth+1)
		}
		return -1
	}
	// the boolean a return delivers (through the bool->object helper)
	boolOf := func(v ssa.Value) ssa.Value {
		v = strip(v)
		if c, ok := v.(*ssa.Call); ok && len(c.Call.Args) == 1 && isBoolType(c.Call.Args[0].Type()) {
			return c.Call.Args[0]
		}
		return v
	}
	judge := func(fn *ssa.Function, b ssa.Value, lib []string, first, second int) (Verdict, string) {
		switch x := b.(type) {
		case *ssa.Call:
			name := staticCalleeName(x)
			for _, l := range lib {
				if name == l {
					a0, a1 := argOf(fn, x.Call.Args[0], 0), argOf(fn, x.Call.Args[1], 0)
					if a0 == first && a1 == second {
						return Pass, name + "(operand, pattern)"
					}
					return Fail, fmt.Sprintf("%s is applied to (argument %d, argument %d): the operands are swapped or not the function's own", name, a0, a1)
				}
			}
		case *ssa.Phi:
			// ok && lib(a, b): the library call behind a guard that only ever cuts to false
			var live []ssa.Value
			for _, ed := range x.Edges {
				if c, isC := constBool(ed); isC && !c {
					continue
				}
				live = append(live, ed)
			}
			if len(live) == 1 {
				if c, isCall := live[0].(*ssa.Call); isCall {
					for _, l := range lib {
						if staticCalleeName(c) == l {
							a0, a1 := argOf(fn, c.Call.Args[0], 0), argOf(fn, c.Call.Args[1], 0)
							if a0 == first && a1 == second {
								return Pass, l + "(operand, pattern) behind a guard"
							}
							return Fail, fmt.Sprintf("%s is applied to (argument %d, argument %d): the operands are swapped or not the function's own", l, a0, a1)
						}
					}
				}
			}
			// len(a) >= len(b) && a[:len(b)] == b
			for i, ed := range x.Edges {
				if c, isC := constBool(ed); isC && !c {
					continue
				}
				var eq ssa.Value = ed
				var sl *ssa.Slice
				var other ssa.Value
				switch y := eq.(type) {
				case *ssa.BinOp:
					if y.Op != token.EQL {
						return Assumed, "not a recognised prefix form"
					}
					if s, ok := y.X.(*ssa.Slice); ok {
						sl, other = s, y.Y
					} else if s, ok := y.Y.(*ssa.Slice); ok {
						sl, other = s, y.X
					}
				case *ssa.Call:
					if staticCalleeName(y) == "bytes.Equal" {
						if s, ok := y.Call.Args[0].(*ssa.Slice); ok {
							sl, other = s, y.Call.Args[1]
						} else if s, ok := y.Call.Args[1].(*ssa.Slice); ok {
							sl, other = s, y.Call.Args[0]
						}
					}
				}
				if sl == nil || sl.Low != nil || sl.High == nil || argOf(fn, sl.X, 0) != first || argOf(fn, other, 0) != second {
					return Assumed, "not a recognised prefix form"
				}
				// the guard on the edge: len(a) >= n with n = len(b) = the slice bound
				for _, cd := range edgeFacts(x.Block().Preds[i], x.Block()) {
					cd = normCond(cd)
					bo, ok := cd.V.(*ssa.BinOp)
					if !ok {
						continue
					}
					op, l, r := bo.Op, bo.X, bo.Y
					if !cd.Val {
						op = negOp(op)
					}
					if la, isLen := lenOf(r); isLen && argOf(fn, la, 0) == first {
						l, r = r, l
						op = flipOp(op)
					}
					la, isLen := lenOf(l)
					if !isLen || argOf(fn, la, 0) != first {
						continue
					}
					_ = r
					switch op {
					case token.GEQ:
						return Pass, "len(operand) >= len(pattern) && operand[:len(pattern)] == pattern"
					case token.GTR:
						return Fail, "the prefix test requires the operand to be strictly longer than the pattern: a value that equals the pattern does not begin with it"
					}
				}
				return Assumed, "prefix comparison without a recognised length guard"
			}
		}
		return Assumed, "not a recognised form"
	}
	n := 0
	report := func(construct string, pos string, v Verdict, detail, what string) {
		n++
		switch v {
		case Pass:
			e.pass("R13", construct, pos, "%s decided by %s", what, detail)
		case Fail:
			e.fail("R13", construct, pos, "%s: %s", what, detail)
		default:
			e.undecided("R13", construct, pos, "%s: %s – only the library predicate with the operands in order, or the explicit length-guarded comparison, is read as the prefix/substring test", what, detail)
		}
	}
	// begins_with
	for _, fn := range e.builtinImpls("begins_with") {
		kinds := 0
		for _, r := range returnsOf(fn) {
			b := boolOf(retVals(r)[0])
			if !isBoolType(b.Type()) {
				continue // an error object
			}
			if _, isC := constBool(b); isC {
				continue
			}
			kinds++
			v, detail := judge(fn, b, []string{"strings.HasPrefix", "bytes.HasPrefix"}, 0, 1)
			report(fmt.Sprintf("%s:prefix-test#%d", e.fname(fn), kinds), e.ipos(r), v, detail, "begins_with")
		}
	}
	// contains on strings and binaries: the Contains method of the types with tag S and B
	g := e.newGuard()
	for _, fn := range e.funcs("lang") {
		if fn.Name() != "Contains" || fn.Signature.Recv() == nil {
			continue
		}
		nt := namedOf(fn.Signature.Recv().Type())
		if nt == nil || (g.tagOf[nt.Obj().Name()] != "S" && g.tagOf[nt.Obj().Name()] != "B") {
			continue
		}
		for _, r := range returnsOf(fn) {
			b := boolOf(retVals(r)[0])
			if _, isC := constBool(b); isC {
				continue
			}
			v, detail := judge(fn, b, []string{"strings.Contains", "bytes.Contains"}, 0, 1)
			report(e.fname(fn)+":substring-test", e.ipos(r), v, detail, "contains")
		}
	}
	if n < 4 {
		e.fail("R13", "count:R13", "-", "only %d prefix/substring tests of the built-ins found (begins_with on S and B, contains on S and B expected)", n)
	}
}

// c06R16: structural equality is symmetric. The function that decides "=" for documents and sets (two objects in, one
// boolean out, built on reflect.DeepEqual) answers true only through constructs that treat both operands alike: DeepEqual
// itself, bytes.Equal, a comparison of two projections. A one-sided test – a.Contains(b), a prefix, a subset – makes a
// set equal to every subset of itself and a = b differ from b = a.
func c06R16(e *Engine) {
	n := 0
	for _, fn := range e.funcs("lang") {
		if fn.Parent() != nil || len(fn.Params) != 2 || fn.Signature.Results().Len() != 1 || !isBoolType(fn.Signature.Results().At(0).Type()) {
			continue
		}
		if !isObjectIface(fn.Params[0].Type()) || !isObjectIface(fn.Params[1].Type()) {
			continue
		}
		usesDeepEqual := false
		instrs(fn, func(in ssa.Instruction) {
			if c, ok := in.(*ssa.Call); ok && staticCalleeName(c) == "reflect.DeepEqual" {
				usesDeepEqual = true
			}
		})
		if !usesDeepEqual {
			continue
		}
		n++
		construct := e.fname(fn) + ":equality-is-symmetric"
		bad := ""
		for _, r := range returnsOf(fn) {
			v := strip(retVals(r)[0])
			if _, isK := constBool(v); isK {
				continue
			}
			ok := false
			switch x := v.(type) {
			case *ssa.Call:
				switch staticCalleeName(x) {
				case "reflect.DeepEqual", "bytes.Equal":
					ok = true
				}
			case *ssa.BinOp:
				ok = x.Op == token.EQL || x.Op == token.NEQ
			case *ssa.Phi:
				ok = true // a conjunction/disjunction: its leaves are judged where they are returned from (none here)
				for _, ed := range x.Edges {
					if c, isC := strip(ed).(*ssa.Call); isC {
						nm := staticCalleeName(c)
						if nm != "reflect.DeepEqual" && nm != "bytes.Equal" {
							ok = false
						}
					}
				}
			}
			if !ok {
				bad = e.ipos(r)
			}
		}
		if bad != "" {
			e.fail("R16", construct, bad, "equality of two objects is decided by a construct that does not treat its operands alike (a containment or other one-sided test): a set equals every subset of itself, and a = b can differ from b = a")
		} else {
			e.pass("R16", construct, e.pos(fn.Pos()), "every non-constant answer is reflect.DeepEqual / bytes.Equal / a comparison")
		}
	}
	if n == 0 {
		e.undecided("R16", "lang:structural-equality", "-", "the structural equality function (Object, Object) bool built on reflect.DeepEqual was not found")
	}
}

// c06R17: an attribute is looked up under its (alias-resolved) name before the name is taken apart as a document path:
// in the environment's read accessor the literal lookup in the store is unconditional – an attribute whose NAME contains a
// dot or a bracket (reached through a name placeholder) exists.
func c06R17(e *Engine) {
	get := e.fn("lang", "Environment.Get")
	storeF := e.field("lang", "Environment", "store")
	if !e.anchor("R17", "lang.Environment.Get / store", get == nil || storeF == nil) {
		return
	}
	var first *ssa.Lookup
	instrs(get, func(in ssa.Instruction) {
		lk, ok := in.(*ssa.Lookup)
		if !ok || first != nil {
			return
		}
		if f, _ := loadedField(lk.X); f == storeF {
			first = lk
		}
	})
	construct := "lang.Environment.Get:literal-lookup-first"
	if first == nil {
		e.fail("R17", construct, e.pos(get.Pos()), "no lookup of the store in the read accessor")
		return
	}
	extra := ""
	for _, cd := range condsAt(first.Block()) {
		cd = normCond(cd)
		// the alias lookup (comma-ok on Aliases) may decide which name is looked up; nothing else may decide WHETHER
		if ex, ok := cd.V.(*ssa.Extract); ok {
			if lk, isLk := ex.Tuple.(*ssa.Lookup); isLk {
				if f, _ := loadedField(lk.X); f != nil && f.Name() == "Aliases" {
					continue
				}
			}
		}
		extra = cd.V.String()
	}
	if extra != "" {
		e.fail("R17", construct, e.ipos(first), "the literal lookup of the attribute name happens only when %s: a stored attribute whose name the test excludes (a dot, a bracket) is reported missing although it exists", extra)
	} else {
		e.pass("R17", construct, e.ipos(first), "the store is consulted under the resolved name before any path resolution, unconditionally")
	}
}

func samePath(a, b []ssa.Instruction) bool {
	if len(a) != len(b) {
		return false
	}
	for i := range a {
		if a[i] != b[i] {
			return false
		}
	}
	return true
}

// literalRangeElems: v is the element variable of `for _, v := range []T{a, b, …}` over a slice literal – returns a, b, …
// in the order of the list (go/ssa: *(&lit[i+1]) with i the range counter starting at -1; the literal is an array whose
// slots are stored once each at constant positions).
func literalRangeElems(v ssa.Value) []ssa.Value {
	u, ok := strip(v).(*ssa.UnOp)
	if !ok || u.Op != token.MUL {
		return nil
	}
	ia, ok := u.X.(*ssa.IndexAddr)
	if !ok {
		return nil
	}
	sl, ok := ia.X.(*ssa.Slice)
	if !ok || sl.Low != nil || sl.High != nil {
		return nil
	}
	al, ok := sl.X.(*ssa.Alloc)
	if !ok {
		return nil
	}
	pt, ok := al.Type().Underlying().(*types.Pointer)
	if !ok {
		return nil
	}
	arr, ok := pt.Elem().Underlying().(*types.Array)
	if !ok {
		return nil
	}
	// the counter: phi(-1, counter+1) + 1
	inc, ok := ia.Index.(*ssa.BinOp)
	if !ok || inc.Op != token.ADD {
		return nil
	}
	phi, ok := inc.X.(*ssa.Phi)
	if !ok || len(phi.Edges) != 2 {
		return nil
	}
	init := false
	for _, ed := range phi.Edges {
		if n, isK := constInt(ed); isK && n == -1 {
			init = true
		} else if ed != ssa.Value(inc) {
			return nil
		}
	}
	if !init {
		return nil
	}
	out := make([]ssa.Value, arr.Len())
	for _, r := range refsOf(al) {
		switch x := r.(type) {
		case *ssa.Slice:
		case *ssa.IndexAddr:
			n, isK := constInt(x.Index)
			sts := storesTo(x)
			if !isK || len(sts) != 1 || n < 0 || n >= arr.Len() || out[n] != nil {
				return nil
			}
			out[n] = sts[0].Val
		default:
			return nil
		}
	}
	for _, o := range out {
		if o == nil {
			return nil
		}
	}
	return out
}
