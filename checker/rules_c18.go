package main

import (
	"fmt"
	"go/ast"
	"go/token"
	"go/types"
	"sort"
	"strings"

	"golang.org/x/tools/go/ssa"
)

func init() {
	register(&Prop{
		ID:         "C18",
		Title:      "Table lifecycle and metadata stay coherent",
		Decided:    "(R1) CreateTable: the existence test on tables[name] dominates the insertion and its hit edge returns a resource-in-use error; the insertion lies on the success edges of CreatePrimaryIndex, AddGlobalIndexes and AddLocalIndexes (no half-built table is published), stores the table returned by core.NewTable under the request's table name; (R2) Client.tables is read only by comma-ok lookups whose miss edge returns a resource-not-found error (or by iteration), and written only by the constructor, CreateTable and DeleteTable; (R3) NewTable, newIndex and NewClient initialise every map/slice field with a fresh container, so a re-created table shares nothing with its predecessor; (R4) Description reports ItemCount ← len(SortedKeys), the key schema of the table and one entry per index with an exhaustive switch over the index kinds, and both clients carry TableName, ItemCount, KeySchema and both index lists into the SDK description; (R5) DeleteTable deletes exactly the looked-up name after a successful lookup; (R6) no instruction outside package initialisation stores through a package-level variable of the six packages, and no address into a package-level singleton object escapes – separate clients share no mutable state; (R7) every core call in a data method operates on the table returned by the lookup of the request's own TableName; (R8) hygiene that keeps the call graph sound: no unsafe, cgo, go:linkname, reflective call or build-tagged file; (R11) tables, indexes and the catalogue have no state beyond the confirmed fields: cached metadata added later must be rewritten by every writer of what it describes; (R12) no engine-internal error class escapes an exported v2 entry point (= C17.R9); (R13) a new index is back-filled through its own mutator (= C03.R6); (R14) the reported item count is len(SortedKeys), kept equal to the key set of Data by every mutator on every path (= C01.R2); (R15) the engine function that installs one new index reports success only after the store into Table.Indexes: a shortcut for an index name that is already there (keep the old one) leaves the description and the queries on the old key schema.",
		NotDecided: "sequencing semantics across arbitrary histories beyond the induction over per-method invariants; billing-mode/throughput validation values.",
		Rules: []RuleDef{
			{ID: "R1", Desc: "CreateTable: exists-test dominates insertion; only fully built tables are published (T-DOM)", Run: c18R1},
			{ID: "R2", Desc: "Client.tables: checked reads, three writers (T-FIELD)", Run: c18R2},
			{ID: "R3", Desc: "constructors initialise every container field freshly (SSA origin)", Run: c18R3},
			{ID: "R4", Desc: "Description plumbing and exhaustive index-kind switch (T-FLOW/T-TABLE)", Run: c18R4},
			{ID: "R5", Desc: "DeleteTable removes exactly the looked-up table (T-FLOW)", Run: c18R5},
			{ID: "R6", Desc: "package-level state is immutable after init and does not escape (T-FIELD/T-PURE)", Run: c18R6},
			{ID: "R7", Desc: "data methods operate on the table named by the request (T-FLOW)", Run: c18R7},
			{ID: "R8", Desc: "hygiene: no unsafe/cgo/linkname/reflective calls/build tags", Run: c18R8},
			{ID: "R9", Desc: "no address of a loop-carried variable escapes from inside its loop (every escape would alias the same variable)", Run: c18R9},
			{ID: "R10", Desc: "operations on an existing table do not change the declared type of a defined attribute (= C13.R7)", Run: func(e *Engine) {
				before := len(e.obs)
				c13R7(e)
				for i := before; i < len(e.obs); i++ {
					e.obs[i].Rule = "R10"
				}
			}},
			{ID: "R11", Desc: "table and catalogue state is the confirmed set of fields: a cached description or catalogue memo must be rewritten by every writer of what it describes (T-FIELD closure)", Run: func(e *Engine) { stateModelClosed(e, "R11", func(k string) bool { return k == "core.Table" || k == "core.index" || k == "v1.Client" || k == "v2.Client" }) }},
			{ID: "R12", Desc: "operating on a table that does not exist fails with the SDK's resource-not-found error in every exported v2 entry point, helpers like ClearTable included: no engine-internal error escapes unmapped (= C17.R9)", Run: aliasRule("R12", c17R9, nil)},
			{ID: "R13", Desc: "an index created on a non-empty table is filled through the index's own mutator (= C03.R6): items without the index key stay out, the per-index item count is the number of items that have it", Run: aliasRule("R13", c03R6, nil)},
			{ID: "R14", Desc: "DescribeTable reports the current number of items: the count is the length of SortedKeys, which every mutator keeps equal to the key set of Data on every path (= C01.R2) – a delete of an absent key that drops a neighbour's entry makes the count drift", Run: aliasRule("R14", c01R2, nil)},
			{ID: "R15", Desc: "creating an index that reports success has installed it: in the engine function that stores one new index into Table.Indexes every success return is reached only through that store (must-pass-through) – otherwise DescribeTable keeps reporting the old set of indexes and key schemas", Run: c18R15},
		},
	})
}

func c18R1(e *Engine) {
	newTable := e.fn("core", "NewTable")
	for _, role := range clientRoles {
		ct := e.clientMethods(role)["CreateTable"]
		tf := e.field(role, "Client", "tables")
		if !e.anchor("R1", role+".Client.CreateTable", ct == nil || tf == nil || newTable == nil) {
			continue
		}
		var ins *ssa.MapUpdate
		var test *ssa.Lookup
		instrs(ct, func(in ssa.Instruction) {
			switch x := in.(type) {
			case *ssa.MapUpdate:
				if f, _ := loadedField(x.Map); f == tf {
					ins = x
				}
			case *ssa.Lookup:
				if f, _ := loadedField(x.X); f == tf && x.CommaOk {
					test = x
				}
			}
		})
		construct := role + ".Client.CreateTable"
		if ins == nil || test == nil {
			e.fail("R1", construct+":exists-test", e.pos(ct.Pos()), "insertion into Client.tables or the existence test is missing (insert:%v test:%v)", ins != nil, test != nil)
			continue
		}
		// same key, test dominates insertion on the miss edge, hit edge returns resource-in-use
		sameKey := strip(test.Index) == strip(ins.Key)
		missEdge := false
		for _, cd := range condsAt(ins.Block()) {
			cd = normCond(cd)
			if ex, ok := cd.V.(*ssa.Extract); ok && ex.Tuple == ssa.Value(test) && ex.Index == 1 && !cd.Val {
				missEdge = true
			}
		}
		hitErr := false
		for _, r := range returnsOf(ct) {
			for _, cd := range condsAt(r.Block()) {
				cd = normCond(cd)
				if ex, ok := cd.V.(*ssa.Extract); ok && ex.Tuple == ssa.Value(test) && ex.Index == 1 && cd.Val {
					ev := retVals(r)[errResultIndex(ct)]
					hitErr = errorMentions(e, ev, "ResourceInUse")
				}
			}
		}
		e.check(sameKey && missEdge && hitErr, "R1", construct+":exists-test", e.ipos(test), "existence test on the same name dominates the insertion (same key:%v, insertion on miss edge:%v) and the hit edge returns a ResourceInUse error (%v)", sameKey, missEdge, hitErr)
		// key and value provenance
		ko := strings.Join(e.origins(ins.Key), "|")
		vo := ""
		if c, ok := strip(ins.Value).(*ssa.Call); ok && c.Call.StaticCallee() == newTable {
			vo = "core.NewTable(" + strings.Join(e.origins(c.Call.Args[0]), "|") + ")"
		}
		e.check(ko == "field:CreateTableInput.TableName" && vo == "core.NewTable(field:CreateTableInput.TableName)", "R1", construct+":publishes-new-table", e.ipos(ins), "tables[%s] = %s", ko, vo)
		// every fallible build step precedes the insertion and the insertion is on its nil edge
		steps := 0
		bad := ""
		instrs(ct, func(in ssa.Instruction) {
			c, ok := in.(*ssa.Call)
			if !ok || c.Call.StaticCallee() == nil || e.fnRole(c.Call.StaticCallee()) != "core" {
				return
			}
			res := c.Call.Signature().Results()
			if res.Len() != 1 || !isErrorType(res.At(0).Type()) {
				return
			}
			steps++
			if !idominates(c, ins) {
				bad = e.fname(c.Call.StaticCallee()) + " does not precede the publication"
				return
			}
			if isNil, _ := knownNilness(ins.Block(), func(v ssa.Value) bool { return v == ssa.Value(c) }); !isNil {
				bad = "the table is published although " + e.fname(c.Call.StaticCallee()) + " may have failed"
			}
		})
		if steps < 3 {
			bad = fmt.Sprintf("only %d fallible build steps found before publication (primary index, global indexes, local indexes expected)", steps)
		}
		e.check(bad == "", "R1", construct+":published-only-when-built", e.ipos(ins), "the table is inserted into the catalogue only after all %d build steps succeeded %s", steps, bad)
	}
}

// errorMentions: the error value is built from something whose type or code constant mentions the given token.
func errorMentions(e *Engine, v ssa.Value, tok string) bool {
	for _, src := range phiSources(v) {
		src = strip(src)
		switch x := src.(type) {
		case *ssa.Alloc:
			if strings.Contains(typeName(x.Type()), tok) {
				return true
			}
		case *ssa.Call:
			for _, a := range x.Call.Args {
				if s, ok := constString(a); ok && strings.Contains(s, tok) {
					return true
				}
			}
			if g := x.Call.StaticCallee(); g != nil && g.Blocks != nil && e.fnRole(g) != "" {
				for _, r := range returnsOf(g) {
					for _, rv := range retVals(r) {
						if isErrorType(rv.Type()) && errorMentions(e, rv, tok) {
							return true
						}
					}
				}
			}
		}
	}
	return false
}

func c18R2(e *Engine) {
	for _, role := range clientRoles {
		tf := e.field(role, "Client", "tables")
		if !e.anchor("R2", role+".Client.tables", tf == nil) {
			continue
		}
		for _, a := range e.fieldAccesses(tf, e.funcs(role)) {
			fn := a.Fn
			construct := e.fname(fn) + ":tables:" + a.Kind
			switch {
			case a.Write:
				ok := a.Fresh || fn.Name() == "CreateTable" || fn.Name() == "DeleteTable"
				e.check(ok, "R2", construct, e.ipos(a.Instr), "writer of the table catalogue (allowed: constructor, CreateTable, DeleteTable)")
			case a.Kind == "lookup":
				lk := a.Instr.(*ssa.Lookup)
				if !lk.CommaOk {
					e.fail("R2", construct, e.ipos(a.Instr), "unchecked read of Client.tables: a missing table yields a nil *Table and a nil dereference instead of ResourceNotFound")
					continue
				}
				// the miss edge returns a not-found (or, in CreateTable, proceeds to create)
				if fn.Name() == "CreateTable" {
					e.ob("R2", construct, e.ipos(a.Instr), Pass, false, "existence test (R1)")
					continue
				}
				okMiss := false
				for _, r := range returnsOf(fn) {
					for _, cd := range condsAt(r.Block()) {
						cd = normCond(cd)
						if ex, ok := cd.V.(*ssa.Extract); ok && ex.Tuple == ssa.Value(lk) && ex.Index == 1 && !cd.Val {
							if ei := errResultIndex(fn); ei >= 0 && errorMentions(e, retVals(r)[ei], "ResourceNotFound") {
								okMiss = true
							}
						}
					}
				}
				e.check(okMiss, "R2", construct, e.ipos(a.Instr), "comma-ok lookup whose miss edge returns a ResourceNotFound error")
			case a.Kind == "range" || a.Kind == "len" || a.Kind == "load":
				e.ob("R2", construct, e.ipos(a.Instr), Pass, false, "iteration/length")
			default:
				e.fail("R2", construct, e.ipos(a.Instr), "Client.tables is used in a way the catalogue rule does not allow (%s)", a.Kind)
			}
		}
	}
	e.minCount("R2", 10)
}

func c18R3(e *Engine) {
	targets := []struct{ role, fn, typ string }{{"core", "NewTable", "Table"}, {"core", "newIndex", "index"}, {"v1", "NewClient", "Client"}, {"v2", "NewClient", "Client"}, {"interp", "NewNativeInterpreter", "Native"}, {"lang", "NewEnvironment", "Environment"}}
	for _, t := range targets {
		fn := e.fn(t.role, t.fn)
		nt := e.namedType(t.role, t.typ)
		if !e.anchor("R3", t.role+"."+t.fn, fn == nil || nt == nil) {
			continue
		}
		st := nt.Underlying().(*types.Struct)
		stored := map[string]ssa.Value{}
		instrs(fn, func(in ssa.Instruction) {
			s, ok := in.(*ssa.Store)
			if !ok {
				return
			}
			if fa, ok := s.Addr.(*ssa.FieldAddr); ok && namedOf(fa.X.Type()) == nt && originIsLocalAlloc(fa.X) {
				stored[fieldOf(fa).Name()] = s.Val
			}
		})
		// nothing reference-typed that the constructor installs may come from package-level state (shared by every instance)
		for name, v := range stored {
			if !isRefType(v.Type()) {
				continue
			}
			for _, src := range phiSources(v) {
				if g := globalRoot(src); g != nil {
					e.fail("R3", t.role+"."+t.fn+":"+name+":from-global", e.pos(fn.Pos()), "the constructor installs the object held by package-level variable %s in field %s: every instance built by it shares that object, so state registered through one client is visible to all others", g.Name(), name)
				}
			}
		}
		for i := 0; i < st.NumFields(); i++ {
			f := st.Field(i)
			_, isMap := f.Type().Underlying().(*types.Map)
			if !isMap {
				continue // nil slices are valid empty containers; maps must be made
			}
			construct := t.role + "." + t.fn + ":" + f.Name()
			v, ok := stored[f.Name()]
			if !ok {
				elemWrites := 0
				for _, a := range e.fieldAccesses(f, e.all) {
					if a.Write && a.Kind != "store-field" {
						elemWrites++
					}
				}
				if elemWrites == 0 {
					e.ob("R3", construct, e.pos(fn.Pos()), Pass, false, "map field %s is left nil and is only ever replaced as a whole (never written element-wise)", f.Name())
					continue
				}
				// left nil: acceptable only if never written through without allocation — for maps a nil map panics on write
				e.fail("R3", construct, e.pos(fn.Pos()), "map field %s is left nil by the constructor: the first write panics, or a shared map is installed later", f.Name())
				continue
			}
			_, fresh := strip(v).(*ssa.MakeMap)
			e.check(fresh, "R3", construct, e.pos(fn.Pos()), "map field %s initialised with a fresh map", f.Name())
		}
	}
	// CreateTable always builds its table with NewTable (checked in R1) — here: nobody else fabricates a Table
	nt := e.namedType("core", "Table")
	for _, fn := range e.all {
		if fn.Name() == "NewTable" && e.fnRole(fn) == "core" {
			continue
		}
		instrs(fn, func(in ssa.Instruction) {
			if al, ok := in.(*ssa.Alloc); ok && al.Heap {
				// (the allocation of a Table VALUE – a cell that holds a *Table captured by a closure is not one)
				if p, ok := al.Type().(*types.Pointer); ok && nt != nil && types.Identical(p.Elem(), nt) {
					e.fail("R3", e.fname(fn)+":fabricates-Table", e.ipos(in), "a core.Table is allocated outside core.NewTable: its containers may be nil or shared")
				}
			}
		})
	}
	e.minCount("R3", 8)
}

func c18R4(e *Engine) {
	desc := e.fn("core", "Table.Description")
	idesc := e.fn("core", "Table.IndexesDescription")
	if !e.anchor("R4", "core.Table.Description/IndexesDescription", desc == nil || idesc == nil) {
		return
	}
	want := map[string]string{"ItemCount": "len-of field:Table.SortedKeys", "TableName": "param:"}
	got := map[string]string{}
	instrs(desc, func(in ssa.Instruction) {
		s, ok := in.(*ssa.Store)
		if !ok {
			return
		}
		if f := fieldOf(s.Addr); f != nil && fieldOwner(f) == "TableDescription" {
			got[f.Name()] = strings.Join(e.origins(s.Val), "|")
		}
	})
	for _, k := range []string{"ItemCount", "TableName", "KeySchema", "GlobalSecondaryIndexes", "LocalSecondaryIndexes"} {
		v, ok := got[k]
		okv := ok
		if w, has := want[k]; has && ok {
			okv = true
			for _, o := range strings.Split(v, "|") {
				if !(strings.HasPrefix(o, w) || (k == "TableName" && strings.HasSuffix(o, "Input.TableName"))) {
					okv = false
				}
			}
		}
		e.check(okv, "R4", "core.Table.Description:"+k, e.pos(desc.Pos()), "TableDescription.%s ← %s", k, v)
	}
	// exhaustive switch over index kinds in IndexesDescription
	kinds := e.constsOfType("core", "indexType")
	seen := map[string]bool{}
	instrs(idesc, func(in ssa.Instruction) {
		if b, ok := in.(*ssa.BinOp); ok && b.Op == token.EQL {
			if s, ok := constString(b.Y); ok {
				seen[s] = true
			}
		}
	})
	for _, k := range kinds {
		val := strings.Trim(k.Val().ExactString(), "\"")
		e.check(seen[val], "R4", "core.Table.IndexesDescription:kind["+val+"]", e.pos(idesc.Pos()), "index kind %s is described", k.Name())
	}
	// one entry per index: the appends are inside a range over Indexes
	rangesIdx := false
	instrs(idesc, func(in ssa.Instruction) {
		if rg, ok := in.(*ssa.Range); ok {
			if f, _ := loadedField(rg.X); f != nil && f.Name() == "Indexes" {
				rangesIdx = true
			}
		}
	})
	e.check(rangesIdx, "R4", "core.Table.IndexesDescription:every-index", e.pos(idesc.Pos()), "descriptions are produced by ranging over Table.Indexes")
	// clients: SDK TableDescription literal carries the five fields
	for _, role := range clientRoles {
		p := e.Pkgs[role]
		found := false
		for _, file := range p.Syntax {
			ast.Inspect(file, func(n ast.Node) bool {
				cl, ok := n.(*ast.CompositeLit)
				if !ok {
					return true
				}
				tv, ok := p.TypesInfo.Types[cl]
				if !ok {
					return true
				}
				nt := namedOf(tv.Type)
				if nt == nil || nt.Obj().Name() != "TableDescription" || !strings.Contains(nt.Obj().Pkg().Path(), "aws-sdk-go") {
					return true
				}
				found = true
				fs := compositeFields(cl)
				for _, k := range []string{"TableName", "ItemCount", "KeySchema", "GlobalSecondaryIndexes", "LocalSecondaryIndexes"} {
					v, has := fs[k]
					e.check(has && strings.Contains(exprStr(v), "."+k), "R4", role+":TableDescription."+k, e.pos(cl.Pos()), "SDK TableDescription.%s ← %s", k, exprStr(v))
				}
				return true
			})
		}
		if !found {
			e.fail("R4", role+":TableDescription", "-", "no SDK TableDescription is built")
		}
		// DescribeTable / CreateTable / DeleteTable / UpdateTable outputs derive from table.Description(name of the request)
		for _, m := range []string{"DescribeTable", "CreateTable", "DeleteTable", "UpdateTable"} {
			fn := e.clientMethods(role)[m]
			if fn == nil {
				e.fail("R4", role+".Client."+m, "-", "management method missing")
				continue
			}
			ok := false
			instrsDeep(fn, func(in ssa.Instruction) {
				if c, isC := in.(*ssa.Call); isC && c.Call.StaticCallee() == desc {
					os := strings.Join(e.origins(c.Call.Args[1]), "|")
					if strings.HasSuffix(os, "Input.TableName") {
						ok = true
					}
				}
			})
			e.check(ok, "R4", role+".Client."+m+":describes-own-table", e.pos(fn.Pos()), "output built from table.Description(request.TableName)")
		}
	}
}

func c18R5(e *Engine) {
	// clearing a table clears every index, and an index reset resets both containers (= C03.R2 for resets, C03.R5)
	before := len(e.obs)
	c03R5(e)
	if cs := e.coreModel(); cs != nil {
		tc := &tcase{e: e, spec: indexPair(cs)}
		for fn := range e.writersOf(cs.refs, e.all) {
			ps, prob := tc.paths(fn, 16)
			isReset := prob == "" && len(ps) > 0
			for _, p := range ps {
				for _, ef := range p.effects {
					if ef.kind != effMapClear && ef.kind != effSliceClear {
						isReset = false
					}
				}
				if len(p.effects) == 0 {
					isReset = false
				}
			}
			if isReset {
				tc.run("R5", fn)
			}
		}
		for fn := range e.writersOf(cs.sortedKeys, e.all) {
			ps, prob := tc.paths(fn, 16)
			onlyClears := prob == "" && len(ps) > 0
			for _, p := range ps {
				if len(p.effects) == 0 {
					onlyClears = false
				}
				for _, ef := range p.effects {
					if ef.kind != effMapClear && ef.kind != effSliceClear {
						onlyClears = false
					}
				}
			}
			already := false
			for _, o := range e.obs[before:] {
				if o.Construct == e.fname(fn)+":refs/sortedKeys" {
					already = true
				}
			}
			if onlyClears && !already {
				tc.run("R5", fn)
			}
		}
	}
	for i := before; i < len(e.obs); i++ {
		e.obs[i].Rule = "R5"
	}
	for _, role := range clientRoles {
		dt := e.clientMethods(role)["DeleteTable"]
		tf := e.field(role, "Client", "tables")
		if !e.anchor("R5", role+".Client.DeleteTable", dt == nil || tf == nil) {
			continue
		}
		var del *ssa.Call
		instrs(dt, func(in ssa.Instruction) {
			if c, ok := in.(*ssa.Call); ok && staticCalleeName(c) == "builtin.delete" {
				if f, _ := loadedField(c.Call.Args[0]); f == tf {
					del = c
				}
			}
		})
		if del == nil {
			e.fail("R5", role+".Client.DeleteTable:deletes", e.pos(dt.Pos()), "DeleteTable does not remove the table from the catalogue")
			continue
		}
		ko := strings.Join(e.origins(del.Call.Args[1]), "|")
		// after a successful lookup: dominated by a getTable-like call (error nil edge) with the same name
		okLookup := false
		instrs(dt, func(in ssa.Instruction) {
			c, ok := in.(*ssa.Call)
			if !ok || c.Call.StaticCallee() == nil || e.fnRole(c.Call.StaticCallee()) != role || !idominates(c, del) {
				return
			}
			if c.Call.Signature().Results().Len() == 2 {
				for _, ex := range extractOf(c, 1) {
					if isNil, _ := knownNilness(del.Block(), func(v ssa.Value) bool { return v == ssa.Value(ex) }); isNil {
						for _, a := range c.Call.Args {
							if strip(a) == strip(del.Call.Args[1]) {
								okLookup = true
							}
						}
					}
				}
			}
		})
		e.check(ko == "field:DeleteTableInput.TableName" && okLookup, "R5", role+".Client.DeleteTable:deletes", e.ipos(del), "delete(tables, %s) on the success edge of the lookup of the same name (%v)", ko, okLookup)
	}
}

func c18R6(e *Engine) {
	// (a) no store through a package-level variable outside init
	n := 0
	for _, fn := range e.all {
		if fn.Name() == "init" || strings.HasPrefix(fn.Name(), "init#") {
			continue
		}
		instrs(fn, func(in ssa.Instruction) {
			var target ssa.Value
			kind := ""
			switch x := in.(type) {
			case *ssa.Store:
				target, kind = x.Addr, "store"
			case *ssa.MapUpdate:
				target, kind = x.Map, "map update"
			case *ssa.Call:
				if staticCalleeName(x) == "builtin.delete" {
					target, kind = x.Call.Args[0], "map delete"
				}
			}
			if target == nil {
				return
			}
			if g := globalRoot(target); g != nil && e.roleOf(g.Pkg.Pkg) != "" {
				n++
				e.fail("R6", e.fname(fn)+":writes-global:"+g.Name(), e.ipos(in), "%s through package-level variable %s after initialisation: the state is shared by every client in the process", kind, g.Name())
			}
		})
		// … no append to a slice held in a package-level variable (with spare capacity the appended elements land in one
		// backing array shared by every caller), and no method call on a package-level container of the sync package
		// (sync.Map, sync.Pool: process-wide mutable state by construction)
		instrs(fn, func(in ssa.Instruction) {
			// a package-level slice handed out as the start of somebody's list
			var handed ssa.Value
			switch x := in.(type) {
			case *ssa.MapUpdate:
				handed = x.Value
			case *ssa.Store:
				if _, toLocal := x.Addr.(*ssa.Alloc); !toLocal {
					handed = x.Val
				}
			}
			if handed != nil {
				if u, isU := strip(handed).(*ssa.UnOp); isU && u.Op == token.MUL {
					if g, isG := u.X.(*ssa.Global); isG && e.roleOf(g.Pkg.Pkg) != "" {
						if _, isSlice := u.Type().Underlying().(*types.Slice); isSlice {
							n++
							e.fail("R6", e.fname(fn)+":hands-out-global:"+g.Name(), e.ipos(in), "the slice held in package-level variable %s is stored as the start of a list: everything appended to such lists (up to its capacity) lands in one shared backing array, so the lists of different tables, calls and clients overwrite each other", g.Name())
						}
					}
				}
			}
			c, ok := in.(*ssa.Call)
			if !ok {
				return
			}
			if staticCalleeName(c) == "builtin.append" {
				if g := globalRoot(c.Call.Args[0]); g != nil && e.roleOf(g.Pkg.Pkg) != "" {
					n++
					e.fail("R6", e.fname(fn)+":appends-to-global:"+g.Name(), e.ipos(in), "append to the slice held in package-level variable %s: while it has spare capacity every append writes into the one backing array all callers share, so lists built from it overwrite each other", g.Name())
				}
				return
			}
			if callee := c.Call.StaticCallee(); callee != nil && callee.Signature.Recv() != nil && len(c.Call.Args) > 0 {
				if g, isG := strip(c.Call.Args[0]).(*ssa.Global); isG && e.roleOf(g.Pkg.Pkg) != "" {
					if nt := namedOf(g.Type()); nt != nil && nt.Obj().Pkg() != nil && nt.Obj().Pkg().Path() == "sync" && nt.Obj().Name() != "Once" {
						n++
						e.fail("R6", e.fname(fn)+":uses-global:"+g.Name(), e.ipos(in), "%s on the package-level %s %s: state that outlives a request and is shared by every client in the process (a result remembered for one request answers another)", callee.Name(), nt.Obj().Name(), g.Name())
					}
				}
			}
		})
	}
	// (b) no address into a singleton object escapes: types all of whose allocations happen in package init
	singletonTypes := map[*types.Named]string{}
	allocOutsideInit := map[*types.Named]bool{}
	scan := append([]*ssa.Function{}, e.all...)
	for _, sp := range e.SSA {
		if f := sp.Func("init"); f != nil {
			scan = append(scan, f)
		}
	}
	for _, fn := range scan {
		isInit := fn.Name() == "init" && fn.Synthetic != ""
		instrs(fn, func(in ssa.Instruction) {
			al, ok := in.(*ssa.Alloc)
			if !ok {
				return
			}
			p, ok := al.Type().(*types.Pointer)
			if !ok {
				return
			}
			nt := namedOf(p.Elem())
			if nt == nil || e.roleOf(nt.Obj().Pkg()) == "" {
				return
			}
			if _, isStruct := nt.Underlying().(*types.Struct); !isStruct {
				return
			}
			if isInit {
				if _, seen := singletonTypes[nt]; !seen {
					singletonTypes[nt] = nt.Obj().Name()
				}
			} else {
				allocOutsideInit[nt] = true
			}
		})
	}
	checked := 0
	for _, fn := range e.all {
		if fn.Name() == "init" {
			continue
		}
		instrs(fn, func(in ssa.Instruction) {
			fa, ok := in.(*ssa.FieldAddr)
			if !ok {
				return
			}
			nt := namedOf(fa.X.Type())
			if nt == nil {
				return
			}
			isSingleton := false
			if _, s := singletonTypes[nt]; s && !allocOutsideInit[nt] {
				isSingleton = true
			}
			if g := globalRoot(fa.X); g != nil && e.roleOf(g.Pkg.Pkg) != "" {
				isSingleton = true
			}
			if !isSingleton {
				return
			}
			// does the address escape (used other than as operand of an immediate load)?
			for _, r := range refsOf(fa) {
				switch u := r.(type) {
				case *ssa.UnOp:
					continue
				case *ssa.Store:
					if u.Addr == ssa.Value(fa) {
						n++
						e.fail("R6", e.fname(fn)+":writes-singleton:"+nt.Obj().Name()+"."+fieldOf(fa).Name(), e.ipos(r), "field of a process-wide singleton object is written")
						continue
					}
					checked++
					n++
					e.fail("R6", e.fname(fn)+":leaks-singleton:"+nt.Obj().Name()+"."+fieldOf(fa).Name(), e.ipos(r), "the address of %s.%s – a field of a process-wide singleton (all %s objects are allocated in package init) – is stored into a returned value: a caller writing through it changes the constant for every client in the process", nt.Obj().Name(), fieldOf(fa).Name(), nt.Obj().Name())
				case *ssa.FieldAddr, *ssa.IndexAddr:
					continue
				default:
					_ = u
				}
			}
		})
	}
	if n == 0 {
		e.pass("R6", "globals-immutable", "-", "no store through a package-level variable outside init and no escaping address into a singleton (%d singleton types: %v)", len(singletonTypes), sortedVals(singletonTypes))
	}
	// positive self-check: the census sees the globals it is supposed to watch
	for _, g := range []struct{ role, name string }{{"lang", "TRUE"}, {"lang", "FALSE"}, {"lang", "UNDEFINED"}, {"lang", "functions"}, {"lang", "keywords"}, {"lang", "reservedWords"}, {"v1", "emulatingErrors"}, {"v2", "emulatingErrors"}} {
		e.ob("R6", "watch:"+g.role+"."+g.name, "-", map[bool]Verdict{true: Pass, false: Undecided}[e.global(g.role, g.name) != nil], false, "package-level variable %s.%s is in scope of the census", g.role, g.name)
	}
}

func sortedVals(m map[*types.Named]string) []string {
	var out []string
	for _, v := range m {
		out = append(out, v)
	}
	sortStrings(out)
	return out
}

func sortStrings(s []string) {
	for i := 1; i < len(s); i++ {
		for j := i; j > 0 && s[j] < s[j-1]; j-- {
			s[j], s[j-1] = s[j-1], s[j]
		}
	}
}

// globalRoot: v is an address/value reached from a package-level variable by loads, field and index selections.
func globalRoot(v ssa.Value) *ssa.Global {
	for i := 0; i < 10; i++ {
		switch x := v.(type) {
		case *ssa.Global:
			return x
		case *ssa.UnOp:
			if x.Op != token.MUL {
				return nil
			}
			v = x.X
		case *ssa.FieldAddr:
			v = x.X
		case *ssa.IndexAddr:
			v = x.X
		case *ssa.Field:
			v = x.X
		case *ssa.Index:
			v = x.X
		case *ssa.Lookup:
			v = x.X
		case *ssa.Extract:
			v = x.Tuple
		case *ssa.ChangeType:
			v = x.X
		case *ssa.Slice:
			v = x.X
		default:
			return nil
		}
	}
	return nil
}

func c18R7(e *Engine) {
	for _, role := range clientRoles {
		ms := e.clientMethods(role)
		for _, name := range sortedFuncs(e, ms) {
			if _, isData := dataOpNames[name]; !isData {
				continue
			}
			fn := ms[name]
			seenC := map[string]bool{}
			e.walkLocal(role, fn, 2, func(in ssa.Instruction, ctx []callCtx) { // the call may sit in a helper shared by several operations
				c, ok := in.(*ssa.Call)
				if !ok || c.Call.StaticCallee() == nil || e.fnRole(c.Call.StaticCallee()) != "core" || len(c.Call.Args) == 0 {
					return
				}
				if nt := namedOf(c.Call.Args[0].Type()); nt == nil || nt.Obj().Name() != "Table" {
					return
				}
				for _, cc := range ctx {
					if _, isData := dataOpNames[cc.callee.Name()]; isData {
						return // reached through another data operation (a batch re-entering PutItem): judged there
					}
				}
				construct := role + ".Client." + name + "->" + strings.TrimPrefix(e.fname(c.Call.StaticCallee()), "core.")
				if seenC[construct] {
					return
				}
				seenC[construct] = true
				// receiver: a value of Client.tables looked up under the request's own TableName (possibly through helpers)
				ros, kos := e.originsAndKeys(c.Call.Args[0])
				ro, ao := strings.Join(ros, "|"), strings.Join(kos, "|")
				detail := "table ← " + ro + " keyed by " + ao
				ok2 := (ro == "mapval-of field:Client.tables" || ro == "const:nil|mapval-of field:Client.tables") && len(kos) > 0
				for _, k := range kos {
					if !strings.HasSuffix(k, "Input.TableName") {
						ok2 = false
					}
				}
				e.check(ok2, "R7", construct, e.ipos(c), "the core call operates on the table looked up under the request's own TableName (%s)", detail)
			})
		}
	}
	e.minCount("R7", 10)
}

func c18R8(e *Engine) {
	bad := 0
	for role, p := range e.Pkgs {
		for _, f := range p.Syntax {
			for _, imp := range f.Imports {
				path := strings.Trim(imp.Path.Value, "\"")
				if path == "unsafe" || path == "C" {
					bad++
					e.fail("R8", role+":imports-"+path, e.pos(imp.Pos()), "package imports %s: the call graph and ownership arguments of the other rules no longer hold", path)
				}
			}
			for _, cg := range f.Comments {
				for _, c := range cg.List {
					if strings.HasPrefix(c.Text, "//go:linkname") {
						bad++
						e.fail("R8", role+":linkname", e.pos(c.Pos()), "go:linkname directive")
					}
					if (strings.HasPrefix(c.Text, "//go:build") || strings.HasPrefix(c.Text, "// +build")) && c.Pos() < f.Package {
						bad++
						e.fail("R8", role+":build-tag:"+e.pos(c.Pos()), e.pos(c.Pos()), "build-tagged file %q: some configurations compile different code than the one analysed", c.Text)
					}
				}
			}
		}
	}
	for _, fn := range e.all {
		instrs(fn, func(in ssa.Instruction) {
			if c, ok := in.(ssa.CallInstruction); ok {
				name := staticCalleeName(c)
				if strings.HasPrefix(name, "(reflect.Value).Call") || strings.HasPrefix(name, "(reflect.Value).Set") || name == "(reflect.Value).MethodByName" {
					bad++
					e.fail("R8", e.fname(fn)+":reflective-call", e.ipos(in), "%s: calls/mutations the static call graph cannot see", name)
				}
			}
		})
	}
	if bad == 0 {
		e.pass("R8", "hygiene", "-", "no unsafe, cgo, go:linkname, reflective call/set or build-tagged file in the six packages (%d files)", e.files)
	}
}

// c18R9: under the module's pre-1.22 loop semantics a range/for variable is ONE variable for the whole loop. Taking its
// address (or capturing it) in every iteration and keeping those addresses makes all of them point at the last value –
// e.g. every index description carrying the same index name. Detected on SSA: a heap variable allocated outside a loop,
// reassigned inside it, whose address is also stored / captured inside that loop.
func c18R9(e *Engine) {
	n := 0
	for _, fn := range e.all {
		loops := naturalLoops(fn)
		if len(loops) == 0 {
			continue
		}
		instrs(fn, func(in ssa.Instruction) {
			al, ok := in.(*ssa.Alloc)
			if !ok || !al.Heap {
				return
			}
			for _, body := range loops {
				if body[al.Block()] {
					continue // allocated per iteration: each address is distinct
				}
				assigned, escapes := false, ""
				for _, r := range refsOf(al) {
					if !body[r.Block()] {
						continue
					}
					switch u := r.(type) {
					case *ssa.Store:
						if u.Addr == ssa.Value(al) {
							assigned = true
						} else if u.Val == ssa.Value(al) {
							escapes = "stored at " + e.ipos(u)
						}
					case *ssa.MapUpdate:
						if u.Value == ssa.Value(al) || u.Key == ssa.Value(al) {
							escapes = "stored in a map at " + e.ipos(u)
						}
					case *ssa.Send:
						if u.X == ssa.Value(al) {
							escapes = "sent on a channel at " + e.ipos(u)
						}
					case *ssa.MakeClosure:
						escapes = "captured by a closure at " + e.ipos(u)
					case *ssa.MakeInterface:
						escapes = "boxed at " + e.ipos(u)
					case *ssa.FieldAddr, *ssa.IndexAddr:
						// &loopVar.Field kept: same variable, same aliasing
						for _, r2 := range refsOf(u.(ssa.Value)) {
							if st, ok := r2.(*ssa.Store); ok && st.Val == u.(ssa.Value) && body[st.Block()] {
								escapes = "stored (the address of one of its fields) at " + e.ipos(st)
							}
						}
					}
				}
				if assigned && escapes != "" {
					n++
					e.fail("R9", e.fname(fn)+":loop-variable-address:"+al.Comment, e.ipos(al), "the loop variable %q is a single variable for the whole loop (module language version < go1.22) and its address is %s in every iteration: all the retained pointers end up pointing at the value of the last iteration", al.Comment, escapes)
				}
			}
		})
	}
	if n == 0 {
		e.pass("R9", "no-escaping-loop-variable", "-", "no loop-carried variable has its address retained from inside its loop (%d functions scanned)", len(e.all))
	}
}

// c18R15: "DescribeTable always reports the current set of indexes with their key schemas" – the index a successful
// creation describes is the one that is installed. Judged for the functions that store ONE index (the store is not in a
// loop); a function that installs a list of indexes stores per element and may legitimately store nothing.
func c18R15(e *Engine) {
	cs := e.coreModel()
	tbl := e.namedType("core", "Table")
	if !e.anchor("R15", "core.Table.Indexes", cs == nil || tbl == nil) {
		return
	}
	var idxField *types.Var
	if st, ok := tbl.Underlying().(*types.Struct); ok {
		for i := 0; i < st.NumFields(); i++ {
			if st.Field(i).Name() == "Indexes" {
				idxField = st.Field(i)
			}
		}
	}
	if !e.anchor("R15", "core.Table.Indexes (field)", idxField == nil) {
		return
	}
	direct := map[ssa.Instruction]bool{}
	hosts := map[*ssa.Function][]ssa.Instruction{}
	for _, a := range e.fieldAccesses(idxField, e.all) {
		if a.Write && a.Kind == "map-update" && !a.Fresh && e.fnRole(a.Fn) == "core" {
			direct[a.Instr] = true
			hosts[a.Fn] = append(hosts[a.Fn], a.Instr)
		}
	}
	gap := e.successGap(direct)
	n := 0
	var fns []*ssa.Function
	for g := range hosts {
		fns = append(fns, g)
	}
	sort.Slice(fns, func(i, j int) bool { return e.fname(fns[i]) < e.fname(fns[j]) })
	for _, g := range fns {
		construct := e.fname(g) + ":success-implies-installed"
		inLoop := false
		for _, in := range hosts[g] {
			if mayFollow(in, in) {
				inLoop = true
			}
		}
		n++
		if inLoop || errResultIndex(g) < 0 {
			e.ob("R15", construct, e.pos(g.Pos()), Pass, false, "installs a list of indexes (store per element) or reports no error: not judged")
			continue
		}
		if bad := gap(g); bad != "" && bad != "?" {
			e.fail("R15", construct, e.pos(g.Pos()), "the success return in %s is reachable without the store into Table.Indexes: the creation reports success while the table keeps the index (and key schema) it had – or none", bad)
		} else {
			e.pass("R15", construct, e.pos(g.Pos()), "every success return is reached only through the store into Table.Indexes")
		}
	}
	if n < 2 {
		e.fail("R15", "count:R15", "-", "only %d engine functions that install indexes found", n)
	}
}
