package main

import (
	"go/token"
	"go/types"
	"sort"
	"strings"

	"golang.org/x/tools/go/ssa"
)

// Data operations of the DynamoDB API (names are SDK API names = roles, not repo helpers).
var dataOpNames = map[string]string{
	"PutItem": "direct", "GetItem": "direct", "DeleteItem": "direct", "UpdateItem": "direct",
	"Query": "direct", "Scan": "direct", "TransactWriteItems": "direct", "TransactGetItems": "direct",
	"BatchGetItem": "direct", "ExecuteStatement": "direct", "ExecuteTransaction": "direct", "BatchExecuteStatement": "direct",
	"BatchWriteItem": "batch-write",
}

var clientRoles = []string{"v1", "v2"}

// clientMethods returns the methods declared on *Client of the role, by name.
func (e *Engine) clientMethods(role string) map[string]*ssa.Function {
	out := map[string]*ssa.Function{}
	ct := e.namedType(role, "Client")
	for _, f := range e.funcs(role) {
		if f.Parent() != nil {
			continue
		}
		if recv := f.Signature.Recv(); recv != nil && namedOf(recv.Type()) == ct {
			out[f.Name()] = f
		}
	}
	return out
}

// isLoadOfField: v is a load (*FieldAddr) or Field selection of struct field f.
func isLoadOfField(v ssa.Value, f *types.Var) bool {
	v = strip(v)
	switch x := v.(type) {
	case *ssa.UnOp:
		return x.Op == token.MUL && fieldOf(x.X) == f
	case *ssa.Field:
		return fieldOf(x) == f
	}
	return false
}

// nilTest: if cond is `x != nil` or `x == nil`, returns x and whether the true edge means non-nil.
func nilTest(cond ssa.Value) (ssa.Value, bool, bool) {
	neg := false
	for {
		if u, ok := cond.(*ssa.UnOp); ok && u.Op == token.NOT {
			cond = u.X
			neg = !neg
			continue
		}
		break
	}
	b, ok := cond.(*ssa.BinOp)
	if !ok || (b.Op != token.NEQ && b.Op != token.EQL) {
		return nil, false, false
	}
	var x ssa.Value
	if isNilConst(b.Y) {
		x = b.X
	} else if isNilConst(b.X) {
		x = b.Y
	} else {
		return nil, false, false
	}
	nonNilOnTrue := b.Op == token.NEQ
	if neg {
		nonNilOnTrue = !nonNilOnTrue
	}
	return x, nonNilOnTrue, true
}

// knownNil / knownNonNil at block b for values satisfying pred.
func knownNilness(b *ssa.BasicBlock, pred func(ssa.Value) bool) (isNil, isNonNil bool) {
	for _, c := range condsAt(b) {
		x, nonNilOnTrue, ok := nilTest(c.V)
		if !ok || !pred(x) {
			continue
		}
		if c.Val == nonNilOnTrue {
			isNonNil = true
		} else {
			isNil = true
		}
	}
	return
}

// pureDelegation: f's body is a single call to `target` forwarding f's own parameters (optionally dropping context/options) and returning its results.
func pureDelegation(f, target *ssa.Function) (bool, string) {
	var calls []ssa.CallInstruction
	instrs(f, func(in ssa.Instruction) {
		if c, ok := in.(ssa.CallInstruction); ok && !isBuiltin(c) {
			calls = append(calls, c)
		}
	})
	if len(calls) != 1 {
		return false, "expected exactly one call"
	}
	c := calls[0]
	if c.Common().StaticCallee() != target {
		return false, "calls " + staticCalleeName(c) + " instead of " + target.String()
	}
	for _, a := range c.Common().Args {
		if _, ok := a.(*ssa.Parameter); !ok {
			return false, "argument is not a parameter of the wrapper"
		}
	}
	rets := returnsOf(f)
	if len(rets) != 1 {
		return false, "expected a single return"
	}
	cv, _ := c.(ssa.Value)
	for i, r := range retVals(rets[0]) {
		t, idx, ok := tupleSource(r)
		if !(ok && t == cv && idx == i) && r != cv {
			return false, "result is not the callee's result"
		}
	}
	return true, ""
}

// guardedReach: package-local functions of the role that (transitively) touch guarded state.
func (e *Engine) guardedReach(role string) map[*ssa.Function]bool {
	direct := map[*ssa.Function]bool{}
	fns := e.funcs(role)
	for _, f := range fns {
		instrs(f, func(in ssa.Instruction) {
			if _, ok := e.guarded(role, in); ok {
				direct[f] = true
			}
		})
	}
	out := map[*ssa.Function]bool{}
	for _, f := range fns {
		for g := range e.reach(f) {
			if direct[g] {
				out[f] = true
				break
			}
		}
	}
	return out
}

func sortedFuncs(e *Engine, m map[string]*ssa.Function) []string {
	var ks []string
	for k := range m {
		ks = append(ks, k)
	}
	sort.Strings(ks)
	return ks
}

func hasSuffixFold(s, suf string) bool { return strings.HasSuffix(s, suf) }

// ---- interprocedural view of a client method: calls reached through package-local helpers ----

// expandCalls visits every call instruction of root and, recursively, of the package-local (same role) helpers it calls
// statically. ctx is the chain of call sites from root down to the function that contains the visited call. visit decides
// whether to descend into the callee.
func (e *Engine) expandCalls(role string, root *ssa.Function, visit func(c ssa.CallInstruction, ctx []callCtx) bool) {
	var walk func(fn *ssa.Function, ctx []callCtx, depth int)
	walk = func(fn *ssa.Function, ctx []callCtx, depth int) {
		for _, b := range fn.Blocks {
			if b == fn.Recover {
				continue
			}
			for _, in := range b.Instrs {
				c, ok := in.(ssa.CallInstruction)
				if !ok {
					continue
				}
				// a call of a function value that the calling context shows to be a closure of this package: the closure's
				// body is part of the method (fd.locked(func() { … }))
				if c.Common().StaticCallee() == nil && !c.Common().IsInvoke() && depth < 4 {
					if rv, rctx := resolveParam(c.Common().Value, ctx); rv != nil {
						if mc, isMC := strip(rv).(*ssa.MakeClosure); isMC {
							if cf, isF := mc.Fn.(*ssa.Function); isF && e.fnRole(cf) == role {
								_ = rctx
								walk(cf, append(append([]callCtx{}, ctx...), callCtx{c, cf}), depth+1)
								continue
							}
						}
					}
				}
				descend := visit(c, ctx)
				g := c.Common().StaticCallee()
				if !descend || g == nil || g.Blocks == nil || e.fnRole(g) != role || depth >= 4 {
					continue
				}
				rec := false
				for _, cc := range ctx {
					if cc.callee == g {
						rec = true
					}
				}
				if rec || g == root {
					continue
				}
				walk(g, append(append([]callCtx{}, ctx...), callCtx{c, g}), depth+1)
			}
		}
	}
	walk(root, nil, 0)
}

// pathOf: the position of an instruction reached through ctx, as the list of instructions from the root function down.
func pathOf(in ssa.Instruction, ctx []callCtx) []ssa.Instruction {
	var p []ssa.Instruction
	for _, c := range ctx {
		p = append(p, c.call)
	}
	return append(p, in)
}

// pathBefore: a is executed before b on every execution that reaches b (dominance at the first point where the paths part).
func pathBefore(a, b []ssa.Instruction) bool {
	for i := 0; i < len(a) && i < len(b); i++ {
		if a[i] == b[i] {
			continue
		}
		return idominates(a[i], b[i])
	}
	return false
}

// originsCtx traces v, which lives in the function reached through ctx, resolving parameters through that call chain.
func (e *Engine) originsCtx(v ssa.Value, ctx []callCtx) []string {
	t := &tracer{e: e, seen: map[string]bool{}, out: map[string]bool{}}
	t.trace(v, ctx, 0, "")
	var out []string
	for k := range t.out {
		out = append(out, k)
	}
	sort.Strings(out)
	return out
}

// resolveParam follows v through the call chain while it is a parameter of the function at the top of ctx.
func resolveParam(v ssa.Value, ctx []callCtx) (ssa.Value, []callCtx) {
	for len(ctx) > 0 {
		p, ok := strip(v).(*ssa.Parameter)
		if !ok {
			break
		}
		top := ctx[len(ctx)-1]
		if p.Parent() != top.callee {
			break
		}
		idx := -1
		for i, q := range top.callee.Params {
			if q == p {
				idx = i
			}
		}
		args := top.call.Common().Args
		if idx < 0 || idx >= len(args) {
			break
		}
		v, ctx = args[idx], ctx[:len(ctx)-1]
	}
	return v, ctx
}

// lockedGetter: g only takes/releases the client mutex and returns a field of the client (a locked read).
func (e *Engine) lockedGetter(role string, lr *lockResult, g *ssa.Function) bool {
	if g == nil || g.Blocks == nil || e.fnRole(g) != role || g.Signature.Results().Len() != 1 {
		return false
	}
	ok, locks := true, 0
	instrs(g, func(in ssa.Instruction) {
		if c, isC := in.(ssa.CallInstruction); isC && !isBuiltin(c) {
			if lr.muCall(c) != "" {
				locks++
			} else if h := c.Common().StaticCallee(); h != nil && e.fnRole(h) == role && e.lockRunner(lr, h) {
				locks++ // fd.locked(func() { v = fd.field })
			} else {
				ok = false
			}
		}
		if _, isS := in.(*ssa.Store); isS {
			// result spill slots of functions with defers are stores into local allocs
			if _, isAl := in.(*ssa.Store).Addr.(*ssa.Alloc); !isAl {
				ok = false
			}
		}
	})
	if !ok || locks == 0 {
		return false
	}
	for _, r := range returnsOf(g) {
		f, _ := loadedFieldDeep(retVals(r)[0])
		if f == nil {
			// a local filled by the closure that ran under the lock
			viaClosure := false
			for _, a := range g.AnonFuncs {
				instrs(a, func(in ssa.Instruction) {
					if st, isSt := in.(*ssa.Store); isSt {
						if lf, _ := loadedFieldDeep(st.Val); lf != nil {
							viaClosure = true
						}
					}
				})
			}
			if !viaClosure {
				return false
			}
		}
	}
	return true
}

// lockRunner: h takes the mutex, runs its function parameter on every path and does nothing else.
func (e *Engine) lockRunner(lr *lockResult, h *ssa.Function) bool {
	if h == nil || h.Blocks == nil {
		return false
	}
	fi := -1
	for i, p := range h.Params {
		if _, isSig := p.Type().Underlying().(*types.Signature); isSig {
			fi = i
		}
	}
	if fi < 0 || !runsParamAlways(e, h, fi) {
		return false
	}
	only, locks := true, 0
	instrs(h, func(in ssa.Instruction) {
		c, isC := in.(ssa.CallInstruction)
		if !isC || isBuiltin(c) {
			return
		}
		switch {
		case lr.muCall(c) != "":
			locks++
		case c.Common().StaticCallee() == nil && !c.Common().IsInvoke() && strip(c.Common().Value) == ssa.Value(h.Params[fi]):
		default:
			only = false
		}
	})
	return only && locks > 0
}

// walkLocal visits every instruction of root and of the functions of the same role it calls statically (to the given
// depth), with the chain of call sites leading there.
func (e *Engine) walkLocal(role string, root *ssa.Function, maxDepth int, visit func(in ssa.Instruction, ctx []callCtx)) {
	var walk func(fn *ssa.Function, ctx []callCtx, depth int)
	walk = func(fn *ssa.Function, ctx []callCtx, depth int) {
		instrs(fn, func(in ssa.Instruction) {
			visit(in, ctx)
			c, ok := in.(ssa.CallInstruction)
			if !ok || depth >= maxDepth {
				return
			}
			g := c.Common().StaticCallee()
			if g == nil || g.Blocks == nil || e.fnRole(g) != role || g == root {
				return
			}
			for _, cc := range ctx {
				if cc.callee == g {
					return
				}
			}
			walk(g, append(append([]callCtx{}, ctx...), callCtx{c, g}), depth+1)
		})
	}
	walk(root, nil, 0)
}

// fieldPathOf: v (resolved through ctx when it is a parameter) is a load of a nested field selection x.f.g – returns "f.g".
func fieldPathOf(v ssa.Value, ctx []callCtx) string {
	v, _ = resolveParam(v, ctx)
	v = strip(v)
	var names []string
	switch x := v.(type) {
	case *ssa.UnOp:
		if x.Op != token.MUL {
			return ""
		}
		a := x.X
		for {
			fa, ok := a.(*ssa.FieldAddr)
			if !ok {
				break
			}
			names = append([]string{fieldOf(fa).Name()}, names...)
			a = fa.X
		}
	case *ssa.Field:
		var cur ssa.Value = x
		for {
			fl, ok := cur.(*ssa.Field)
			if !ok {
				break
			}
			names = append([]string{fieldOf(fl).Name()}, names...)
			cur = fl.X
		}
		if u, ok := cur.(*ssa.UnOp); ok && u.Op == token.MUL {
			a := u.X
			for {
				fa, ok := a.(*ssa.FieldAddr)
				if !ok {
					break
				}
				names = append([]string{fieldOf(fa).Name()}, names...)
				a = fa.X
			}
		}
	}
	return strings.Join(names, ".")
}

// batchWritePath: where BatchWriteItem dispatches one request to the single-item methods and where it hands the outcome to
// its per-request error handler – in the method itself or in the package-local helpers its loops are factored into.
type batchSite struct {
	call ssa.CallInstruction
	ctx  []callCtx
}

func (e *Engine) batchWritePath(role string) (dispatch, handler *batchSite) {
	ms := e.clientMethods(role)
	bw, put := ms["BatchWriteItem"], ms["PutItem"]
	if bw == nil || put == nil {
		return nil, nil
	}
	callsDirectly := func(g *ssa.Function, target *ssa.Function) bool {
		hit := false
		instrs(g, func(in ssa.Instruction) {
			if c, ok := in.(ssa.CallInstruction); ok && c.Common().StaticCallee() == target {
				hit = true
			}
		})
		return hit
	}
	e.expandCalls(role, bw, func(c ssa.CallInstruction, ctx []callCtx) bool {
		g := c.Common().StaticCallee()
		if g == nil || e.fnRole(g) != role || g.Signature.Recv() != nil && g.Object() != nil && g.Object().Exported() {
			return false
		}
		cp := append([]callCtx{}, ctx...)
		if isBatchHandler(g) && handler == nil {
			handler = &batchSite{c, cp}
			return false
		}
		if !e.reach(g)[put] {
			return false
		}
		if callsDirectly(g, put) {
			if dispatch == nil {
				dispatch = &batchSite{c, cp}
			}
			return false
		}
		return true // a helper on the batch path (per-table loop): look inside
	})
	return dispatch, handler
}

// chainBlocks: the block of the site and the blocks of the call sites that lead to it.
func (s *batchSite) chainInstrs() []ssa.Instruction {
	out := []ssa.Instruction{s.call.(ssa.Instruction)}
	for i := len(s.ctx) - 1; i >= 0; i-- {
		out = append(out, s.ctx[i].call.(ssa.Instruction))
	}
	return out
}
