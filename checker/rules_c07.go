package main

import (
	"fmt"
	"go/token"
	"go/types"
	"os"
	"sort"
	"strings"

	"golang.org/x/tools/go/ssa"
)

var updateActions = []string{"SET", "ADD", "REMOVE", "DELETE"}

// actionHandlers: action token -> the evaluator function dispatched for it (from the switch over the action's token type).
func (e *Engine) actionHandlers() (map[string]*ssa.Function, *ssa.Function) {
	out := map[string]*ssa.Function{}
	var dispatcher *ssa.Function
	for _, fn := range e.funcs("lang") {
		labels := map[string]*ssa.BinOp{}
		instrs(fn, func(in ssa.Instruction) {
			if b, ok := in.(*ssa.BinOp); ok && b.Op == token.EQL {
				if s, isK := constString(b.Y); isK {
					for _, a := range updateActions {
						if s == a {
							labels[s] = b
						}
					}
				}
			}
		})
		if len(labels) < 3 || fn.Signature.Recv() != nil {
			continue
		}
		// each label's true edge calls one handler and returns its result
		found := map[string]*ssa.Function{}
		for a, b := range labels {
			for _, r := range refsOf(b) {
				ifi, ok := r.(*ssa.If)
				if !ok {
					continue
				}
				for _, in := range ifi.Block().Succs[0].Instrs {
					if c, ok := in.(*ssa.Call); ok && c.Call.StaticCallee() != nil && e.fnRole(c.Call.StaticCallee()) == "lang" {
						found[a] = c.Call.StaticCallee()
					}
				}
			}
		}
		if len(found) >= 3 {
			out, dispatcher = found, fn
		}
	}
	return out, dispatcher
}

// effect classes reachable from fn
type effSet map[string]bool

func (e *Engine) updateEffects(fn *ssa.Function, stop *ssa.Function) effSet {
	out := effSet{}
	// reachability that does not re-enter the action dispatcher (an action's operands are expressions, not actions)
	seen := map[*ssa.Function]bool{}
	var visit func(f *ssa.Function)
	visit = func(f *ssa.Function) {
		if f == nil || seen[f] || f == stop || f.Blocks == nil {
			return
		}
		seen[f] = true
		instrs(f, func(in ssa.Instruction) {
			if c, ok := in.(ssa.CallInstruction); ok && !isBuiltin(c) {
				for _, g := range e.callees(c) {
					if e.fnRole(g) != "" {
						visit(g)
					}
				}
			}
		})
	}
	visit(fn)
	for g := range seen {
		if e.fnRole(g) != "lang" || g.Signature.Recv() == nil {
			continue
		}
		rn := ""
		if nt := namedOf(g.Signature.Recv().Type()); nt != nil {
			rn = nt.Obj().Name()
		}
		switch {
		case rn == "Environment" && g.Name() == "Set":
			out["env.Set"] = true
		case rn == "Environment" && g.Name() == "Remove":
			out["env.Remove"] = true
		case rn == "indexAccessor" && g.Name() == "Set":
			out["path.Set"] = true
		case rn == "indexAccessor" && g.Name() == "Remove":
			out["path.Remove"] = true
		case g.Name() == "Add" && rn != "Environment":
			out["obj.Add"] = true
		case g.Name() == "Delete" && rn != "Environment":
			out["obj.Delete"] = true
		}
	}
	return out
}

func (s effSet) String() string {
	ks := sortedKeys(s)
	return strings.Join(ks, ",")
}

func init() {
	register(&Prop{
		ID:         "C07",
		Title:      "Update expressions apply exactly their actions and nothing else",
		Decided:    "(R1) the update parser, the action dispatch and the clause-continuation list agree on the four actions SET, ADD, REMOVE, DELETE, and + / − are the only arithmetic operators; (R2) per action, the effects reachable from its handler are the ones the action may have: SET assigns (attribute or path), REMOVE removes, ADD adds to a number/set or creates the attribute only when it is undefined, DELETE removes set members and never creates an attribute; (R3) on a left-hand side the handler does not support, every handler returns an error object – never a silent success without effect; (R4) the working environment is applied to the item only after parse and evaluation succeeded (shared with C08.R2); (R5) 'removed means gone': when the environment is written back, attributes of the item that the environment no longer holds are deleted; (R6) 'nothing else changed': only attributes targeted by an action are written back; (R7) '+' computes left + right and '−' left − right, in that order; (R8) every right-hand side reads the pre-update item (two-phase evaluation); (R9) because the write-back re-serialises every attribute (R6), an untouched attribute keeps its type only if every object kind writes its type-carrying field non-nil, also when empty (= C10.R7 on the object side); (R10) the functions usable in an update (list_append, if_not_exists, …) and the arithmetic of SET build new objects: none of them stores into an object it received as an operand, because operands are the environment's own objects of OTHER attributes; (R12) if_not_exists keeps an existing attribute of type NULL: existence is decided by the undefined test (= C06.R5 at that function); (R14) an attribute may be named like an alias key of the request (\"#s\"): loading the item into the environment and writing it back use the attribute names as they are – neither reaches a lookup in an alias table, otherwise such an attribute is confused with, or renamed to, the attribute the alias stands for; (R13) positions in a list refer to the stored list until the update is finished (removals are compacted once, at the end): the read accessors of the object types – Get, Contains, Type, Inspect, ToDynamoDB – store nothing through their receiver and call no mutating method on it; (R15) the environment has no state beyond store / removed / toCompact / Aliases; a field added later must be kept coherent with the store; (R16) the environment's store and its set of removed attributes are accessed under one key value per method (the alias-resolved name); (R17) only the environment's end-of-update pass compacts lists, after the actions; (R18) the read accessor looks the resolved name up literally first (= C06.R17), like Set and Remove.",
		NotDecided: "the resulting values themselves: list_append / if_not_exists results, nested path semantics, set arithmetic, number formatting (C12).",
		Rules: []RuleDef{
			{ID: "R1", Desc: "the four actions agree across parser, dispatch and continuation list (T-TABLE)", Run: c07R1},
			{ID: "R2", Desc: "per-action may-effects (T-PURE)", Run: c07R2},
			{ID: "R3", Desc: "unsupported left-hand side is an error in every handler (T-SIB)", Run: c07R3},
			{ID: "R4", Desc: "commit only after success (= C08.R2)", Run: func(e *Engine) {
				before := len(e.obs)
				c08R2(e)
				for i := before; i < len(e.obs); i++ {
					e.obs[i].Rule = "R4"
				}
			}},
			{ID: "R5", Desc: "removed attributes are deleted from the item on write-back (SSA)", Run: c07R5},
			{ID: "R6", Desc: "only targeted attributes are written back (SSA)", Run: c07R6},
			{ID: "R7", Desc: "arithmetic label ↔ operator agreement (T-TABLE)", Run: c07R7},
			{ID: "R8", Desc: "right-hand sides read the pre-update item (two-phase idiom)", Run: c07R8},
			{ID: "R9", Desc: "re-serialising an untouched attribute keeps its type: object → Item sets the type field non-nil (= C10.R7a)", Run: func(e *Engine) {
				before := len(e.obs)
				c10R7(e)
				kept := e.obs[:before]
				for _, o := range e.obs[before:] {
					if strings.HasPrefix(o.Construct, "lang.") {
						o.Rule = "R9"
						kept = append(kept, o)
					}
				}
				e.obs = kept
			}},
			{ID: "R10", Desc: "functions of the update grammar do not modify their operands (T-PURE)", Run: c07R10},
			{ID: "R11", Desc: "SET stores a copy of its operand, not the operand's own object (T-COPY)", Run: c07R11},
			{ID: "R12", Desc: "if_not_exists decides existence with the undefined test, not the NULL tag (= C06.R5)", Run: aliasRule("R12", c06R5, func(c string) bool { return strings.Contains(strings.ToLower(c), "ifnotexists") })},
			{ID: "R14", Desc: "the item is loaded into and written back from the environment under literal attribute names (no alias resolution)", Run: c07R14},
			{ID: "R13", Desc: "reading an object does not change it: the read accessors of the object types store nothing through their receiver (T-PURE)", Run: c07R13},
			{ID: "R15", Desc: "the evaluation environment has no state beyond the confirmed fields: a snapshot or memo added to it must follow every write of the store (T-FIELD closure)", Run: func(e *Engine) { stateModelClosed(e, "R15", func(k string) bool { return k == "lang.Environment" }) }},
			{ID: "R16", Desc: "store and removed-set of the environment are kept under the same (alias-resolved) key in every method: a REMOVE through an alias removes the attribute from the item", Run: c07R16},
			{ID: "R17", Desc: "lists are compacted once, by the environment, after every action: who-may-call on the compaction (list indexes of an update address the pre-update list)", Run: c07R17},
			{ID: "R18", Desc: "reads and writes of the environment agree on the attribute a name denotes: the read accessor looks the resolved name up literally first, as Set and Remove do (= C06.R17)", Run: aliasRule("R18", c06R17, nil)},
		},
	})
}

func c07R1(e *Engine) {
	nu := e.fn("lang", "NewUpdateParser")
	hs, disp := e.actionHandlers()
	if !e.anchor("R1", "lang.NewUpdateParser / action dispatch", nu == nil || disp == nil) {
		return
	}
	pre := e.registrations(nu, "registerPrefix")
	for _, a := range updateActions {
		_, inParser := pre[a]
		_, inDispatch := hs[a]
		e.check(inParser && inDispatch, "R1", "action["+a+"]", e.pos(disp.Pos()), "%s: parser registration %v (%s), evaluator dispatch %v", a, inParser, pre[a], inDispatch)
	}
	// same parse handler for all four
	same := true
	for _, a := range updateActions {
		if pre[a] != pre["SET"] {
			same = false
		}
	}
	e.check(same, "R1", "actions:one-parse-handler", e.pos(nu.Pos()), "the four action keywords share one clause parser (%s)", pre["SET"])
	// clause continuation: which token types the clause parser (and the helpers it is factored into) compares the
	// look-ahead token with. Every action keyword must be among them (it starts the next clause) and nothing but
	// punctuation besides – however the test is written (list literal, switch, chain of comparisons).
	peeked := map[string]bool{}
	if cp := e.fn("lang", "Parser."+pre["SET"]); cp != nil {
		e.walkLocal("lang", cp, 3, func(in ssa.Instruction, ctx []callCtx) {
			b, ok := in.(*ssa.BinOp)
			if !ok || (b.Op != token.EQL && b.Op != token.NEQ) {
				return
			}
			x, y := b.X, b.Y
			if fieldPathOf(y, ctx) == "peekToken.Type" {
				x, y = y, x
			}
			if fieldPathOf(x, ctx) != "peekToken.Type" {
				return
			}
			for _, t := range e.constStringsOf(y, ctx, 0) {
				peeked[t] = true
			}
		})
	}
	var missing, foreign []string
	for _, a := range updateActions {
		if !peeked[a] {
			missing = append(missing, a)
		}
	}
	for _, t := range sortedKeys(peeked) {
		isAction := false
		for _, a := range updateActions {
			if a == t {
				isAction = true
			}
		}
		if !isAction && t != "EOF" && strings.ToUpper(t) != strings.ToLower(t) { // a word, not punctuation or end of input
			foreign = append(foreign, t)
		}
	}
	e.check(len(missing) == 0 && len(foreign) == 0, "R1", "actions:continuation-list", e.pos(nu.Pos()), "the clause parser continues with a further clause exactly on the action keywords %v (look-ahead compared with %v; missing %v, foreign %v)", updateActions, sortedKeys(peeked), missing, foreign)
	// arithmetic operators of the update grammar
	inf := e.registrations(nu, "registerInfix")
	_, plus := inf["+"]
	_, minus := inf["-"]
	e.check(plus && minus, "R1", "update:arithmetic-operators", e.pos(nu.Pos()), "+ and - are registered as infix operators of the update parser")
	for t := range inf {
		switch t {
		case "+", "-", "[", ".", "(":
		default:
			e.fail("R1", "update:infix["+t+"]", e.pos(nu.Pos()), "unexpected infix operator %s in the update grammar", t)
		}
	}
}

func c07R2(e *Engine) {
	hs, disp := e.actionHandlers()
	if !e.anchor("R2", "action dispatch", disp == nil) {
		return
	}
	undefinedG := e.global("lang", "UNDEFINED")
	for _, a := range updateActions {
		h := hs[a]
		if h == nil {
			e.fail("R2", "action["+a+"]", e.pos(disp.Pos()), "no handler")
			continue
		}
		eff := e.updateEffects(h, disp)
		construct := "action[" + a + "]:effects"
		var bad []string
		need := func(any ...string) {
			for _, k := range any {
				if eff[k] {
					return
				}
			}
			bad = append(bad, "does not reach any of "+strings.Join(any, "/"))
		}
		forbid := func(ks ...string) {
			for _, k := range ks {
				if eff[k] {
					bad = append(bad, "reaches "+k)
				}
			}
		}
		switch a {
		case "SET":
			need("env.Set")
			need("path.Set")
			forbid("env.Remove", "path.Remove", "obj.Delete")
		case "REMOVE":
			need("env.Remove")
			need("path.Remove")
			forbid("env.Set", "path.Set", "obj.Add", "obj.Delete")
		case "ADD":
			need("obj.Add")
			need("env.Set") // ADD to an attribute that does not exist creates it
			forbid("env.Remove", "path.Remove", "obj.Delete")
		case "DELETE":
			need("obj.Delete")
			forbid("env.Set", "path.Set", "obj.Add", "env.Remove", "path.Remove")
		}
		// ADD may create the attribute, but only on the edge where it is undefined
		if a == "ADD" && eff["env.Set"] {
			instrs(h, func(in ssa.Instruction) {
				c, ok := in.(*ssa.Call)
				if !ok || c.Call.StaticCallee() == nil || c.Call.StaticCallee().Name() != "Set" {
					return
				}
				onUndef := false
				for _, cd := range condsAt(in.Block()) {
					cd = normCond(cd)
					if b, isB := cd.V.(*ssa.BinOp); isB && b.Op == token.EQL && cd.Val {
						for _, side := range []ssa.Value{b.X, b.Y} {
							if u, isU := strip(side).(*ssa.UnOp); isU && u.X == ssa.Value(undefinedG) {
								onUndef = true
							}
						}
					}
					if cc, isC := cd.V.(*ssa.Call); isC && cd.Val && cc.Call.StaticCallee() != nil && cc.Call.StaticCallee().Name() == "isUndefined" {
						onUndef = true
					}
				}
				if !onUndef {
					bad = append(bad, "creates/overwrites the attribute outside the 'attribute is undefined' edge")
				}
			})
		}
		if len(bad) > 0 {
			msg := strings.Join(bad, "; ")
			if a == "DELETE" && eff["env.Set"] {
				msg += " – DELETE from an absent attribute creates it with the operand as value (DynamoDB: no-op)"
			}
			e.fail("R2", construct, e.pos(h.Pos()), "%s (%s): %s", a, e.fname(h), msg)
		} else {
			e.pass("R2", construct, e.pos(h.Pos()), "%s (%s) reaches exactly the effects it may have: %s", a, e.fname(h), eff)
		}
	}
}

func c07R3(e *Engine) {
	hs, disp := e.actionHandlers()
	if !e.anchor("R3", "action dispatch", disp == nil) {
		return
	}
	for _, a := range updateActions {
		h := hs[a]
		if h == nil {
			continue
		}
		// the fall-through return: not governed by a successful comma-ok assertion of the left-hand side
		construct := "action[" + a + "]:unsupported-lhs-is-error"
		n, ok := 0, true
		for _, r := range returnsOf(h) {
			fall := true
			for _, cd := range condsAt(r.Block()) {
				cd = normCond(cd)
				if cd.Val && e.isAssertOK(cd.V, 0) {
					fall = false // governed by a successful assertion of the left-hand side (made here or in a helper)
				}
				if cd.Val {
					if c, isC := cd.V.(*ssa.Call); isC && c.Call.StaticCallee() != nil && c.Call.StaticCallee().Name() == "isError" {
						fall = false
					}
				}
				// the error object of a helper handed on: `if errObj != nil { return errObj }`
				if x, nonNilOnTrue, isNT := nilTest(cd.V); isNT && cd.Val == nonNilOnTrue && strip(x) == strip(retVals(r)[0]) {
					fall = false
				}
			}
			if !fall {
				continue
			}
			n++
			if !strings.HasSuffix(typeName(strip(retVals(r)[0]).Type()), "language.Error") {
				ok = false
			}
		}
		if n == 0 {
			e.undecided("R3", construct, e.pos(h.Pos()), "no fall-through return found in %s", e.fname(h))
			continue
		}
		if ok {
			e.pass("R3", construct, e.pos(h.Pos()), "%s: a left-hand side that is neither an attribute nor a supported path yields an error object", a)
		} else {
			e.fail("R3", construct, e.pos(h.Pos()), "%s on a left-hand side the handler does not support (e.g. a document path) returns success without doing anything: the update silently has no effect", a)
		}
	}
}

// applyFn: the Environment method that writes the store back into the caller's item.
func (e *Engine) applyFn() *ssa.Function {
	cs := e.coreModel()
	for _, fn := range e.funcs("lang") {
		if fn.Signature.Recv() == nil || namedOf(fn.Signature.Recv().Type()) == nil || namedOf(fn.Signature.Recv().Type()).Obj().Name() != "Environment" {
			continue
		}
		for i, p := range fn.Params {
			if strings.Contains(typeName(p.Type()), "types.Item") && cs != nil && cs.mutParams[fn][i] {
				return fn
			}
		}
	}
	return nil
}

func c07R5(e *Engine) {
	ap := e.applyFn()
	if !e.anchor("R5", "lang.Environment write-back function", ap == nil) {
		return
	}
	var itemP *ssa.Parameter
	for _, p := range ap.Params {
		if strings.Contains(typeName(p.Type()), "types.Item") {
			itemP = p
		}
	}
	deletes := false
	instrs(ap, func(in ssa.Instruction) {
		if c, ok := in.(*ssa.Call); ok && staticCalleeName(c) == "builtin.delete" && c.Call.Args[0] == ssa.Value(itemP) {
			// the key ranges over a removed-set kept by the environment …
			for _, o := range e.origins(c.Call.Args[1]) {
				if strings.HasPrefix(o, "rangekey-of field:Environment.") {
					deletes = true
				}
			}
			// … or the deletion is under a "not in store" test
			for _, cd := range condsAt(in.Block()) {
				cd = normCond(cd)
				if ex, isEx := cd.V.(*ssa.Extract); isEx && !cd.Val {
					if lk, isLk := ex.Tuple.(*ssa.Lookup); isLk {
						if f, _ := loadedField(lk.X); f != nil && f.Name() == "store" {
							deletes = true
						}
					}
				}
			}
		}
	})
	if deletes {
		e.pass("R5", e.fname(ap)+":removed-means-gone", e.pos(ap.Pos()), "attributes of the item that the environment no longer holds are deleted on write-back")
	} else {
		e.fail("R5", e.fname(ap)+":removed-means-gone", e.pos(ap.Pos()), "the environment is written back entry by entry and nothing is ever deleted from the item: an attribute removed by REMOVE stays in the stored item")
	}
}

func c07R6(e *Engine) {
	ap := e.applyFn()
	if !e.anchor("R6", "lang.Environment write-back function", ap == nil) {
		return
	}
	// the write-back MapUpdate must be filtered by a target/dirty set besides the exclusion of value placeholders
	filtered := false
	nfilters := 0
	instrs(ap, func(in ssa.Instruction) {
		mu, ok := in.(*ssa.MapUpdate)
		if !ok {
			return
		}
		if _, isP := mu.Map.(*ssa.Parameter); !isP {
			return
		}
		for _, cd := range condsAt(in.Block()) {
			if ex, isEx := cd.V.(*ssa.Extract); isEx {
				if _, isNext := ex.Tuple.(*ssa.Next); isNext {
					continue
				}
				if lk, isLk := ex.Tuple.(*ssa.Lookup); isLk {
					nfilters++
					if f, _ := loadedField(lk.X); f != nil { // a field of the environment: dirty/target set
						filtered = true
					}
				}
			}
			if lk, isLk := cd.V.(*ssa.Lookup); isLk {
				nfilters++
				if f, _ := loadedField(lk.X); f != nil {
					filtered = true
				}
			}
		}
	})
	if filtered {
		e.pass("R6", e.fname(ap)+":only-targets-written", e.pos(ap.Pos()), "write-back is restricted to a set of targeted attributes kept by the environment")
	} else {
		e.fail("R6", e.fname(ap)+":only-targets-written", e.pos(ap.Pos()), "every attribute held by the environment is re-serialised into the item (only the value placeholders are excluded): attributes the expression does not target are rewritten through the object layer – numbers through float64 (9007199254740993 becomes 9007199254740992), sets in another order")
	}
}

func c07R7(e *Engine) {
	for _, fn := range e.funcs("lang") {
		labels := map[string]*ssa.BinOp{}
		instrs(fn, func(in ssa.Instruction) {
			if b, ok := in.(*ssa.BinOp); ok && b.Op == token.EQL {
				if s, isK := constString(b.Y); isK && (s == "+" || s == "-") {
					labels[s] = b
				}
			}
		})
		if len(labels) != 2 {
			continue
		}
		// the helper that evaluates both terms returns (left, right, err)
		for label, want := range map[string]token.Token{"+": token.ADD, "-": token.SUB} {
			construct := e.fname(fn) + ":case[" + label + "]"
			found := false
			instrs(fn, func(in ssa.Instruction) {
				b, ok := in.(*ssa.BinOp)
				if !ok || (b.Op != token.ADD && b.Op != token.SUB && b.Op != token.MUL && b.Op != token.QUO) {
					return
				}
				if bt := b.Type().Underlying().String(); bt != "float64" && bt != "int64" && bt != "int" {
					return
				}
				on := false
				for _, cd := range condsAt(in.Block()) {
					cd = normCond(cd)
					if cd.V == ssa.Value(labels[label]) && cd.Val {
						on = true
					}
				}
				if !on {
					return
				}
				found = true
				// operand order: X from result #0, Y from result #1 of the terms helper
				idx := func(v ssa.Value) int {
					for i := 0; i < 6; i++ {
						switch x := v.(type) {
						case *ssa.UnOp:
							v = x.X
						case *ssa.FieldAddr:
							v = x.X
						case *ssa.Extract:
							return x.Index
						default:
							return -1
						}
					}
					return -1
				}
				order := idx(b.X) == 0 && idx(b.Y) == 1
				switch {
				case b.Op != want:
					e.fail("R7", construct, e.ipos(in), "%q computes left %s right", label, b.Op)
				case !order:
					e.fail("R7", construct, e.ipos(in), "%q does not compute (left, right) in that order", label)
				default:
					e.pass("R7", construct, e.ipos(in), "%q ↦ left %s right", label, b.Op)
				}
			})
			if !found {
				e.fail("R7", construct, e.pos(fn.Pos()), "no arithmetic found for %q", label)
			}
		}
		// the terms helper evaluates node.Left into result 0 and node.Right into result 1
		for _, g := range e.funcs("lang") {
			if g.Signature.Results().Len() != 3 || g.Parent() != nil {
				continue
			}
			if !strings.HasSuffix(typeName(g.Signature.Results().At(0).Type()), "language.Number") {
				continue
			}
			takesNode := false
			for _, prm := range g.Params {
				if nt := namedOf(prm.Type()); nt != nil && nt.Obj().Name() == "InfixExpression" {
					takesNode = true
				}
			}
			if !takesNode {
				continue // a projection helper (pair.numbers()): judged through its caller
			}
			ok := true
			for _, r := range returnsOf(g) {
				rv := retVals(r)
				if isNilConst(rv[0]) {
					continue
				}
				o0 := strings.Join(e.originsEval(rv[0]), "|")
				o1 := strings.Join(e.originsEval(rv[1]), "|")
				if os.Getenv("MINICHECK_TRACE") != "" {
					fmt.Println("TRACE term-order", e.fname(g), "o0=", o0, "o1=", o1)
				}
				if !strings.Contains(o0, "eval-of field:InfixExpression.Left") || strings.Contains(o0, "InfixExpression.Right") || !strings.Contains(o1, "eval-of field:InfixExpression.Right") || strings.Contains(o1, "InfixExpression.Left") {
					ok = false
				}
			}
			e.check(ok, "R7", e.fname(g)+":term-order", e.pos(g.Pos()), "first result is the evaluated left operand, second the right operand")
		}
	}
	e.minCount("R7", 3)
}

// calleeArgOrigins: for a value obtained by asserting the result of a call, the origins of that call's first argument.
func (e *Engine) calleeArgOrigins(v ssa.Value) []string {
	for i := 0; i < 6; i++ {
		v = strip(v)
		switch x := v.(type) {
		case *ssa.Extract:
			v = x.Tuple
		case *ssa.TypeAssert:
			v = x.X
		case *ssa.Call:
			if len(x.Call.Args) > 0 {
				return e.origins(x.Call.Args[0])
			}
			return nil
		default:
			return nil
		}
	}
	return nil
}

func c07R8(e *Engine) {
	_, disp := e.actionHandlers()
	if !e.anchor("R8", "action dispatch", disp == nil) {
		return
	}
	// the loop over the actions: does one iteration both evaluate a right-hand side and write the environment?
	evalUpd := e.fn("lang", "EvalUpdate")
	for _, c := range e.callersOf(disp) {
		fn := c.Parent()
		loops := naturalLoops(fn)
		in := c.(ssa.Instruction)
		inLoop := false
		for _, body := range loops {
			if body[in.Block()] {
				inLoop = true
			}
		}
		if !inLoop {
			continue
		}
		rs := e.reach(disp)
		evals, writes := evalUpd != nil && rs[evalUpd], false
		for g := range rs {
			if g.Signature.Recv() != nil && namedOf(g.Signature.Recv().Type()) != nil && namedOf(g.Signature.Recv().Type()).Obj().Name() == "Environment" && (g.Name() == "Set" || g.Name() == "Remove") {
				writes = true
			}
		}
		construct := e.fname(fn) + ":two-phase"
		if evals && writes {
			e.fail("R8", construct, e.ipos(in), "one loop evaluates each action's right-hand side and immediately writes its result into the environment: a later action reads the values written by earlier ones (`SET a = :x, b = a` gives b the new a) instead of the pre-update item")
		} else {
			e.pass("R8", construct, e.ipos(in), "right-hand sides are evaluated in a phase separate from the writes")
		}
	}
	if len(e.obs) == 0 || e.obs[len(e.obs)-1].Rule != "R8" {
		e.undecided("R8", "two-phase", "-", "action loop not found")
	}
}

var _ = fmt.Sprint

// c07R10: `SET a = list_append(b, :v)` hands the function the environment's object of attribute b. A function that
// extends or rewrites that object in place changes b – an attribute the expression does not target. Every function in the
// function table (and the update arithmetic) must leave the objects behind its parameters unmodified: no store through a
// value derived from a parameter.
func c07R10(e *Engine) {
	g := e.global("lang", "functions")
	if !e.anchor("R10", "lang.functions (function table)", g == nil) {
		return
	}
	// the functions stored in the table
	var fns []*ssa.Function
	seen := map[*ssa.Function]bool{}
	scan := append([]*ssa.Function{}, e.funcs("lang")...)
	for role, sp := range e.SSA {
		if f := sp.Func("init"); f != nil && role == "lang" {
			scan = append(scan, f) // the table is a package-level literal: its stores are in the synthetic init
		}
	}
	for _, fn := range scan {
		instrs(fn, func(in ssa.Instruction) {
			st, ok := in.(*ssa.Store)
			if !ok {
				return
			}
			fa, ok := st.Addr.(*ssa.FieldAddr)
			if !ok || fieldOf(fa).Name() != "Value" || namedOf(fa.X.Type()) == nil || namedOf(fa.X.Type()).Obj().Name() != "Function" {
				return
			}
			for _, f := range e.closuresOf(st.Val, nil, 0) {
				if !seen[f] {
					seen[f] = true
					fns = append(fns, f)
				}
			}
		})
	}
	if iu := e.fn("lang", "evalInfixUpdate"); iu != nil && !seen[iu] {
		fns = append(fns, iu)
	}
	sort.Slice(fns, func(i, j int) bool { return fns[i].Pos() < fns[j].Pos() })
	n := 0
	for _, fn := range fns {
		if fn.Blocks == nil {
			continue
		}
		n++
		construct := e.fname(fn) + ":operands-unmodified"
		der := derivedFrom(fn, fn.Params)
		bad := ""
		instrs(fn, func(in ssa.Instruction) {
			switch x := in.(type) {
			case *ssa.Store:
				if der[x.Addr] {
					bad = "a store through an operand at " + e.ipos(in)
				}
			case *ssa.MapUpdate:
				if der[x.Map] {
					bad = "a map update on an operand at " + e.ipos(in)
				}
			case *ssa.Call:
				if staticCalleeName(x) == "builtin.delete" && der[x.Call.Args[0]] {
					bad = "a delete on an operand at " + e.ipos(in)
				}
				if staticCalleeName(x) == "builtin.copy" && der[x.Call.Args[0]] {
					bad = "a copy into an operand at " + e.ipos(in)
				}
				// mutating methods of the object types called on an operand
				if c := x.Call.StaticCallee(); c != nil && c.Signature.Recv() != nil && len(x.Call.Args) > 0 && der[x.Call.Args[0]] {
					switch c.Name() {
					case "Add", "Delete", "Remove", "Set", "Compact":
						bad = "the mutating method " + e.fname(c) + " is called on an operand at " + e.ipos(in)
					}
				}
				if x.Call.IsInvoke() && der[x.Call.Value] {
					switch x.Call.Method.Name() {
					case "Add", "Delete", "Remove", "Set", "Compact":
						bad = "the mutating method " + x.Call.Method.Name() + " is called on an operand at " + e.ipos(in)
					}
				}
			}
		})
		if bad != "" {
			e.fail("R10", construct, e.pos(fn.Pos()), "%s: the operand is the environment's own object of another attribute, which is written back with the item – an attribute the expression does not target changes", bad)
		} else {
			e.pass("R10", construct, e.pos(fn.Pos()), "no store, map update, delete or mutating method reaches an object received as an operand")
		}
	}
	if n < 4 {
		e.fail("R10", "count:R10", "-", "only %d functions of the update grammar found", n)
	}
}

// c07R11: `SET a = b` evaluates b to the environment's own object of b. Storing that very object under a makes a and b
// one object; a later clause that changes b in place (SET b[0] = …, REMOVE b[1], ADD b …) changes a too, although a was
// to receive b's pre-update value. What the SET handler stores must have gone through a copying function.
func c07R11(e *Engine) {
	hs, _ := e.actionHandlers()
	set := hs["SET"]
	eu := e.fn("lang", "EvalUpdate")
	get := e.fn("lang", "Environment.Get")
	if !e.anchor("R11", "SET handler / EvalUpdate / Environment.Get", set == nil || eu == nil || get == nil) {
		return
	}
	if !e.reach(eu)[get] {
		e.pass("R11", e.fname(set)+":stores-a-copy", e.pos(set.Pos()), "operand evaluation never hands out an environment object")
		return
	}
	n := 0
	bad := ""
	instrs(set, func(in ssa.Instruction) {
		c, ok := in.(*ssa.Call)
		if !ok || c.Call.StaticCallee() == nil || e.fnRole(c.Call.StaticCallee()) != "lang" {
			return
		}
		g := c.Call.StaticCallee()
		// the storing calls: Environment.Set(name, value) and the path assignment helper (…, value, env)
		vi := -1
		switch {
		case g.Name() == "Set" && g.Signature.Recv() != nil && len(c.Call.Args) == 3:
			vi = 2
		case g != eu && g.Signature.Recv() == nil && e.reach(g)[e.fn("lang", "indexAccessor.Set")]:
			for i, a := range c.Call.Args {
				if i > 0 && typeName(a.Type()) == "language.Object" {
					vi = i
				}
			}
		}
		if vi < 0 {
			return
		}
		n++
		v := strip(c.Call.Args[vi])
		vc, isCall := v.(*ssa.Call)
		switch {
		case isCall && (vc.Call.StaticCallee() == eu || vc.Call.StaticCallee() == e.fn("lang", "Eval")):
			bad = "the object returned by " + e.fname(vc.Call.StaticCallee()) + " is stored as it is at " + e.ipos(c)
		case isCall && vc.Call.StaticCallee() != nil && e.fnRole(vc.Call.StaticCallee()) == "lang":
			// a copying function: accepted when it can build new objects
			fresh := false
			for h := range e.reach(vc.Call.StaticCallee()) {
				instrs(h, func(j ssa.Instruction) {
					if al, ok := j.(*ssa.Alloc); ok && al.Heap && namedOf(al.Type()) != nil && e.roleOf(namedOf(al.Type()).Obj().Pkg()) == "lang" {
						fresh = true
					}
				})
			}
			if !fresh {
				bad = "the value stored at " + e.ipos(c) + " comes from " + e.fname(vc.Call.StaticCallee()) + ", which builds no new object"
			} else if why := e.returnsOperandUncopied(vc.Call.StaticCallee()); why != "" {
				bad = e.fname(vc.Call.StaticCallee()) + " " + why
			}
		default:
			bad = "the value stored at " + e.ipos(c) + " is not the result of a copying function"
		}
	})
	construct := e.fname(set) + ":stores-a-copy"
	switch {
	case n == 0:
		e.undecided("R11", construct, e.pos(set.Pos()), "no storing call found in the SET handler")
	case bad != "":
		e.fail("R11", construct, e.pos(set.Pos()), "%s: the target and the operand attribute share one object, and later clauses change objects in place – `SET a = b, b[0] = :x` also changes a[0]", bad)
	default:
		e.pass("R11", construct, e.pos(set.Pos()), "%d storing call(s) store the result of a copying function", n)
	}
}

// derivedFrom: values of fn reached from the given roots by type assertion, field/element selection, dereference, slicing
// and phis (the memory those roots give access to).
func derivedFrom(fn *ssa.Function, roots []*ssa.Parameter) map[ssa.Value]bool {
	der := map[ssa.Value]bool{}
	for _, p := range roots {
		der[p] = true
	}
	for changed := true; changed; {
		changed = false
		instrs(fn, func(in ssa.Instruction) {
			v, ok := in.(ssa.Value)
			if !ok || der[v] {
				return
			}
			from := false
			switch x := in.(type) {
			case *ssa.TypeAssert:
				from = der[x.X]
			case *ssa.Extract:
				from = der[x.Tuple]
			case *ssa.UnOp:
				from = x.Op == token.MUL && der[x.X]
			case *ssa.IndexAddr:
				from = der[x.X]
			case *ssa.FieldAddr:
				from = der[x.X]
			case *ssa.Index:
				from = der[x.X]
			case *ssa.Field:
				from = der[x.X]
			case *ssa.Slice:
				from = der[x.X]
			case *ssa.Lookup:
				from = der[x.X]
			case *ssa.ChangeType:
				from = der[x.X]
			case *ssa.Phi:
				for _, ed := range x.Edges {
					if der[ed] {
						from = true
					}
				}
			}
			if from {
				der[v] = true
				changed = true
			}
		})
	}
	return der
}

// mutableObjectTypes: the object types of the evaluator that have a method changing the receiver in place.
func (e *Engine) mutableObjectTypes() map[*types.Named]string {
	out := map[*types.Named]string{}
	for _, fn := range e.funcs("lang") {
		if fn.Signature.Recv() == nil || fn.Parent() != nil || len(fn.Params) == 0 {
			continue
		}
		nt := namedOf(fn.Signature.Recv().Type())
		if nt == nil {
			continue
		}
		der := derivedFrom(fn, fn.Params[:1])
		instrs(fn, func(in ssa.Instruction) {
			switch x := in.(type) {
			case *ssa.Store:
				if der[x.Addr] {
					out[nt] = e.fname(fn)
				}
			case *ssa.MapUpdate:
				if der[x.Map] {
					out[nt] = e.fname(fn)
				}
			case *ssa.Call:
				if n := staticCalleeName(x); (n == "builtin.delete" || n == "builtin.copy") && der[x.Call.Args[0]] {
					out[nt] = e.fname(fn)
				}
			}
		})
	}
	return out
}

// returnsOperandUncopied: the copying function g hands its parameter back. That is harmless when the conversion it
// attempted failed (non-data objects) or when the object's type has no method that changes it in place; for a mutable type
// (Number.Add does i.Value += …) the "copy" still is the operand. Returns "" when every such return is justified.
func (e *Engine) returnsOperandUncopied(g *ssa.Function) string {
	if g == nil || len(g.Params) == 0 {
		return ""
	}
	mut := e.mutableObjectTypes()
	der := derivedFrom(g, g.Params)
	for _, r := range returnsOf(g) {
		v := retVals(r)[0]
		if !der[strip(v)] && !der[v] {
			continue
		}
		// justification per incoming edge of the returning block (a type switch joins its cases in one block)
		type edge struct{ from, to *ssa.BasicBlock }
		var edges []edge
		if len(r.Block().Preds) <= 1 {
			edges = append(edges, edge{nil, r.Block()})
		} else {
			for _, p := range r.Block().Preds {
				edges = append(edges, edge{p, r.Block()})
			}
		}
		for _, ed := range edges {
			var conds []Cond
			if ed.from == nil {
				conds = condsAt(ed.to)
			} else {
				conds = edgeFacts(ed.from, ed.to)
			}
			justified := false
			for _, cd := range conds {
				cd = normCond(cd)
				// conversion failed
				if x, nonNilOnTrue, ok := nilTest(cd.V); ok && cd.Val == nonNilOnTrue && isErrorType(x.Type()) {
					justified = true
				}
				// known to be of an immutable kind
				if ex, ok := cd.V.(*ssa.Extract); ok && cd.Val && ex.Index == 1 {
					if ta, ok := ex.Tuple.(*ssa.TypeAssert); ok && der[ta.X] {
						if nt := namedOf(ta.AssertedType); nt != nil {
							if by, isMut := mut[nt]; isMut {
								return "returns its operand unchanged for " + nt.Obj().Name() + " objects, which " + by + " changes in place"
							}
							justified = true
						}
					}
				}
			}
			if !justified {
				return "returns its operand itself at " + e.ipos(r) + " on a path that is neither a failed conversion nor restricted to immutable object kinds"
			}
		}
	}
	return ""
}

// isAssertOK: v is the ok of a comma-ok type assertion – directly, or as a result of a package-local helper every return
// of which yields false or such an ok at that position.
func (e *Engine) isAssertOK(v ssa.Value, depth int) bool {
	ex, ok := v.(*ssa.Extract)
	if !ok || depth > 2 {
		return false
	}
	switch t := ex.Tuple.(type) {
	case *ssa.TypeAssert:
		return ex.Index == 1
	case *ssa.Call:
		h := t.Call.StaticCallee()
		if h == nil || h.Blocks == nil || e.fnRole(h) != "lang" || ex.Index >= h.Signature.Results().Len() || !isBoolType(h.Signature.Results().At(ex.Index).Type()) {
			return false
		}
		some := false
		for _, r := range returnsOf(h) {
			rv := retVals(r)[ex.Index]
			if b, isK := constBool(rv); isK {
				if !b {
					continue
				}
				// a constant true is as good as the ok itself when it is returned on the ok side of the assertion
				governed := false
				for _, cd := range condsAt(r.Block()) {
					cd = normCond(cd)
					if cd.Val && e.isAssertOK(cd.V, depth+1) {
						governed = true
					}
				}
				if !governed {
					return false
				}
				some = true
				continue
			}
			if !e.isAssertOK(rv, depth+1) {
				return false
			}
			some = true
		}
		return some
	}
	return false
}

// c07R14: Environment.Set/Get/Remove resolve the request's aliases. The two functions that move whole items in and out of
// the environment must not: AddAttributes (names of stored attributes and of placeholders) and Apply (names of the
// store's entries, which are attribute names already).
func c07R14(e *Engine) {
	aliasesF := e.field("lang", "Environment", "Aliases")
	for _, name := range []string{"Environment.AddAttributes", "Environment.Apply"} {
		fn := e.fn("lang", name)
		if !e.anchor("R14", "lang."+name, fn == nil || aliasesF == nil) {
			continue
		}
		bad := ""
		for g := range e.reach(fn) {
			if e.fnRole(g) != "lang" {
				continue
			}
			// object conversions (ToDynamoDB / MapToObject) are not name handling; only look at Environment methods
			if g != fn && (g.Signature.Recv() == nil || namedOf(g.Signature.Recv().Type()) == nil || namedOf(g.Signature.Recv().Type()).Obj().Name() != "Environment") {
				continue
			}
			instrs(g, func(in ssa.Instruction) {
				lk, ok := in.(*ssa.Lookup)
				if !ok {
					return
				}
				if f, _ := loadedField(lk.X); f == aliasesF {
					bad = "an alias lookup in " + e.fname(g) + " at " + e.ipos(in)
				}
				if p, isP := strip(lk.X).(*ssa.Parameter); isP && g == fn {
					if mt, isMap := p.Type().Underlying().(*types.Map); isMap && isStringType(mt.Key()) && isStringType(mt.Elem()) {
						bad = "a lookup in the alias table handed in as " + p.Name() + " at " + e.ipos(in)
					}
				}
			})
		}
		construct := "lang." + name + ":literal-names"
		if bad != "" {
			e.fail("R14", construct, e.pos(fn.Pos()), "%s: an attribute literally named like an alias key (\"#s\") is stored under, or renamed to, the attribute that alias stands for – conditions see the wrong value and an unrelated update rewrites the item", bad)
		} else {
			e.pass("R14", construct, e.pos(fn.Pos()), "no alias table is consulted while whole items are moved in or out of the environment")
		}
	}
}

// c07R13: REMOVE marks list elements and the environment compacts the lists once, after the last action, so that every
// position in the expression refers to the list as stored. A read accessor that compacts (or otherwise changes) its
// receiver shifts the positions seen by later clauses: `REMOVE l[0] SET l[1].x = :v` then hits the wrong element.
func c07R13(e *Engine) {
	readers := map[string]bool{"Get": true, "Contains": true, "Type": true, "Inspect": true, "ToDynamoDB": true}
	mutators := map[string]bool{"Add": true, "Delete": true, "Remove": true, "Set": true, "Compact": true}
	n := 0
	for _, fn := range e.funcs("lang") {
		if fn.Signature.Recv() == nil || fn.Parent() != nil || !readers[fn.Name()] || len(fn.Params) == 0 {
			continue
		}
		nt := namedOf(fn.Signature.Recv().Type())
		if nt == nil || nt.Obj().Name() == "Environment" || nt.Obj().Name() == "Parser" || nt.Obj().Name() == "indexAccessor" {
			continue
		}
		n++
		der := derivedFrom(fn, fn.Params[:1])
		bad := ""
		instrs(fn, func(in ssa.Instruction) {
			switch x := in.(type) {
			case *ssa.Store:
				if der[x.Addr] {
					bad = "a store through the receiver at " + e.ipos(in)
				}
			case *ssa.MapUpdate:
				if der[x.Map] {
					bad = "a map update on the receiver at " + e.ipos(in)
				}
			case *ssa.Call:
				if nme := staticCalleeName(x); (nme == "builtin.delete" || nme == "builtin.copy") && der[x.Call.Args[0]] {
					bad = nme + " on the receiver at " + e.ipos(in)
				}
				if c := x.Call.StaticCallee(); c != nil && c.Signature.Recv() != nil && len(x.Call.Args) > 0 && der[x.Call.Args[0]] && mutators[c.Name()] {
					bad = "the mutating method " + e.fname(c) + " is called on the receiver at " + e.ipos(in)
				}
				if x.Call.IsInvoke() && der[x.Call.Value] && mutators[x.Call.Method.Name()] {
					bad = "the mutating method " + x.Call.Method.Name() + " is called on the receiver at " + e.ipos(in)
				}
			}
		})
		construct := e.fname(fn) + ":read-only"
		if bad != "" {
			e.fail("R13", construct, e.pos(fn.Pos()), "%s: reading the object changes it – a list compacted while an update is still being evaluated shifts the positions the remaining clauses refer to", bad)
		} else {
			e.ob("R13", construct, e.pos(fn.Pos()), Pass, false, "stores nothing through its receiver")
		}
	}
	if n < 15 {
		e.fail("R13", "count:R13", "-", "only %d read accessors found", n)
	}
}

// c07R16: the environment keeps two maps keyed by attribute name – the store and the set of removed attributes (what
// Apply deletes from the item). Within one method every access to the two maps uses the SAME key value (the name after
// alias resolution): a removal recorded under the alias as written deletes nothing from the item, a Set that clears the
// mark under another name leaves the attribute marked.
func c07R16(e *Engine) {
	storeF := e.field("lang", "Environment", "store")
	remF := e.field("lang", "Environment", "removed")
	if !e.anchor("R16", "lang.Environment.store/removed", storeF == nil || remF == nil) {
		return
	}
	n := 0
	for _, fn := range e.funcs("lang") {
		type acc struct {
			key ssa.Value
			in  ssa.Instruction
		}
		var storeKeys, remKeys []acc
		instrs(fn, func(in ssa.Instruction) {
			var m, k ssa.Value
			switch x := in.(type) {
			case *ssa.MapUpdate:
				m, k = x.Map, x.Key
			case *ssa.Lookup:
				m, k = x.X, x.Index
			case *ssa.Call:
				if staticCalleeName(x) == "builtin.delete" {
					m, k = x.Call.Args[0], x.Call.Args[1]
				}
			}
			if m == nil {
				return
			}
			f, _ := loadedField(m)
			switch f {
			case storeF:
				storeKeys = append(storeKeys, acc{strip(k), in})
			case remF:
				if _, isLookup := in.(*ssa.Lookup); !isLookup {
					remKeys = append(remKeys, acc{strip(k), in})
				}
			}
		})
		if len(remKeys) == 0 || len(storeKeys) == 0 {
			continue
		}
		n++
		bad := ""
		for _, r := range remKeys {
			same := false
			for _, s := range storeKeys {
				if s.key == r.key {
					same = true
				}
			}
			if !same {
				bad = e.ipos(r.in)
			}
		}
		construct := e.fname(fn) + ":store-and-removed-keys-agree"
		if bad != "" {
			e.fail("R16", construct, bad, "the set of removed attributes is written under a key that is not the key used for the store in the same method (the name before alias resolution, say): what Apply deletes from the item is not what was removed from the environment")
		} else {
			e.pass("R16", construct, e.pos(fn.Pos()), "store and removed-set are accessed under one key value")
		}
	}
	if n < 2 {
		e.fail("R16", "count:R16", "-", "only %d methods keep the store and the removed-set in step (Set and Remove expected)", n)
	}
}

// c07R17: list positions in an update expression address the list as it was before the update. Elements removed by
// REMOVE are only marked; the list is compacted once, after every action has been applied (Environment.Compact, called by
// the update evaluation at its end). Nothing else may compact: who-may-call on the compaction of lists.
func c07R17(e *Engine) {
	var compacts []*ssa.Function
	for _, fn := range e.funcs("lang") {
		if fn.Name() == "Compact" && fn.Signature.Recv() != nil {
			if nt := namedOf(fn.Signature.Recv().Type()); nt != nil && nt.Obj().Name() != "Environment" {
				compacts = append(compacts, fn)
			}
		}
	}
	envCompact := e.fn("lang", "Environment.Compact")
	if !e.anchor("R17", "lang.<object>.Compact / Environment.Compact", len(compacts) == 0 || envCompact == nil) {
		return
	}
	for _, c := range compacts {
		for _, site := range e.callersOf(c) {
			construct := e.fname(site.Parent()) + ":compaction-only-at-the-end"
			if site.Parent() == envCompact {
				e.pass("R17", construct, e.ipos(site.(ssa.Instruction)), "compaction of %s by the environment's end-of-update pass", e.fname(c))
			} else {
				e.fail("R17", construct, e.ipos(site.(ssa.Instruction)), "%s is compacted while the update is still being applied: a later clause's list index then addresses the list after the removals instead of the list before the update – the targeted element keeps its value and another one is overwritten", e.fname(c))
			}
		}
	}
	// the end-of-update pass itself runs after the actions: its callers call it after the action dispatch
	for _, site := range e.callersOf(envCompact) {
		fn := site.Parent()
		_, disp := e.actionHandlers()
		ok := true
		if disp != nil {
			for _, d := range e.callersOf(disp) {
				if d.Parent() == fn && mayFollow(site.(ssa.Instruction), d.(ssa.Instruction)) {
					ok = false // an action can still be applied after the compaction
				}
			}
		}
		e.check(ok, "R17", e.fname(fn)+":compacts-after-the-actions", e.ipos(site.(ssa.Instruction)), "the environment is compacted after the actions have been applied")
	}
}
