package main

import (
	"fmt"
	"go/token"
	"go/types"
	"strings"

	"golang.org/x/tools/go/ssa"
)

// T-CASE: path-case effect analysis of a mutator on a paired (map M, sorted slice S).
//
// Every acyclic entry→return path of the function is abstracted into the ordered list of effects it has on M and S
// and the branch facts it relies on. The net effect on M (was key k present before / after, with which value)
// determines the net effect S must receive so that "S is the sorted multiset of M's keys (or values)" is preserved.

type pairSpec struct {
	name     string
	M, S     *types.Var
	byValue  bool // S holds M's values (index: refs→sortedKeys); false: S holds M's keys (table: Data→SortedKeys)
	emptyVal bool // a "" value means "absent" for byValue pairs is NOT assumed; handled by code paths
}

type effKind int

const (
	effMapPut effKind = iota
	effMapDel
	effMapClear
	effAppend
	effSort
	effRemove
	effReplace
	effSliceClear
	effInsertSorted
)

func (k effKind) String() string {
	return [...]string{"M[k]=v", "delete(M,k)", "M=new", "S=append(S,x)", "sort(S)", "remove(S,x)", "S[search(x)]=y", "S=empty", "insert x at search(x)"}[k]
}

type effect struct {
	kind effKind
	k, v ssa.Value // map key / value ; for slice effects v = element x, k = replacement y (replace)
	in   ssa.Instruction
	// param mode: v is not the element but the helper's position parameter (removeKeyAt(keys, pos)); the caller's
	// argument must be SearchStrings(S, x) and x becomes the element when the helper is inlined
	vIsPos bool
}

type tfact struct {
	v   ssa.Value
	val bool
}

type tpath struct {
	effects []effect
	facts   []tfact
	eqs     []symEq // callee parameter == call argument, for inlined helpers
	ret     ssa.Instruction
	clash   bool        // the same helper was inlined twice with different arguments
	pending []*ssa.Call // slice helpers that changed the slice and whose result has not been assigned to S yet
}

type tcase struct {
	e    *Engine
	spec pairSpec
	// param mode: the function under analysis is a pure helper on a slice (insertSorted(keys, k) []string); its slice
	// parameter stands for S, what it returns is what the caller assigns to S
	sParam ssa.Value
}

// isS: v denotes the current contents of S – a load of the field, or in param mode the slice parameter and what has
// been appended to it.
func (tc *tcase) isS(v ssa.Value) bool {
	v = strip(v)
	if _, ok := loadOfFieldBase(v, tc.spec.S); ok {
		return true
	}
	if pr, ok := v.(*ssa.Parameter); ok && tc.sParam == nil {
		// facts carried over from an inlined slice helper talk about its slice parameter
		if pi, isH := tc.sliceHelper(pr.Parent()); isH && pr.Parent().Params[pi] == pr {
			return true
		}
	}
	if tc.sParam == nil {
		return false
	}
	if v == tc.sParam {
		return true
	}
	if c, ok := v.(*ssa.Call); ok && staticCalleeName(c) == "builtin.append" {
		return tc.isS(c.Call.Args[0])
	}
	return false
}

// sliceHelper: g is a package-local function with exactly one parameter of S's type whose first result has S's type
// (keys in, keys out) and no access to the pair's fields. Returns the parameter's index.
func (tc *tcase) sliceHelper(g *ssa.Function) (int, bool) {
	if g == nil || g.Blocks == nil || tc.e.fnRole(g) != "core" || g.Signature.Results().Len() == 0 || tc.touches(g) {
		return 0, false
	}
	st := tc.spec.S.Type()
	if !types.Identical(g.Signature.Results().At(0).Type(), st) {
		return 0, false
	}
	idx, n := 0, 0
	for i, p := range g.Params {
		if types.Identical(p.Type(), st) {
			idx, n = i, n+1
		}
	}
	return idx, n == 1
}

// fromCall: v is the (first) result of call c.
func fromCall(v ssa.Value, c *ssa.Call) bool {
	v = strip(v)
	if v == ssa.Value(c) {
		return true
	}
	ex, ok := v.(*ssa.Extract)
	return ok && ex.Index == 0 && ex.Tuple == ssa.Value(c)
}

// baseOf returns the struct pointer/base value through which field f is accessed by load/store addr `addr`.
func fieldAddrOf(v ssa.Value, f *types.Var) (*ssa.FieldAddr, bool) {
	fa, ok := v.(*ssa.FieldAddr)
	if ok && fieldOf(fa) == f {
		return fa, true
	}
	return nil, false
}

// loadOf: v is *(&base.f) ; returns base.
func loadOfFieldBase(v ssa.Value, f *types.Var) (ssa.Value, bool) {
	v = strip(v)
	u, ok := v.(*ssa.UnOp)
	if !ok || u.Op != token.MUL {
		return nil, false
	}
	fa, ok := fieldAddrOf(u.X, f)
	if !ok {
		return nil, false
	}
	return fa.X, true
}

// variadicElems returns the elements of a variadic slice built as new [n]T; stores; slice.
func variadicElems(s ssa.Value) []ssa.Value {
	sl, ok := s.(*ssa.Slice)
	if !ok {
		return nil
	}
	al, ok := sl.X.(*ssa.Alloc)
	if !ok {
		return nil
	}
	var out []ssa.Value
	for _, r := range refsOf(al) {
		if ia, ok := r.(*ssa.IndexAddr); ok {
			for _, st := range storesTo(ia) {
				out = append(out, st.Val)
			}
		}
	}
	return out
}

func isEmptySliceValue(v ssa.Value) bool {
	v = strip(v)
	if isNilConst(v) {
		return true
	}
	switch x := v.(type) {
	case *ssa.Slice:
		if al, ok := x.X.(*ssa.Alloc); ok {
			if p, ok := al.Type().Underlying().(*types.Pointer); ok {
				if arr, ok := p.Elem().Underlying().(*types.Array); ok && arr.Len() == 0 {
					return true
				}
			}
		}
	case *ssa.MakeSlice:
		if n, ok := constInt(x.Len); ok && n == 0 {
			return true
		}
	}
	return false
}

// searchOf: v = sort.SearchStrings(load S, x) → x
func (tc *tcase) searchOf(v ssa.Value) (ssa.Value, bool) {
	if p, isParam := strip(v).(*ssa.Parameter); isParam && tc.sParam != nil && isIntType(p.Type()) {
		if sp, ok := tc.sParam.(*ssa.Parameter); ok && sp.Parent() == p.Parent() {
			return p, true // the position is handed in: resolved against the caller's argument when inlined
		}
	}
	c, ok := strip(v).(*ssa.Call)
	if !ok {
		return nil, false
	}
	if staticCalleeName(c) != "sort.SearchStrings" {
		return nil, false
	}
	if !tc.isS(c.Call.Args[0]) {
		return nil, false
	}
	return c.Call.Args[1], true
}

// effectsOf classifies the instruction-level effects of fn on the pair (direct ones only).
func (tc *tcase) effectAt(in ssa.Instruction) (effect, bool, string) {
	M, S := tc.spec.M, tc.spec.S
	switch x := in.(type) {
	case *ssa.MapUpdate:
		if _, ok := loadOfFieldBase(x.Map, M); ok {
			return effect{kind: effMapPut, k: x.Key, v: x.Value, in: in}, true, ""
		}
	case *ssa.Store:
		if fa, ok := fieldAddrOf(x.Addr, M); ok {
			_ = fa
			if _, isMk := strip(x.Val).(*ssa.MakeMap); isMk {
				return effect{kind: effMapClear, in: in}, true, ""
			}
			return effect{}, false, "assignment to " + M.Name() + " of something other than a fresh map"
		}
		if _, ok := fieldAddrOf(x.Addr, S); ok {
			return tc.assigned(x.Val, in)
		}
		// element store S[pos] = y
		if ia, ok := x.Addr.(*ssa.IndexAddr); ok {
			if tc.isS(ia.X) {
				if c, ok := constString(x.Val); ok && c == "" {
					// zeroing the vacated tail slot S[len-1] = "" (part of the remove idiom)
					if b, ok := ia.Index.(*ssa.BinOp); ok && b.Op == token.SUB {
						return effect{}, false, ""
					}
				}
				if _, isShift := tc.shiftLoopStore(x); isShift {
					// for i := pos; i < len(S)-1; i++ { S[i] = S[i+1] } – the written-out form of copy(S[pos:], S[pos+1:])
					return effect{}, false, ""
				}
				if xk, ok := tc.searchOf(ia.Index); ok {
					// binary insertion: S = append(S, zero); copy(S[pos+1:], S[pos:]); S[pos] = x with pos = search(S, x)
					if strip(xk) == strip(x.Val) && tc.upShiftBefore(in, ia.Index) {
						return effect{kind: effInsertSorted, v: x.Val, in: in}, true, ""
					}
					return effect{kind: effReplace, v: xk, k: x.Val, in: in}, true, ""
				}
				return effect{}, false, "element store into " + S.Name() + " at an index that is not SearchStrings(S,x)"
			}
		}
	case *ssa.Call:
		name := staticCalleeName(x)
		if name == "builtin.delete" {
			if _, ok := loadOfFieldBase(x.Call.Args[0], M); ok {
				return effect{kind: effMapDel, k: x.Call.Args[1], in: in}, true, ""
			}
		}
		if name == "sort.Strings" || name == "slices.Sort" || name == "sort.Sort" || name == "sort.Stable" {
			a := x.Call.Args[0]
			if mi, ok := a.(*ssa.MakeInterface); ok {
				a = mi.X
			}
			if tc.isS(a) {
				return effect{kind: effSort, in: in}, true, ""
			}
		}
		// param mode: keys = append(keys, x) has no store to recognise it by
		if tc.sParam != nil && name == "builtin.append" && tc.isS(x.Call.Args[0]) {
			els := variadicElems(x.Call.Args[1])
			if len(els) == 1 {
				return effect{kind: effAppend, v: els[0], in: in}, true, ""
			}
			return effect{}, false, "append of other than exactly one element to the " + S.Name() + " slice"
		}
	case *ssa.Return:
		// param mode: what is returned becomes the new S
		if tc.sParam != nil {
			rv := retVals(x)
			if len(rv) == 0 {
				return effect{}, false, "slice helper returns nothing"
			}
			if tc.isS(rv[0]) {
				return effect{}, false, "" // the parameter itself (possibly appended to – recorded at the append)
			}
			return tc.assigned(rv[0], in)
		}
	}
	return effect{}, false, ""
}

func (tc *tcase) isSOK(v ssa.Value) (struct{}, bool) { return struct{}{}, tc.isS(v) }

// assigned classifies the value that becomes the new S (stored into the field, or returned by a slice helper).
func (tc *tcase) assigned(v ssa.Value, in ssa.Instruction) (effect, bool, string) {
	S := tc.spec.S
	val := strip(v)
	if isEmptySliceValue(val) {
		return effect{kind: effSliceClear, in: in}, true, ""
	}
	if c, ok := val.(*ssa.Call); ok && staticCalleeName(c) == "builtin.append" {
		// append(load S, x) or append(S[:pos], S[pos+1:]...)
		if _, ok := tc.isSOK(c.Call.Args[0]); ok {
			els := variadicElems(c.Call.Args[1])
			if len(els) == 1 {
				if z, isZ := constString(els[0]); isZ && z == "" && tc.growsForInsertion(in) {
					return effect{}, false, "" // the slot opened for a binary insertion; the insertion is recorded at the store
				}
				return effect{kind: effAppend, v: els[0], in: in}, true, ""
			}
			return effect{}, false, "append of other than exactly one element to " + S.Name()
		}
		if lo, ok := c.Call.Args[0].(*ssa.Slice); ok && lo.Low == nil && lo.High != nil {
			if hi, ok := c.Call.Args[1].(*ssa.Slice); ok && hi.High == nil && hi.Low != nil {
				if xk, ok := tc.searchOf(lo.High); ok {
					if b, ok := hi.Low.(*ssa.BinOp); ok && b.Op == token.ADD && b.X == lo.High {
						if n, ok := constInt(b.Y); ok && n == 1 {
							return effect{kind: effRemove, v: xk, in: in, vIsPos: isPosParam(xk)}, true, ""
						}
					}
				}
			}
		}
		return effect{}, false, "unrecognised append form assigned to " + S.Name()
	}
	if sl, ok := val.(*ssa.Slice); ok {
		// truncation S = S[:len(S)-1] after copy(S[pos:], S[pos+1:])
		if tc.isS(sl.X) && sl.Low == nil && sl.High != nil {
			if b, ok := sl.High.(*ssa.BinOp); ok && b.Op == token.SUB {
				if n, ok := constInt(b.Y); ok && n == 1 {
					if lc, ok := b.X.(*ssa.Call); ok && staticCalleeName(lc) == "builtin.len" {
						// find the dominating copy
						var xk ssa.Value
						instrs(in.Parent(), func(j ssa.Instruction) {
							c, ok := j.(*ssa.Call)
							if !ok || staticCalleeName(c) != "builtin.copy" || !idominates(c, in) {
								return
							}
							dst, ok1 := c.Call.Args[0].(*ssa.Slice)
							src, ok2 := c.Call.Args[1].(*ssa.Slice)
							if !ok1 || !ok2 || dst.High != nil || src.High != nil || dst.Low == nil || src.Low == nil {
								return
							}
							if !tc.isS(dst.X) || !tc.isS(src.X) {
								return
							}
							k, ok := tc.searchOf(dst.Low)
							if !ok {
								return
							}
							if b2, ok := src.Low.(*ssa.BinOp); ok && b2.Op == token.ADD && b2.X == dst.Low {
								if n2, ok := constInt(b2.Y); ok && n2 == 1 {
									xk = k
								}
							}
						})
						if xk == nil {
							// the shift written as a loop
							instrs(in.Parent(), func(j ssa.Instruction) {
								st, ok := j.(*ssa.Store)
								if !ok {
									return
								}
								if k, isShift := tc.shiftLoopStore(st); isShift && mayFollow(st, in) {
									if phi, _ := st.Addr.(*ssa.IndexAddr).Index.(*ssa.Phi); phi != nil && phi.Block().Dominates(in.Block()) {
										xk = k
									}
								}
							})
						}
						if xk != nil {
							return effect{kind: effRemove, v: xk, in: in, vIsPos: isPosParam(xk)}, true, ""
						}
						return effect{}, false, "truncation of " + S.Name() + " without the copy(S[pos:], S[pos+1:]) shift at pos=SearchStrings(S,x)"
					}
				}
			}
		}
		return effect{}, false, "unrecognised re-slicing assigned to " + S.Name()
	}
	return effect{}, false, "unrecognised assignment to " + S.Name()
}

// enumerate acyclic paths (each block at most twice to allow one loop iteration).
func (tc *tcase) paths(fn *ssa.Function, limit int) ([]tpath, string) {
	var out []tpath
	var problem string
	visits := map[*ssa.BasicBlock]int{}
	var walk func(b *ssa.BasicBlock, p tpath)
	var scan func(b *ssa.BasicBlock, i int, p tpath)
	scan = func(b *ssa.BasicBlock, i int, p tpath) {
		for ; i < len(b.Instrs); i++ {
			if problem != "" || len(out) > limit {
				return
			}
			in := b.Instrs[i]
			// S = helper(S, x): the helper's effects were applied when it was called; this is the assignment of its result
			if st, isSt := in.(*ssa.Store); isSt && tc.sParam == nil {
				if _, toS := fieldAddrOf(st.Addr, tc.spec.S); toS {
					if hc := helperCallOf(st.Val); hc != nil {
						if _, isH := tc.sliceHelper(hc.Call.StaticCallee()); isH {
							var rest []*ssa.Call
							for _, pc := range p.pending {
								if pc != hc {
									rest = append(rest, pc)
								}
							}
							p.pending = rest
							continue
						}
					}
				}
			}
			if c, isCall := in.(*ssa.Call); isCall && !isBuiltin(c) && tc.sParam == nil {
				if pi, isH := tc.sliceHelper(c.Call.StaticCallee()); isH && pi < len(c.Call.Args) && tc.isS(c.Call.Args[pi]) {
					g := c.Call.StaticCallee()
					sub, prob := (&tcase{e: tc.e, spec: tc.spec, sParam: g.Params[pi]}).paths(g, limit)
					if prob != "" {
						problem = prob
						return
					}
					for _, sp := range sub {
						q := p
						rel := relocate(sp.effects, c)
						for k := range rel {
							if !rel[k].vIsPos {
								continue
							}
							// the helper removes at a position it was given: that position must be the caller's search
							okPos := false
							for j, gp := range g.Params {
								if ssa.Value(gp) == rel[k].v && j < len(c.Call.Args) {
									if xk, ok := tc.searchOf(c.Call.Args[j]); ok {
										rel[k].v, rel[k].vIsPos, okPos = xk, false, true
									}
								}
							}
							if !okPos {
								problem = fmt.Sprintf("%s removes the element at a position that is not SearchStrings(%s, x) at %s", staticCalleeName(c), tc.spec.S.Name(), tc.e.ipos(c))
								return
							}
						}
						q.effects = append(append([]effect{}, p.effects...), rel...)
						q.facts = append(append([]tfact{}, p.facts...), sp.facts...)
						q.eqs = append(append([]symEq{}, p.eqs...), sp.eqs...)
						for j, gp := range g.Params {
							if j < len(c.Call.Args) && j != pi {
								for _, prev := range q.eqs {
									if prev.a == ssa.Value(gp) && strip(prev.b) != strip(c.Call.Args[j]) {
										q.clash = true
									}
								}
								q.eqs = append(q.eqs, symEq{gp, c.Call.Args[j]})
							}
						}
						// what the helper reports back on this path (found / not found flags)
						if ret, ok := sp.ret.(*ssa.Return); ok {
							for j, rv := range retVals(ret) {
								if bc, isB := constBool(rv); isB && j > 0 {
									for _, ex := range extractOf(c, j) {
										q.facts = append(q.facts, tfact{ex, bc})
									}
								}
							}
						}
						if len(sp.effects) > 0 {
							q.pending = append(append([]*ssa.Call{}, p.pending...), c)
						}
						scan(b, i+1, q)
					}
					return
				}
			}
			eff, ok, why := tc.effectAt(in)
			if why != "" {
				problem = fmt.Sprintf("%s at %s", why, tc.e.ipos(in))
				return
			}
			if ok {
				p.effects = append(append([]effect{}, p.effects...), eff)
				if _, isRet := in.(*ssa.Return); !isRet {
					continue
				}
			}
			// calls to package-local functions with effects on the pair: inline their paths
			if c, isCall := in.(*ssa.Call); isCall && !isBuiltin(c) {
				g := c.Call.StaticCallee()
				if g != nil && g != fn && g.Blocks != nil && tc.touches(g) {
					sub, prob := tc.paths(g, limit)
					if prob != "" {
						problem = prob
						return
					}
					for _, sp := range sub {
						q := p
						q.effects = append(append([]effect{}, p.effects...), relocate(sp.effects, c)...)
						q.facts = append(append([]tfact{}, p.facts...), sp.facts...)
						q.eqs = append(append([]symEq{}, p.eqs...), sp.eqs...)
						q.clash = p.clash || sp.clash
						for j, gp := range g.Params {
							if j < len(c.Call.Args) {
								for _, prev := range q.eqs {
									if prev.a == ssa.Value(gp) && strip(prev.b) != strip(c.Call.Args[j]) {
										q.clash = true
									}
								}
								q.eqs = append(q.eqs, symEq{gp, c.Call.Args[j]})
							}
						}
						scan(b, i+1, q)
					}
					return
				}
			}
			switch t := in.(type) {
			case *ssa.Return:
				if len(p.pending) > 0 {
					problem = fmt.Sprintf("the slice changed by %s at %s is not assigned back to %s on a path to the return at %s", staticCalleeName(p.pending[0]), tc.e.ipos(p.pending[0]), tc.spec.S.Name(), tc.e.ipos(in))
					return
				}
				p.ret = in
				out = append(out, p)
				return
			case *ssa.Panic:
				return
			case *ssa.If:
				// a flag reported by an inlined helper decides this branch on this path
				if val, known := helperFlag(p.facts, t.Cond); known {
					q := p
					q.facts = append(append([]tfact{}, p.facts...), tfact{t.Cond, val})
					if val {
						walk(b.Succs[0], q)
					} else {
						walk(b.Succs[1], q)
					}
					return
				}
				pt, pf := p, p
				pt.facts = append(append([]tfact{}, p.facts...), tfact{t.Cond, true})
				pf.facts = append(append([]tfact{}, p.facts...), tfact{t.Cond, false})
				walk(b.Succs[0], pt)
				walk(b.Succs[1], pf)
				return
			case *ssa.Jump:
				walk(b.Succs[0], p)
				return
			}
		}
	}
	walk = func(b *ssa.BasicBlock, p tpath) {
		if problem != "" || len(out) > limit {
			return
		}
		if visits[b] >= 2 {
			return
		}
		visits[b]++
		scan(b, 0, p)
		visits[b]--
	}
	if len(fn.Blocks) > 0 {
		walk(fn.Blocks[0], tpath{})
	}
	if len(out) > limit {
		return nil, fmt.Sprintf("more than %d paths", limit)
	}
	return out, problem
}

func isPosParam(v ssa.Value) bool {
	p, ok := v.(*ssa.Parameter)
	return ok && isIntType(p.Type())
}

// helperCallOf: v is the first result of a call.
func helperCallOf(v ssa.Value) *ssa.Call {
	v = strip(v)
	if c, ok := v.(*ssa.Call); ok {
		return c
	}
	if ex, ok := v.(*ssa.Extract); ok && ex.Index == 0 {
		if c, ok := ex.Tuple.(*ssa.Call); ok {
			return c
		}
	}
	return nil
}

// helperFlag: cond is (a negation of) a result of an inlined helper whose value on this path is known.
func helperFlag(facts []tfact, cond ssa.Value) (bool, bool) {
	neg := false
	for {
		if u, ok := cond.(*ssa.UnOp); ok && u.Op == token.NOT {
			cond, neg = u.X, !neg
			continue
		}
		break
	}
	ex, ok := cond.(*ssa.Extract)
	if !ok {
		return false, false
	}
	if _, isCall := ex.Tuple.(*ssa.Call); !isCall {
		return false, false
	}
	for i := len(facts) - 1; i >= 0; i-- {
		if facts[i].v == ssa.Value(ex) {
			return facts[i].val != neg, true
		}
	}
	return false, false
}

func allSameEffects(ps []tpath) bool {
	for _, p := range ps[1:] {
		if len(p.effects) != len(ps[0].effects) {
			return false
		}
		for i := range p.effects {
			if p.effects[i].kind != ps[0].effects[i].kind || p.effects[i].v != ps[0].effects[i].v || p.effects[i].k != ps[0].effects[i].k {
				return false
			}
		}
	}
	return true
}

// relocate attributes a callee's effects to the call instruction (for positions); values stay the callee's and are
// related to the caller's through parameter==argument equalities.
func relocate(effs []effect, c *ssa.Call) []effect {
	out := make([]effect, len(effs))
	for i, ef := range effs {
		out[i] = effect{kind: ef.kind, k: ef.k, v: ef.v, in: c, vIsPos: ef.vIsPos}
	}
	return out
}

// touches: does g (directly) contain an effect on the pair?
func (tc *tcase) touches(g *ssa.Function) bool {
	found := false
	instrs(g, func(in ssa.Instruction) {
		if found {
			return
		}
		switch x := in.(type) {
		case *ssa.FieldAddr:
			if f := fieldOf(x); f == tc.spec.M || f == tc.spec.S {
				for _, a := range tc.e.fieldAccesses(f, []*ssa.Function{g}) {
					if a.Write {
						found = true
					}
				}
			}
		}
	})
	return found
}

// ---- checking a path against the invariant ----

type symEq struct{ a, b ssa.Value }

func sameVal(a, b ssa.Value, eqs []symEq) bool {
	a, b = strip(a), strip(b)
	if a == b {
		return true
	}
	// equalities compose (helper parameter == argument == caller's value …)
	seen := map[ssa.Value]bool{a: true}
	work := []ssa.Value{a}
	for len(work) > 0 {
		x := work[0]
		work = work[1:]
		for _, q := range eqs {
			qa, qb := strip(q.a), strip(q.b)
			var y ssa.Value
			switch x {
			case qa:
				y = qb
			case qb:
				y = qa
			default:
				continue
			}
			if y == b {
				return true
			}
			if !seen[y] {
				seen[y] = true
				work = append(work, y)
			}
		}
	}
	return false
}

// lookupFacts finds, for map key k, the comma-ok lookup(s) of M[k] in fn and what the path knows about presence.
func (tc *tcase) presence(fn *ssa.Function, k ssa.Value, p tpath) (known bool, present bool, old ssa.Value, plainOld ssa.Value) {
	instrs(fn, func(in ssa.Instruction) {
		lk, ok := in.(*ssa.Lookup)
		if !ok {
			return
		}
		if _, ok := loadOfFieldBase(lk.X, tc.spec.M); !ok {
			return
		}
		if strip(lk.Index) != strip(k) {
			return
		}
		if !lk.CommaOk {
			plainOld = lk
			return
		}
		for _, ex := range extractOf(lk, 0) {
			old = ex
		}
		for _, ex := range extractOf(lk, 1) {
			for _, f := range p.facts {
				v, val := f.v, f.val
				for {
					if u, ok := v.(*ssa.UnOp); ok && u.Op == token.NOT {
						v, val = u.X, !val
						continue
					}
					break
				}
				if v == ex {
					known, present = true, val
				}
			}
		}
	})
	return
}

// checkPath verifies one path; returns "" if the invariant is preserved, else a description. infeasible=true when the
// path contradicts the invariant-derived facts and is dropped.
func (tc *tcase) checkPath(fn *ssa.Function, p tpath) (problem string, infeasible bool, nontrivial bool) {
	var mapEffs, sliceEffs []effect
	for _, ef := range p.effects {
		switch ef.kind {
		case effMapPut, effMapDel, effMapClear:
			mapEffs = append(mapEffs, ef)
		default:
			sliceEffs = append(sliceEffs, ef)
		}
	}
	if len(mapEffs) == 0 && len(sliceEffs) == 0 {
		return "", false, false
	}
	if p.clash {
		return "a helper is used twice on one path with different arguments (outside what the case analysis models)", false, true
	}
	// equalities from facts (x == y true / x != y false)
	eqs := append([]symEq{}, p.eqs...)
	for _, f := range p.facts {
		if b, ok := f.v.(*ssa.BinOp); ok {
			if (b.Op == token.EQL && f.val) || (b.Op == token.NEQ && !f.val) {
				eqs = append(eqs, symEq{b.X, b.Y})
			}
		}
	}
	// clear case
	if len(mapEffs) == 1 && mapEffs[0].kind == effMapClear {
		for _, s := range sliceEffs {
			if s.kind == effSliceClear {
				return "", false, true
			}
		}
		return fmt.Sprintf("%s is reset but %s is not emptied on the same path", tc.spec.M.Name(), tc.spec.S.Name()), false, true
	}
	if len(mapEffs) == 0 {
		// slice-only effects: allowed only if it is just a sort (idempotent)
		for _, s := range sliceEffs {
			if s.kind != effSort {
				if s.kind == effSliceClear {
					return fmt.Sprintf("%s is emptied but %s is not reset on the same path", tc.spec.S.Name(), tc.spec.M.Name()), false, true
				}
				return fmt.Sprintf("%s on %s without a matching change of %s", s.kind, tc.spec.S.Name(), tc.spec.M.Name()), false, true
			}
		}
		return "", false, false
	}
	// all map effects must concern the same key
	key := mapEffs[0].k
	for _, m := range mapEffs {
		if m.kind == effMapClear {
			return "map reset mixed with element updates", false, true
		}
		if !sameVal(m.k, key, eqs) {
			return "one path updates two different keys of " + tc.spec.M.Name(), false, true
		}
	}
	known, present, old, plainOld := tc.presence(fn, key, p)
	if known && !tc.lookupPrecedes(fn, key, mapEffs[0].in) {
		return fmt.Sprintf("presence of k in %s is tested only after %s[k] has been changed: the test always sees the new state", tc.spec.M.Name(), tc.spec.M.Name()), false, true
	}
	if !known {
		if plainOld != nil && tc.spec.byValue {
			return fmt.Sprintf("the previous value %s[k] is read without testing presence (a missing entry reads as \"\" and SearchStrings(S,\"\") is 0: another item's entry gets overwritten)", tc.spec.M.Name()), false, true
		}
		return fmt.Sprintf("%s[k] is changed without first establishing whether k was present (comma-ok lookup of the same key)", tc.spec.M.Name()), false, true
	}
	// final state of M[k]
	finalPresent := present
	var finalVal ssa.Value = old
	for _, m := range mapEffs {
		if m.kind == effMapPut {
			finalPresent, finalVal = true, m.v
		} else {
			finalPresent, finalVal = false, nil
		}
	}
	// required delta on S
	type delta struct {
		plus bool
		v    ssa.Value
	}
	var req []delta
	if tc.spec.byValue {
		if present && finalPresent && sameVal(old, finalVal, eqs) {
			// unchanged
		} else {
			if present {
				req = append(req, delta{false, old})
			}
			if finalPresent {
				req = append(req, delta{true, finalVal})
			}
		}
	} else {
		if present && !finalPresent {
			req = append(req, delta{false, key})
		}
		if !present && finalPresent {
			req = append(req, delta{true, key})
		}
	}
	// infeasibility: a "not found" branch for a value the invariant says is in S
	for _, f := range p.facts {
		b, ok := f.v.(*ssa.BinOp)
		if !ok {
			continue
		}
		bx, by, bop := b.X, b.Y, b.Op
		if _, isSearch := tc.searchOf(by); isSearch {
			bx, by, bop = by, bx, flipOp(bop)
		}
		xk, ok := tc.searchOf(bx)
		if !ok {
			continue
		}
		lc, isLen := by.(*ssa.Call)
		if !isLen || staticCalleeName(lc) != "builtin.len" {
			continue
		}
		inS := false
		if tc.spec.byValue {
			inS = present && old != nil && sameVal(xk, old, eqs)
		} else {
			inS = present && sameVal(xk, key, eqs)
		}
		notFound := (bop == token.EQL && f.val) || (bop == token.GEQ && f.val) || (bop == token.LSS && !f.val) || (bop == token.NEQ && !f.val)
		if inS && notFound {
			return "", true, true
		}
	}
	// actual delta
	var act []delta
	lastPlus, lastSort := -1, -1
	for i, s := range sliceEffs {
		switch s.kind {
		case effAppend:
			act = append(act, delta{true, s.v})
			lastPlus = i
		case effRemove:
			act = append(act, delta{false, s.v})
		case effReplace:
			act = append(act, delta{false, s.v}, delta{true, s.k})
			lastPlus = i
		case effInsertSorted:
			act = append(act, delta{true, s.v})
			lastPlus, lastSort = i, i+1 // placed at its sorted position: no re-sort needed
		case effSort:
			lastSort = i
		case effSliceClear:
			return "slice emptied on an element-update path", false, true
		}
	}
	// compare multisets
	used := make([]bool, len(act))
	for _, r := range req {
		found := false
		for i, a := range act {
			if !used[i] && a.plus == r.plus && sameVal(a.v, r.v, eqs) {
				used[i] = true
				found = true
				break
			}
		}
		if !found {
			what := "removed from"
			if r.plus {
				what = "inserted into"
			}
			st := "absent"
			if present {
				st = "present"
			}
			return fmt.Sprintf("case k %s before / %s after: the %s must be %s %s but this path does not do it (effects on %s: %s)", st, presentStr(finalPresent), roleOfDelta(tc.spec, r.plus), what, tc.spec.S.Name(), tc.spec.S.Name(), effList(sliceEffs)), false, true
		}
	}
	for i, a := range act {
		if !used[i] {
			what := "removes"
			if a.plus {
				what = "inserts"
			}
			return fmt.Sprintf("this path %s an element of %s that the change of %s[k] does not call for (k %s before, %s after)", what, tc.spec.S.Name(), tc.spec.M.Name(), presentStr(present), presentStr(finalPresent)), false, true
		}
	}
	if lastPlus >= 0 && lastSort < lastPlus && !(lastSort == lastPlus+1) {
		return fmt.Sprintf("an element is added to %s and the slice is not re-sorted afterwards on this path", tc.spec.S.Name()), false, true
	}
	return "", false, true
}

func presentStr(b bool) string {
	if b {
		return "present"
	}
	return "absent"
}

func roleOfDelta(s pairSpec, plus bool) string {
	if s.byValue {
		if plus {
			return "new index key"
		}
		return "old index key"
	}
	return "key"
}

func effList(effs []effect) string {
	var s []string
	for _, ef := range effs {
		s = append(s, ef.kind.String())
	}
	if len(s) == 0 {
		return "none"
	}
	return strings.Join(s, ", ")
}

// run analyses fn and records one obligation per function (paths are summarised in the detail).
func (tc *tcase) run(rule string, fn *ssa.Function) {
	e := tc.e
	construct := e.fname(fn) + ":" + tc.spec.name
	ps, prob := tc.paths(fn, 64)
	if prob != "" {
		e.undecided(rule, construct, e.pos(fn.Pos()), "mutator of %s/%s uses a construct outside the recognised idiom table: %s", tc.spec.M.Name(), tc.spec.S.Name(), prob)
		return
	}
	checked, dropped := 0, 0
	for _, p := range ps {
		problem, infeasible, nontrivial := tc.checkPath(fn, p)
		if infeasible {
			dropped++
			continue
		}
		if nontrivial {
			checked++
		}
		if problem != "" {
			pos := e.pos(fn.Pos())
			if len(p.effects) > 0 {
				pos = e.ipos(p.effects[0].in)
			}
			e.fail(rule, construct, pos, "%s", problem)
			return
		}
	}
	e.pass(rule, construct, e.pos(fn.Pos()), "%d path(s) enumerated, %d with effects checked against the case table, %d dropped as infeasible under the invariant (value known to be in the slice but search says not found)", len(ps), checked, dropped)
}

// lookupPrecedes: some comma-ok lookup of M[k] in fn is executed before instruction `first` (dominates it).
func (tc *tcase) lookupPrecedes(fn *ssa.Function, k ssa.Value, first ssa.Instruction) bool {
	if first.Parent() != fn {
		return true // effect inside an inlined helper: ordering is judged in the helper's own analysis
	}
	ok := false
	instrs(fn, func(in ssa.Instruction) {
		lk, isLk := in.(*ssa.Lookup)
		if !isLk || !lk.CommaOk || strip(lk.Index) != strip(k) {
			return
		}
		if _, isM := loadOfFieldBase(lk.X, tc.spec.M); !isM {
			return
		}
		if idominates(lk, first) && lk != first {
			ok = true
		}
	})
	return ok
}

// upShiftBefore: a copy(S[pos+1:], S[pos:]) with the same pos dominates instruction in (the tail is moved one slot up).
func (tc *tcase) upShiftBefore(in ssa.Instruction, pos ssa.Value) bool {
	found := false
	instrs(in.Parent(), func(j ssa.Instruction) {
		c, ok := j.(*ssa.Call)
		if !ok || staticCalleeName(c) != "builtin.copy" || !idominates(c, in) {
			return
		}
		dst, ok1 := c.Call.Args[0].(*ssa.Slice)
		src, ok2 := c.Call.Args[1].(*ssa.Slice)
		if !ok1 || !ok2 || dst.High != nil || src.High != nil || dst.Low == nil || src.Low == nil || !tc.isS(dst.X) || !tc.isS(src.X) {
			return
		}
		if strip(src.Low) != strip(pos) {
			return
		}
		if b, isB := dst.Low.(*ssa.BinOp); isB && b.Op == token.ADD && strip(b.X) == strip(pos) {
			if n, isK := constInt(b.Y); isK && n == 1 {
				found = true
			}
		}
	})
	return found
}

// growsForInsertion: the append of a zero element at instruction in is followed (dominated by it) by the up-shift copy of
// a binary insertion in the same function.
func (tc *tcase) growsForInsertion(in ssa.Instruction) bool {
	found := false
	instrs(in.Parent(), func(j ssa.Instruction) {
		c, ok := j.(*ssa.Call)
		if !ok || staticCalleeName(c) != "builtin.copy" || !idominates(in, c) {
			return
		}
		dst, ok1 := c.Call.Args[0].(*ssa.Slice)
		src, ok2 := c.Call.Args[1].(*ssa.Slice)
		if !ok1 || !ok2 || dst.Low == nil || src.Low == nil || !tc.isS(dst.X) || !tc.isS(src.X) {
			return
		}
		if b, isB := dst.Low.(*ssa.BinOp); isB && b.Op == token.ADD && strip(b.X) == strip(src.Low) {
			if _, isSearch := tc.searchOf(src.Low); isSearch {
				found = true
			}
		}
	})
	return found
}

// shiftLoopStore: st is the body of `for i := pos; i < len(S)-1; i++ { S[i] = S[i+1] }` with pos = SearchStrings(S, x):
// returns x. The counter is a phi of pos and i+1, the loop is governed by i < len(S)-1, the stored value is S[i+1].
func (tc *tcase) shiftLoopStore(st *ssa.Store) (ssa.Value, bool) {
	ia, ok := st.Addr.(*ssa.IndexAddr)
	if !ok || !tc.isS(ia.X) {
		return nil, false
	}
	phi, ok := ia.Index.(*ssa.Phi)
	if !ok || len(phi.Edges) != 2 {
		return nil, false
	}
	plusOne := func(v ssa.Value) bool {
		b, ok := v.(*ssa.BinOp)
		if !ok || b.Op != token.ADD || b.X != ssa.Value(phi) {
			return false
		}
		n, ok := constInt(b.Y)
		return ok && n == 1
	}
	var xk ssa.Value
	stepOK := false
	for _, ed := range phi.Edges {
		if plusOne(ed) {
			stepOK = true
		} else if k, ok := tc.searchOf(ed); ok {
			xk = k
		}
	}
	if !stepOK || xk == nil {
		return nil, false
	}
	// the value: S[i+1]
	ld, ok := st.Val.(*ssa.UnOp)
	if !ok || ld.Op != token.MUL {
		return nil, false
	}
	sa, ok := ld.X.(*ssa.IndexAddr)
	if !ok || !tc.isS(sa.X) || !plusOne(sa.Index) {
		return nil, false
	}
	// the guard: i < len(S)-1, on the true edge of which the store lies
	governed := false
	for _, c := range condsAt(st.Block()) {
		b, ok := c.V.(*ssa.BinOp)
		if !ok || !c.Val || b.Op != token.LSS || b.X != ssa.Value(phi) {
			continue
		}
		if sub, ok := b.Y.(*ssa.BinOp); ok && sub.Op == token.SUB {
			if n, ok := constInt(sub.Y); ok && n == 1 {
				if lc, ok := sub.X.(*ssa.Call); ok && staticCalleeName(lc) == "builtin.len" && tc.isS(lc.Call.Args[0]) {
					governed = true
				}
			}
		}
	}
	if !governed {
		return nil, false
	}
	return xk, true
}
