package main

import (
	"go/token"
	"go/types"
	"sort"

	"golang.org/x/tools/go/ssa"
)

// Model of the persistent state of core: Table.Data, Table.SortedKeys, Table.Indexes, index.refs, index.sortedKeys.

type coreState struct {
	e          *Engine
	Data       *types.Var
	SortedKeys *types.Var
	Indexes    *types.Var
	refs       *types.Var
	sortedKeys *types.Var
	sortedRefs *types.Var
	all        []*types.Var // persistent: Data, SortedKeys, refs, sortedKeys
	direct     map[*ssa.Function][]Access
	mayWrite   map[*ssa.Function]bool // transitively writes persistent state
	mutParams  map[*ssa.Function]map[int]bool
	directMut  map[*ssa.Function]bool // the function itself stores into / deletes from a container reached from a parameter
	panics     map[*ssa.Function]bool
}

func (e *Engine) coreModel() *coreState {
	if e.core != nil {
		return e.core
	}
	cs := e.coreModel0()
	e.core = cs
	return cs
}

func (e *Engine) coreModel0() *coreState {
	cs := &coreState{e: e,
		Data: e.field("core", "Table", "Data"), SortedKeys: e.field("core", "Table", "SortedKeys"), Indexes: e.field("core", "Table", "Indexes"),
		refs: e.field("core", "index", "refs"), sortedKeys: e.field("core", "index", "sortedKeys"), sortedRefs: e.field("core", "index", "sortedRefs"),
		direct: map[*ssa.Function][]Access{}, mayWrite: map[*ssa.Function]bool{}, mutParams: map[*ssa.Function]map[int]bool{}}
	if cs.Data == nil || cs.SortedKeys == nil || cs.refs == nil || cs.sortedKeys == nil || cs.Indexes == nil {
		return nil
	}
	cs.all = []*types.Var{cs.Data, cs.SortedKeys, cs.refs, cs.sortedKeys}
	for _, f := range cs.all {
		for fn, accs := range e.writersOf(f, e.all) {
			for _, a := range accs {
				if !a.Fresh { // a constructor filling its own fresh object does not modify existing state
					cs.direct[fn] = append(cs.direct[fn], a)
				}
			}
		}
	}
	for _, fn := range e.all {
		for g := range e.reach(fn) {
			if len(cs.direct[g]) > 0 {
				cs.mayWrite[fn] = true
				break
			}
		}
	}
	cs.computeMutParams()
	cs.panics = e.panicReach()
	return cs
}

// isFieldWrite: instruction is a direct write to persistent field f (nil = any persistent field).
func (cs *coreState) isDirectWrite(in ssa.Instruction, f *types.Var) bool {
	for _, a := range cs.direct[in.Parent()] {
		if a.Instr == in {
			if f == nil {
				return true
			}
			// determine field of this access
			for _, a2 := range cs.e.fieldAccesses(f, []*ssa.Function{in.Parent()}) {
				if a2.Instr == in && a2.Write {
					return true
				}
			}
		}
	}
	return false
}

// computeMutParams: which parameters (by index, receiver included as index 0 for methods) may have a map/slice reachable
// from them mutated by the function (MapUpdate, delete, element store), directly or through callees.
func (cs *coreState) computeMutParams() {
	e := cs.e
	type taint = map[ssa.Value]int // value -> param index it derives from
	derive := func(fn *ssa.Function) taint {
		t := taint{}
		for i, p := range fn.Params {
			t[p] = i
		}
		for changed := true; changed; {
			changed = false
			instrs(fn, func(in ssa.Instruction) {
				v, ok := in.(ssa.Value)
				if !ok {
					return
				}
				if _, done := t[v]; done {
					return
				}
				var src ssa.Value
				switch x := in.(type) {
				case *ssa.Field:
					src = x.X
				case *ssa.FieldAddr:
					src = x.X
				case *ssa.UnOp:
					if x.Op == token.MUL {
						src = x.X
					}
				case *ssa.Phi:
					for _, ed := range x.Edges {
						if _, ok := t[ed]; ok {
							src = ed
						}
					}
				case *ssa.ChangeType:
					src = x.X
				case *ssa.Lookup:
					src = x.X
				case *ssa.Index:
					src = x.X
				case *ssa.IndexAddr:
					src = x.X
				case *ssa.Extract:
					src = x.Tuple
				case *ssa.Slice:
					src = x.X
				}
				if src != nil {
					if idx, ok := t[src]; ok {
						t[v] = idx
						changed = true
					}
				}
				// struct params spilled into allocs: store param into alloc then field access
				if al, ok := in.(*ssa.Alloc); ok {
					for _, st := range storesTo(al) {
						if idx, ok := t[st.Val]; ok {
							t[al] = idx
							changed = true
						}
					}
				}
			})
		}
		return t
	}
	taints := map[*ssa.Function]taint{}
	for _, fn := range e.all {
		taints[fn] = derive(fn)
		cs.mutParams[fn] = map[int]bool{}
	}
	cs.directMut = map[*ssa.Function]bool{}
	markDirect := func(fn *ssa.Function, v ssa.Value) {
		if _, ok := taints[fn][v]; ok {
			cs.directMut[fn] = true
		}
	}
	mark := func(fn *ssa.Function, v ssa.Value) bool {
		if idx, ok := taints[fn][v]; ok && !cs.mutParams[fn][idx] {
			cs.mutParams[fn][idx] = true
			return true
		}
		return false
	}
	for changed := true; changed; {
		changed = false
		for _, fn := range e.all {
			instrs(fn, func(in ssa.Instruction) {
				switch x := in.(type) {
				case *ssa.MapUpdate:
					markDirect(fn, x.Map)
					if mark(fn, x.Map) {
						changed = true
					}
				case *ssa.Store:
					if ia, ok := x.Addr.(*ssa.IndexAddr); ok {
						markDirect(fn, ia.X)
						if mark(fn, ia.X) {
							changed = true
						}
					}
				case ssa.CallInstruction:
					name := staticCalleeName(x)
					if name == "builtin.delete" {
						markDirect(fn, x.Common().Args[0])
						if mark(fn, x.Common().Args[0]) {
							changed = true
						}
						return
					}
					if isBuiltin(x) {
						return
					}
					cal := e.callees(x)
					if len(cal) == 0 && x.Common().StaticCallee() == nil && !x.Common().IsInvoke() {
						// call of a function value of unknown origin (user callback): assume it may mutate reference arguments
						// of UpdaterFunc type only (documented: updaters receive the item to mutate)
						if isNamedFuncType(x.Common().Value.Type(), "UpdaterFunc") {
							for _, a := range x.Common().Args {
								if mark(fn, a) {
									changed = true
								}
							}
						}
						return
					}
					args := x.Common().Args
					for _, g := range cal {
						for i, a := range args {
							gi := i
							if x.Common().IsInvoke() {
								gi = i + 1 // receiver is param 0 of the concrete method
							}
							if cs.mutParams[g] != nil && cs.mutParams[g][gi] {
								if mark(fn, a) {
									changed = true
								}
							}
						}
						if x.Common().IsInvoke() && cs.mutParams[g] != nil && cs.mutParams[g][0] {
							if mark(fn, x.Common().Value) {
								changed = true
							}
						}
					}
				}
			})
		}
	}
}

func isNamedFuncType(t types.Type, name string) bool {
	n, ok := t.(*types.Named)
	return ok && n.Obj().Name() == name
}

// storedAlias: may v be (an alias of) a map stored in Table.Data — i.e. obtained by a lookup in Data
// (directly or through a helper that returns such a lookup) without passing through a copying function?
func (cs *coreState) storedAlias(v ssa.Value) bool {
	seen := map[ssa.Value]bool{}
	var walk func(ssa.Value) bool
	walk = func(x ssa.Value) bool {
		x = strip(x)
		if seen[x] {
			return false
		}
		seen[x] = true
		switch y := x.(type) {
		case *ssa.Phi:
			for _, ed := range y.Edges {
				if walk(ed) {
					return true
				}
			}
		case *ssa.Extract:
			return walk(y.Tuple)
		case *ssa.Lookup:
			if f, _ := loadedField(y.X); f == cs.Data {
				return true
			}
		case *ssa.Call:
			g := y.Call.StaticCallee()
			if g == nil || g.Blocks == nil || cs.e.fnRole(g) == "" {
				return false
			}
			// helper that returns a stored map (e.g. getItem)
			for _, r := range returnsOf(g) {
				for _, rv := range retVals(r) {
					if _, isMap := rv.Type().Underlying().(*types.Map); isMap && cs.storedAlias(rv) {
						return true
					}
				}
			}
		case *ssa.UnOp:
			if y.Op == token.MUL {
				if al, ok := y.X.(*ssa.Alloc); ok {
					for _, st := range storesTo(al) {
						if walk(st.Val) {
							return true
						}
					}
				}
			}
		}
		return false
	}
	return walk(v)
}

// freshMap: is v, on every path, a map allocated fresh (make/composite literal) or the result of a copying function
// (a function all of whose returned maps are fresh and are filled only by element-wise copy)?
func (cs *coreState) freshMap(v ssa.Value) bool {
	seen := map[ssa.Value]bool{}
	var walk func(ssa.Value) bool
	walk = func(x ssa.Value) bool {
		x = strip(x)
		if seen[x] {
			return true
		}
		seen[x] = true
		switch y := x.(type) {
		case *ssa.MakeMap:
			return true
		case *ssa.Phi:
			for _, ed := range y.Edges {
				if !walk(ed) {
					return false
				}
			}
			return true
		case *ssa.Extract:
			return walk(y.Tuple)
		case *ssa.Call:
			g := y.Call.StaticCallee()
			if g == nil || g.Blocks == nil {
				return false
			}
			return cs.returnsFreshMap(g)
		case *ssa.UnOp:
			if y.Op == token.MUL {
				if al, ok := y.X.(*ssa.Alloc); ok {
					sts := storesTo(al)
					if len(sts) == 0 {
						return false
					}
					for _, st := range sts {
						if !walk(st.Val) {
							return false
						}
					}
					return true
				}
			}
		}
		return false
	}
	return walk(v)
}

func (cs *coreState) returnsFreshMap(g *ssa.Function) bool {
	rets := returnsOf(g)
	if len(rets) == 0 {
		return false
	}
	for _, r := range rets {
		for _, rv := range retVals(r) {
			if _, isMap := rv.Type().Underlying().(*types.Map); !isMap {
				continue
			}
			if _, ok := strip(rv).(*ssa.MakeMap); !ok {
				if c, ok := strip(rv).(*ssa.Call); ok && c.Call.StaticCallee() != nil && c.Call.StaticCallee() != g && cs.returnsFreshMap(c.Call.StaticCallee()) {
					continue
				}
				return false
			}
		}
	}
	return true
}

// writeEvents lists, for function fn, the instructions that (may) modify persistent state:
// direct writes, calls to functions that may write, calls handing a stored map to a mutating parameter.
type wEvent struct {
	in   ssa.Instruction
	what string
}

func (cs *coreState) writeEvents(fn *ssa.Function) []wEvent {
	var out []wEvent
	e := cs.e
	direct := map[ssa.Instruction]string{}
	for _, a := range cs.direct[fn] {
		direct[a.Instr] = a.Kind
	}
	instrs(fn, func(in ssa.Instruction) {
		if k, ok := direct[in]; ok {
			out = append(out, wEvent{in, "direct " + k})
			return
		}
		c, ok := in.(ssa.CallInstruction)
		if !ok || isBuiltin(c) {
			return
		}
		for _, g := range e.callees(c) {
			if cs.mayWrite[g] {
				out = append(out, wEvent{in, "call " + e.fname(g) + " (writes table/index state)"})
				return
			}
		}
		// stored alias handed to a mutating parameter (in-place update of a stored item)
		for _, g := range e.callees(c) {
			mp := cs.mutParams[g]
			if len(mp) == 0 {
				continue
			}
			for i, a := range c.Common().Args {
				gi := i
				if c.Common().IsInvoke() {
					gi = i + 1
				}
				if !mp[gi] {
					continue
				}
				if cs.argCarriesStored(a) {
					out = append(out, wEvent{in, "call " + e.fname(g) + " mutates a map stored in Table.Data in place"})
					return
				}
			}
		}
	})
	return out
}

// argCarriesStored: a (a map, or a struct value with map fields) may carry an alias of a stored item.
func (cs *coreState) argCarriesStored(a ssa.Value) bool {
	if _, isMap := a.Type().Underlying().(*types.Map); isMap {
		return cs.storedAlias(a)
	}
	// struct value loaded from an alloc: inspect the values stored into its fields
	if u, ok := a.(*ssa.UnOp); ok && u.Op == token.MUL {
		if al, ok := u.X.(*ssa.Alloc); ok {
			for _, r := range refsOf(al) {
				if fa, ok := r.(*ssa.FieldAddr); ok {
					for _, st := range storesTo(fa) {
						if _, isMap := st.Val.Type().Underlying().(*types.Map); isMap && cs.storedAlias(st.Val) {
							return true
						}
					}
				}
			}
		}
	}
	return false
}

func sortedFns(e *Engine, m map[*ssa.Function]bool) []*ssa.Function {
	var out []*ssa.Function
	for f, ok := range m {
		if ok {
			out = append(out, f)
		}
	}
	sort.Slice(out, func(i, j int) bool { return e.fname(out[i]) < e.fname(out[j]) })
	return out
}
