package main

import (
	"go/ast"
	"go/token"
	"go/types"
	"sort"
	"strings"

	"golang.org/x/tools/go/ssa"
)

// varInit returns the initialiser expression of package-level variable role.name (nil if none) and the package's type info.
func (e *Engine) varInit(role, name string) (ast.Expr, *types.Info) {
	p := e.Pkgs[role]
	if p == nil {
		return nil, nil
	}
	for _, f := range p.Syntax {
		for _, d := range f.Decls {
			gd, ok := d.(*ast.GenDecl)
			if !ok || gd.Tok != token.VAR {
				continue
			}
			for _, s := range gd.Specs {
				vs := s.(*ast.ValueSpec)
				for i, n := range vs.Names {
					if n.Name == name && i < len(vs.Values) {
						return vs.Values[i], p.TypesInfo
					}
				}
			}
		}
	}
	return nil, p.TypesInfo
}

// constsOfType lists the package-level constants of named type role.typeName.
func (e *Engine) constsOfType(role, typeName string) []*types.Const {
	p := e.Pkgs[role]
	if p == nil {
		return nil
	}
	nt := e.namedType(role, typeName)
	var out []*types.Const
	sc := p.Types.Scope()
	for _, n := range sc.Names() {
		if c, ok := sc.Lookup(n).(*types.Const); ok && nt != nil && types.Identical(c.Type(), nt) {
			out = append(out, c)
		}
	}
	sort.Slice(out, func(i, j int) bool { return out[i].Name() < out[j].Name() })
	return out
}

// funcDecl returns the AST declaration of an SSA function (nil for closures/synthetic).
func (e *Engine) funcDecl(fn *ssa.Function) *ast.FuncDecl {
	if fn == nil {
		return nil
	}
	if fd, ok := fn.Syntax().(*ast.FuncDecl); ok {
		return fd
	}
	return nil
}

func (e *Engine) infoOf(fn *ssa.Function) *types.Info {
	r := e.fnRole(fn)
	if p := e.Pkgs[r]; p != nil {
		return p.TypesInfo
	}
	return nil
}

// exprStr renders an expression compactly (types.ExprString elides literals' contents only for composite literals).
func exprStr(x ast.Expr) string {
	if x == nil {
		return ""
	}
	return types.ExprString(x)
}

// unparen strips parentheses.
func unparen(x ast.Expr) ast.Expr {
	for {
		p, ok := x.(*ast.ParenExpr)
		if !ok {
			return x
		}
		x = p.X
	}
}

// calleeObj resolves the called function object of a call expression (nil for dynamic calls / conversions).
func calleeObj(info *types.Info, call *ast.CallExpr) *types.Func {
	fun := unparen(call.Fun)
	switch f := fun.(type) {
	case *ast.Ident:
		if o, ok := info.Uses[f].(*types.Func); ok {
			return o
		}
	case *ast.SelectorExpr:
		if o, ok := info.Uses[f.Sel].(*types.Func); ok {
			return o
		}
	case *ast.IndexExpr:
		if id, ok := unparen(f.X).(*ast.Ident); ok {
			if o, ok := info.Uses[id].(*types.Func); ok {
				return o
			}
		}
	}
	return nil
}

func funcFullName(f *types.Func) string {
	if f == nil {
		return ""
	}
	return f.FullName()
}

// compositeFields maps field name -> value expression for a struct composite literal (keyed form only).
func compositeFields(cl *ast.CompositeLit) map[string]ast.Expr {
	out := map[string]ast.Expr{}
	for _, el := range cl.Elts {
		if kv, ok := el.(*ast.KeyValueExpr); ok {
			if id, ok := kv.Key.(*ast.Ident); ok {
				out[id.Name] = kv.Value
			}
		}
	}
	return out
}

// findCompositeLits finds composite literals of the named struct type (pkgPath.name) in node.
func findCompositeLits(info *types.Info, node ast.Node, pkgPath, name string) []*ast.CompositeLit {
	var out []*ast.CompositeLit
	ast.Inspect(node, func(n ast.Node) bool {
		cl, ok := n.(*ast.CompositeLit)
		if !ok {
			return true
		}
		tv, ok := info.Types[cl]
		if !ok {
			return true
		}
		if isNamed(tv.Type, pkgPath, name) {
			out = append(out, cl)
		}
		return true
	})
	return out
}

func lastPathElem(p string) string {
	i := strings.LastIndex(p, "/")
	return p[i+1:]
}
