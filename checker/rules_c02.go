package main

import (
	"fmt"
	"go/token"
	"go/types"
	"sort"
	"strings"

	"golang.org/x/tools/go/ssa"
)

// searchSites: the calls of Table.SearchData in the client Query/Scan methods.
type searchSite struct {
	role, method string
	fn           *ssa.Function // the client's Query / Scan
	call         *ssa.Call     // the call of SearchData – in fn, or in a package-local helper fn calls
	qi           ssa.Value
	ctx          []callCtx // the chain of calls from fn to the function that contains `call`
}

func (e *Engine) searchSites() []searchSite {
	sd := e.fn("core", "Table.SearchData")
	var out []searchSite
	if sd == nil {
		return nil
	}
	for _, role := range clientRoles {
		for _, m := range []string{"Query", "Scan"} {
			fn := e.clientMethods(role)[m]
			if fn == nil {
				continue
			}
			e.walkLocal(role, fn, 2, func(in ssa.Instruction, ctx []callCtx) {
				if c, ok := in.(*ssa.Call); ok && c.Call.StaticCallee() == sd {
					out = append(out, searchSite{role, m, fn, c, qiArg(c), append([]callCtx{}, ctx...)})
				}
			})
		}
	}
	return out
}

// queryInputField: origins of the values stored into field `name` of the QueryInput handed to SearchData ("" when never set).
func (e *Engine) queryInputField(s searchSite, name string) []string {
	seen := map[string]bool{}
	var out []string
	add := func(os []string) {
		for _, o := range os {
			if !seen[o] {
				seen[o] = true
				out = append(out, o)
			}
		}
	}
	vals := e.structFieldStores(s.qi, name)
	for _, v := range vals {
		add(e.origins(v))
	}
	if len(vals) == 0 {
		// the input is built elsewhere: by a helper or by a closure handed down the chain of calls – follow the struct
		// literal(s) it can be, in the calling context
		t := &tracer{e: e, seen: map[string]bool{}, out: map[string]bool{}}
		for _, lit := range t.structLiterals(s.qi, s.ctx, 0) {
			for _, r := range refsOf(lit.al) {
				fa, ok := r.(*ssa.FieldAddr)
				if !ok || fieldOf(fa) == nil || fieldOf(fa).Name() != name {
					continue
				}
				for _, st := range storesTo(fa) {
					add(e.originsCtx(st.Val, lit.ctx))
				}
			}
		}
	}
	return out
}

func init() {
	register(&Prop{
		ID:         "C02",
		Title:      "Query and Scan return exactly the matching items, in sort-key order",
		Decided:    "the structural conditions under which 'iterate the key list once and emit what matches' is exact: (R1) the comparator that orders secondary-index entries is a lexicographic strict order by (index key, primary key) with both sides of every comparison using the same projection, reversed only under the direction flag; (R2) in the search loop the only append to the result is governed exactly by the per-item verdict, which depends on both the key/filter verdict and the 'start position passed' flag; (R3) the filter verdict is conjoined with the key-condition verdict (never overwrites or disjoins it) and a Scan seeds the verdict from the Scan flag only; (R4) in the four client sites Count derives from the length of, and Items from the conversion of, the same first result of SearchData; (R5) the QueryInput built by each site carries IndexName, key condition, filter, values, names, direction (default true when absent) and Scan/true for scans; (R6) when an index is named its entry list is (re)built once before the loop with the same direction value that drives the position arithmetic; (R7) expression kinds are paired with their expression texts (= C20.R5); (R10) a search walks SortedKeys and reads Data: every mutator of the pair preserves I1 (= C01.R2) – a key spliced out of the list while its item stays stored is an item no Query or Scan returns; (R11) Query and Scan over an index are not read-only in the engine (startSearch rebuilds index.sortedRefs, getPrimaryKey consumes it): every access to table and index state is made with the exclusive mutex held (= C11.L1) – a shared read lock lets two searches destroy each other's cursor and lose items; (R12) the search state is closed (= C01.R12, C03.R10): no cached entry list or memo that a write can leave stale; (R13) the prefix and substring predicates used by key conditions and filters are the library ones with operands in order (= C06.R13); (R14) decision table of the per-item verdict (= C05.R9); (R15) nothing on the search path modifies an item map it did not build; (R16) sparse indexes: the empty key accompanies every error of the key derivation (= C03.R8).",
		NotDecided: "the truth value of the conditions (C06); the position arithmetic of GetKeyAt and of the index cursor (value-level); behaviour for an unknown index name.",
		Rules: []RuleDef{
			{ID: "R1", Desc: "index comparator is a lexicographic strict order on (index key, primary key) (comparator lint)", Run: c02R1},
			{ID: "R2", Desc: "result append governed exactly by the per-item verdict (SSA control dependence)", Run: c02R2},
			{ID: "R3", Desc: "filter conjoined with key condition; Scan seeds from the Scan flag: decision table of the per-item verdict over presence × verdict of the expression kinds (= C05.R9)", Run: aliasRule("R3", c05R9, nil)},
			{ID: "R4", Desc: "Count and Items derive from the same SearchData result (T-FLOW)", Run: c02R4},
			{ID: "R5", Desc: "QueryInput plumbing in the four client sites (T-FLOW)", Run: c02R5},
			{ID: "R6", Desc: "index entry list rebuilt once before the loop, same direction flag (T-DOM)", Run: c02R6},
			{ID: "R8", Desc: "the search loop visits every position: left only by exhaustion or by the page limit", Run: c02R8},
			{ID: "R9", Desc: "index containers are reset together and kept in step (= C03.R2/R5)", Run: func(e *Engine) {
				before := len(e.obs)
				props["C03"].Rules[1].Run(e) // C03.R2
				c03R5(e)
				for i := before; i < len(e.obs); i++ {
					e.obs[i].Rule = "R9"
				}
			}},
			{ID: "R7", Desc: "expression kind ↔ text pairing (= C20.R5)", Run: func(e *Engine) {
				before := len(e.obs)
				c20R5(e)
				for i := before; i < len(e.obs); i++ {
					e.obs[i].Rule = "R7"
				}
			}},
			{ID: "R10", Desc: "every mutator of the table keeps SortedKeys the sorted key set of Data (= C01.R2): what a search walks is what is stored", Run: aliasRule("R10", c01R2, nil)},
			{ID: "R11", Desc: "a search runs under the exclusive client lock: searching an index rebuilds and consumes the shared index cursor (= C11.L1)", Run: aliasRule("R11", func(e *Engine) {
				for _, role := range clientRoles {
					if r := e.lockAnalysis(role); r.mu != nil {
						e.ruleL1("L1", r, nil)
					}
				}
			}, nil)},
			{ID: "R12", Desc: "a search reads no state beyond the confirmed fields of table and index (= C01.R12 + C03.R10)", Run: func(e *Engine) { stateModelClosed(e, "R12", func(k string) bool { return k == "core.index" || k == "core.Table" }) }},
			{ID: "R13", Desc: "begins_with in a key condition or filter selects exactly the items whose value has the prefix, the value equal to the prefix included (= C06.R13)", Run: aliasRule("R13", c06R13, nil)},
			{ID: "R15", Desc: "a search is read-only on the items it walks: no function on the search path writes or deletes entries of an item map it did not build (T-PURE)", Run: c02R15},
			{ID: "R16", Desc: "an item without the key of a secondary index is not in that index: the key derivation hands back the EMPTY key with every error (= C03.R8) – a partial key would list the item under it and index reads would return it", Run: aliasRule("R16", c03R8, nil)},
		},
	})
}

// refProjection: v is sortedRefs[arg][k] → (which parameter, k)
// refProjection: v is component [k] of the entry at position p of the entry list, p a parameter of the enclosing function
// – written i.sortedRefs[p][k], r[p][k] (r the receiver of a sort.Interface over the list) or through a local copy of the
// entry. onField reports whether the list is named as the sortedRefs field (otherwise: a slice parameter).
func refProjection(v ssa.Value) (p *ssa.Parameter, k int64, onField, ok bool) {
	v = strip(v)
	var idxConst int64 = -1
	var base ssa.Value
	switch x := v.(type) {
	case *ssa.UnOp:
		ia, isIA := x.X.(*ssa.IndexAddr)
		if !isIA {
			return nil, 0, false, false
		}
		n, isK := constInt(ia.Index)
		if !isK {
			return nil, 0, false, false
		}
		idxConst, base = n, ia.X
	case *ssa.Index:
		n, isK := constInt(x.Index)
		if !isK {
			return nil, 0, false, false
		}
		idxConst, base = n, x.X
	default:
		return nil, 0, false, false
	}
	// base: &list[param] or load of it
	for i := 0; i < 6; i++ {
		switch y := base.(type) {
		case *ssa.UnOp:
			base = y.X
			continue
		case *ssa.Alloc:
			// a := list[x] – a local copy of the entry
			sts := storesTo(y)
			if len(sts) != 1 {
				return nil, 0, false, false
			}
			base = sts[0].Val
			continue
		case *ssa.Parameter:
			// the entry itself is handed over: func less(a, b [2]string) bool
			if arr, isArr := y.Type().Underlying().(*types.Array); isArr && arr.Len() == 2 && isStringType(arr.Elem()) {
				return y, idxConst, false, true
			}
			return nil, 0, false, false
		case *ssa.IndexAddr:
			q, isP := y.Index.(*ssa.Parameter)
			if !isP {
				return nil, 0, false, false
			}
			if f, _ := loadedField(y.X); f != nil && f.Name() == "sortedRefs" {
				return q, idxConst, true, true
			}
			if lp, isLP := strip(y.X).(*ssa.Parameter); isLP && isEntryList(lp.Type()) {
				return q, idxConst, false, true
			}
			if f, _ := loadedFieldDeep(y.X); f != nil && isEntryList(f.Type()) {
				// the list field of a sort record (type refOrder struct{ pairs [][2]string; forward bool })
				return q, idxConst, false, true
			}
			return nil, 0, false, false
		}
		break
	}
	return nil, 0, false, false
}

// isEntryList: [][2]string (possibly named).
func isEntryList(t types.Type) bool {
	sl, ok := t.Underlying().(*types.Slice)
	if !ok {
		return false
	}
	arr, ok := sl.Elem().Underlying().(*types.Array)
	return ok && arr.Len() == 2 && isStringType(arr.Elem())
}

// entryLess evaluates a "does entry x go before entry y" function abstractly for ONE ordering of the two entries:
// o1 / o0 are the orderings (-1, 0, 1) of their index keys [1] and primary keys [0], fwd the direction flag. em says
// which parameter of fn stands for which entry (0 = the first, 1 = the second). Helpers that take the two positions are
// evaluated the same way (with the entries in the order they are handed over).
type lessEval struct {
	e        *Engine
	ncmp     int
	usesFlag bool
	offField bool // a projection of a slice parameter (sort.Interface receiver) was used
	problem  string
}

func (le *lessEval) run(fn *ssa.Function, em map[*ssa.Parameter]int, o1, o0 int, fwd bool, depth int) (bool, bool) {
	if depth > 4 || fn == nil || fn.Blocks == nil {
		return false, false
	}
	ret, evalAt, ok := interpBool(fn, func(v ssa.Value) (bool, bool) {
		switch x := v.(type) {
		case *ssa.BinOp:
			if !isStringType(x.X.Type()) {
				return false, false
			}
			pa, ka, fa, ok1 := refProjection(x.X)
			pb, kb, fb, ok2 := refProjection(x.Y)
			if !ok1 || !ok2 {
				le.problem = "a comparison whose operands are not projections of the two entries"
				return false, false
			}
			ia, okA := em[pa]
			ib, okB := em[pb]
			if !okA || !okB {
				le.problem = "a comparison of entries at positions other than the two handed to the comparator"
				return false, false
			}
			if ka != kb {
				le.problem = fmt.Sprintf("a comparison mixes projection [%d] of one entry with [%d] of the other", ka, kb)
				return false, false
			}
			if !fa || !fb {
				le.offField = true
			}
			le.ncmp++
			ord := o0
			if ka == 1 {
				ord = o1
			}
			switch {
			case ia == ib:
				ord = 0
			case ia > ib:
				ord = -ord
			}
			return cmpHolds(x.Op, ord)
		case *ssa.Call:
			g := x.Call.StaticCallee()
			if g == nil || le.e.fnRole(g) != "core" || !isBoolType(x.Type()) {
				return false, false
			}
			em2 := map[*ssa.Parameter]int{}
			for ai, a := range x.Call.Args {
				if q, isP := strip(a).(*ssa.Parameter); isP && ai < len(g.Params) {
					if id, has := em[q]; has {
						em2[g.Params[ai]] = id
					}
				}
				// the entry at a position is handed over by value: less(list[x], list[y])
				if u, isU := strip(a).(*ssa.UnOp); isU && u.Op == token.MUL && ai < len(g.Params) {
					if ia, isIA := u.X.(*ssa.IndexAddr); isIA && isEntryList(ia.X.Type()) {
						if q, isP := ia.Index.(*ssa.Parameter); isP {
							if id, has := em[q]; has {
								em2[g.Params[ai]] = id
								le.offField = true
							}
						}
					}
				}
			}
			if len(em2) != 2 {
				return false, false
			}
			return le.run(g, em2, o1, o0, fwd, depth+1)
		case *ssa.UnOp:
			if _, isFV := x.X.(*ssa.FreeVar); isFV && x.Op == token.MUL && isBoolType(x.Type()) {
				le.usesFlag = true
				return fwd, true
			}
		case *ssa.FreeVar:
			if isBoolType(x.Type()) {
				le.usesFlag = true
				return fwd, true
			}
		case *ssa.Parameter:
			if isBoolType(x.Type()) {
				le.usesFlag = true
				return fwd, true
			}
		case *ssa.Field:
			if isBoolType(x.Type()) {
				le.usesFlag = true
				return fwd, true
			}
		}
		// a bool field of the sort record loaded through its spilled receiver
		if u, ok := v.(*ssa.UnOp); ok && u.Op == token.MUL && isBoolType(u.Type()) {
			if _, isFA := u.X.(*ssa.FieldAddr); isFA {
				le.usesFlag = true
				return fwd, true
			}
		}
		return false, false
	})
	if !ok {
		return false, false
	}
	return evalAt(retVals(ret)[0])
}

// sortAlternative: one way the entry list gets sorted – by a comparator over positions, possibly reversed
// (sort.Reverse), possibly only under one value of the direction flag.
type sortAlternative struct {
	less     *ssa.Function
	em       func(reversed bool) map[*ssa.Parameter]int
	reversed bool
	fwd      *bool // nil: both directions (the comparator itself consults the flag)
	onList   bool  // the sorted operand is the sortedRefs field
	at       ssa.Instruction
}

// sortSites: the sort calls of fn over the entry list and the comparators they use.
func (e *Engine) sortSites(fn *ssa.Function) []sortAlternative {
	var out []sortAlternative
	isList := func(v ssa.Value) bool {
		v = strip(v)
		if f, _ := loadedField(v); f != nil && f.Name() == "sortedRefs" {
			return true
		}
		// a local list that is stored into the field in the same function (built first, published after sorting)
		becomes := false
		instrs(fn, func(in ssa.Instruction) {
			st, ok := in.(*ssa.Store)
			if !ok {
				return
			}
			if f := fieldOf(st.Addr); f != nil && f.Name() == "sortedRefs" && (strip(st.Val) == v || sameCell(strip(st.Val), v)) {
				becomes = true
			}
		})
		return becomes
	}
	flagOf := func(facts []Cond) *bool {
		for _, cd := range facts {
			cd = normCond(cd)
			v := strip(cd.V)
			if u, ok := v.(*ssa.UnOp); ok && u.Op == token.MUL {
				if al, isAl := u.X.(*ssa.Alloc); isAl {
					if sts := storesTo(al); len(sts) == 1 {
						v = strip(sts[0].Val)
					}
				}
			}
			if q, ok := v.(*ssa.Parameter); ok && isBoolType(q.Type()) {
				val := cd.Val
				return &val
			}
		}
		return nil
	}
	var resolve func(v ssa.Value, reversed bool, facts []Cond, at ssa.Instruction, depth int)
	resolve = func(v ssa.Value, reversed bool, facts []Cond, at ssa.Instruction, depth int) {
		if depth > 6 {
			return
		}
		switch x := v.(type) {
		case *ssa.Phi:
			for i, ed := range x.Edges {
				resolve(ed, reversed, append(append([]Cond{}, facts...), edgeFacts(x.Block().Preds[i], x.Block())...), at, depth+1)
			}
		case *ssa.ChangeInterface:
			resolve(x.X, reversed, facts, at, depth+1)
		case *ssa.MakeInterface:
			less := e.Prog.LookupMethod(x.X.Type(), nil, "Less")
			if less == nil {
				if nt := namedOf(x.X.Type()); nt != nil {
					less = e.Prog.LookupMethod(x.X.Type(), nt.Obj().Pkg(), "Less")
				}
			}
			if less == nil || len(less.Params) != 3 {
				return
			}
			l := less
			onList := isList(x.X)
			if _, isStruct := x.X.Type().Underlying().(*types.Struct); isStruct {
				// a sort record: its list field must hold the entry list, its bool field (if any) the scan direction itself
				onList = false
				if u, ok := x.X.(*ssa.UnOp); ok {
					if al, isAl := u.X.(*ssa.Alloc); isAl {
						okFlag := true
						for _, r := range refsOf(al) {
							fa, isFA := r.(*ssa.FieldAddr)
							if !isFA {
								continue
							}
							for _, st := range storesTo(fa) {
								switch {
								case isEntryList(st.Val.Type()):
									if isList(st.Val) {
										onList = true
									}
								case isBoolType(st.Val.Type()):
									if _, isP := strip(st.Val).(*ssa.Parameter); !isP {
										okFlag = false
									}
								}
							}
						}
						if !okFlag {
							onList = false
						}
					}
				}
			}
			out = append(out, sortAlternative{less: l, reversed: reversed, fwd: flagOf(facts), onList: onList, at: at,
				em: func(rev bool) map[*ssa.Parameter]int {
					if rev {
						return map[*ssa.Parameter]int{l.Params[1]: 1, l.Params[2]: 0}
					}
					return map[*ssa.Parameter]int{l.Params[1]: 0, l.Params[2]: 1}
				}})
		case *ssa.Call:
			if staticCalleeName(x) == "sort.Reverse" {
				resolve(x.Call.Args[0], !reversed, facts, at, depth+1)
			}
		}
	}
	instrs(fn, func(in ssa.Instruction) {
		c, ok := in.(*ssa.Call)
		if !ok {
			return
		}
		switch staticCalleeName(c) {
		case "sort.Slice", "sort.SliceStable":
			for _, clo := range e.closuresOf(c.Call.Args[1], nil, 0) {
				if len(clo.Params) != 2 {
					continue
				}
				cl := clo
				out = append(out, sortAlternative{less: cl, onList: isList(c.Call.Args[0]), at: in,
					em: func(bool) map[*ssa.Parameter]int { return map[*ssa.Parameter]int{cl.Params[0]: 0, cl.Params[1]: 1} }})
			}
		case "sort.Sort", "sort.Stable":
			resolve(c.Call.Args[0], false, condsAt(c.Block()), in, 0)
		}
	})
	return out
}

func c02R1(e *Engine) {
	// the function that (re)builds and sorts the entry list of an index: found by what it does
	var ss *ssa.Function
	var alts []sortAlternative
	for _, fn := range e.funcs("core") {
		if fn.Parent() != nil {
			continue
		}
		if a := e.sortSites(fn); len(a) > 0 {
			for _, x := range a {
				if x.onList {
					ss, alts = fn, a
				}
			}
		}
	}
	if !e.anchor("R1", "core: the function that sorts index.sortedRefs", ss == nil) {
		return
	}
	// decision table: for both directions and the 3×3 orderings of (index key, primary key) of two entries the effective
	// comparator must answer "x before y" exactly when – scanning forward – the index key is smaller, or equal with a
	// smaller primary key; scanning backward the mirror image (two entries are never equal: primary keys are distinct)
	for _, fwd := range []bool{true, false} {
		dir := map[bool]string{true: "forward", false: "backward"}[fwd]
		construct := e.fname(ss) + ":entry-order[" + dir + "]"
		var use []sortAlternative
		for _, a := range alts {
			if a.fwd == nil || *a.fwd == fwd {
				use = append(use, a)
			}
		}
		if len(use) == 0 {
			e.fail("R1", construct, e.pos(ss.Pos()), "no comparator sorts the entry list when scanning %s", dir)
			continue
		}
		var probs []string
		ncmp := 0
		var names []string
		for _, a := range use {
			le := &lessEval{e: e}
			for _, o1 := range []int{-1, 0, 1} {
				for _, o0 := range []int{-1, 0, 1} {
					if o1 == 0 && o0 == 0 && !fwd {
						continue
					}
					want := o1 < 0 || (o1 == 0 && o0 < 0)
					if !fwd {
						want = o1 > 0 || (o1 == 0 && o0 > 0)
					}
					le.problem = ""
					got, decided := le.run(a.less, a.em(a.reversed), o1, o0, fwd, 0)
					switch {
					case le.problem != "":
						probs = append(probs, le.problem)
					case !decided:
						probs = append(probs, "the comparator could not be evaluated for one of the orderings")
					case got != want:
						probs = append(probs, fmt.Sprintf("scanning %s, for index keys %s and primary keys %s the comparator answers %v (entries must be ordered by index key, ties broken by primary key, reversed as a whole when scanning backward – or lock-step consumption with sortedKeys and pagination inside a run of equal keys break)", dir, ordStr(o1), ordStr(o0), got))
					}
				}
			}
			ncmp += le.ncmp
			if le.offField && !a.onList {
				probs = append(probs, "the comparator orders a list that is not the index's sortedRefs")
			}
			if a.fwd == nil && !le.usesFlag {
				probs = append(probs, "one comparator serves both directions and does not consult the direction flag")
			}
			nm := e.fname(a.less)
			if a.reversed {
				nm = "reverse(" + nm + ")"
			}
			names = append(names, nm)
		}
		if len(probs) > 0 {
			sort.Strings(probs)
			e.fail("R1", construct, e.ipos(use[0].at), "%s", probs[0])
		} else {
			e.pass("R1", construct, e.ipos(use[0].at), "decision table over the orderings of (index key, primary key): %s is the lexicographic order of the scan direction in every case (%d comparisons evaluated)", strings.Join(names, ", "), ncmp)
		}
	}
	sorted := true
	for _, a := range alts {
		if !a.onList {
			sorted = false
		}
	}
	e.check(sorted, "R1", e.fname(ss)+":sorts-sortedRefs", e.pos(ss.Pos()), "the rebuilt entry list is what gets sorted with that comparator")
}

func c02R2(e *Engine) {
	sd := e.fn("core", "Table.SearchData")
	if !e.anchor("R2", "core.Table.SearchData", sd == nil) {
		return
	}
	// the append to the result list: in the search loop itself or in a step/emit helper it calls (found with the chain of
	// call sites that leads there)
	type apSite struct {
		c   *ssa.Call
		ctx []callCtx
	}
	var appends []apSite
	e.walkLocal("core", sd, 3, func(in ssa.Instruction, ctx []callCtx) {
		c, ok := in.(*ssa.Call)
		if !ok || staticCalleeName(c) != "builtin.append" {
			return
		}
		if sl, ok := c.Type().Underlying().(*types.Slice); ok {
			if _, isMap := sl.Elem().Underlying().(*types.Map); isMap {
				appends = append(appends, apSite{c, ctx})
			}
		}
	})
	construct := "core.Table.SearchData:emit-iff-verdict"
	if len(appends) != 1 {
		e.fail("R2", construct, e.pos(sd.Pos()), "expected exactly one append to the result list, found %d", len(appends))
		return
	}
	ap, apCtx := appends[0].c, appends[0].ctx
	// governing conditions beyond loop progress and the ok of the position step – at the append and at every call site
	// of the chain, each condition resolved to the caller's value when it is a parameter of the helper
	var verdict ssa.Value
	extra := ""
	type level struct {
		blk *ssa.BasicBlock
		ctx []callCtx
	}
	levels := []level{{ap.Block(), apCtx}}
	for i := len(apCtx) - 1; i >= 0; i-- {
		levels = append(levels, level{apCtx[i].call.Block(), apCtx[:i]})
	}
	// conditions decided before the loop is entered guard the whole search, not the emission of one item (an early
	// return for an empty key list, say): at the level of the search function only conditions computed inside the loop
	// that contains the emission count
	inLoop := func(blk *ssa.BasicBlock, v ssa.Value) bool {
		in, ok := v.(ssa.Instruction)
		if !ok || in.Block() == nil || in.Parent() != blk.Parent() {
			return true
		}
		for _, body := range naturalLoops(blk.Parent()) {
			if body[blk] {
				return body[in.Block()]
			}
		}
		return true
	}
	for li, lv := range levels {
		for _, cd := range condsAt(lv.blk) {
			cd = normCond(cd)
			if isIndexLoopCond(cd.V) {
				continue
			}
			if li == len(levels)-1 && !inLoop(lv.blk, cd.V) {
				continue
			}
			v, _ := resolveParam(cd.V, lv.ctx)
			cd = normCond(Cond{v, cd.Val})
			if _, isPhi := cd.V.(*ssa.Phi); isPhi {
				// a loop-carried "more" flag of a cursor-driven loop (k, more := next(); more; k, more = next())
				allStep := true
				for _, src := range phiSources(cd.V.(*ssa.Phi)) {
					if b, isK := constBool(src); isK && b == cd.Val {
						continue // "found" defaults to true when no index is read
					}
					ex, isEx := src.(*ssa.Extract)
					if !isEx {
						allStep = false
						continue
					}
					c, isC := ex.Tuple.(*ssa.Call)
					if !isC || c.Call.Signature().Results().Len() != 2 || ex.Index != 1 {
						allStep = false
					}
				}
				if allStep {
					continue
				}
			}
			if f, _ := loadedFieldDeep(cd.V); f != nil && f.Name() == "started" && cd.Val {
				continue // the start position has been passed (the position step inlined into the loop)
			}
			if ex, ok := cd.V.(*ssa.Extract); ok {
				if _, isNext := ex.Tuple.(*ssa.Next); isNext {
					continue
				}
				if c, isC := ex.Tuple.(*ssa.Call); isC && cd.Val {
					res := c.Call.Signature().Results()
					if res.Len() == 3 && ex.Index == 2 {
						verdict = ex
						continue
					}
					if res.Len() == 2 && ex.Index == 1 {
						continue // the position step succeeded (prepareSearch ok, cursor.next more)
					}
				}
			}
			extra = cd.V.String()
		}
	}
	if verdict == nil || extra != "" {
		e.fail("R2", construct, e.ipos(ap), "the append to the result is not governed exactly by the per-item verdict (verdict found:%v, extra condition:%q): items are emitted or dropped independently of the match", verdict != nil, extra)
		return
	}
	// appended element is the item returned with that verdict
	els := variadicElems(ap.Call.Args[1])
	if len(els) == 1 {
		els[0], _ = resolveParam(els[0], apCtx)
	}
	sameCall := len(els) == 1 && derivesFrom(els[0], verdict.(*ssa.Extract).Tuple)
	e.check(sameCall, "R2", construct, e.ipos(ap), "the item appended is the one the verdict was computed for, and the append happens iff the verdict is true")
	// inside the per-item decision: the emit flag depends on both the match verdict and the started flag
	dec := verdict.(*ssa.Extract).Tuple.(*ssa.Call).Call.StaticCallee()
	if dec == nil {
		return
	}
	// what the verdict (third result) depends on: branch conditions governing the returns and the phis, and the
	// operands of the boolean expression itself
	usesStarted, usesMatch := false, false
	atom := func(v ssa.Value) {
		if f, _ := loadedFieldDeep(v); f != nil && f.Name() == "started" {
			usesStarted = true
		}
		if ex, ok := v.(*ssa.Extract); ok {
			if c, isC := ex.Tuple.(*ssa.Call); isC && c.Call.Signature().Results().Len() == 2 && ex.Index == 1 {
				usesMatch = true
			}
		}
	}
	seenDep := map[ssa.Value]bool{}
	var deps func(v ssa.Value)
	deps = func(v ssa.Value) {
		if v == nil || seenDep[v] {
			return
		}
		seenDep[v] = true
		switch x := v.(type) {
		case *ssa.UnOp:
			if x.Op == token.NOT {
				deps(x.X)
				return
			}
		case *ssa.BinOp:
			if x.Op == token.EQL || x.Op == token.NEQ || x.Op == token.AND || x.Op == token.OR {
				deps(x.X)
				deps(x.Y)
			}
		case *ssa.Phi:
			for i, ed := range x.Edges {
				deps(ed)
				for _, cd := range edgeFacts(x.Block().Preds[i], x.Block()) {
					deps(cd.V)
				}
			}
			return
		}
		atom(v)
	}
	hasT, hasF := false, false
	if len(returnsOf(dec)) > 1 {
		// several returns: which one is taken is decided by the function's branches
		instrs(dec, func(in ssa.Instruction) {
			if ifi, ok := in.(*ssa.If); ok {
				deps(ifi.Cond)
			}
		})
	}
	for _, r := range returnsOf(dec) {
		rv := retVals(r)
		if len(rv) < 3 {
			continue
		}
		deps(rv[2])
		if v, ok := constBool(rv[2]); ok {
			if v {
				hasT = true
			} else {
				hasF = true
			}
		} else {
			hasT, hasF = true, true // computed: not a constant verdict
		}
	}
	e.check(usesStarted && usesMatch && hasT && hasF, "R2", e.fname(dec)+":verdict-uses-started-and-match", e.pos(dec.Pos()), "the per-item verdict is decided from the match result (%v) and the start-position flag (%v)", usesMatch, usesStarted)
}

func c02R3(e *Engine) {
	evs := e.conditionEvaluators()
	if !e.anchor("R3", "core.matchKey (builder of MatchInput)", len(evs) == 0) {
		return
	}
	mk := evs[0]
	im := e.fn("core", "Table.interpreterMatch")
	// the interpreterMatch calls by kind
	calls := map[string]*ssa.Call{}
	instrs(mk, func(in ssa.Instruction) {
		c, ok := in.(*ssa.Call)
		if !ok || c.Call.StaticCallee() != im {
			return
		}
		for _, v := range e.structFieldStores(c.Call.Args[1], "ExpressionType") {
			if s, isK := constString(v); isK {
				calls[s] = c
			}
		}
	})
	// … or through a helper that builds the MatchInput and receives the kind as an argument
	instrs(mk, func(in ssa.Instruction) {
		c, ok := in.(*ssa.Call)
		if !ok || c.Call.StaticCallee() == nil || c.Call.StaticCallee() == im || e.fnRole(c.Call.StaticCallee()) != "core" || im == nil || !e.reach(c.Call.StaticCallee())[im] {
			return
		}
		for _, a := range c.Call.Args {
			if s, isK := constString(a); isK && (s == "key" || s == "filter" || s == "conditional") {
				if _, have := calls[s]; !have {
					calls[s] = c
				}
			}
		}
	})
	kc, fc := calls["key"], calls["filter"]
	construct := e.fname(mk) + ":filter-conjoined"
	if kc == nil || fc == nil {
		e.fail("R3", construct, e.pos(mk.Pos()), "key (%v) or filter (%v) evaluation missing", kc != nil, fc != nil)
		return
	}
	// the filter call is governed by (previous verdict, true) where the previous verdict may be the key call's result
	prevOK := false
	for _, cd := range condsAt(fc.Block()) {
		cd = normCond(cd)
		if !cd.Val {
			continue
		}
		for _, src := range phiSources(cd.V) {
			if src == ssa.Value(kc) {
				prevOK = true
			}
		}
	}
	// and the verdict after the filter step is phi(false, filter result)
	phiOK := false
	for _, r := range refsOf(fc) {
		if ph, ok := r.(*ssa.Phi); ok {
			hasFalse := false
			for _, ed := range ph.Edges {
				if v, isK := constBool(ed); isK && !v {
					hasFalse = true
				}
			}
			if hasFalse {
				phiOK = true
			}
		}
	}
	if prevOK && phiOK {
		e.pass("R3", construct, e.ipos(fc), "filter verdict = previous verdict && filter (the filter is evaluated only when the key condition held and cannot turn a false verdict true)")
	} else {
		e.fail("R3", construct, e.ipos(fc), "the filter verdict is not conjoined with the key-condition verdict (evaluated under previous verdict true:%v, false preserved:%v): items failing the key condition can be returned, or the key condition is ignored", prevOK, phiOK)
	}
	// seed: matched starts from the Scan flag
	seedOK := false
	for _, cd := range condsAt(fc.Block()) {
		for _, src := range phiSources(normCond(cd).V) {
			if f, _ := loadedFieldDeep(src); f != nil && f.Name() == "Scan" {
				seedOK = true
			}
			if fl, ok := src.(*ssa.Field); ok && fieldOf(fl).Name() == "Scan" {
				seedOK = true
			}
		}
	}
	e.check(seedOK, "R3", e.fname(mk)+":seed-from-Scan-flag", e.pos(mk.Pos()), "without a key condition the verdict starts from QueryInput.Scan (true only for scans)")
}

// recordValues: v itself, or – when v is a field of a local record (a result record handed back by a helper) – the
// values stored into that field anywhere in the package.
func (e *Engine) recordValues(v ssa.Value) []ssa.Value {
	var nt *types.Named
	idx := -1
	switch x := strip(v).(type) {
	case *ssa.Field:
		nt, idx = namedOf(x.X.Type()), x.Field
	case *ssa.UnOp:
		if fa, ok := x.X.(*ssa.FieldAddr); ok && x.Op == token.MUL {
			nt, idx = namedOf(fa.X.Type()), fa.Field
		}
	}
	if nt == nil || idx < 0 || !e.localRecord(nt) {
		return []ssa.Value{v}
	}
	var out []ssa.Value
	for _, st := range e.recordFieldStores(nt, idx) {
		out = append(out, st.Val)
	}
	if len(out) == 0 {
		return []ssa.Value{v}
	}
	return out
}

func c02R4(e *Engine) {
	for _, s := range e.searchSites() {
		construct := s.role + ".Client." + s.method
		items := extractOf(s.call, 0)
		if len(items) == 0 {
			e.fail("R4", construct+":count-and-items", e.ipos(s.call), "the items returned by SearchData are not used")
			continue
		}
		x := ssa.Value(items[0])
		var itemsOK, countOK bool
		instrs(s.fn, func(in ssa.Instruction) {
			st, ok := in.(*ssa.Store)
			if !ok {
				return
			}
			f := fieldOf(st.Addr)
			if f == nil || !strings.HasSuffix(fieldOwner2(st.Addr), "Output") {
				return
			}
			switch f.Name() {
			case "Items":
				for _, v := range e.recordValues(st.Val) {
					if c, isC := strip(v).(*ssa.Call); isC && len(c.Call.Args) == 1 && c.Call.Args[0] == x {
						if ok2, _ := isConversion(e, c.Call.StaticCallee()); ok2 {
							itemsOK = true
						}
					}
				}
			case "Count":
				// int32(int64(len(x))) / &count where count = int64(len(x))
				var walk func(v ssa.Value, d int) bool
				walk = func(v ssa.Value, d int) bool {
					if d > 6 {
						return false
					}
					switch y := v.(type) {
					case *ssa.Convert:
						return walk(y.X, d+1)
					case *ssa.Call:
						if s2, isLen := lenOf(y); isLen {
							return s2 == x
						}
						if len(y.Call.Args) == 1 {
							return walk(y.Call.Args[0], d+1)
						}
					case *ssa.Alloc:
						for _, s2 := range storesTo(y) {
							if walk(s2.Val, d+1) {
								return true
							}
						}
					case *ssa.UnOp:
						return walk(y.X, d+1)
					}
					return false
				}
				for _, v := range e.recordValues(st.Val) {
					if walk(v, 0) {
						countOK = true
					}
				}
			}
		})
		e.check(itemsOK && countOK, "R4", construct+":count-and-items", e.ipos(s.call), "Items = conv(X) (%v) and Count = len(X) (%v) for the same X = SearchData result", itemsOK, countOK)
	}
	e.minCount("R4", 4)
}

func c02R5(e *Engine) {
	for _, s := range e.searchSites() {
		construct := s.role + ".Client." + s.method + ":QueryInput."
		in := s.method + "Input."
		want := map[string]string{
			"Index":                     "field:" + in + "IndexName",
			"FilterExpression":          "field:" + in + "FilterExpression",
			"ExpressionAttributeValues": "conv field:" + in + "ExpressionAttributeValues",
			"Aliases":                   "field:" + in + "ExpressionAttributeNames",
			"Limit":                     "field:" + in + "Limit",
			"ExclusiveStartKey":         "conv field:" + in + "ExclusiveStartKey",
		}
		if s.method == "Query" {
			want["KeyConditionExpression"] = "field:" + in + "KeyConditionExpression"
		}
		for _, f := range sortedKeys(want) {
			got := e.queryInputField(s, f)
			ok := len(got) > 0
			hasMain := false
			for _, o := range got {
				o = strings.TrimPrefix(o, "deref-of ")
				if o != want[f] && o != `const:""` && o != "const:0" && o != "const:nil" {
					ok = false
				}
				if o == want[f] {
					hasMain = true
				}
			}
			e.check(ok && hasMain, "R5", construct+f, e.ipos(s.call), "QueryInput.%s ← %s (want %s)", f, strings.Join(got, " | "), want[f])
		}
		// direction and scan flag
		dir := e.queryInputField(s, "ScanIndexForward")
		scan := e.queryInputField(s, "Scan")
		kc := e.queryInputField(s, "KeyConditionExpression")
		if s.method == "Scan" {
			e.check(len(dir) == 1 && dir[0] == "const:true", "R5", construct+"ScanIndexForward", e.ipos(s.call), "Scan iterates forward (ScanIndexForward ← %v)", dir)
			e.check(len(scan) == 1 && scan[0] == "const:true", "R5", construct+"Scan", e.ipos(s.call), "Scan sets the Scan flag (← %v)", scan)
			e.check(len(kc) == 0, "R5", construct+"KeyConditionExpression", e.ipos(s.call), "Scan carries no key condition (← %v)", kc)
		} else {
			okDir := len(dir) > 0
			for _, o := range dir {
				if o != "field:QueryInput.ScanIndexForward" && o != "const:false" {
					okDir = false
				}
			}
			e.check(okDir, "R5", construct+"ScanIndexForward", e.ipos(s.call), "Query direction ← %v (the request's ScanIndexForward)", dir)
			okScan := true
			for _, o := range scan {
				if o != "const:false" {
					okScan = false
				}
			}
			e.check(okScan, "R5", construct+"Scan", e.ipos(s.call), "Query does not set the Scan flag (← %v)", scan)
			// default true when the request leaves the direction out
			def := false
			instrsDeep(s.fn, func(in2 ssa.Instruction) { // (also in a closure that builds the input)
				st, ok := in2.(*ssa.Store)
				if !ok {
					return
				}
				f := fieldOf(st.Addr)
				if f == nil || f.Name() != "ScanIndexForward" || !strings.HasSuffix(fieldOwner2(st.Addr), "QueryInput") || strings.Contains(fieldOwner2(st.Addr), "core") {
					return
				}
				isNil, _ := knownNilness(in2.Block(), func(v ssa.Value) bool {
					f2, _ := loadedFieldDeep(v)
					return f2 == f
				})
				for _, o := range e.origins(st.Val) {
					if o == "const:true" && isNil {
						def = true
					}
				}
			})
			e.check(def, "R5", construct+"ScanIndexForward:default", e.pos(s.fn.Pos()), "an absent ScanIndexForward defaults to true (ascending), as in DynamoDB")
		}
	}
	e.minCount("R5", 20)
}

func c02R6(e *Engine) {
	sd := e.fn("core", "Table.SearchData")
	ss := e.fn("core", "index.startSearch")
	gk := e.fn("core", "GetKeyAt")
	if !e.anchor("R6", "core.Table.SearchData/index.startSearch/GetKeyAt", sd == nil || ss == nil || gk == nil) {
		return
	}
	// the call of startSearch (in SearchData or a helper called from it before the loop)
	var startCalls []*ssa.Call
	for g := range e.reach(sd) {
		instrs(g, func(in ssa.Instruction) {
			if c, ok := in.(*ssa.Call); ok && c.Call.StaticCallee() == ss {
				startCalls = append(startCalls, c)
			}
		})
	}
	construct := "core.Table.SearchData:index-list-rebuilt-once"
	if len(startCalls) != 1 {
		e.fail("R6", construct, e.pos(sd.Pos()), "expected exactly one rebuild of the index entry list per search, found %d", len(startCalls))
		return
	}
	sc := startCalls[0]
	// it must not be inside a loop, and if in a helper, the helper call must dominate the loop in SearchData
	inLoop := false
	for _, body := range naturalLoops(sc.Parent()) {
		if body[sc.Block()] {
			inLoop = true
		}
	}
	var entry ssa.Instruction = sc
	if sc.Parent() != sd {
		entry = nil
		instrs(sd, func(in ssa.Instruction) {
			if c, ok := in.(*ssa.Call); ok && c.Call.StaticCallee() == sc.Parent() {
				entry = c
			}
		})
	}
	domLoop := entry != nil
	if entry != nil {
		for h, body := range naturalLoops(sd) {
			if body[entry.Block()] || !entry.Block().Dominates(h) && entry.Block() != h {
				domLoop = false
			}
		}
	}
	// governed by "an index is named"
	named := false
	for _, cd := range condsAt(sc.Block()) {
		cd = normCond(cd)
		if b, ok := cd.V.(*ssa.BinOp); ok {
			for _, o := range e.origins(b.X) {
				if strings.Contains(o, "QueryInput.Index") {
					named = true
				}
			}
		}
	}
	e.check(!inLoop && domLoop && named, "R6", construct, e.ipos(sc), "rebuilt outside any loop (%v), before the search loop (%v), when an index is named (%v)", !inLoop, domLoop, named)
	// same direction source for startSearch and GetKeyAt
	d1 := strings.Join(e.origins(sc.Call.Args[1]), "|")
	d2 := ""
	for _, g := range sortedFns(e, e.reach(sd)) { // in the loop itself or in a cursor/step helper it calls
		instrs(g, func(in ssa.Instruction) {
			if c, ok := in.(*ssa.Call); ok && c.Call.StaticCallee() == gk {
				d2 = strings.Join(e.origins(c.Call.Args[3]), "|")
			}
		})
	}
	same := d1 != "" && strings.Contains(d1, "QueryInput.ScanIndexForward") && strings.Contains(d2, "QueryInput.ScanIndexForward")
	e.check(same, "R6", "core.Table.SearchData:one-direction-flag", e.ipos(sc), "entry-list order ← %s ; position arithmetic ← %s", d1, d2)
}

func c02R8(e *Engine) {
	sd := e.fn("core", "Table.SearchData")
	if !e.anchor("R8", "core.Table.SearchData", sd == nil) {
		return
	}
	// anchor inside the loop: the per-position step (call of GetKeyAt)
	var step ssa.Instruction
	instrs(sd, func(in ssa.Instruction) {
		if c, ok := in.(*ssa.Call); ok && c.Call.StaticCallee() != nil && c.Call.StaticCallee().Name() == "GetKeyAt" {
			step = in
		}
	})
	if step == nil {
		// cursor form: the step lives in the step function of a cursor object; the loop is the one in SearchData that the
		// cursor drives (its calls inside a loop body)
		instrs(sd, func(in ssa.Instruction) {
			c, ok := in.(*ssa.Call)
			if !ok {
				return
			}
			if _, isStep := e.cursorStep(c.Call.StaticCallee()); !isStep {
				return
			}
			for _, body := range naturalLoops(sd) {
				if body[c.Block()] {
					step = in
				}
			}
		})
	}
	if step == nil {
		e.undecided("R8", "core.Table.SearchData:visits-every-position", e.pos(sd.Pos()), "position step not found")
		return
	}
	// every return of the search lies behind the loop: a return that control can reach without entering the loop hands
	// back an empty (or partial) page and no resume key although nothing was examined
	for h, body := range naturalLoops(sd) {
		if !body[step.Block()] {
			continue
		}
		for _, r := range returnsOf(sd) {
			construct := "core.Table.SearchData:returns-after-the-search"
			// … except when the key list to walk is empty: then there is nothing to examine
			emptyList := false
			for _, cd := range condsAt(r.Block()) {
				cd = normCond(cd)
				b, ok := cd.V.(*ssa.BinOp)
				if !ok {
					continue
				}
				if n, isK := constInt(b.Y); isK && n == 0 && ((b.Op == token.EQL && cd.Val) || (b.Op == token.NEQ && !cd.Val) || (b.Op == token.GTR && !cd.Val)) {
					if _, isLen := lenOf(b.X); isLen {
						emptyList = true
					}
				}
			}
			if h.Dominates(r.Block()) {
				e.pass("R8", construct, e.ipos(r), "the return is dominated by the head of the search loop")
			} else if emptyList {
				e.pass("R8", construct, e.ipos(r), "the return before the loop is taken only when the key list is empty")
			} else {
				e.fail("R8", construct, e.ipos(r), "SearchData can return without entering the loop over the key list: the items the request selects are not examined, the page comes back empty and complete (no LastEvaluatedKey) – matching items are lost")
			}
		}
	}
	n, why := e.visitsEveryElement(step, func(ex loopExit) bool {
		// the page limit: a condition computed from the request's Limit
		if ex.cond == nil {
			return false
		}
		ok := false
		var walk func(v ssa.Value, d int)
		walk = func(v ssa.Value, d int) {
			if d > 4 || ok {
				return
			}
			for _, o := range e.origins(v) {
				if strings.Contains(o, "QueryInput.Limit") {
					ok = true
				}
			}
			if c, isC := v.(*ssa.Call); isC {
				if g := c.Call.StaticCallee(); g != nil && e.fnRole(g) == "core" && g.Blocks != nil && isBoolType(c.Type()) && len(returnsOf(g)) > 1 {
					// a step helper that reports "the page is complete": every return is the constant false or is itself
					// computed from the limit
					all := true
					for _, r := range returnsOf(g) {
						rv := retVals(r)[0]
						if b, isK := constBool(rv); isK && !b {
							continue
						}
						saved := ok
						ok = false
						walk(rv, d+1)
						if !ok {
							all = false
						}
						ok = saved
					}
					if all {
						ok = true
					}
					return
				}
				for _, a := range c.Call.Args {
					walk(a, d+1)
				}
			}
			if b, isB := v.(*ssa.BinOp); isB {
				walk(b.X, d+1)
				walk(b.Y, d+1)
			}
			// a local struct of counters handed to a method (page.shouldBreak()): what its fields were set from
			if u, isU := v.(*ssa.UnOp); isU {
				if al, isAl := u.X.(*ssa.Alloc); isAl {
					for _, r := range refsOf(al) {
						if fa, isFA := r.(*ssa.FieldAddr); isFA {
							for _, st := range storesTo(fa) {
								walk(st.Val, d+1)
							}
						}
					}
				}
			}
		}
		walk(ex.cond, 0)
		return ok
	})
	construct := "core.Table.SearchData:visits-every-position"
	if n == 0 {
		e.fail("R8", construct, e.ipos(step), "the position step is not inside a loop")
	} else if why != "" {
		e.fail("R8", construct, e.ipos(step), "%s – matching items stored after that position are missing from the result (only the page limit may end the iteration early)", why)
	} else {
		e.pass("R8", construct, e.ipos(step), "the loop over the key list is left only when the list is exhausted or the page limit derived from QueryInput.Limit is reached")
	}
}

func ordStr(o int) string {
	switch {
	case o < 0:
		return "x<y"
	case o > 0:
		return "x>y"
	}
	return "x=y"
}

func isBoolType(t types.Type) bool {
	b, ok := t.Underlying().(*types.Basic)
	return ok && b.Kind() == types.Bool
}

// c02R15: a search is read-only on the items it walks. No function on the search path (everything SearchData reaches in
// the engine) updates or deletes entries of an item map that it did not build itself: the maps it is handed are the
// stored items or the ones already placed in the result page – stripping the last item down to its key attributes "in
// place" empties the item the caller is about to receive.
func c02R15(e *Engine) {
	sd := e.fn("core", "Table.SearchData")
	if !e.anchor("R15", "core.Table.SearchData", sd == nil) {
		return
	}
	n := 0
	for _, fn := range sortedFns(e, e.reach(sd)) {
		if e.fnRole(fn) != "core" {
			continue
		}
		n++
		bad := ""
		instrs(fn, func(in ssa.Instruction) {
			var m ssa.Value
			switch x := in.(type) {
			case *ssa.MapUpdate:
				m = x.Map
			case *ssa.Call:
				if staticCalleeName(x) == "builtin.delete" {
					m = x.Call.Args[0]
				}
			}
			if m == nil || !strings.Contains(typeName(m.Type()), "map[string]*") || !strings.HasSuffix(typeName(m.Type()), "types.Item") {
				return
			}
			// built here: a map made in this function (or by a copy function called here) – never a parameter, a stored
			// item or something a callee handed back
			var local func(v ssa.Value, d int) bool
			local = func(v ssa.Value, d int) bool {
				if d > 6 {
					return false
				}
				switch x := strip(v).(type) {
				case *ssa.MakeMap:
					return true
				case *ssa.Phi:
					for _, ed := range x.Edges {
						if !local(ed, d+1) {
							return false
						}
					}
					return true
				case *ssa.Call:
					g := x.Call.StaticCallee()
					if g != nil && isMapCopyFunc(g) {
						return true
					}
					// a helper that builds and returns a new map (getKeyItem)
					if g != nil && g.Blocks != nil && e.fnRole(g) == "core" {
						for _, r := range returnsOf(g) {
							if !local(retVals(r)[0], d+1) {
								return false
							}
						}
						return true
					}
					return false
				case *ssa.UnOp:
					if al, ok := x.X.(*ssa.Alloc); ok {
						for _, st := range storesTo(al) {
							if !local(st.Val, d+1) {
								return false
							}
						}
						return len(storesTo(al)) > 0
					}
				}
				return false
			}
			fresh := local(m, 0)
			if !fresh {
				bad = fmt.Sprintf("%s at %s (the map comes from %s)", map[bool]string{true: "an entry is written", false: "an entry is deleted"}[in.(ssa.Instruction) != nil && func() bool { _, ok := in.(*ssa.MapUpdate); return ok }()], e.ipos(in), strings.Join(e.origins(m), "|"))
			}
		})
		construct := e.fname(fn) + ":search-does-not-modify-items"
		if bad != "" {
			e.fail("R15", construct, e.pos(fn.Pos()), "on the search path %s: the item belongs to the table or to the page being returned – the caller receives an item with attributes missing or changed", bad)
		} else {
			e.pass("R15", construct, e.pos(fn.Pos()), "no entry of an item map that the function did not build is written or deleted")
		}
	}
	if n < 5 {
		e.fail("R15", "count:R15", "-", "only %d engine functions on the search path", n)
	}
}

// sameCell: two loads of one local variable that lives in memory (it is captured by a closure).
func sameCell(a, b ssa.Value) bool {
	ua, ok1 := a.(*ssa.UnOp)
	ub, ok2 := b.(*ssa.UnOp)
	if !ok1 || !ok2 || ua.Op != token.MUL || ub.Op != token.MUL {
		return false
	}
	al, ok := ua.X.(*ssa.Alloc)
	return ok && ub.X == ssa.Value(al)
}
