package main

import (
	"fmt"
	"go/token"
	"go/types"
	"sort"
	"strings"

	"golang.org/x/tools/go/ssa"
)

// allocFieldStores: for a composite built in a local alloc, field name -> stored value.
func allocFieldStores(al *ssa.Alloc) map[string]ssa.Value {
	out := map[string]ssa.Value{}
	for _, r := range refsOf(al) {
		if fa, ok := r.(*ssa.FieldAddr); ok {
			for _, st := range storesTo(fa) {
				out[fieldOf(fa).Name()] = st.Val
			}
		}
	}
	return out
}

func init() {
	register(&Prop{
		ID:         "C19",
		Title:      "Batch operations equal their item-by-item decomposition",
		Decided:    "the batch is literally its decomposition: (R1) the per-request dispatcher of BatchWriteItem calls the client's own PutItem with exactly {Item ← PutRequest.Item, TableName ← the request's table} and DeleteItem with exactly {Key ← DeleteRequest.Key, TableName ← table} – no condition or other field – choosing the branch by which request pointer is non-nil; (R2) the input validation dominates the first request and both loops visit every table and every request unconditionally; (R3) the error handler never drops a request (shared with C15.R3); (R4) BatchGetItem issues the client's own GetItem per key with {Key ← the key, TableName ← the table}, a key is reported unprocessed only on the non-nil edge of that call's own error, no error is manufactured from an empty result (absent keys are simply omitted), and results are appended under the table they were requested for; (R5) both clients offer the same batch operations; (R6) the lists a batch returns are not built on package-level storage (= C18.R6); (R7) in BatchWriteItem, as R4 requires of BatchGetItem, every slice stored under a table name is allocated inside that table's iteration.",
		NotDecided: "equality of the resulting table states (follows from R1–R3 together with C01/C08 for the single-item operations); DynamoDB's 16 MB / 100-key limits; order of responses.",
		Rules: []RuleDef{
			{ID: "R1", Desc: "dispatcher builds exactly the single-item request (T-FLOW)", Run: c19R1},
			{ID: "R2", Desc: "validation dominates; loops visit every request (SSA)", Run: c19R2},
			{ID: "R3", Desc: "handler never drops a request (T-PDOM, shared with C15)", Run: func(e *Engine) {
				for _, role := range clientRoles {
					found := false
					for _, fn := range e.funcs(role) {
						if fn.Parent() == nil && isBatchHandler(fn) {
							found = true
							before := len(e.obs)
							e.c15Handler(role, fn)
							for i := before; i < len(e.obs); i++ {
								e.obs[i].Rule = "R3"
							}
						}
					}
					if !found {
						if ih := e.inlineBatchHandler(role); ih != nil {
							if bw := e.clientMethods(role)["BatchWriteItem"]; bw != nil {
								e.c15Inline(role, ih, bw)
								continue
							}
						}
						e.fail("R3", role+":batch-error-handler", "-", "no per-request error handler found, and the loop does not record failed requests itself")
					}
				}
			}},
			{ID: "R4", Desc: "BatchGetItem: per-key GetItem; unprocessed only on a real error; absent keys omitted (T-FLOW + SSA)", Run: c19R4},
			{ID: "R5", Desc: "same batch operations in both clients (T-SIB)", Run: func(e *Engine) {
				for _, op := range []string{"BatchWriteItem", "BatchGetItem"} {
					_, in1 := e.clientMethods("v1")[op]
					_, in2 := e.clientMethods("v2")[op]
					e.check(in1 == in2, "R5", "Client."+op+":present-in-both", "-", "%s implemented in v1:%v v2:%v", op, in1, in2)
				}
			}},
			{ID: "R6", Desc: "batch results are not built on shared package-level storage (= C18.R6)", Run: aliasRule("R6", c18R6, nil)},
			{ID: "R7", Desc: "BatchWriteItem: the list of unprocessed requests stored under a table's name is that table's own – not a buffer made once before the loop over the tables or carried from one table to the next (re-sliced to [:0]), which all tables would share", Run: c19R7},
		},
	})
}

func c19R1(e *Engine) {
	for _, role := range clientRoles {
		ms := e.clientMethods(role)
		bw, put, del := ms["BatchWriteItem"], ms["PutItem"], ms["DeleteItem"]
		if !e.anchor("R1", role+".Client.BatchWriteItem/PutItem/DeleteItem", bw == nil || put == nil || del == nil) {
			continue
		}
		for _, spec := range []struct {
			target            *ssa.Function
			op, reqField, fld string
		}{{put, "PutItem", "PutRequest", "Item"}, {del, "DeleteItem", "DeleteRequest", "Key"}} {
			construct := role + ".batch->" + spec.op
			var sites []*ssa.Call
			for g := range e.reach(bw) {
				if e.fnRole(g) != role || g == put || g == del {
					continue
				}
				if rs := e.reach(put); rs[g] && g != bw {
					continue // helpers of the single-item methods themselves
				}
				instrs(g, func(in ssa.Instruction) {
					if c, ok := in.(*ssa.Call); ok && c.Call.StaticCallee() == spec.target {
						sites = append(sites, c)
					}
				})
			}
			if len(sites) != 1 {
				e.fail("R1", construct, e.pos(bw.Pos()), "expected exactly one dispatch call of %s from the batch path, found %d", spec.op, len(sites))
				continue
			}
			c := sites[0]
			// the input argument: pointer to a local composite
			var al *ssa.Alloc
			for _, a := range c.Call.Args {
				if x, ok := a.(*ssa.Alloc); ok && strings.HasSuffix(typeName(x.Type()), spec.op+"Input") {
					al = x
				}
			}
			if al == nil {
				e.undecided("R1", construct, e.ipos(c), "the request handed to %s is not a composite built at the call site", spec.op)
				continue
			}
			fs := allocFieldStores(al)
			var bad []string
			for name := range fs {
				if name != spec.fld && name != "TableName" {
					bad = append(bad, "extra field "+name+" is set (the decomposition has none)")
				}
			}
			fo := strings.Join(e.origins(fs[spec.fld]), "|")
			if fs[spec.fld] == nil || fo != "field:"+spec.reqField+"."+spec.fld {
				bad = append(bad, fmt.Sprintf("%s ← %s (want the request's %s.%s)", spec.fld, fo, spec.reqField, spec.fld))
			}
			to := e.origins(fs["TableName"])
			tblOK := fs["TableName"] != nil && len(to) > 0
			for _, o := range to {
				if !strings.Contains(o, "rangekey-of") || !strings.Contains(o, "RequestItems") {
					tblOK = false
				}
			}
			if !tblOK {
				bad = append(bad, "TableName ← "+strings.Join(to, "|")+" (want the table the request was listed under)")
			}
			// branch: on the non-nil edge of req.<reqField>
			onEdge := false
			_, nn := knownNilness(c.Block(), func(v ssa.Value) bool {
				for _, o := range e.origins(v) {
					if strings.Contains(o, "WriteRequest."+spec.reqField) {
						return true
					}
				}
				return false
			})
			onEdge = nn
			if !onEdge {
				bad = append(bad, "the call is not on the non-nil edge of the request's "+spec.reqField)
			}
			if len(bad) > 0 {
				e.fail("R1", construct, e.ipos(c), "%s", strings.Join(bad, "; "))
			} else {
				e.pass("R1", construct, e.ipos(c), "%sInput{%s ← request.%s.%s, TableName ← table}, on the %s != nil edge", spec.op, spec.fld, spec.reqField, spec.fld, spec.reqField)
			}
		}
	}
	e.minCount("R1", 4)
}

func c19R2(e *Engine) {
	for _, role := range clientRoles {
		bw := e.clientMethods(role)["BatchWriteItem"]
		put := e.clientMethods(role)["PutItem"]
		if !e.anchor("R2", role+".Client.BatchWriteItem", bw == nil || put == nil) {
			continue
		}
		var dispatch, validate *ssa.Call
		dsite, _ := e.batchWritePath(role)
		if dsite != nil {
			dispatch, _ = dsite.call.(*ssa.Call)
		}
		instrs(bw, func(in ssa.Instruction) {
			c, ok := in.(*ssa.Call)
			if !ok || isBuiltin(c) {
				return
			}
			g := c.Call.StaticCallee()
			if g == nil || e.fnRole(g) != role {
				return
			}
			// validator: takes the batch input, returns only error, reaches no client method
			if g.Signature.Results().Len() == 1 && isErrorType(g.Signature.Results().At(0).Type()) && len(g.Params) == 1 && strings.HasSuffix(typeName(g.Params[0].Type()), "BatchWriteItemInput") {
				validate = c
			}
		})
		construct := role + ".Client.BatchWriteItem"
		if dispatch == nil {
			e.fail("R2", construct+":loops", e.pos(bw.Pos()), "no per-request dispatch")
			continue
		}
		if validate == nil {
			e.fail("R2", construct+":validated-first", e.pos(bw.Pos()), "the batch input is not validated before the first request is executed")
		} else {
			top := dsite.chainInstrs()[len(dsite.chainInstrs())-1] // the dispatch as seen from BatchWriteItem
			isNil, _ := knownNilness(top.Block(), func(v ssa.Value) bool { return v == ssa.Value(validate) })
			e.check(isNil && idominates(validate, top), "R2", construct+":validated-first", e.ipos(validate), "validation dominates the first request and requests run only on its nil edge")
		}
		ranges, bad := 0, ""
		var chainConds []Cond
		for _, ci := range dsite.chainInstrs() {
			chainConds = append(chainConds, condsAt(ci.Block())...)
		}
		for _, c := range chainConds {
			if ex, ok := c.V.(*ssa.Extract); ok {
				if _, isNext := ex.Tuple.(*ssa.Next); isNext && ex.Index == 0 {
					ranges++
					continue
				}
			}
			if isIndexLoopCond(c.V) {
				ranges++
				continue
			}
			if _, _, isNil := nilTest(c.V); isNil {
				continue
			}
			bad = c.V.String()
		}
		if bad == "" {
			for _, ci := range dsite.chainInstrs() {
				if _, why := e.visitsEveryElement(ci, nil); why != "" {
					bad = why
				}
			}
		}
		e.check(bad == "" && ranges >= 2, "R2", construct+":loops", e.ipos(dispatch), "every request of every table is executed (range loops: %d, problem: %q)", ranges, bad)
		// requests are executed in the order given: the inner loop ranges over the request list as supplied and nothing reorders it
		reorder := ""
		for g := range e.reach(bw) {
			if e.fnRole(g) != role || e.reach(put)[g] && g != bw {
				continue
			}
			instrs(g, func(in ssa.Instruction) {
				if c, ok := in.(*ssa.Call); ok {
					n := staticCalleeName(c)
					if strings.HasPrefix(n, "sort.") || strings.HasPrefix(n, "slices.Sort") || strings.HasPrefix(n, "slices.Reverse") {
						reorder = n + " at " + e.ipos(in)
					}
				}
			})
		}
		// … and what is dispatched is an element of the request's own per-table list, visited in place: a loop over a
		// rebuilt list (deletes first, de-duplicated, grouped) is a different order or a different multiset
		reqArg := dispatch.Call.Args[len(dispatch.Call.Args)-1]
		ros := e.originsCtx(reqArg, dsite.ctx)
		for _, o := range ros {
			okO := strings.HasSuffix(o, "Input.RequestItems") && (strings.HasPrefix(o, "rangeval-of rangeval-of ") || strings.HasPrefix(o, "elem-of rangeval-of "))
			if !okO && reorder == "" {
				reorder = "the dispatched request comes from " + o + ", not from the request's own list"
			}
		}
		// an element access must use the loop's own ascending induction variable
		if u, isU := strip(reqArg).(*ssa.UnOp); isU && reorder == "" {
			if ia, isIA := u.X.(*ssa.IndexAddr); isIA && !ascendingInduction(ia.Index) {
				reorder = "the element of the request list is selected by " + ia.Index.String() + ", not by the loop's ascending position"
			}
		}
		if len(ros) == 0 && reorder == "" {
			reorder = "the origin of the dispatched request could not be traced"
		}
		e.check(reorder == "", "R2", construct+":order-preserved", e.pos(bw.Pos()), "the requests of a table are executed in the order given (%s) – a put and a delete of the same key must take effect in sequence", reorder)
	}
}

func c19R4(e *Engine) {
	role := "v2"
	ms := e.clientMethods(role)
	bg, get := ms["BatchGetItem"], ms["GetItem"]
	if !e.anchor("R4", "v2.Client.BatchGetItem/GetItem", bg == nil || get == nil) {
		return
	}
	// helpers between BatchGetItem and GetItem
	var getCalls []*ssa.Call
	var helpers []*ssa.Function
	for g := range e.reach(bg) {
		if e.fnRole(g) != role || g == get || e.reach(get)[g] {
			continue
		}
		instrs(g, func(in ssa.Instruction) {
			if c, ok := in.(*ssa.Call); ok && c.Call.StaticCallee() == get {
				getCalls = append(getCalls, c)
				helpers = append(helpers, g)
			}
		})
	}
	if len(getCalls) != 1 {
		e.fail("R4", "v2.batch->GetItem", e.pos(bg.Pos()), "expected exactly one GetItem dispatch from the batch path, found %d", len(getCalls))
		return
	}
	gc, helper := getCalls[0], helpers[0]
	// (a) no manufactured error in the helper: each non-nil error returned derives from GetItem's own error
	if helper != bg {
		bad := ""
		ei := errResultIndex(helper)
		for _, r := range returnsOf(helper) {
			if ei < 0 {
				continue
			}
			v := retVals(r)[ei]
			if isNilConst(v) || derivesFrom(v, gc) {
				continue
			}
			bad = fmt.Sprintf("return at %s yields %s, an error that GetItem did not produce", e.ipos(r), describeValue(v))
		}
		if bad != "" {
			e.fail("R4", e.fname(helper)+":no-manufactured-error", e.ipos(gc), "%s: a key with no stored item is turned into a failure and ends up in UnprocessedKeys (a retry-until-empty loop never ends)", bad)
		} else {
			e.pass("R4", e.fname(helper)+":no-manufactured-error", e.ipos(gc), "the helper only returns GetItem's own error")
		}
	}
	// (b) GetItemInput: Key ← range value of Keys, TableName ← range key of RequestItems
	// the functions of the batch path (BatchGetItem and the package-local helpers it is factored into)
	var batchFns []*ssa.Function
	for g := range e.reach(bg) {
		if e.fnRole(g) == role && g != get && !e.reach(get)[g] {
			batchFns = append(batchFns, g)
		}
	}
	sort.Slice(batchFns, func(i, j int) bool { return batchFns[i].Pos() < batchFns[j].Pos() })
	var al *ssa.Alloc
	for _, g := range batchFns {
		instrs(g, func(in ssa.Instruction) {
			if x, ok := in.(*ssa.Alloc); ok && strings.HasSuffix(typeName(x.Type()), "GetItemInput") {
				al = x
			}
		})
	}
	if al == nil {
		e.undecided("R4", "v2.Client.BatchGetItem:request", e.pos(bg.Pos()), "GetItemInput is not built as a composite in BatchGetItem")
	} else {
		fs := allocFieldStores(al)
		ko := strings.Join(e.origins(fs["Key"]), "|")
		to := strings.Join(e.origins(fs["TableName"]), "|")
		okK := strings.Contains(ko, "KeysAndAttributes.Keys")
		okT := strings.Contains(to, "rangekey-of") && strings.Contains(to, "RequestItems")
		_, hasCond := fs["ConditionExpression"]
		e.check(okK && okT && !hasCond, "R4", "v2.Client.BatchGetItem:request", e.pos(al.Pos()), "GetItemInput{Key ← %s, TableName ← %s}", ko, to)
		// every per-table setting of the batch request (projection, attribute names, consistency, …) reaches the
		// single-item request under the same name: GetItem validates and projects with them
		if kaa := sdkStruct(al.Type(), "KeysAndAttributes", e); kaa != nil {
			gi := namedOf(al.Type()).Underlying().(*types.Struct)
			giFields := map[string]bool{}
			for i := 0; i < gi.NumFields(); i++ {
				giFields[gi.Field(i).Name()] = true
			}
			for i := 0; i < kaa.NumFields(); i++ {
				f := kaa.Field(i).Name()
				if f == "Keys" || !giFields[f] || !kaa.Field(i).Exported() {
					continue
				}
				v, set := fs[f]
				okF := false
				if set {
					for _, o := range e.origins(v) {
						if strings.HasSuffix(o, "KeysAndAttributes."+f) || strings.Contains(o, "field KeysAndAttributes."+f+" of") {
							okF = true
						}
					}
				}
				e.check(okF, "R4", "v2.Client.BatchGetItem:forwards-"+f, e.pos(al.Pos()), "the batch request's %s reaches the single-item request (set:%v): without it the per-key GetItem validates/projects differently from an individual GetItem with the same settings", f, set)
			}
		}
	}
	// (c) unprocessed append only on the non-nil error edge; response append only on the nil edge
	var helperCall *ssa.Call
	for _, g := range batchFns {
		if g == helper && helper != bg {
			continue
		}
		instrs(g, func(in ssa.Instruction) {
			if c, ok := in.(*ssa.Call); ok && (c.Call.StaticCallee() == helper || c == gc) {
				helperCall = c
			}
		})
	}
	if helperCall == nil {
		e.fail("R4", "v2.Client.BatchGetItem:unprocessed-only-on-error", e.pos(bg.Pos()), "dispatch call not found in BatchGetItem")
		return
	}
	errs := extractOf(helperCall, helperCall.Call.Signature().Results().Len()-1)
	isErr := func(v ssa.Value) bool {
		for _, x := range errs {
			if v == ssa.Value(x) {
				return true
			}
		}
		return false
	}
	nUn, nResp := 0, 0
	bad := ""
	loopFn := helperCall.Parent() // the function that iterates over the keys and dispatches each of them
	instrs(loopFn, func(in ssa.Instruction) {
		c, ok := in.(*ssa.Call)
		if !ok || staticCalleeName(c) != "builtin.append" {
			return
		}
		els := variadicElems(c.Call.Args[1])
		if len(els) != 1 {
			return
		}
		elO := strings.Join(e.origins(els[0]), "|")
		isNil, nonNil := knownNilness(c.Block(), isErr)
		switch {
		case strings.Contains(elO, "KeysAndAttributes.Keys"):
			nUn++
			if !nonNil {
				bad = "a key is appended to the unprocessed list at " + e.ipos(c) + " without the dispatch having failed"
			}
			// which failures leave a key unprocessed: the branch must also depend on the class of the error
			classified := false
			for _, cd := range condsAt(c.Block()) {
				if cc, ok := normCond(cd).V.(*ssa.Call); ok {
					for _, a := range cc.Call.Args {
						if isErr(a) || derivesFromAny(a, errs) {
							classified = true
						}
					}
				}
			}
			if classified {
				e.pass("R4", "v2.Client.BatchGetItem:unprocessed-only-for-retryable-errors", e.ipos(c), "the error is classified before the key is reported unprocessed")
			} else {
				e.fail("R4", "v2.Client.BatchGetItem:unprocessed-only-for-retryable-errors", e.ipos(c), "every failure of the per-key GetItem – a malformed key, a key of the wrong type, an unknown table – is turned into an unprocessed key and the call succeeds, where the individual GetItem (and DynamoDB's BatchGetItem) reject the request; BatchWriteItem classifies its errors (only InternalServerError / ProvisionedThroughputExceeded stay unprocessed), BatchGetItem does not")
			}
		case derivesFrom(els[0], helperCall):
			nResp++
			if !isNil {
				bad = "an item is appended to the responses at " + e.ipos(c) + " without the dispatch having succeeded"
			}
		}
	})
	if nUn == 0 || nResp == 0 {
		bad = fmt.Sprintf("could not find the two accumulations (unprocessed:%d responses:%d)", nUn, nResp)
	}
	// every key of a table is dispatched: the key loop is left only by exhaustion (or by returning an error)
	if _, why := e.visitsEveryElement(helperCall, nil); why != "" {
		e.fail("R4", "v2.Client.BatchGetItem:every-key-dispatched", e.ipos(helperCall), "%s: the keys after that point are neither looked up nor – individually – reported, so stored items requested after it are missing from the response", why)
	} else {
		e.pass("R4", "v2.Client.BatchGetItem:every-key-dispatched", e.ipos(helperCall), "the loops around the per-key dispatch end by exhaustion only")
	}
	e.check(bad == "", "R4", "v2.Client.BatchGetItem:unprocessed-only-on-error", e.ipos(helperCall), "keys become unprocessed only on the error edge, items are returned only on the success edge %s", bad)
	// (d) per-table accumulators: what is stored under a table's name is allocated for that table (inside the table loop)
	// the dispatch as seen from BatchGetItem: the call itself, or the call of the helper that contains it
	var topCall ssa.Instruction = helperCall
	if loopFn != bg {
		topCall = nil
		instrs(bg, func(in ssa.Instruction) {
			if c, ok := in.(*ssa.Call); ok && c.Call.StaticCallee() != nil && (c.Call.StaticCallee() == loopFn || e.reach(c.Call.StaticCallee())[loopFn]) && e.fnRole(c.Call.StaticCallee()) == role {
				topCall = c
			}
		})
	}
	shared := e.sharedPerTableBuffer(bg, topCall, role)
	e.check(shared == "", "R4", "v2.Client.BatchGetItem:per-table-accumulators", e.pos(bg.Pos()), "each table's response list is allocated for that table %s", shared)
}

func derivesFromAny(v ssa.Value, srcs []*ssa.Extract) bool {
	for _, x := range srcs {
		if strip(v) == ssa.Value(x) {
			return true
		}
		if mi, ok := v.(*ssa.MakeInterface); ok && mi.X == ssa.Value(x) {
			return true
		}
	}
	return false
}

// sdkStruct: the struct type named `name` in the package that declares the (pointer to) struct type t's sibling types
// (dynamodb.GetItemInput lives in service/dynamodb, KeysAndAttributes in service/dynamodb/types: searched in the imports).
func sdkStruct(t types.Type, name string, e *Engine) *types.Struct {
	nt := namedOf(t)
	if nt == nil || nt.Obj().Pkg() == nil {
		return nil
	}
	cands := append([]*types.Package{nt.Obj().Pkg()}, nt.Obj().Pkg().Imports()...)
	for _, p := range cands {
		if o := p.Scope().Lookup(name); o != nil {
			if st, ok := o.Type().Underlying().(*types.Struct); ok {
				return st
			}
		}
	}
	return nil
}

// ascendingInduction: v is the position of a loop that visits 0, 1, 2, …: a phi starting at 0 stepped by +1, or the
// `phi + 1` of go/ssa's range lowering (phi starting at -1).
func ascendingInduction(v ssa.Value) bool {
	var phi *ssa.Phi
	start := int64(0)
	switch x := v.(type) {
	case *ssa.Phi:
		phi = x
	case *ssa.BinOp:
		if n, ok := constInt(x.Y); x.Op == token.ADD && ok && n == 1 {
			phi, _ = x.X.(*ssa.Phi)
			start = -1
		}
	}
	if phi == nil {
		return false
	}
	okStart, okStep := false, false
	for _, ed := range phi.Edges {
		if n, isC := constInt(ed); isC {
			okStart = n == start
			continue
		}
		add, ok := ed.(*ssa.BinOp)
		if !ok || add.Op != token.ADD || add.X != ssa.Value(phi) {
			return false
		}
		if n, isC := constInt(add.Y); !isC || n != 1 {
			return false
		}
		okStep = true
	}
	return okStart && okStep
}

// sharedPerTableBuffer: in fn, whose loop over the tables contains topCall, what is stored under a table's name must be
// allocated for that table: a slice made outside the loop, or carried from one iteration of it to the next, is shared
// by the lists of all tables. "" when every stored list is the table's own.
func (e *Engine) sharedPerTableBuffer(bg *ssa.Function, topCall ssa.Instruction, role string) string {
	var outer map[*ssa.BasicBlock]bool
	if topCall != nil {
		for _, body := range naturalLoops(bg) {
			if body[topCall.Block()] && (outer == nil || len(body) > len(outer)) {
				outer = body
			}
		}
	}
	shared := ""
	instrs(bg, func(in ssa.Instruction) {
		mu, ok := in.(*ssa.MapUpdate)
		if !ok || outer == nil {
			return
		}
		if _, isSlice := mu.Value.Type().Underlying().(*types.Slice); !isSlice {
			return
		}
		// roots of the stored slice: make/literal sites reached through append/slice/phi
		seen := map[ssa.Value]bool{}
		var walk func(v ssa.Value)
		walk = func(v ssa.Value) {
			v = strip(v)
			if seen[v] {
				return
			}
			seen[v] = true
			switch x := v.(type) {
			case *ssa.MakeSlice:
				if !outer[x.Block()] {
					shared = "a slice made once at " + e.ipos(x) + " (outside the loop over tables) is stored under each table name at " + e.ipos(in)
				}
			case *ssa.Alloc: // make with constant size is lowered to an array allocation
				if !outer[x.Block()] {
					shared = "a buffer allocated once at " + e.ipos(x) + " (outside the loop over tables) is stored under each table name at " + e.ipos(in)
				}
			case *ssa.Phi:
				// a slice carried around the loop over tables (declared once, re-sliced to [:0] per table, say): what one
				// table accumulated shares its backing array with the next table's list
				if outer[x.Block()] {
					isHeader := false
					for _, p := range x.Block().Preds {
						if !outer[p] {
							isHeader = true
						}
					}
					if isHeader {
						for i, ed := range x.Edges {
							if outer[x.Block().Preds[i]] && !isNilConst(ed) {
								shared = "a slice is carried from one table's iteration to the next (loop-carried at " + e.ipos(x) + ") and stored under each table name at " + e.ipos(in) + ": the lists of different tables share one backing array"
							}
						}
					}
				}
				for _, ed := range x.Edges {
					walk(ed)
				}
			case *ssa.Slice:
				walk(x.X)
			case *ssa.Call:
				if staticCalleeName(x) == "builtin.append" {
					walk(x.Call.Args[0])
				} else if g := x.Call.StaticCallee(); g != nil && e.fnRole(g) == role && !outer[x.Block()] {
					shared = "the result of one call of " + e.fname(g) + " at " + e.ipos(x) + " (outside the loop over tables) is stored under each table name at " + e.ipos(in)
				}
				// a helper called once per table hands back what it allocated for that call
			case *ssa.Lookup:
				// responses[table] read back: its own previous value
			case *ssa.Extract:
				walk(x.Tuple)
			case *ssa.UnOp:
				if al, ok := x.X.(*ssa.Alloc); ok {
					for _, st := range storesTo(al) {
						walk(st.Val)
					}
				}
			}
		}
		walk(mu.Value)
	})
	return shared
}

// c19R7: the per-table clause of R4, for the unprocessed requests of BatchWriteItem.
func c19R7(e *Engine) {
	for _, role := range clientRoles {
		bw := e.clientMethods(role)["BatchWriteItem"]
		if !e.anchor("R7", role+".Client.BatchWriteItem", bw == nil) {
			continue
		}
		dsite, _ := e.batchWritePath(role)
		if !e.anchor("R7", role+": per-request dispatch of BatchWriteItem", dsite == nil) {
			continue
		}
		chain := dsite.chainInstrs()
		top := chain[len(chain)-1]
		shared := e.sharedPerTableBuffer(bw, top, role)
		e.check(shared == "", "R7", role+".Client.BatchWriteItem:per-table-unprocessed", e.pos(bw.Pos()), "each table's list of unprocessed requests is allocated for that table %s", shared)
	}
}
