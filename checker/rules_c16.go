package main

import (
	_ "embed"
	"fmt"
	"go/ast"
	"go/constant"
	"go/token"
	"go/types"
	"sort"
	"strings"

	"golang.org/x/tools/go/ssa"
)

//go:embed ref/reserved_words.txt
var reservedRef string

func init() {
	register(&Prop{
		ID:         "C16",
		Title:      "DynamoDB usage restrictions are detected",
		Decided:    "(R1) the reserved-word table equals the reference list of 573 words in both directions (a missing word under-rejects, an extra word rejects a legal request); (R2) a bare name is looked up in the environment only through one funnel in which the reserved-word test on the upper-cased literal precedes the lookup whenever the name is in a top-level position, and every call passes toplevel=true except the map-member position; (R3) whether a supplied placeholder is 'used' is decided on whole placeholders (match followed by a boundary test, or tokens), not by substring containment; (R4) the two placeholder-key patterns are ^#[A-Za-z0-9_]+$ and ^:[A-Za-z0-9_]+$, every supplied key is matched and a mismatch is an error; (R5) a #name/:value that is not bound yields an error rather than an undefined value; (R6) the key condition's shape is validated against the key schema before iteration; (R7) batch writes: the limit constant is 25, compared with > against the total over all tables, and a request that is neither or both put and delete is rejected; (R8) the restrictions are detected while an operand is evaluated: every evaluator of a node with several operand fields evaluates all of them before it returns a non-error result (no short-circuit that lets a reserved word or an undefined function in the skipped operand go unnoticed); (R9) every request is validated on its own: the validators consult and update no package-level mutable state (= C18.R6) – a remembered verdict would let a later, different request through; (R10) wherever the evaluator tests for an error object, the error edge returns an error – it is never swallowed or replaced.",
		NotDecided: "completeness of the rejection for every syntactic position of every reserved word beyond the identifier-evaluation funnel of R2; the reference list itself is a transcription that cannot be re-fetched offline (trusted base).",
		Assumes:    []string{"checker/ref/reserved_words.txt (573 words) is the AWS 'Reserved words in DynamoDB' list, including its documented spellings FLATTERN, INNTER, LOGED"},
		Rules: []RuleDef{
			{ID: "R1", Desc: "reserved-word table equals the reference list (T-TABLE)", Run: c16R1},
			{ID: "R2", Desc: "reserved-word test dominates the environment lookup of bare names (T-DOM/T-FIELD)", Run: c16R2},
			{ID: "R3", Desc: "'used placeholder' decided on whole placeholders, not substrings (idiom)", Run: c16R3},
			{ID: "R4", Desc: "placeholder key syntax: patterns, coverage of all keys (T-TABLE)", Run: c16R4},
			{ID: "R5", Desc: "unbound placeholder is an error, not UNDEFINED (SSA)", Run: c16R5},
			{ID: "R6", Desc: "key-condition shape validated against the key schema before iteration", Run: c16R6},
			{ID: "R7", Desc: "batch write limits: 25 over all tables, exactly one of put/delete (T-TABLE)", Run: c16R7},
			{ID: "R8", Desc: "no short-circuit: every operand of a node is evaluated (and thereby checked) before a non-error result (T-DOM)", Run: c16R8},
			{ID: "R9", Desc: "validation is stateless: no package-level mutable state is consulted or updated (= C18.R6)", Run: aliasRule("R9", c18R6, nil)},
			{ID: "R10", Desc: "error objects propagate: from the \"is an error\" edge of every error test in the evaluator no return of a non-error value is reachable (error discipline)", Run: c16R10},
		},
	})
}

func c16R1(e *Engine) {
	init, info := e.varInit("lang", "reservedWords")
	if !e.anchor("R1", "lang.reservedWords", init == nil) {
		return
	}
	cl, ok := unparen(init).(*ast.CompositeLit)
	if !ok {
		e.undecided("R1", "lang.reservedWords:literal", e.pos(init.Pos()), "reserved-word table is not a composite literal")
		return
	}
	have := map[string]bool{}
	for _, el := range cl.Elts {
		kv, ok := el.(*ast.KeyValueExpr)
		if !ok {
			continue
		}
		tv := info.Types[kv.Key]
		if tv.Value == nil || tv.Value.Kind() != constant.String {
			e.undecided("R1", "lang.reservedWords:literal", e.pos(kv.Pos()), "non-constant key in the reserved-word table")
			return
		}
		vv := info.Types[kv.Value]
		if vv.Value == nil || !constant.BoolVal(vv.Value) {
			continue // word mapped to false is not reserved
		}
		have[constant.StringVal(tv.Value)] = true
	}
	want := map[string]bool{}
	for _, w := range strings.Fields(reservedRef) {
		want[w] = true
	}
	var missing, extra []string
	for w := range want {
		if !have[w] {
			missing = append(missing, w)
		}
	}
	for w := range have {
		if !want[w] {
			extra = append(extra, w)
		}
	}
	sort.Strings(missing)
	sort.Strings(extra)
	for _, w := range missing {
		e.fail("R1", "reservedWords["+w+"]", e.pos(cl.Pos()), "reserved word %s is missing from the table: a request using it as a bare attribute name is accepted although DynamoDB rejects it", w)
	}
	for _, w := range extra {
		e.fail("R1", "reservedWords["+w+"]", e.pos(cl.Pos()), "%s is in the table but not in the reference list: a legal request using it as an attribute name is rejected", w)
	}
	if len(missing)+len(extra) == 0 {
		e.pass("R1", "reservedWords:equals-reference", e.pos(cl.Pos()), "%d words, identical to the reference list", len(have))
	}
	// the lookup function consults exactly this table with the given word
	rw := e.fn("lang", "IsReservedWord")
	if e.anchor("R1", "lang.IsReservedWord", rw == nil) {
		g := e.global("lang", "reservedWords")
		ok := false
		instrs(rw, func(in ssa.Instruction) {
			if lk, isLk := in.(*ssa.Lookup); isLk {
				if u, isU := lk.X.(*ssa.UnOp); isU && u.X == ssa.Value(g) {
					if _, isP := lk.Index.(*ssa.Parameter); isP {
						ok = true
					}
				}
			}
		})
		e.check(ok, "R1", "lang.IsReservedWord:consults-table", e.pos(rw.Pos()), "IsReservedWord looks its argument up in reservedWords")
	}
}

func c16R2(e *Engine) {
	ei := e.fn("lang", "evalIdentifier")
	get := e.fn("lang", "Environment.Get")
	rw := e.fn("lang", "IsReservedWord")
	if !e.anchor("R2", "lang.evalIdentifier / Environment.Get / IsReservedWord", ei == nil || get == nil || rw == nil) {
		return
	}
	// funnel: Environment.Get is called only from evalIdentifier
	for _, c := range e.callersOf(get) {
		fn := c.Parent()
		e.check(fn == ei, "R2", e.fname(fn)+"->Environment.Get", e.ipos(c.(ssa.Instruction)), "bare-name lookups go through the single funnel evalIdentifier")
	}
	// inside the funnel
	var rwCall, getCall *ssa.Call
	instrs(ei, func(in ssa.Instruction) {
		if c, ok := in.(*ssa.Call); ok {
			if c.Call.StaticCallee() == rw {
				rwCall = c
			}
			if c.Call.StaticCallee() == get {
				getCall = c
			}
		}
	})
	construct := "lang.evalIdentifier:reserved-before-lookup"
	if rwCall == nil || getCall == nil {
		e.fail("R2", construct, e.pos(ei.Pos()), "reserved-word test or environment lookup missing (test:%v lookup:%v)", rwCall != nil, getCall != nil)
	} else {
		// toplevel parameter
		var top *ssa.Parameter
		for _, p := range ei.Params {
			if b, ok := p.Type().Underlying().(*types.Basic); ok && b.Kind() == types.Bool {
				top = p
			}
		}
		// the test's argument is the upper-cased literal of the node
		upper := false
		if uc, ok := strip(rwCall.Call.Args[0]).(*ssa.Call); ok && staticCalleeName(uc) == "strings.ToUpper" {
			for _, o := range e.origins(uc.Call.Args[0]) {
				if strings.Contains(o, "Token.Literal") || strings.Contains(o, "Identifier.Value") {
					upper = true
				}
			}
		}
		// the test runs whenever toplevel: its block is governed by toplevel==true only
		guardOK := true
		for _, cd := range condsAt(rwCall.Block()) {
			cd = normCond(cd)
			if !(cd.V == ssa.Value(top) && cd.Val) {
				guardOK = false
			}
		}
		// reserved edge returns an error object and never reaches the lookup
		var resIf *ssa.If
		for _, r := range refsOf(rwCall) {
			if i, ok := r.(*ssa.If); ok {
				resIf = i
			}
		}
		edgeOK := false
		if resIf != nil {
			tb := resIf.Block().Succs[0]
			reach := reachableFrom(tb)
			reach[tb] = true
			edgeOK = !reach[getCall.Block()]
			if ret, ok := tb.Instrs[len(tb.Instrs)-1].(*ssa.Return); ok {
				if !strings.HasSuffix(typeName(strip(retVals(ret)[0]).Type()), "language.Error") {
					edgeOK = false
				}
			} else {
				edgeOK = false
			}
		}
		e.check(upper && guardOK && edgeOK, "R2", construct, e.ipos(rwCall), "IsReservedWord(ToUpper(literal)) runs whenever toplevel (guard ok:%v), on the upper-cased literal (%v), and its true edge returns an error without reaching the lookup (%v)", guardOK, upper, edgeOK)
	}
	// call sites: toplevel=true everywhere except map-member evaluation
	exceptions := 0
	for _, c := range e.callersOf(ei) {
		call := c.(*ssa.Call)
		v, isConst := constBool(call.Call.Args[len(call.Call.Args)-1])
		fn := call.Parent()
		construct := e.fname(fn) + "->evalIdentifier"
		switch {
		case !isConst:
			e.undecided("R2", construct, e.ipos(call), "toplevel argument is not a constant")
		case v:
			e.ob("R2", construct, e.ipos(call), Pass, false, "toplevel=true")
		default:
			exceptions++
			// the one legitimate site evaluates a map member name (after a '.')
			isMember := strings.Contains(strings.ToLower(fn.Name()), "mapindex")
			if !isMember {
				// structural: the function's result is used as a map key (string result)
				isMember = fn.Signature.Results().Len() >= 1 && typeName(fn.Signature.Results().At(0).Type()) == "string"
			}
			e.check(isMember, "R2", construct, e.ipos(call), "toplevel=false only where a map member name is evaluated (member names may be reserved words)")
		}
	}
	if exceptions > 1 {
		e.fail("R2", "lang.evalIdentifier:single-exception", e.pos(ei.Pos()), "%d call sites disable the reserved-word test; only the map-member position may", exceptions)
	}
	e.minCount("R2", 8)
}

func c16R3(e *Engine) {
	for _, role := range clientRoles {
		// the function that computes the list of supplied-but-unused placeholders: (string, []string) []string
		var fn *ssa.Function
		for _, f := range e.funcs(role) {
			if f.Parent() == nil && len(f.Params) == 2 && f.Signature.Results().Len() == 1 && typeName(f.Params[0].Type()) == "string" && typeName(f.Params[1].Type()) == "[]string" && typeName(f.Signature.Results().At(0).Type()) == "[]string" {
				fn = f
			}
		}
		if fn == nil {
			// the detector may be part of a larger helper (expression text, key list, …): the function that branches on a
			// test of (the text parameter, an element of the key-list parameter)
			for _, f := range e.funcs(role) {
				if f.Parent() != nil {
					continue
				}
				var text, keys *ssa.Parameter
				for _, p := range f.Params {
					switch typeName(p.Type()) {
					case "string":
						if text == nil {
							text = p
						}
					case "[]string":
						keys = p
					}
				}
				if text == nil || keys == nil {
					continue
				}
				instrs(f, func(in ssa.Instruction) {
					ifi, ok := in.(*ssa.If)
					if !ok {
						return
					}
					c, ok := strip(ifi.Cond).(*ssa.Call)
					if u, isU := ifi.Cond.(*ssa.UnOp); isU && u.Op == token.NOT {
						c, ok = strip(u.X).(*ssa.Call)
					}
					if !ok || len(c.Call.Args) != 2 || strip(c.Call.Args[0]) != ssa.Value(text) {
						return
					}
					if u, isU := strip(c.Call.Args[1]).(*ssa.UnOp); isU && u.Op == token.MUL {
						if ia, isIA := u.X.(*ssa.IndexAddr); isIA && strip(ia.X) == ssa.Value(keys) {
							fn = f
						}
					}
				})
			}
		}
		if !e.anchor("R3", role+": unused-placeholder detector (func(string, []string) []string)", fn == nil) {
			continue
		}
		construct := e.fnRole(fn) + ":placeholder-used-test" // keyed by role: the helper's name is not part of the finding
		verdict, why := "", ""
		instrs(fn, func(in ssa.Instruction) {
			ifi, ok := in.(*ssa.If)
			if !ok || verdict != "" {
				return
			}
			c, ok := strip(ifi.Cond).(*ssa.Call)
			if u, isU := ifi.Cond.(*ssa.UnOp); isU && u.Op == token.NOT {
				c, ok = strip(u.X).(*ssa.Call)
			}
			if !ok {
				return
			}
			name := staticCalleeName(c)
			switch {
			case name == "strings.Contains" || name == "strings.Index" || name == "strings.Count":
				verdict, why = "fail", name+" on the concatenated expression text: \":a\" counts as used when only \":ab\" occurs, so an unused placeholder goes undetected"
			case c.Call.StaticCallee() != nil && e.fnRole(c.Call.StaticCallee()) == role:
				h := c.Call.StaticCallee()
				boundary, regex := false, false
				for g := range e.reach(h) {
					instrs(g, func(j ssa.Instruction) {
						switch x := j.(type) {
						case *ssa.IndexAddr, *ssa.Index:
							boundary = true
						case *ssa.Lookup:
							if b, ok := x.X.Type().Underlying().(*types.Basic); ok && b.Info()&types.IsString != 0 {
								boundary = true
							}
						case *ssa.Call:
							if strings.HasPrefix(staticCalleeName(x), "(*regexp.Regexp)") {
								regex = true
							}
						}
					})
				}
				if boundary || regex {
					verdict, why = "pass", "membership decided by "+e.fname(h)+" which inspects the character after a match / tokenises"
				} else {
					verdict, why = "fail", e.fname(h)+" performs no boundary test after the match"
				}
			}
		})
		switch verdict {
		case "pass":
			e.pass("R3", construct, e.pos(fn.Pos()), "%s", why)
		case "fail":
			e.fail("R3", construct, e.pos(fn.Pos()), "%s", why)
		default:
			e.undecided("R3", construct, e.pos(fn.Pos()), "the membership test of the unused-placeholder detector was not recognised")
		}
	}
}

func c16R4(e *Engine) {
	want := map[string]string{"expressionAttributeNamesRegex": "^#[A-Za-z0-9_]+$", "expressionAttributeValuesRegex": "^:[A-Za-z0-9_]+$"}
	for _, role := range clientRoles {
		for _, name := range sortedKeys(want) {
			init, info := e.varInit(role, name)
			if !e.anchor("R4", role+"."+name, init == nil) {
				continue
			}
			got := ""
			if call, ok := unparen(init).(*ast.CallExpr); ok && len(call.Args) == 1 {
				if f := calleeObj(info, call); f != nil && f.FullName() == "regexp.MustCompile" {
					if tv := info.Types[call.Args[0]]; tv.Value != nil {
						got = constant.StringVal(tv.Value)
					}
				}
			}
			e.check(got == want[name], "R4", role+"."+name, e.pos(init.Pos()), "pattern %q (want %q)", got, want[name])
		}
		// the syntax validator loops over every key and fails on the first mismatch
		var vf *ssa.Function
		for _, f := range e.funcs(role) {
			if f.Parent() == nil && len(f.Params) == 3 && strings.HasSuffix(typeName(f.Params[0].Type()), "regexp.Regexp") && typeName(f.Params[1].Type()) == "[]string" {
				vf = f
			}
		}
		if !e.anchor("R4", role+": placeholder syntax validator (func(*regexp.Regexp, []string, string) error)", vf == nil) {
			continue
		}
		var match *ssa.Call
		instrs(vf, func(in ssa.Instruction) {
			if c, ok := in.(*ssa.Call); ok && staticCalleeName(c) == "(*regexp.Regexp).MatchString" {
				match = c
			}
		})
		ok := match != nil
		if ok {
			// unconditional in the loop, and the false edge returns a non-nil error
			for _, cd := range condsAt(match.Block()) {
				if !isIndexLoopCond(cd.V) {
					if ex, isEx := cd.V.(*ssa.Extract); !isEx || ex.Index != 0 {
						ok = false
					}
				}
			}
			errEdge := false
			for _, r := range returnsOf(vf) {
				if !isNilConst(retVals(r)[0]) {
					for _, cd := range condsAt(r.Block()) {
						cd = normCond(cd)
						if cd.V == ssa.Value(match) && !cd.Val {
							errEdge = true
						}
					}
				}
			}
			ok = ok && errEdge
		}
		e.check(ok, "R4", e.fname(vf)+":all-keys-matched", e.pos(vf.Pos()), "every supplied placeholder key is matched against the pattern and a mismatch returns an error")
		// both validations are invoked by the expression-attribute validator with the right pairing
		for _, f := range e.funcs(role) {
			instrs(f, func(in ssa.Instruction) {
				c, ok := in.(*ssa.Call)
				if !ok || c.Call.StaticCallee() != vf {
					return
				}
				// the pattern and the key list may both be parameters of a helper that wraps the validator: judged at the
				// helper's call sites
				type site struct {
					at       ssa.Instruction
					host     *ssa.Function
					pat, lst ssa.Value
				}
				sites := []site{{c, f, c.Call.Args[0], c.Call.Args[1]}}
				pp, isPP := strip(c.Call.Args[0]).(*ssa.Parameter)
				lp, isLP := strip(c.Call.Args[1]).(*ssa.Parameter)
				if isPP && isLP && pp.Parent() == f && lp.Parent() == f {
					sites = nil
					pi, li := paramIndex(f, pp), paramIndex(f, lp)
					for _, cs := range e.callersOf(f) {
						if cc, ok := cs.(*ssa.Call); ok && pi < len(cc.Call.Args) && li < len(cc.Call.Args) {
							sites = append(sites, site{cc, cc.Parent(), cc.Call.Args[pi], cc.Call.Args[li]})
						}
					}
				}
				for _, st := range sites {
					ro := strings.Join(e.origins(st.pat), "|")
					isNames := strings.Contains(ro, "Names")
					// the key list is produced by a key-collecting call on either the names map (string elements) or the values
					// map, or collected in place by a range over that map
					ko := "?"
					var m *types.Map
					if kc, ok := strip(st.lst).(*ssa.Call); ok && len(kc.Call.Args) == 1 {
						m, _ = kc.Call.Args[0].Type().Underlying().(*types.Map)
					}
					if m == nil {
						m = rangedMapOfKeys(st.lst)
					}
					if m != nil {
						if strings.Contains(typeName(m.Elem()), "AttributeValue") {
							ko = "keys of the values map"
						} else {
							ko = "keys of the names map"
						}
					}
					pairOK := (isNames && ko == "keys of the names map") || (!isNames && ko == "keys of the values map")
					e.check(pairOK, "R4", e.fname(st.host)+":"+ro, e.ipos(st.at), "pattern %s is applied to %s", ro, ko)
				}
			})
		}
	}
	e.minCount("R4", 8)
}

func c16R5(e *Engine) {
	get := e.fn("lang", "Environment.Get")
	ei := e.fn("lang", "evalIdentifier")
	if !e.anchor("R5", "lang.Environment.Get", get == nil || ei == nil) {
		return
	}
	// somewhere on the miss path of the lookup funnel a test of the name's leading '#'/':' must lead to an error object
	found := false
	for _, fn := range []*ssa.Function{get, ei} {
		instrs(fn, func(in ssa.Instruction) {
			c, ok := in.(*ssa.Call)
			if ok && staticCalleeName(c) == "strings.HasPrefix" {
				if s, isC := constString(c.Call.Args[1]); isC && (s == ":" || s == "#") {
					found = true
				}
			}
			if b, ok := in.(*ssa.BinOp); ok && b.Op == token.EQL {
				if n, isC := constInt(b.Y); isC && (n == ':' || n == '#') {
					found = true
				}
			}
		})
	}
	if found {
		e.pass("R5", "lang.Environment.Get:unbound-placeholder", e.pos(get.Pos()), "the lookup funnel distinguishes placeholders (leading '#'/':') on its miss path")
	} else {
		e.fail("R5", "lang.Environment.Get:unbound-placeholder", e.pos(get.Pos()), "a name that is not bound evaluates to UNDEFINED even when it is a #name/:value placeholder: `a = :nope` is silently false instead of being rejected")
	}
}

func c16R6(e *Engine) {
	for _, role := range clientRoles {
		q := e.clientMethods(role)["Query"]
		if !e.anchor("R6", role+".Client.Query", q == nil) {
			continue
		}
		// a function reachable from Query that reads both the key condition text and a key schema's HashKey
		found := ""
		for g := range e.reach(q) {
			if e.fnRole(g) == "" {
				continue
			}
			readsCond, readsSchema := false, false
			instrs(g, func(in ssa.Instruction) {
				var f *types.Var
				switch x := in.(type) {
				case *ssa.FieldAddr:
					f = fieldOf(x)
				case *ssa.Field:
					f = fieldOf(x)
				}
				if f == nil {
					return
				}
				if f.Name() == "KeyConditionExpression" && fieldOwner(f) == "QueryInput" {
					readsCond = true
				}
				if f.Name() == "HashKey" && fieldOwner(f) == "keySchema" {
					readsSchema = true
				}
			})
			if readsCond && readsSchema {
				found = e.fname(g)
			}
		}
		if found != "" {
			e.pass("R6", role+".Client.Query:key-condition-shape", e.pos(q.Pos()), "%s relates the key condition to the key schema", found)
		} else {
			e.fail("R6", role+".Client.Query:key-condition-shape", e.pos(q.Pos()), "no function on the Query path relates the key condition to the key schema: a Query whose key condition is not an equality on the partition key (e.g. `id < :x`) is executed as a filter instead of being rejected")
		}
	}
}

func c16R7(e *Engine) {
	for _, role := range clientRoles {
		// limit constant
		p := e.Pkgs[role]
		c, _ := p.Types.Scope().Lookup("batchRequestsLimit").(*types.Const)
		if e.anchor("R7", role+".batchRequestsLimit", c == nil) {
			n, _ := constant.Int64Val(c.Val())
			e.check(n == 25, "R7", role+".batchRequestsLimit", e.pos(c.Pos()), "limit constant = %d (DynamoDB: 25)", n)
		}
		// validator: total over all tables compared with >
		var vf *ssa.Function
		for _, f := range e.funcs(role) {
			if f.Parent() == nil && len(f.Params) == 1 && strings.HasSuffix(typeName(f.Params[0].Type()), "BatchWriteItemInput") && f.Signature.Results().Len() == 1 && isErrorType(f.Signature.Results().At(0).Type()) {
				vf = f
			}
		}
		if !e.anchor("R7", role+": batch validator", vf == nil) {
			continue
		}
		cmpOK, incOK := false, false
		errOnTrue := true
		var cmp *ssa.BinOp
		instrs(vf, func(in ssa.Instruction) {
			b, ok := in.(*ssa.BinOp)
			if !ok {
				return
			}
			if n, isC := constInt(b.Y); isC && n == 25 && (b.Op == token.GTR || b.Op == token.LEQ) {
				if _, isPhi := b.X.(*ssa.Phi); isPhi {
					cmpOK, cmp = true, b
					errOnTrue = b.Op == token.GTR // `total <= 25` is the accepting test: the error is on its false edge
				}
			}
			if n, isC := constInt(b.X); isC && n == 25 && b.Op == token.LSS {
				cmpOK, cmp = true, b
			}
		})
		if cmp != nil {
			// the counter: incremented by exactly 1 per request in the inner loop, never reset per table
			phi, _ := cmp.X.(*ssa.Phi)
			if phi != nil {
				for _, src := range phiSourcesThroughAdds(phi) {
					if add, ok := src.(*ssa.BinOp); ok && add.Op == token.ADD {
						if n, isC := constInt(add.Y); isC && n == 1 {
							incOK = true // +1 per request
						}
						// + len(requests of this table), once per table
						if lc, isCall := strip(add.Y).(*ssa.Call); isCall && staticCalleeName(lc) == "builtin.len" {
							os := strings.Join(e.origins(lc.Call.Args[0]), "|")
							if strings.Contains(os, "rangeval-of") && strings.Contains(os, "RequestItems") {
								incOK = true
							}
						}
					}
				}
				// a reset inside the outer loop would show as a constant 0 edge on an inner phi other than the entry
				zeros := 0
				for _, src := range phiSources(phi) {
					if n, isC := constInt(src); isC && n == 0 {
						zeros++
					}
				}
				if zeros != 1 {
					incOK = false
				}
			}
			// after the loops, on the > edge an error is returned
			errEdge := false
			for _, r := range returnsOf(vf) {
				if isNilConst(retVals(r)[0]) {
					continue
				}
				for _, cd := range condsAt(r.Block()) {
					if cd.V == ssa.Value(cmp) && cd.Val == errOnTrue {
						errEdge = true
					}
				}
			}
			cmpOK = cmpOK && errEdge
		}
		e.check(cmpOK && incOK, "R7", e.fname(vf)+":limit-over-all-tables", e.pos(vf.Pos()), "total request count over all tables (+1 per request, one initialisation) compared with > 25 leads to an error (compare ok:%v counter ok:%v)", cmpOK, incOK)
		// exactly one of put/delete
		var wf *ssa.Function
		for _, f := range e.funcs(role) {
			if f.Parent() == nil && len(f.Params) == 1 && strings.HasSuffix(typeName(f.Params[0].Type()), "WriteRequest") && f.Signature.Results().Len() == 1 && isErrorType(f.Signature.Results().At(0).Type()) {
				wf = f
			}
		}
		if !e.anchor("R7", role+": write-request validator", wf == nil) {
			continue
		}
		// outcomes by (put nil?, delete nil?) must be: both nil -> error, both non-nil -> error, exactly one -> nil.
		// The validator is evaluated abstractly for the four combinations (decision table over its nil tests).
		okTable := true
		cases := 0
		for _, putNil := range []bool{true, false} {
			for _, delNil := range []bool{true, false} {
				isErr, decided := decideByNilness(wf, func(x ssa.Value) (bool, bool) {
					os := strings.Join(e.origins(x), "|")
					switch {
					case strings.Contains(os, "PutRequest"):
						return putNil, true
					case strings.Contains(os, "DeleteRequest"):
						return delNil, true
					}
					return false, false
				})
				if !decided {
					continue
				}
				cases++
				if isErr != (putNil == delNil) {
					okTable = false
				}
			}
		}
		// call: invoked for every request
		called := false
		instrs(vf, func(in ssa.Instruction) {
			if c, ok := in.(*ssa.Call); ok && c.Call.StaticCallee() == wf {
				called = true
			}
		})
		e.check(okTable && cases == 4 && called, "R7", e.fname(wf)+":exactly-one-of", e.pos(wf.Pos()), "neither and both of {PutRequest, DeleteRequest} are rejected; the validator is applied to every request (cases decided:%d)", cases)
	}
	e.minCount("R7", 6)
}

func phiSourcesThroughAdds(p *ssa.Phi) []ssa.Value {
	seen := map[ssa.Value]bool{}
	var out []ssa.Value
	var walk func(ssa.Value)
	walk = func(v ssa.Value) {
		if seen[v] {
			return
		}
		seen[v] = true
		if ph, ok := v.(*ssa.Phi); ok {
			for _, ed := range ph.Edges {
				walk(ed)
			}
			return
		}
		out = append(out, v)
	}
	walk(p)
	return out
}

// c16R8: the restrictions (reserved words, undefined functions, …) are detected while an operand is evaluated. A node
// evaluator that returns a non-error result without having evaluated all its operands lets a violation in the skipped
// operand go unnoticed. For every evaluator function that takes an AST node and evaluates several of its fields:
// every return of a non-error value must be dominated by all of those operand evaluations.
func c16R8(e *Engine) {
	funnel := e.fn("lang", "evalIdentifier")
	if !e.anchor("R8", "lang.evalIdentifier", funnel == nil) {
		return
	}
	n, nl := 0, 0
	for _, fn := range e.funcs("lang") {
		if fn.Parent() != nil || len(fn.Params) == 0 {
			continue
		}
		var node *ssa.Parameter
		for _, p := range fn.Params {
			if nt := namedOf(p.Type()); nt != nil && strings.HasSuffix(nt.Obj().Name(), "Expression") && e.roleOf(nt.Obj().Pkg()) == "lang" {
				node = p
			}
		}
		if node == nil || fn.Signature.Results().Len() != 1 {
			continue
		}
		// operand evaluations: calls (outside loops) with an argument that is a field of the node, reaching the funnel
		loops := naturalLoops(fn)
		inLoop := func(b *ssa.BasicBlock) bool {
			for _, body := range loops {
				if body[b] {
					return true
				}
			}
			return false
		}
		type opnd struct {
			call  *ssa.Call
			field string
		}
		var ops []opnd
		instrs(fn, func(in ssa.Instruction) {
			c, ok := in.(*ssa.Call)
			if !ok || isBuiltin(c) || inLoop(c.Block()) {
				return
			}
			g := c.Call.StaticCallee()
			if g == nil || e.fnRole(g) != "lang" || !e.reach(g)[funnel] {
				return
			}
			for _, a := range c.Call.Args {
				if !descendsFrom(a, node, 0) {
					continue
				}
				ops = append(ops, opnd{c, operandName(a, node)})
			}
		})
		fields := map[string]bool{}
		for _, o := range ops {
			fields[o.field] = true
		}
		// list operands (the members of IN, the arguments of a call): evaluated in a loop over a slice field of the node.
		// The loop must run to exhaustion unless an error is returned – a result decided half-way leaves the remaining
		// members unevaluated and whatever restricted construct they contain undetected.
		for _, body := range loops {
			evaluates := false
			var at ssa.Instruction
			for b := range body {
				for _, in := range b.Instrs {
					c, ok := in.(*ssa.Call)
					if !ok || isBuiltin(c) {
						continue
					}
					g := c.Call.StaticCallee()
					if g == nil || e.fnRole(g) != "lang" || !e.reach(g)[funnel] {
						continue
					}
					for _, a := range c.Call.Args {
						if descendsFrom(a, node, 0) {
							evaluates, at = true, in
						}
					}
				}
			}
			if !evaluates {
				continue
			}
			nl++
			construct := e.fname(fn) + ":evaluates-every-list-member"
			bad := ""
			for _, ex := range loopExits(body) {
				if isProgressCond(ex.cond) {
					continue
				}
				// leaving with an error object is fine
				okExit := false
				if r, isRet := ex.to.Instrs[len(ex.to.Instrs)-1].(*ssa.Return); isRet {
					v := strip(retVals(r)[0])
					if strings.HasSuffix(typeName(v.Type()), "language.Error") {
						okExit = true
					}
					for _, cd := range condsAt(ex.to) {
						cd = normCond(cd)
						if c, ok := cd.V.(*ssa.Call); ok && cd.Val && c.Call.StaticCallee() != nil && c.Call.StaticCallee().Name() == "isError" && len(c.Call.Args) == 1 && strip(c.Call.Args[0]) == v {
							okExit = true
						}
					}
				}
				if !okExit {
					bad = "the loop over the members is left at " + e.ipos(ex.from.Instrs[len(ex.from.Instrs)-1]) + " with a result that is not an error"
				}
			}
			// … and no result that is not an error is returned BEFORE the loop: a verdict reached from the left operand alone
			// (missing attribute → FALSE) leaves every member unevaluated
			var header *ssa.BasicBlock
			for b := range body {
				for _, p := range b.Preds {
					if !body[p] {
						header = b
					}
				}
			}
			if header != nil && bad == "" {
				for _, r := range returnsOf(fn) {
					if body[r.Block()] || header.Dominates(r.Block()) {
						continue
					}
					v := strip(retVals(r)[0])
					if strings.HasSuffix(typeName(v.Type()), "language.Error") {
						continue
					}
					isErrRet := false
					for _, cd := range condsAt(r.Block()) {
						cd = normCond(cd)
						if c, ok := cd.V.(*ssa.Call); ok && cd.Val && c.Call.StaticCallee() != nil && c.Call.StaticCallee().Name() == "isError" && len(c.Call.Args) == 1 && (strip(c.Call.Args[0]) == v || sameElemLoad(c.Call.Args[0], v)) {
							isErrRet = true
						}
					}
					if !isErrRet {
						bad = "a result that is not an error is returned at " + e.ipos(r) + " before the members are evaluated"
					}
				}
			}
			if bad != "" {
				e.fail("R8", construct, e.ipos(at), "%s: the members after that point are never evaluated, so a reserved word, an operator or an unknown function among them goes undetected whenever an earlier member decides the result", bad)
			} else {
				e.pass("R8", construct, e.ipos(at), "the member loop ends by exhaustion or with an error object")
			}
		}
		if len(fields) < 2 {
			continue
		}
		n++
		construct := e.fname(fn) + ":evaluates-every-operand"
		bad := ""
		for _, r := range returnsOf(fn) {
			v := strip(retVals(r)[0])
			// error results may be returned early
			if strings.HasSuffix(typeName(v.Type()), "language.Error") {
				continue
			}
			isErr := false
			for _, cd := range condsAt(r.Block()) {
				cd = normCond(cd)
				if c, ok := cd.V.(*ssa.Call); ok && cd.Val && c.Call.StaticCallee() != nil && c.Call.StaticCallee().Name() == "isError" {
					isErr = true
				}
			}
			if isErr {
				continue
			}
			// per operand (field of the node): some evaluation of it must dominate the return (alternative evaluations of
			// one operand live in different type-switch branches)
			byField := map[string]bool{}
			for _, o := range ops {
				if idominates(o.call, r) {
					byField[o.field] = true
				} else if _, seen := byField[o.field]; !seen {
					byField[o.field] = false
				}
			}
			for _, f := range sortedKeys(byField) {
				if !byField[f] {
					bad = "the result returned at " + e.ipos(r) + " is produced without evaluating operand " + f
				}
			}
		}
		if bad != "" {
			e.fail("R8", construct, e.pos(fn.Pos()), "%s: a reserved word, an unknown function or another restricted construct inside that operand is not detected when the other operand already decides the result", bad)
		} else {
			e.pass("R8", construct, e.pos(fn.Pos()), "%d operand evaluations dominate every non-error return", len(ops))
		}
	}
	if n < 2 || nl < 1 {
		e.fail("R8", "count:R8", "-", "only %d multi-operand evaluators and %d member loops found", n, nl)
	}
}

// operandName: the field of node through which value a was obtained (first selection on the node), with a constant element index.
func operandName(a ssa.Value, node ssa.Value) string {
	name := "?"
	var walk func(v ssa.Value, d int) bool
	walk = func(v ssa.Value, d int) bool {
		if d > 10 {
			return false
		}
		v = strip(v)
		switch x := v.(type) {
		case *ssa.UnOp:
			return walk(x.X, d+1)
		case *ssa.FieldAddr:
			if strip(x.X) == strip(node) {
				name = fieldOf(x).Name()
				return true
			}
			return walk(x.X, d+1)
		case *ssa.Field:
			if strip(x.X) == strip(node) {
				name = fieldOf(x).Name()
				return true
			}
			return walk(x.X, d+1)
		case *ssa.IndexAddr:
			if walk(x.X, d+1) {
				name += "[" + describeIndex(x.Index) + "]"
				return true
			}
		case *ssa.Index:
			if walk(x.X, d+1) {
				name += "[" + describeIndex(x.Index) + "]"
				return true
			}
		case *ssa.Extract:
			return walk(x.Tuple, d+1)
		case *ssa.TypeAssert:
			return walk(x.X, d+1)
		case *ssa.Phi:
			for _, ed := range x.Edges {
				if ed != ssa.Value(x) && walk(ed, d+1) {
					return true
				}
			}
		}
		return false
	}
	walk(a, 0)
	return name
}

// c16R10: a restriction that is violated inside an operand shows as an ERROR OBJECT when the operand is evaluated. Wherever
// the evaluator tests a value with the error predicate, the "is an error" edge hands an error back: no path from that edge
// reaches a return of something that is not an error (the error is not swallowed, replaced by "missing", or overridden by a
// later result). Functions whose result is not an object (lists of operands) are judged at their callers.
func c16R10(e *Engine) {
	isErr := e.fn("lang", "isError")
	if !e.anchor("R10", "lang.isError", isErr == nil) {
		return
	}
	g := e.newGuard()
	n := 0
	for _, fn := range sortedFns(e, fnSet(e.funcs("lang"))) {
		if fn.Signature.Results().Len() != 1 || !isObjectIface(fn.Signature.Results().At(0).Type()) {
			continue
		}
		instrs(fn, func(in ssa.Instruction) {
			c, ok := in.(*ssa.Call)
			if !ok || c.Call.StaticCallee() != isErr {
				return
			}
			x := c.Call.Args[0]
			// returns reachable with "x is an error" holding
			bad := ""
			for _, r := range returnsOf(fn) {
				holds := false
				for _, cd := range condsAt(r.Block()) {
					cd = normCond(cd)
					if cd.V == ssa.Value(c) && cd.Val {
						holds = true
					}
				}
				if !holds {
					continue
				}
				rv := retVals(r)[0]
				if strip(rv) == strip(x) || sameObj(rv, x) || sameElemLoad(rv, x) {
					continue
				}
				if t := g.dynTag(rv, r.Block(), 0); t == "ERR" {
					continue
				}
				if ph, isPhi := strip(rv).(*ssa.Phi); isPhi {
					all := true
					for _, s := range phiSources(ph) {
						if strip(s) != strip(x) && g.dynTag(s, r.Block(), 0) != "ERR" {
							all = false
						}
					}
					if all {
						continue
					}
				}
				bad = e.ipos(r)
			}
			// … and the error edge must not fall through to the code after the test: every path from the true edge ends
			// in one of the returns above
			for _, r := range refsOf(c) {
				ifi, isIf := r.(*ssa.If)
				if !isIf {
					continue
				}
				reach := reachableFrom(ifi.Block().Succs[0])
				reach[ifi.Block().Succs[0]] = true
				for _, rr := range returnsOf(fn) {
					if !reach[rr.Block()] {
						continue
					}
					held := false
					for _, cd := range condsAt(rr.Block()) {
						cd = normCond(cd)
						if cd.V == ssa.Value(c) && cd.Val {
							held = true
						}
					}
					if !held {
						// reachable from the error edge, but not governed by it: control rejoined the normal path
						rv := retVals(rr)[0]
						if strip(rv) != strip(x) && !sameElemLoad(rv, x) && g.dynTag(rv, rr.Block(), 0) != "ERR" {
							bad = e.ipos(rr) + " (the error edge rejoins the normal path)"
						}
					}
				}
			}
			n++
			construct := fmt.Sprintf("%s:error-propagates[%s]", e.fname(fn), describeIndexed(x))
			if bad != "" {
				e.fail("R10", construct, e.ipos(c), "a value found to be an error object can be dropped: from the error edge a return of a non-error value is reachable at %s – a restriction violated inside the operand (reserved word, undefined function, …) goes unreported for that request", bad)
			} else {
				e.pass("R10", construct, e.ipos(c), "the error edge returns the error")
			}
		})
	}
	if n < 10 {
		e.fail("R10", "count:R10", "-", "only %d error tests found in the evaluator", n)
	}
}

// sameElemLoad: two loads of the same element (same base slice, same constant index) – args[0] read twice.
func sameElemLoad(a, b ssa.Value) bool {
	ua, ok1 := strip(a).(*ssa.UnOp)
	ub, ok2 := strip(b).(*ssa.UnOp)
	if !ok1 || !ok2 {
		return false
	}
	ia, ok1 := ua.X.(*ssa.IndexAddr)
	ib, ok2 := ub.X.(*ssa.IndexAddr)
	if !ok1 || !ok2 || strip(ia.X) != strip(ib.X) {
		return false
	}
	na, k1 := constInt(ia.Index)
	nb, k2 := constInt(ib.Index)
	return k1 && k2 && na == nb
}

func paramIndex(f *ssa.Function, p *ssa.Parameter) int {
	for i, q := range f.Params {
		if q == p {
			return i
		}
	}
	return -1
}

// rangedMapOfKeys: v is a []string filled by `for k := range m { v = append(v, k) }` – returns m's type. Every element
// appended anywhere on the chain must be the key of a range over one and the same kind of map.
func rangedMapOfKeys(v ssa.Value) *types.Map {
	var m *types.Map
	ok := true
	seen := map[ssa.Value]bool{}
	var walk func(x ssa.Value)
	walk = func(x ssa.Value) {
		x = strip(x)
		if seen[x] || !ok {
			return
		}
		seen[x] = true
		switch y := x.(type) {
		case *ssa.Phi:
			for _, ed := range y.Edges {
				walk(ed)
			}
		case *ssa.MakeSlice:
		case *ssa.Const:
		case *ssa.Call:
			if staticCalleeName(y) != "builtin.append" {
				ok = false
				return
			}
			walk(y.Call.Args[0])
			for _, el := range variadicElems(y.Call.Args[1]) {
				ex, isEx := strip(el).(*ssa.Extract)
				if !isEx || ex.Index != 1 {
					ok = false
					return
				}
				nx, isN := ex.Tuple.(*ssa.Next)
				if !isN {
					ok = false
					return
				}
				rg, isR := nx.Iter.(*ssa.Range)
				if !isR {
					ok = false
					return
				}
				mt, isM := rg.X.Type().Underlying().(*types.Map)
				if !isM || (m != nil && !types.Identical(m, mt)) {
					ok = false
					return
				}
				m = mt
			}
		default:
			ok = false
		}
	}
	walk(v)
	if !ok {
		return nil
	}
	return m
}
