package main

import (
	"fmt"
	"go/token"
	"go/types"
	"sort"
	"strings"

	"golang.org/x/tools/go/ssa"
)

func isFloat(t types.Type) bool {
	b, ok := t.Underlying().(*types.Basic)
	return ok && b.Info()&types.IsFloat != 0
}

func init() {
	register(&Prop{
		ID:         "C12",
		Title:      "Numbers behave as exact decimals, not floats or strings",
		Decided:    "the representation of numbers, which is fixed by types and by the library routines number strings flow through (a 38-digit decimal cannot survive float64): (R1) a census of every lossy site on the numeric path – fields of binary floating-point type that hold number objects, parses of attribute numerals into float64, float formatting back into numerals, float arithmetic and float comparison on number objects; (R2) the rendering of an N-typed key attribute must pass through a canonicalising function (numerically equal numerals → equal key text); (R3) key lists holding N- or B-typed sort keys must be ordered by a typed comparator, not by sort.Strings on the text rendering; (R4) numbers not targeted by an update are not rewritten (= C07.R6). Every site found today is a known finding (the library represents numbers as float64 by construction); the check reports any new lossy site or any known site that changes; (R5) SET stores a copy of a number operand (= C07.R11): in-place arithmetic on the source attribute does not reach it; (R6) number objects carry their value and nothing else (no remembered numeral); (R7) Number.Value is assigned only by the number's own methods or while the object is built: the evaluator never writes the value of an operand it was handed.",
		NotDecided: "everything value-level: rounding, the 38-digit limit, exponent range, results of arithmetic.",
		Rules: []RuleDef{
			{ID: "R1", Desc: "census of lossy numeric sites (taint on SSA + type census)", Run: c12R1},
			{ID: "R2", Desc: "N-typed key attributes are canonicalised before they become key text (T-FLOW)", Run: c12R2},
			{ID: "R3", Desc: "typed ordering of N/B sort keys (idiom)", Run: c12R3},
			{ID: "R4", Desc: "untargeted numbers are not rewritten (= C07.R6)", Run: func(e *Engine) {
				before := len(e.obs)
				c07R6(e)
				for i := before; i < len(e.obs); i++ {
					e.obs[i].Rule = "R4"
				}
			}},
			{ID: "R5", Desc: "a number stored by SET is a copy of its operand: arithmetic that works in place on the source (ADD) does not change the stored value (= C07.R11)", Run: aliasRule("R5", c07R11, nil)},
			{ID: "R6", Desc: "a number object is its value: no second representation (the numeral it was read from, a cached text) that equality or arithmetic would have to keep in step (T-FIELD closure)", Run: func(e *Engine) { stateModelClosed(e, "R6", func(k string) bool { return k == "lang.Number" || k == "lang.NumberSet" }) }},
			{ID: "R7", Desc: "the value of a number object is written only by the number's own methods (the in-place ADD) or while the object is being built: the evaluator never assigns to the Value of an operand it was handed – an operand is the environment's own object for an attribute or placeholder (T-FIELD who-may-write)", Run: c12R7},
		},
	})
}

func c12R1(e *Engine) {
	n := 0
	floatFields := 0
	// (a) struct fields of floating type in the object layer
	for _, name := range e.Pkgs["lang"].Types.Scope().Names() {
		tn, ok := e.Pkgs["lang"].Types.Scope().Lookup(name).(*types.TypeName)
		if !ok {
			continue
		}
		st, ok := tn.Type().Underlying().(*types.Struct)
		if !ok {
			continue
		}
		for i := 0; i < st.NumFields(); i++ {
			f := st.Field(i)
			ft := f.Type()
			lossy := isFloat(ft)
			if m, ok := ft.Underlying().(*types.Map); ok && (isFloat(m.Key()) || isFloat(m.Elem())) {
				lossy = true
			}
			if sl, ok := ft.Underlying().(*types.Slice); ok && isFloat(sl.Elem()) {
				lossy = true
			}
			if lossy {
				n++
				floatFields++
				e.fail("R1", "type:lang."+name+"."+f.Name(), e.pos(f.Pos()), "number objects are held in %s: a DynamoDB number (38 significant decimal digits) does not fit a binary double – 9007199254740993 equals 9007199254740992, 0.1+0.2 is not 0.3", typeName(ft))
			}
		}
	}
	// (b) conversions between numerals and floats, float arithmetic/comparison on number objects
	// A boundary site (numeral text <-> binary float, float -> integer, float rounding) is identified by its kind and by
	// WHAT it converts (the origin of its operand: the N field of an attribute, an element of an NS set, the value of a
	// number object …), not by the function it happens to sit in: a refactoring that moves the conversion into a helper
	// leaves the finding the same finding, a new conversion of something else – or a second one of the same – is a new one.
	type boundary struct {
		count int
		pos   string
		fns   map[string]bool
	}
	boundaries := map[string]*boundary{}
	operand := func(v ssa.Value) string {
		var os []string
		for _, o := range e.origins(v) {
			if strings.HasPrefix(o, "const:") {
				continue
			}
			os = append(os, o)
		}
		sort.Strings(os)
		return strings.Join(os, "|")
	}
	for _, fn := range e.funcs("lang", "interp", "core", "v1", "v2") {
		counts := map[string]int{}
		var firstPos = map[string]string{}
		note := func(kind string, in ssa.Instruction) {
			counts[kind]++
			if _, ok := firstPos[kind]; !ok {
				firstPos[kind] = e.ipos(in)
			}
		}
		site := func(kind string, v ssa.Value, in ssa.Instruction) {
			key := fmt.Sprintf("%s:%s(%s)", e.fnRole(fn), kind, operand(v))
			b := boundaries[key]
			if b == nil {
				b = &boundary{pos: e.ipos(in), fns: map[string]bool{}}
				boundaries[key] = b
			}
			b.count++
			b.fns[e.fname(fn)] = true
		}
		instrs(fn, func(in ssa.Instruction) {
			switch x := in.(type) {
			case *ssa.Call:
				switch staticCalleeName(x) {
				case "strconv.ParseFloat":
					site("ParseFloat", x.Call.Args[0], in)
				case "strconv.FormatFloat":
					site("FormatFloat", x.Call.Args[0], in)
				case "math.Round", "math.Floor", "math.Ceil", "math.Trunc", "math.Pow", "math.Mod", "math.RoundToEven":
					site("float-rounding", x.Call.Args[0], in)
				case "strconv.Atoi", "strconv.ParseInt":
					// only when fed by an attribute numeral
					for _, o := range e.origins(x.Call.Args[0]) {
						if strings.Contains(o, "Item.N") {
							site("ParseInt", x.Call.Args[0], in)
							break
						}
					}
				}
			case *ssa.BinOp:
				if !isFloat(x.X.Type()) {
					return
				}
				switch x.Op {
				case token.ADD, token.SUB, token.MUL, token.QUO:
					note("float-arithmetic", in)
				case token.EQL, token.NEQ, token.LSS, token.LEQ, token.GTR, token.GEQ:
					note("float-comparison", in)
				}
			case *ssa.Convert:
				if isFloat(x.X.Type()) && isIntType(x.Type()) {
					site("float-to-int", x.X, in)
				}
			case *ssa.Lookup:
				if m, ok := x.X.Type().Underlying().(*types.Map); ok && isFloat(m.Key()) {
					note("float-keyed-membership", in)
				}
			case *ssa.MapUpdate:
				if m, ok := x.Map.Type().Underlying().(*types.Map); ok && isFloat(m.Key()) {
					note("float-keyed-membership", in)
				}
			}
		})
		kinds := make([]string, 0, len(counts))
		for k := range counts {
			kinds = append(kinds, k)
		}
		sort.Strings(kinds)
		for _, k := range kinds {
			n++
			// arithmetic, comparison and set membership on values that already ARE float64 are consequences of the
			// representation (the type findings above), wherever a refactoring puts them; they are listed, not findings
			// of their own. The conversions between numeral text and binary floating point are the boundary and are.
			if floatFields > 0 && e.fnRole(fn) == "lang" {
				e.ob("R1", fmt.Sprintf("%s:%s", e.fname(fn), k), firstPos[k], Pass, false, "%d site(s) of %s on float64 number objects: a consequence of the representation reported as type:lang.Number.Value / NumberSet.Value", counts[k], k)
				continue
			}
			e.fail("R1", fmt.Sprintf("%s:%s×%d", e.fname(fn), k, counts[k]), firstPos[k], "%d site(s) of %s on the number path: values are computed in binary floating point instead of exact decimals", counts[k], k)
		}
	}
	for _, key := range sortedKeys(boundaries) {
		b := boundaries[key]
		n++
		e.fail("R1", fmt.Sprintf("%s×%d", key, b.count), b.pos, "%d site(s) in %s: values on the number path are converted to or from binary floating point instead of exact decimals", b.count, strings.Join(sortedKeys(b.fns), ", "))
	}
	if n < 5 {
		e.fail("R1", "count:R1", "-", "only %d lossy sites found; the census has lost sight of the numeric path", n)
	}
}

func c12R2(e *Engine) {
	// the accessor case for declared key type "N": what does it return?
	found := false
	for _, fn := range e.funcs("core") {
		if fn.Parent() != nil || len(fn.Params) != 2 || fn.Signature.Results().Len() != 2 {
			continue
		}
		if !strings.HasSuffix(typeName(fn.Params[0].Type()), "types.Item") || typeName(fn.Params[1].Type()) != "string" {
			continue
		}
		instrs(fn, func(in ssa.Instruction) {
			b, ok := in.(*ssa.BinOp)
			if !ok || b.Op != token.EQL || b.X != ssa.Value(fn.Params[1]) {
				return
			}
			if s, isK := constString(b.Y); !isK || s != "N" {
				return
			}
			for _, r := range refsOf(b) {
				ifi, ok := r.(*ssa.If)
				if !ok {
					continue
				}
				blk := ifi.Block().Succs[0]
				ret, ok := blk.Instrs[len(blk.Instrs)-1].(*ssa.Return)
				if !ok {
					continue
				}
				found = true
				// canonicalising call between the field and the result?
				canon, other := false, ""
				var walk func(v ssa.Value, d int)
				walk = func(v ssa.Value, d int) {
					if d > 6 {
						return
					}
					switch x := strip(v).(type) {
					case *ssa.Call:
						g := x.Call.StaticCallee()
						if g != nil && !isPtrHelper(g) {
							// exact canonicalisation is recognised only when it goes through arbitrary-precision decimals
							exact := false
							for h := range e.reach(g) {
								instrs(h, func(j ssa.Instruction) {
									if c, ok := j.(*ssa.Call); ok && strings.Contains(staticCalleeName(c), "math/big.") {
										exact = true
									}
								})
							}
							if strings.Contains(staticCalleeName(x), "math/big.") || exact {
								canon = true
							} else {
								other = e.fname(g)
							}
						}
						for _, a := range x.Call.Args {
							walk(a, d+1)
						}
					case *ssa.MakeInterface:
						walk(x.X, d+1)
					}
				}
				walk(retVals(ret)[0], 0)
				if canon {
					e.pass("R2", e.fname(fn)+":N-key-canonical", e.ipos(ret), "the numeral of an N-typed key attribute is canonicalised through arbitrary-precision arithmetic before it is rendered into the key string")
				} else if other != "" {
					e.undecided("R2", e.fname(fn)+":N-key-canonical:"+other, e.ipos(ret), "the numeral of an N-typed key attribute is rewritten by %s, which is not a recognised exact canonicalisation (math/big): whether numerically different numerals can be folded into one key (\"10.0\" → \"1\") or equal ones kept apart cannot be established here", other)
				} else {
					e.fail("R2", e.fname(fn)+":N-key-canonical", e.ipos(ret), "an N-typed key attribute enters the key string as its raw numeral text: key 1 and key 1.0 (or 1e0, 01) are different items, GetItem by a numerically equal key finds nothing")
				}
			}
		})
	}
	if !found {
		e.undecided("R2", "core:N-key-canonical", "-", "the accessor case for declared key type N was not found")
	}
}

func c12R3(e *Engine) {
	cs := e.coreModel()
	if !e.anchor("R3", "core model", cs == nil) {
		return
	}
	n := 0
	// one finding per key list (not per call site): which stored list is ordered/searched as plain text, found through
	// helpers by tracing the sorted/searched slice back to the field it comes from
	lists := map[string]string{}
	sites := map[string]int{}
	for _, fn := range e.funcs("core") {
		instrs(fn, func(in ssa.Instruction) {
			c, ok := in.(*ssa.Call)
			if !ok {
				return
			}
			name := staticCalleeName(c)
			if name != "sort.Strings" && name != "sort.SearchStrings" && name != "slices.Sort" && name != "slices.BinarySearch" {
				return
			}
			for _, o := range e.origins(c.Call.Args[0]) {
				for _, f := range []*types.Var{cs.SortedKeys, cs.sortedKeys} {
					if strings.HasSuffix(o, "field:"+fieldOwner(f)+"."+f.Name()) {
						k := fieldOwner(f) + "." + f.Name()
						sites[k]++
						if lists[k] == "" || e.ipos(in) < lists[k] {
							lists[k] = e.ipos(in)
						}
					}
				}
			}
		})
	}
	for _, k := range sortedKeys(lists) {
		n++
		e.fail("R3", "core:"+k+":text-order", lists[k], "the key list %s is ordered/searched as plain strings (%d site(s)): for number- or binary-typed sort keys the text order differs from the value order (9 sorts after 10, -1 before -2), so Query returns them out of order and range conditions on the key are answered from a wrongly ordered list", k, sites[k])
	}
	// the secondary-index comparator compares key text too
	// (whatever form the comparator takes: a closure over positions, a helper, a sort.Interface – see C02.R1)
	for _, fn := range e.funcs("core") {
		if fn.Parent() != nil {
			continue
		}
		for _, a := range e.sortSites(fn) {
			if !a.onList {
				continue
			}
			le := &lessEval{e: e}
			le.run(a.less, a.em(a.reversed), -1, -1, true, 0)
			if le.ncmp > 0 {
				n++
				e.fail("R3", "core:index.sortedRefs:text-order", e.ipos(a.at), "index entries are ordered by comparing key strings (comparator %s)", e.fname(a.less))
				break
			}
		}
	}
	if n < 3 {
		e.fail("R3", "count:R3", "-", "only %d ordered key lists found", n)
	}
}

var _ = fmt.Sprint

// c12R7: `right.Value = -right.Value` inside the evaluator of SET arithmetic negates the attribute or placeholder the
// operand stands for: a subtraction that writes its right operand.
func c12R7(e *Engine) {
	nt := e.namedType("lang", "Number")
	if !e.anchor("R7", "lang.Number", nt == nil) {
		return
	}
	var vf *types.Var
	if st, ok := nt.Underlying().(*types.Struct); ok {
		for i := 0; i < st.NumFields(); i++ {
			if st.Field(i).Name() == "Value" {
				vf = st.Field(i)
			}
		}
	}
	if !e.anchor("R7", "lang.Number.Value", vf == nil) {
		return
	}
	n := 0
	for fn, all := range e.writersOf(vf, e.all) {
		// the field is a scalar: only assignments count (a read handed to delete() or append() is not a write of it)
		var accs []Access
		for _, a := range all {
			if a.Kind == "store-field" {
				accs = append(accs, a)
			}
		}
		if len(accs) == 0 {
			continue
		}
		fresh := true
		for _, a := range accs {
			if !a.Fresh {
				fresh = false
			}
		}
		construct := e.fname(fn) + ":writes-Number.Value"
		n++
		recv := fn.Signature.Recv()
		switch {
		case fresh:
			e.pass("R7", construct, e.ipos(accs[0].Instr), "the number is being built here")
		case recv != nil && namedOf(recv.Type()) == nt:
			e.pass("R7", construct, e.ipos(accs[0].Instr), "method of the number (who may call it is C07.R2's and C06.R6's business)")
		default:
			e.fail("R7", construct, e.ipos(accs[0].Instr), "%s assigns to the Value of a number object it did not build: the object is the environment's own for the attribute or placeholder the operand names, so the operand itself changes (`SET a = a - b` rewrites b; a placeholder used twice changes between its uses)", e.fname(fn))
		}
	}
	if n == 0 {
		e.pass("R7", "lang.Number.Value:writers", "-", "no function assigns to Number.Value outside composite literals")
	}
}
