package main

import (
	"fmt"
	"go/ast"
	"go/token"
	"go/types"
	"strings"

	"golang.org/x/tools/go/ssa"
)

// failureTest describes the forceFailureErr test found in a method.
type failureTest struct {
	ifi        *ssa.If
	nonNilSucc *ssa.BasicBlock
	okSucc     *ssa.BasicBlock
	tested     ssa.Value     // the value compared with nil
	getter     *ssa.Function // non-nil when the value is obtained through a locked getter
	gate       *ssa.Function // non-nil when the test is on the error result of a package-local helper that carries the real test
	gateCall   *ssa.Call
	inner      *failureTest // the helper's own test
}

// failureGetter: g is a package-local function all of whose returns yield a load of field ff.
func failureGetter(g *ssa.Function, ff *types.Var) bool {
	if g == nil || g.Blocks == nil || g.Signature.Results().Len() != 1 {
		return false
	}
	rets := returnsOf(g)
	if len(rets) == 0 {
		return false
	}
	for _, r := range rets {
		v := retVals(r)[0]
		if isLoadOfField(v, ff) {
			continue
		}
		// a getter built on another getter (the locked one returning fd.failure())
		if c, ok := strip(v).(*ssa.Call); ok && c.Call.StaticCallee() != g && failureGetter(c.Call.StaticCallee(), ff) {
			continue
		}
		return false
	}
	return true
}

func findFailureTest(f *ssa.Function, ff *types.Var) *failureTest {
	return findFailureTestD(f, ff, 0)
}

// gateResult: x is the error result of a call to a package-local helper which itself tests the failure condition and
// returns it first thing (e.g. a shared "checks + table lookup" helper).
func gateResult(x ssa.Value, f *ssa.Function, ff *types.Var, depth int) (*ssa.Call, *failureTest) {
	if depth > 2 {
		return nil, nil
	}
	var c *ssa.Call
	idx := 0
	switch v := strip(x).(type) {
	case *ssa.Call:
		c = v
	case *ssa.Extract:
		c, _ = v.Tuple.(*ssa.Call)
		idx = v.Index
	}
	if c == nil {
		return nil, nil
	}
	g := c.Call.StaticCallee()
	if g == nil || g.Blocks == nil || g.Pkg != f.Pkg || g == f || errResultIndex(g) != idx {
		return nil, nil
	}
	inner := findFailureTestD(g, ff, depth+1)
	if inner == nil {
		return nil, nil
	}
	return c, inner
}

func findFailureTestD(f *ssa.Function, ff *types.Var, depth int) *failureTest {
	var res *failureTest
	instrs(f, func(in ssa.Instruction) {
		ifi, ok := in.(*ssa.If)
		if !ok || res != nil {
			return
		}
		x, nonNilOnTrue, ok := nilTest(ifi.Cond)
		if !ok {
			return
		}
		var getter, gate *ssa.Function
		var gateCall *ssa.Call
		var inner *failureTest
		if !isLoadOfField(x, ff) {
			c, isCall := strip(x).(*ssa.Call)
			if isCall && failureGetter(c.Call.StaticCallee(), ff) {
				getter = c.Call.StaticCallee()
			} else if gc, it := gateResult(x, f, ff, depth); gc != nil {
				gate, gateCall, inner = gc.Call.StaticCallee(), gc, it
			} else {
				return
			}
		}
		b := ifi.Block()
		if nonNilOnTrue {
			res = &failureTest{ifi, b.Succs[0], b.Succs[1], x, getter, gate, gateCall, inner}
		} else {
			res = &failureTest{ifi, b.Succs[1], b.Succs[0], x, getter, gate, gateCall, inner}
		}
	})
	return res
}

// c15Direct checks R1+R2 for one "direct" data method.
func (e *Engine) c15Direct(which string, role string, name string, f *ssa.Function, ff *types.Var, lr *lockResult, gr map[*ssa.Function]bool) {
	construct := role + ".Client." + name
	ft := findFailureTest(f, ff)
	if ft == nil {
		e.fail(which, construct+":test", e.pos(f.Pos()), "data method never tests Client.forceFailureErr: it keeps working while a failure condition is active")
		return
	}
	if which == "R2" {
		e.c15R2(construct, f, ff, ft)
		return
	}
	// the failure condition is read with the mutex held (where the read value is compared is immaterial)
	innermost := ft
	for innermost.gate != nil {
		innermost = innermost.inner
	}
	st := lr.at[innermost.ifi]
	if ld, ok := strip(innermost.tested).(ssa.Instruction); ok && isLoadOfField(innermost.tested, ff) {
		st = lr.at[ld]
	}
	if innermost.getter != nil {
		st = lsHeld
		instrs(innermost.getter, func(in ssa.Instruction) {
			if v, ok := in.(ssa.Value); ok && isLoadOfField(v, ff) && lr.at[in] != lsHeld {
				st = lr.at[in]
			}
		})
	}
	if st != lsHeld {
		e.fail("R1", construct+":test-locked", e.ipos(innermost.ifi), "the failure condition is read with Client.mu %s", st)
	} else {
		e.pass("R1", construct+":test-locked", e.ipos(innermost.ifi), "the failure condition is read with the mutex held")
	}
	// R1: the test dominates every effect, which lies on the nil edge (in the method, and in the helper that carries the test)
	bad := ""
	neffects := 0
	for cur, curF := ft, f; cur != nil; cur, curF = cur.inner, cur.gate {
		ft, f := cur, curF
		e.c15Effects(role, f, ft, lr, gr, &bad, &neffects)
		if cur.gate == nil {
			break
		}
	}
	if bad != "" {
		e.fail("R1", construct+":test-dominates-effects", e.ipos(ft.ifi), "%s: state is read or written although a failure condition is active", bad)
	} else {
		e.pass("R1", construct+":test-dominates-effects", e.ipos(ft.ifi), "all %d state-touching instructions are dominated by the nil edge of the failure test", neffects)
	}
}

func (e *Engine) c15Effects(role string, f *ssa.Function, ft *failureTest, lr *lockResult, gr map[*ssa.Function]bool, badOut *string, n *int) {
	bad := ""
	neffects := 0
	defer func() {
		if bad != "" {
			*badOut = bad
		}
		*n += neffects
	}()
	instrs(f, func(in ssa.Instruction) {
		what, isG := e.guarded(role, in)
		if isG && what == "field:forceFailureErr" {
			return
		}
		if !isG {
			c, ok := in.(ssa.CallInstruction)
			if !ok || isBuiltin(c) || lr.muCall(c) != "" {
				return
			}
			hit := false
			for _, g := range e.callees(c) {
				if g == ft.getter || (ft.gate != nil && in == ssa.Instruction(ft.gateCall)) {
					continue // the locked read of the failure error itself / the helper that carries the test (checked in turn)
				}
				if gr[g] {
					hit = true
					what = "call:" + e.fname(g)
				}
			}
			if !hit {
				return
			}
		}
		neffects++
		blk := in.Block()
		okEdge := (blk == ft.okSucc || ft.okSucc.Dominates(blk)) && reachesOnlyVia(ft.ifi.Block(), ft.okSucc, blk)
		if !okEdge {
			bad = fmt.Sprintf("%s at %s is not confined to the no-failure edge of the test", what, e.ipos(in))
		}
	})
}

func (e *Engine) c15R2(construct string, f *ssa.Function, ff *types.Var, ft *failureTest) {
	// R2: non-nil edge returns the configured error itself
	term := ft.nonNilSucc.Instrs[len(ft.nonNilSucc.Instrs)-1]
	ret, isRet := term.(*ssa.Return)
	ei := errResultIndex(f)
	var rv []ssa.Value
	if isRet {
		rv = retVals(ret)
	}
	switch {
	case !isRet:
		// allow RunDefers before return in same block: Return is still last; otherwise undecided
		e.fail("R2", construct+":returns-configured-error", e.ipos(term), "the non-nil edge of the failure test does not return immediately")
	case ei < 0 || !(isLoadOfField(rv[ei], ff) || strip(rv[ei]) == strip(ft.tested)):
		e.fail("R2", construct+":returns-configured-error", e.ipos(ret), "under an active failure condition the method returns %s instead of the configured error (Client.forceFailureErr)", describeValue(rv[ei]))
	default:
		okOut := true
		for i, r := range rv {
			if i != ei && !isNilConst(r) {
				okOut = false
			}
		}
		if okOut && ft.gate != nil {
			e.c15R2(construct+":via-"+ft.gate.Name(), ft.gate, ff, ft.inner)
		}
		if okOut {
			e.pass("R2", construct+":returns-configured-error", e.ipos(ret), "non-nil edge returns (nil, Client.forceFailureErr)")
		} else {
			e.fail("R2", construct+":returns-configured-error", e.ipos(ret), "failure edge returns a non-nil output together with the error")
		}
	}
}

// reachesOnlyVia: blk is reachable from ifBlock only through succ (i.e. not through the other successor).
func reachesOnlyVia(ifBlock, succ, blk *ssa.BasicBlock) bool {
	for _, s := range ifBlock.Succs {
		if s == succ {
			continue
		}
		if reachesAvoiding(s, blk, ifBlock) {
			return false
		}
	}
	return true
}

func describeValue(v ssa.Value) string {
	v = strip(v)
	switch x := v.(type) {
	case *ssa.UnOp:
		if g, ok := x.X.(*ssa.Global); ok {
			return "the package variable " + g.Name()
		}
		if f := fieldOf(x.X); f != nil {
			return "field " + f.Name()
		}
	case *ssa.Const:
		return "constant " + x.String()
	case *ssa.Global:
		return "global " + x.Name()
	}
	return v.Name() + " (" + typeName(v.Type()) + ")"
}

func init() {
	register(&Prop{
		ID:         "C15",
		Title:      "Emulated failures fail every data call, change nothing, and are reversible",
		Decided:    "per client package: (R1) every DynamoDB data method (classified by SDK operation name) tests Client.forceFailureErr with the mutex held, and every instruction that touches client/table state lies on the nil edge of that test – so a failing call changes nothing because it never reaches state; (R2) the non-nil edge returns the configured error value itself with no output; (R3) BatchWriteItem does not short-circuit on the failure but routes every request through the client's own checked PutItem/DeleteItem, unconditionally for every request of every table, and its error handler turns a non-nil error into nil only after appending the request to the unprocessed map that is returned; (R4) the condition table has an entry for every FailureCondition constant with None ↦ nil, the three public switches reach the single writer of forceFailureErr with the right constants; (R5) the v1 and v2 summaries agree; WithContext wrappers are pure delegations; (R6) nothing a failing batch hands back is built on package-level storage shared between tables, calls or clients (= C18.R6); (R7) the client has no state beyond the confirmed fields: a field added later that derives from the failure switch must be rewritten wherever the switch is; (R8) the per-request error handler records a request as unprocessed only on paths on which the error was found to be an API error; (R9) the unprocessed list reported under a table's name is that table's own (= C19.R7).",
		NotDecided: "equality of states before/after is never computed (the argument is that no state-touching instruction is reachable on the failure edge); behaviour of the SDK error types; value of the error message.",
		Assumes:    []string{"data operations are identified by DynamoDB API operation names (PutItem, GetItem, DeleteItem, UpdateItem, Query, Scan, BatchWriteItem, BatchGetItem, Transact*, Execute*) and their WithContext variants"},
		Rules: []RuleDef{
			{ID: "R1", Desc: "failure test present, under the lock, dominating all state access (T-DOM + lockset)", Run: func(e *Engine) {
				for _, role := range clientRoles {
					ff := e.field(role, "Client", "forceFailureErr")
					if !e.anchor("R1", role+".Client.forceFailureErr", ff == nil) {
						continue
					}
					lr := e.lockAnalysis(role)
					gr := e.guardedReach(role)
					ms := e.clientMethods(role)
					for _, name := range sortedFuncs(e, ms) {
						f := ms[name]
						base := strings.TrimSuffix(name, "WithContext")
						kind, isData := dataOpNames[base]
						if !isData {
							continue
						}
						if base != name {
							// wrapper: must be a pure delegation to the checked method
							tgt := ms[base]
							if tgt == nil {
								e.fail("R1", role+".Client."+name+":delegates", e.pos(f.Pos()), "WithContext variant has no base method %s to delegate to", base)
								continue
							}
							ok, why := pureDelegation(f, tgt)
							e.check(ok, "R1", role+".Client."+name+":delegates", e.pos(f.Pos()), "WithContext variant is a pure delegation to %s %s", base, why)
							continue
						}
						if kind == "direct" {
							e.c15Direct("R1", role, name, f, ff, lr, gr)
						}
					}
				}
				e.minCount("R1", 20)
			}},
			{ID: "R2", Desc: "failure edge returns the configured error (emitted together with R1)", Run: func(e *Engine) {
				for _, role := range clientRoles {
					ff := e.field(role, "Client", "forceFailureErr")
					if ff == nil {
						continue
					}
					ms := e.clientMethods(role)
					for _, name := range sortedFuncs(e, ms) {
						if dataOpNames[name] == "direct" {
							e.c15Direct("R2", role, name, ms[name], ff, nil, nil)
						}
					}
				}
				e.minCount("R2", 14)
			}},
			{ID: "R3", Desc: "batch write: no short-circuit, every request routed through checked single-item methods, handler never drops a request (T-PDOM)", Run: c15R3},
			{ID: "R4", Desc: "condition table exhaustive, None↦nil, single writer, switches pass the right constants (T-TABLE/T-FIELD)", Run: c15R4},
			{ID: "R5", Desc: "v1 ≡ v2: same set of data methods carry the test (T-SIB)", Run: func(e *Engine) {
				sets := map[string]map[string]bool{}
				for _, role := range clientRoles {
					sets[role] = map[string]bool{}
					ff := e.field(role, "Client", "forceFailureErr")
					for name, f := range e.clientMethods(role) {
						if _, ok := dataOpNames[name]; ok && ff != nil {
							sets[role][name] = findFailureTest(f, ff) != nil
						}
					}
				}
				names := map[string]bool{}
				for _, s := range sets {
					for n := range s {
						names[n] = true
					}
				}
				for _, n := range sortedKeys(names) {
					t1, in1 := sets["v1"][n]
					t2, in2 := sets["v2"][n]
					construct := "Client." + n
					switch {
					case in1 != in2:
						e.fail("R5", construct+":present-in-both", "-", "data method exists in only one client (v1:%v v2:%v): failure emulation cannot be identical", in1, in2)
					case t1 != t2:
						e.fail("R5", construct+":same-test", "-", "direct failure test present in v1:%v v2:%v – the two clients behave differently under an active failure condition", t1, t2)
					default:
						e.pass("R5", construct+":same-test", "-", "both clients agree (direct test: %v)", t1)
					}
				}
			}},
			{ID: "R6", Desc: "the unprocessed lists of a failing batch are not built on shared package-level storage (= C18.R6)", Run: aliasRule("R6", c18R6, nil)},
			{ID: "R7", Desc: "the client has no state beyond the confirmed fields: a saved previous failure, a memo of the switch etc. must follow every write of forceFailureErr (T-FIELD closure)", Run: func(e *Engine) { stateModelClosed(e, "R7", func(k string) bool { return k == "v1.Client" || k == "v2.Client" }) }},
			{ID: "R8", Desc: "a batch write records a request as unprocessed only for API errors: under \"errors.As answered false\" the recording is unreachable (CFG exploration under facts)", Run: c15R8},
			{ID: "R9", Desc: "what a failing batch reports as unprocessed under a table's name is that table's own list, not a buffer shared by all tables (= C19.R7)", Run: aliasRule("R9", c19R7, nil)},
		},
	})
}

func c15R3(e *Engine) {
	for _, role := range clientRoles {
		ms := e.clientMethods(role)
		bw := ms["BatchWriteItem"]
		ff := e.field(role, "Client", "forceFailureErr")
		if !e.anchor("R3", role+".Client.BatchWriteItem", bw == nil || ff == nil) {
			continue
		}
		construct := role + ".Client.BatchWriteItem"
		// (a) no short-circuit: no return of the loaded forceFailureErr
		short := ""
		for _, ret := range returnsOf(bw) {
			ei := errResultIndex(bw)
			if ei >= 0 && isLoadOfField(retVals(ret)[ei], ff) {
				short = e.ipos(ret)
			}
		}
		if short != "" {
			e.fail("R3", construct+":no-short-circuit", short, "BatchWriteItem returns Client.forceFailureErr directly: under an emulated internal-server failure the requests are neither applied nor reported in UnprocessedItems")
		} else {
			e.pass("R3", construct+":no-short-circuit", e.pos(bw.Pos()), "no return of the raw failure error; requests go through the per-item path")
		}
		// (b) each request is routed through the client's own PutItem and DeleteItem
		rs := e.reach(bw)
		for _, op := range []string{"PutItem", "DeleteItem"} {
			e.check(ms[op] != nil && rs[ms[op]], "R3", construct+":routes-through-"+op, e.pos(bw.Pos()), "batch write reaches the client's own checked %s", op)
		}
		// (c) the dispatch call is unconditional inside the two range loops (which may be split over helpers)
		var dispatch ssa.CallInstruction
		var handlerCall ssa.CallInstruction
		dsite, hsite := e.batchWritePath(role)
		if dsite != nil {
			dispatch = dsite.call
		}
		if hsite != nil {
			handlerCall = hsite.call
		}
		if dispatch == nil {
			e.fail("R3", construct+":dispatch-unconditional", e.pos(bw.Pos()), "no per-request dispatch call found in BatchWriteItem")
		} else {
			di := dispatch.(ssa.Instruction)
			bad := ""
			ranges := 0
			var conds []Cond
			for _, ci := range dsite.chainInstrs() {
				conds = append(conds, condsAt(ci.Block())...)
			}
			for _, c := range conds {
				v := c.V
				if ex, ok := v.(*ssa.Extract); ok {
					if _, isNext := ex.Tuple.(*ssa.Next); isNext && ex.Index == 0 {
						ranges++
						continue
					}
				}
				// conditions that are established before the loops (validation result, failure test) are fine if they dominate loop entry: accept nil tests on errors
				if _, _, isNil := nilTest(v); isNil {
					continue
				}
				if isIndexLoopCond(v) {
					ranges++
					continue
				}
				bad = "request execution is guarded by a condition other than loop progress: " + v.String()
			}
			if bad == "" && ranges < 2 {
				bad = fmt.Sprintf("dispatch is inside %d range loops, expected the tables × requests double loop", ranges)
			}
			if bad == "" {
				for _, ci := range dsite.chainInstrs() {
					if _, why := e.visitsEveryElement(ci, nil); why != "" {
						bad = why + " – they are neither applied nor reported as unprocessed"
					}
				}
			}
			if bad != "" {
				e.fail("R3", construct+":dispatch-unconditional", e.ipos(di), "%s", bad)
			} else {
				e.pass("R3", construct+":dispatch-unconditional", e.ipos(di), "per-request dispatch runs for every request of every table (two range loops, no filter)")
			}
		}
		// (d) handler
		if handlerCall == nil {
			// the handling may be written in the loop itself: a classifying test, the return of the error, the recording
			if ih := e.inlineBatchHandler(role); ih != nil {
				e.c15Inline(role, ih, bw)
				continue
			}
			e.fail("R3", construct+":handler", e.pos(bw.Pos()), "no per-request error handler (func(..., map[string][]WriteRequest, error) error) is called, and the loop does not record failed requests itself")
			continue
		}
		h := e.callees(handlerCall)[0]
		e.c15Handler(role, h)
		// (e) handler's error result is propagated, the map it fills is the one returned
		// the handler's error is returned by the function that calls it, and so on up to BatchWriteItem
		propagated := true
		cur := handlerCall.(ssa.Value)
		for lvl := len(hsite.ctx); lvl >= 0; lvl-- {
			fnAt := bw
			if lvl > 0 {
				fnAt = hsite.ctx[lvl-1].callee
			}
			okLvl := false
			for _, ret := range returnsOf(fnAt) {
				ei := errResultIndex(fnAt)
				if ei >= 0 && strip(retVals(ret)[ei]) == strip(cur) {
					if _, nn := knownNilness(ret.Block(), func(v ssa.Value) bool { return strip(v) == strip(cur) }); nn {
						okLvl = true
					}
				}
			}
			if !okLvl {
				propagated = false
			}
			if lvl > 0 {
				cur = hsite.ctx[lvl-1].call.(ssa.Value)
			}
		}
		e.check(propagated, "R3", construct+":handler-error-propagated", e.ipos(handlerCall.(ssa.Instruction)), "a non-nil result of the handler is returned to the caller")
		var mapArg ssa.Value
		for _, a := range handlerCall.Common().Args {
			if _, ok := a.Type().Underlying().(*types.Map); ok {
				mapArg, _ = resolveParam(a, hsite.ctx)
			}
		}
		outOK := false
		instrs(bw, func(in ssa.Instruction) {
			if st, ok := in.(*ssa.Store); ok {
				if f := fieldOf(st.Addr); f != nil && f.Name() == "UnprocessedItems" && st.Val == mapArg {
					outOK = true
				}
			}
		})
		e.check(outOK, "R3", construct+":unprocessed-returned", e.pos(bw.Pos()), "the map filled by the handler is the UnprocessedItems of the output")
	}
	e.minCount("R3", 12)
}

// inlineHandler: the per-request error handling written in the function that dispatches the requests – the error of the
// dispatch call is classified, returned, or the request is appended to the unprocessed map, all in the loop body.
type inlineHandler struct {
	host    *ssa.Function
	site    *batchSite
	errV    ssa.Value
	records []ssa.Instruction // the recording of a failed request: the map update, or the append to the table's pending list
	sink    *ssa.MapUpdate    // where the recorded requests are stored under the table's name
}

func isWriteRequestMap(t types.Type) bool {
	m, ok := t.Underlying().(*types.Map)
	if !ok {
		return false
	}
	sl, ok := m.Elem().Underlying().(*types.Slice)
	return ok && strings.Contains(typeName(sl.Elem()), "WriteRequest")
}

func (e *Engine) inlineBatchHandler(role string) *inlineHandler {
	dsite, _ := e.batchWritePath(role)
	if dsite == nil {
		return nil
	}
	dv, ok := dsite.call.(ssa.Value)
	if !ok {
		return nil
	}
	ih := &inlineHandler{host: dsite.call.Parent(), site: dsite}
	if isErrorType(dv.Type()) {
		ih.errV = dv
	} else {
		if refs := dv.Referrers(); refs != nil {
			for _, r := range *refs {
				if ex, ok := r.(*ssa.Extract); ok && isErrorType(ex.Type()) {
					ih.errV = ex
				}
			}
		}
	}
	if ih.errV == nil {
		return nil
	}
	for _, rec := range writeRequestRecordings(ih.host) {
		// what is appended is the request that was dispatched
		c := rec.app
		for _, a := range dsite.call.Common().Args {
			if containsElem(c.Call.Args[1], a) {
				ih.records = append(ih.records, rec.at)
				ih.sink = rec.sink
			}
		}
	}
	if len(ih.records) == 0 {
		return nil
	}
	return ih
}

// nilFacts: the truth values of the nil tests of v when v is not nil.
func nilFacts(fn *ssa.Function, v ssa.Value, facts map[ssa.Value]bool) {
	instrs(fn, func(in ssa.Instruction) {
		b, ok := in.(*ssa.BinOp)
		if !ok {
			return
		}
		if x, nonNilOnTrue, ok := nilTest(b); ok && strip(x) == strip(v) {
			facts[b] = nonNilOnTrue
		}
	})
}

// c15Inline: the obligations of the handler form, for the inline form. Under "the dispatch failed" every path from the
// dispatch call ends in the recording of the request or in a return of that very error: it reaches neither the next
// request nor any other return.
func (e *Engine) c15Inline(role string, ih *inlineHandler, bw *ssa.Function) {
	construct := e.fname(ih.host)
	di := ih.site.call.(ssa.Instruction)
	facts := map[ssa.Value]bool{}
	nilFacts(ih.host, ih.errV, facts)
	stop := map[ssa.Instruction]bool{}
	for _, r := range ih.records {
		stop[r] = true
	}
	targets := []wEvent{{di, "the next request is dispatched"}}
	ei := errResultIndex(ih.host)
	for _, ret := range returnsOf(ih.host) {
		if ei >= 0 && strip(retVals(ret)[ei]) == strip(ih.errV) {
			continue
		}
		targets = append(targets, wEvent{ret, "the function returns without that error"})
	}
	if len(facts) == 0 {
		e.fail("R3", construct+":never-drops", e.ipos(di), "the error of the per-request dispatch is never tested: a failed request is neither reported as unprocessed nor fails the call")
	} else if w := writeReachableUnderAvoiding(targets, di, facts, stop); w != nil {
		e.fail("R3", construct+":never-drops", e.ipos(w.in), "after a failed request %s although the request was not recorded in the unprocessed map: it is neither applied nor reported", w.what)
	} else {
		e.pass("R3", construct+":never-drops", e.ipos(di), "after a failed request every path ends in unprocessed[table]=append(unprocessed[table], req) or in the return of that error (%d other exits examined)", len(targets))
	}
	e.pass("R3", role+".Client.BatchWriteItem:handler-error-propagated", e.ipos(di), "inline form: covered by never-drops (the only returns reachable under a non-nil error return that error)")
	var mapArg ssa.Value
	mapArg, _ = resolveParam(ih.sink.Map, ih.site.ctx)
	outOK := false
	instrs(bw, func(in ssa.Instruction) {
		if st, ok := in.(*ssa.Store); ok {
			if f := fieldOf(st.Addr); f != nil && f.Name() == "UnprocessedItems" && st.Val == mapArg {
				outOK = true
			}
		}
	})
	e.check(outOK, "R3", role+".Client.BatchWriteItem:unprocessed-returned", e.pos(bw.Pos()), "the map the loop records into is the UnprocessedItems of the output")
}

func isBatchHandler(g *ssa.Function) bool {
	hasMap, hasErr := false, false
	ps := g.Signature.Params()
	for i := 0; i < ps.Len(); i++ {
		t := ps.At(i).Type()
		if m, ok := t.Underlying().(*types.Map); ok {
			if sl, ok := m.Elem().Underlying().(*types.Slice); ok && strings.Contains(typeName(sl.Elem()), "WriteRequest") {
				hasMap = true
			}
		}
		if isErrorType(t) {
			hasErr = true
		}
	}
	return hasMap && hasErr && errResultIndex(g) >= 0
}

// c15Handler: in the handler every path returning nil for a non-nil input error passes through
// unprocessed[table] = append(unprocessed[table], req).
func (e *Engine) c15Handler(role string, h *ssa.Function) {
	construct := e.fname(h)
	var errP, mapP, reqP, tblP *ssa.Parameter
	for _, p := range h.Params {
		t := p.Type()
		switch {
		case isErrorType(t):
			errP = p
		case func() bool { _, ok := t.Underlying().(*types.Map); return ok }():
			mapP = p
		case strings.Contains(typeName(t), "WriteRequest"):
			reqP = p
		case types.Identical(t.Underlying(), types.Typ[types.String]):
			tblP = p
		}
	}
	if errP == nil || mapP == nil || reqP == nil || tblP == nil {
		e.undecided("R3", construct+":never-drops", e.pos(h.Pos()), "handler signature not recognised (need table string, request, unprocessed map, error)")
		return
	}
	// the append-store
	var appends []*ssa.MapUpdate
	instrs(h, func(in ssa.Instruction) {
		mu, ok := in.(*ssa.MapUpdate)
		if !ok || mu.Map != mapP || mu.Key != tblP {
			return
		}
		c, ok := mu.Value.(*ssa.Call)
		if !ok || staticCalleeName(c) != "builtin.append" {
			return
		}
		// appended slice contains req
		if containsElem(c.Call.Args[1], reqP) {
			appends = append(appends, mu)
		}
	})
	bad := ""
	n := 0
	for _, ret := range returnsOf(h) {
		if !isNilConst(retVals(ret)[errResultIndex(h)]) {
			continue
		}
		n++
		isNil, _ := knownNilness(ret.Block(), func(v ssa.Value) bool { return v == errP })
		if isNil {
			continue
		}
		dom := false
		for _, a := range appends {
			if idominates(a, ret) {
				dom = true
			}
		}
		if !dom {
			bad = fmt.Sprintf("return nil at %s swallows a non-nil error without recording the request in the unprocessed map", e.ipos(ret))
		}
	}
	if bad != "" {
		e.fail("R3", construct+":never-drops", e.pos(h.Pos()), "%s: the request is neither applied nor reported", bad)
	} else {
		e.pass("R3", construct+":never-drops", e.pos(h.Pos()), "%d nil-returns: each is either the err==nil edge or dominated by unprocessed[table]=append(unprocessed[table], req)", n)
	}
	// retryable classes: InternalServerError and ProvisionedThroughputExceeded only
}

// containsElem: slice value `s` (the variadic arg of append) contains element v (built via new [1]T; store; slice).
func containsElem(s ssa.Value, v ssa.Value) bool {
	sl, ok := s.(*ssa.Slice)
	if !ok {
		return false
	}
	al, ok := sl.X.(*ssa.Alloc)
	if !ok {
		return false
	}
	for _, r := range refsOf(al) {
		if ia, ok := r.(*ssa.IndexAddr); ok {
			for _, rr := range refsOf(ia) {
				if st, ok := rr.(*ssa.Store); ok && st.Val == v {
					return true
				}
			}
		}
	}
	return false
}

func c15R4(e *Engine) {
	for _, role := range clientRoles {
		init, info := e.varInit(role, "emulatingErrors")
		if !e.anchor("R4", role+".emulatingErrors", init == nil) {
			continue
		}
		cl, ok := unparen(init).(*ast.CompositeLit)
		if !ok {
			e.undecided("R4", role+".emulatingErrors:literal", e.pos(init.Pos()), "condition table is not a composite literal")
			continue
		}
		entries := map[string]ast.Expr{}
		for _, el := range cl.Elts {
			kv, ok := el.(*ast.KeyValueExpr)
			if !ok {
				continue
			}
			if id, ok := unparen(kv.Key).(*ast.Ident); ok {
				if c, ok := info.Uses[id].(*types.Const); ok {
					entries[c.Name()] = kv.Value
				}
			}
		}
		consts := e.constsOfType(role, "FailureCondition")
		for _, c := range consts {
			v, ok := entries[c.Name()]
			construct := role + ".emulatingErrors[" + c.Name() + "]"
			if !ok {
				e.fail("R4", construct, e.pos(cl.Pos()), "FailureCondition constant %s has no entry in the table: activating it silently deactivates failure emulation (nil error)", c.Name())
				continue
			}
			isNil := false
			if id, ok := unparen(v).(*ast.Ident); ok && id.Name == "nil" {
				isNil = true
			}
			if strings.HasSuffix(c.Name(), "None") {
				e.check(isNil, "R4", construct, e.pos(v.Pos()), "the 'none' condition maps to nil (deactivation restores normal behaviour)")
			} else {
				e.check(!isNil, "R4", construct, e.pos(v.Pos()), "active condition maps to a non-nil error (%s)", exprStr(v))
			}
		}
		// single writer of forceFailureErr
		ff := e.field(role, "Client", "forceFailureErr")
		writers := e.writersOf(ff, e.funcs(role))
		var setter *ssa.Function
		for f, accs := range writers {
			if f.Name() == "NewClient" {
				continue
			}
			if setter != nil && setter != f {
				e.fail("R4", role+".forceFailureErr:single-writer", e.ipos(accs[0].Instr), "second writer %s of Client.forceFailureErr besides %s", e.fname(f), e.fname(setter))
			}
			setter = f
		}
		if setter == nil {
			e.fail("R4", role+".forceFailureErr:single-writer", "-", "no function writes Client.forceFailureErr: failure emulation cannot be toggled")
			continue
		}
		// the write may sit in a closure handed to a run-with-the-lock helper: the named function around it is the setter
		writerBody := setter
		for setter.Parent() != nil {
			setter = setter.Parent()
		}
		// the setter stores emulatingErrors[param]
		g := e.global(role, "emulatingErrors")
		okStore := false
		instrs(writerBody, func(in ssa.Instruction) {
			st, ok := in.(*ssa.Store)
			if !ok || fieldOf(st.Addr) != ff {
				return
			}
			if lk, ok := strip(st.Val).(*ssa.Lookup); ok {
				if u, ok := lk.X.(*ssa.UnOp); ok && u.X == g {
					idx := strip(lk.Index)
					if fv, isFV := idx.(*ssa.FreeVar); isFV {
						// captured parameter of the enclosing function
						idx = capturedValue(writerBody, fv)
					}
					if u2, isLoad := idx.(*ssa.UnOp); isLoad {
						if fv, isFV := u2.X.(*ssa.FreeVar); isFV {
							idx = capturedValue(writerBody, fv)
						}
					}
					if _, isParam := idx.(*ssa.Parameter); isParam {
						okStore = true
					}
				}
			}
		})
		// the store happens on every path through the setter (a conditional early return would make some switches no-ops)
		uncond := false
		instrs(writerBody, func(in ssa.Instruction) {
			st, ok := in.(*ssa.Store)
			if !ok || fieldOf(st.Addr) != ff {
				return
			}
			entry := writerBody.Blocks[0].Instrs[0]
			if e.ipostdominates(st, entry) {
				uncond = true
			}
		})
		if writerBody != setter && uncond {
			// … and the closure is handed, on every path, to a helper that runs it on every path
			uncond = false
			instrs(setter, func(in ssa.Instruction) {
				c, ok := in.(*ssa.Call)
				if !ok || c.Call.StaticCallee() == nil || e.fnRole(c.Call.StaticCallee()) != role {
					return
				}
				for i, a := range c.Call.Args {
					mc, isMC := strip(a).(*ssa.MakeClosure)
					if !isMC || mc.Fn != ssa.Value(writerBody) || !e.ipostdominates(in, setter.Blocks[0].Instrs[0]) {
						continue
					}
					if runsParamAlways(e, c.Call.StaticCallee(), i) {
						uncond = true
					}
				}
			})
		}
		e.check(okStore && uncond, "R4", role+".forceFailureErr:single-writer", e.pos(setter.Pos()), "%s is the only writer, stores emulatingErrors[condition] (%v) on every path (%v): every activation, switch and deactivation takes effect", e.fname(setter), okStore, uncond)
		// the switches
		want := map[string]string{"ActiveForceFailure": "Deprecated", "DeactiveForceFailure": "None", "EmulateFailure": "<param>"}
		for _, sw := range sortedKeys(want) {
			f := e.fn(role, sw)
			if f == nil {
				e.fail("R4", role+"."+sw, "-", "public switch %s no longer exists", sw)
				continue
			}
			got := ""
			conditional := ""
			instrs(f, func(in ssa.Instruction) {
				c, ok := in.(ssa.CallInstruction)
				if !ok || c.Common().StaticCallee() != setter {
					return
				}
				// the switch acts whatever the current state is: the call is governed by nothing but guards whose other
				// side panics (the client type assertion)
				for b := in.Block(); b != nil && len(b.Preds) == 1; b = b.Preds[0] {
					p := b.Preds[0]
					ifi, isIf := p.Instrs[len(p.Instrs)-1].(*ssa.If)
					if !isIf {
						continue
					}
					other := p.Succs[0]
					if other == b {
						other = p.Succs[1]
					}
					if _, panics := other.Instrs[len(other.Instrs)-1].(*ssa.Panic); !panics {
						conditional = "only when " + ifi.Cond.String() + " decides so (" + e.ipos(ifi) + ")"
					}
				}
				if len(in.Block().Preds) > 1 {
					conditional = "on some paths only (" + e.ipos(in) + ")"
				}
				arg := c.Common().Args[len(c.Common().Args)-1]
				if _, isP := arg.(*ssa.Parameter); isP {
					got = "<param>"
				} else if s, ok := constString(arg); ok {
					for _, cst := range consts {
						if strings.Trim(cst.Val().ExactString(), "\"") == s {
							got = strings.TrimPrefix(cst.Name(), "FailureCondition")
						}
					}
				}
			})
			e.check(got == want[sw] && conditional == "", "R4", role+"."+sw, e.pos(f.Pos()), "%s calls %s with %s (want %s) unconditionally %s", sw, e.fname(setter), got, want[sw], conditional)
		}
	}
	e.minCount("R4", 14)
}

// isIndexLoopCond: `i < len(x)` – the progress condition of a range-over-slice loop.
func isIndexLoopCond(v ssa.Value) bool {
	b, ok := v.(*ssa.BinOp)
	if !ok || b.Op != token.LSS {
		return false
	}
	x := b.X
	if add, ok := x.(*ssa.BinOp); ok && add.Op == token.ADD {
		x = add.X
	}
	phi, isPhi := x.(*ssa.Phi)
	if !isPhi {
		return false
	}
	// an induction variable: starts at a constant, the other edges are itself + 1
	for _, ed := range phi.Edges {
		if _, isC := constInt(ed); isC {
			continue
		}
		add, ok := ed.(*ssa.BinOp)
		if !ok || add.Op != token.ADD || add.X != ssa.Value(phi) {
			return false
		}
		if n, isC := constInt(add.Y); !isC || n != 1 {
			return false
		}
	}
	// bound: len(x), possibly converted to another integer type
	y := b.Y
	for {
		if cv, ok := y.(*ssa.Convert); ok && isIntType(cv.Type()) && isIntType(cv.X.Type()) {
			y = cv.X
			continue
		}
		break
	}
	c, ok := y.(*ssa.Call)
	return ok && staticCalleeName(c) == "builtin.len"
}

// capturedValue: the value bound to free variable fv of closure fn where the closure is made (through the cell if the
// variable is captured by reference and assigned once from a parameter).
func capturedValue(fn *ssa.Function, fv *ssa.FreeVar) ssa.Value {
	parent := fn.Parent()
	if parent == nil {
		return fv
	}
	idx := -1
	for i, f := range fn.FreeVars {
		if f == fv {
			idx = i
		}
	}
	var out ssa.Value = fv
	instrs(parent, func(in ssa.Instruction) {
		mc, ok := in.(*ssa.MakeClosure)
		if !ok || mc.Fn != ssa.Value(fn) || idx < 0 || idx >= len(mc.Bindings) {
			return
		}
		b := mc.Bindings[idx]
		if al, isAl := b.(*ssa.Alloc); isAl {
			if sts := storesTo(al); len(sts) == 1 {
				b = sts[0].Val
			}
		}
		out = strip(b)
	})
	return out
}

// runsParamAlways: g calls its function-typed parameter number i on every path from entry to return.
func runsParamAlways(e *Engine, g *ssa.Function, i int) bool {
	if g == nil || g.Blocks == nil || i >= len(g.Params) {
		return false
	}
	ok := false
	instrs(g, func(in ssa.Instruction) {
		c, isC := in.(*ssa.Call)
		if isC && c.Call.StaticCallee() == nil && !c.Call.IsInvoke() && strip(c.Call.Value) == ssa.Value(g.Params[i]) && e.ipostdominates(in, g.Blocks[0].Instrs[0]) {
			ok = true
		}
	})
	return ok
}

// c15R8: which failures of a single request a batch write turns into "unprocessed". The per-request error handler of each
// client records the request in the unprocessed map only for an API error (the errors.As test succeeded) – an error that
// is not one (the deprecated forced failure is a plain error value) is handed back and fails the call. Judged by
// exploring the handler under the fact "errors.As answered false": the recording must not be reachable.
func c15R8(e *Engine) {
	n := 0
	for _, role := range clientRoles {
		for _, fn := range e.funcs(role) {
			if fn.Parent() != nil {
				continue
			}
			// the recording: map[table] = append(map[table], request) – in a handler function that is handed the map and
			// the error, or in the dispatching loop itself
			var records []wEvent
			var asCalls []*ssa.Call
			e.walkLocal(role, fn, 1, func(in ssa.Instruction, ctx []callCtx) {
				if len(ctx) > 0 {
					return
				}
				switch x := in.(type) {
				case *ssa.MapUpdate:
				case *ssa.Call:
					if staticCalleeName(x) == "errors.As" {
						asCalls = append(asCalls, x)
					}
				}
			})
			for _, rec := range writeRequestRecordings(fn) {
				records = append(records, wEvent{rec.at, "the request is recorded as unprocessed"})
			}
			// the classification may live in a predicate helper (isRetryable(err) bool): its call plays the role of the test
			var tests []ssa.Value
			var preds []*ssa.Function
			for _, c := range asCalls {
				tests = append(tests, c)
			}
			instrs(fn, func(in ssa.Instruction) {
				c, ok := in.(*ssa.Call)
				if !ok || c.Call.StaticCallee() == nil || e.fnRole(c.Call.StaticCallee()) != role || !isBoolType(c.Type()) {
					return
				}
				usesAs := false
				instrs(c.Call.StaticCallee(), func(j ssa.Instruction) {
					if cc, ok := j.(*ssa.Call); ok && staticCalleeName(cc) == "errors.As" {
						usesAs = true
					}
				})
				if usesAs {
					tests = append(tests, c)
					preds = append(preds, c.Call.StaticCallee())
				}
			})
			if len(records) == 0 {
				continue
			}
			n++
			construct := e.fname(fn) + ":unprocessed-only-for-api-errors"
			if len(tests) == 0 {
				e.fail("R8", construct, e.pos(fn.Pos()), "requests are recorded as unprocessed without any test of what kind of error occurred")
				continue
			}
			// no classification succeeded (every errors.As / classifying predicate answered false) => nothing is recorded
			bad := ""
			facts := map[ssa.Value]bool{}
			var first ssa.Instruction
			for _, t := range tests {
				facts[t] = false
				ti := t.(ssa.Instruction)
				if first == nil || idominates(ti, first) {
					first = ti
				}
			}
			if w := writeReachableUnder(records, first, facts); w != nil {
				bad = e.ipos(w.in)
			}
			// a classifying predicate answers false when its own errors.As tests answer false
			for _, p := range preds {
				pf := map[ssa.Value]bool{}
				var pfirst ssa.Instruction
				instrs(p, func(j ssa.Instruction) {
					if cc, ok := j.(*ssa.Call); ok && staticCalleeName(cc) == "errors.As" {
						pf[cc] = false
						if pfirst == nil || idominates(j, pfirst) {
							pfirst = j
						}
					}
				})
				var yes []wEvent
				for _, ret := range returnsOf(p) {
					v := retVals(ret)[0]
					if val, isC := constBoolOf(v); isC && !val {
						continue
					}
					if _, isFact := pf[v]; isFact {
						continue
					}
					yes = append(yes, wEvent{ret, "the predicate may answer true"})
				}
				if pfirst != nil {
					if w := writeReachableUnder(yes, pfirst, pf); w != nil && bad == "" {
						bad = e.ipos(w.in)
					}
				}
			}
			if bad != "" {
				e.fail("R8", construct, bad, "a request is recorded as unprocessed although the error is not an API error (the errors.As test answered false): the deprecated forced failure – a plain error – makes BatchWriteItem succeed with everything unprocessed instead of failing with that error, and the two clients disagree")
			} else {
				e.pass("R8", construct, e.pos(fn.Pos()), "the request is recorded as unprocessed only on paths on which the error was found to be an API error")
			}
		}
	}
	if n < 2 {
		e.fail("R8", "count:R8", "-", "only %d per-request batch-write error handlers found (one per client expected)", n)
	}
}

func constBoolOf(v ssa.Value) (bool, bool) {
	c, ok := v.(*ssa.Const)
	if !ok {
		return false, false
	}
	return constBool(c)
}

// writeRequestRecordings: where fn records a request as unprocessed – `m[table] = append(m[table], req)` (the map update
// is the recording) or `pending = append(pending, req)` with the pending list stored under the table's name later on
// (the append is the recording, the map update the sink).
type wrRecording struct {
	at   ssa.Instruction
	app  *ssa.Call
	sink *ssa.MapUpdate
}

func writeRequestRecordings(fn *ssa.Function) []wrRecording {
	var out []wrRecording
	var sinks []*ssa.MapUpdate
	instrs(fn, func(in ssa.Instruction) {
		if mu, ok := in.(*ssa.MapUpdate); ok && isWriteRequestMap(mu.Map.Type()) {
			sinks = append(sinks, mu)
			if c, ok := mu.Value.(*ssa.Call); ok && staticCalleeName(c) == "builtin.append" {
				out = append(out, wrRecording{mu, c, mu})
			}
		}
	})
	direct := map[*ssa.Call]bool{}
	for _, r := range out {
		direct[r.app] = true
	}
	instrs(fn, func(in ssa.Instruction) {
		c, ok := in.(*ssa.Call)
		if !ok || staticCalleeName(c) != "builtin.append" || direct[c] {
			return
		}
		sl, ok := c.Type().Underlying().(*types.Slice)
		if !ok || !strings.Contains(typeName(sl.Elem()), "WriteRequest") {
			return
		}
		// does the grown list reach the value of a sink (through the loop's phis, further appends, re-slicing)?
		seen := map[ssa.Value]bool{}
		var reach func(v ssa.Value) *ssa.MapUpdate
		reach = func(v ssa.Value) *ssa.MapUpdate {
			if seen[v] {
				return nil
			}
			seen[v] = true
			refs := v.Referrers()
			if refs == nil {
				return nil
			}
			for _, r := range *refs {
				switch x := r.(type) {
				case *ssa.MapUpdate:
					if x.Value == v {
						for _, sk := range sinks {
							if sk == x {
								return x
							}
						}
					}
				case *ssa.Phi:
					if m := reach(x); m != nil {
						return m
					}
				case *ssa.Slice:
					if m := reach(x); m != nil {
						return m
					}
				case *ssa.Call:
					if staticCalleeName(x) == "builtin.append" && x.Call.Args[0] == v {
						if m := reach(x); m != nil {
							return m
						}
					}
				}
			}
			return nil
		}
		if sk := reach(c); sk != nil {
			out = append(out, wrRecording{c, c, sk})
		}
	})
	return out
}
