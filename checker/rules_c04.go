package main

import (
	"go/token"
	"strings"

	"golang.org/x/tools/go/ssa"
)

func init() {
	register(&Prop{
		ID:         "C04",
		Title:      "Paginating with any Limit yields the same result as one unpaginated read",
		Decided:    "page accounting (count, scanned, limit) is arithmetic over run-time values and is NOT decided. Decided are four necessary conditions visible in the code: (R1) ExclusiveStartKey and Limit of the request reach the search and the LastEvaluatedKey of the response is the second result of the search, through conversion only, in all four client sites; (R2) the key handed out as LastEvaluatedKey is built from the last *evaluated* item (the variable assigned on every non-skipped iteration, not only on matches), contains the table's key attributes and, when reading through an index, that index's key attributes, and the incoming start key is rendered with the table's key schema; (R3) resuming must be positional (ordered comparison with the start key, or a search for its position): resuming at the first key *equal* to the start key never resumes once that item has been deleted; (R4) the error of rendering a malformed start key is not discarded (= C13.R2 at that site); (R5) the LastEvaluatedKey a client hands out and the ExclusiveStartKey it takes back pass through the adapters' attribute mappers, and resuming compares key TEXT: every S and N text is carried verbatim in both directions (= C10.R6) – an adapter that normalises a number on the way out hands out a key that matches no stored key, and the next page is empty; (R6) the search loop is left only by exhaustion or by the page limit (= C02.R8): any other early exit is decided per call, so how much a request returns depends on where the page boundaries fall; (R8) nothing is kept between the pages of a read but the confirmed fields (= C01.R12, C03.R10); (R7) index entries are totally ordered in both scan directions (= C02.R1): a resume inside a run of equal index keys finds the run in the same order.",
		NotDecided: "'at most Limit items per page', 'finitely many pages', absence of duplicates and of losses at page boundaries, boundaries inside runs of equal index keys – all consequences of the counting arithmetic (shouldCountItem / shouldBreakPage / shouldReturnNextKey / GetKeyAt), which no sound static argument in reach bounds. An off-by-one that keeps the code shape is invisible to this check.",
		Rules: []RuleDef{
			{ID: "R1", Desc: "start key, limit and last key are plumbed through (T-FLOW)", Run: c04R1},
			{ID: "R2", Desc: "LastEvaluatedKey is built from the last evaluated item with table + index key attributes (SSA/T-FLOW)", Run: c04R2},
			{ID: "R3", Desc: "resume is positional, not by equality (idiom on SSA)", Run: c04R3},
			{ID: "R4", Desc: "malformed start key is not silently ignored (= C13.R2)", Run: func(e *Engine) {
				before := len(e.obs)
				c13R2(e)
				kept := e.obs[:before]
				for _, o := range e.obs[before:] {
					if strings.Contains(o.Construct, "parseStartKey") || strings.Contains(strings.ToLower(o.Construct), "startkey") {
						o.Rule = "R4"
						kept = append(kept, o)
					}
				}
				e.obs = kept
				if len(e.obs) == before {
					e.undecided("R4", "core:start-key-rendering", "-", "the GetKey call that renders the start key was not found")
				}
			}},
			{ID: "R5", Desc: "the key handed out comes back as the same text: S and N pass both adapters verbatim (= C10.R6)", Run: func(e *Engine) {
				before := len(e.obs)
				c10R6(e)
				for i := before; i < len(e.obs); i++ {
					e.obs[i].Rule = "R5"
				}
			}},
			{ID: "R6", Desc: "a page visits every position up to its limit: the search loop is left only by exhaustion or by the page limit (= C02.R8)", Run: aliasRule("R6", c02R8, nil)},
			{ID: "R8", Desc: "successive pages read no state beyond the confirmed fields of table and index (= C01.R12 + C03.R10): a cache kept between pages must be invalidated by every write", Run: func(e *Engine) { stateModelClosed(e, "R8", func(k string) bool { return k == "core.index" || k == "core.Table" }) }},
			{ID: "R7", Desc: "the entry list of an index has one total order per direction – ties between equal index keys broken by the primary key in BOTH directions – so that the position a page resumes from is the position the previous page ended at (= C02.R1)", Run: aliasRule("R7", c02R1, nil)},
		},
	})
}

func c04R1(e *Engine) {
	for _, s := range e.searchSites() {
		construct := s.role + ".Client." + s.method
		in := s.method + "Input."
		for f, want := range map[string]string{"ExclusiveStartKey": "conv field:" + in + "ExclusiveStartKey", "Limit": "field:" + in + "Limit"} {
			got := e.queryInputField(s, f)
			ok := len(got) > 0
			for _, o := range got {
				if strings.TrimPrefix(o, "deref-of ") != want {
					ok = false // sometimes the request's value, sometimes something else (a default, a "fits in one page" shortcut)
				}
			}
			e.check(ok, "R1", construct+":QueryInput."+f, e.ipos(s.call), "QueryInput.%s ← %s", f, strings.Join(got, " | "))
		}
		// LastEvaluatedKey ← conv(result #1 of SearchData)
		last := extractOf(s.call, 1)
		ok := false
		extra := ""
		instrs(s.fn, func(i2 ssa.Instruction) {
			st, isSt := i2.(*ssa.Store)
			if !isSt {
				return
			}
			f := fieldOf(st.Addr)
			if f == nil || f.Name() != "LastEvaluatedKey" {
				return
			}
			for _, rv := range e.recordValues(st.Val) {
				c, isC := strip(rv).(*ssa.Call)
				if !isC || len(c.Call.Args) != 1 || len(last) == 0 || c.Call.Args[0] != ssa.Value(last[0]) {
					continue
				}
				if conv, _ := isConversion(e, c.Call.StaticCallee()); conv {
					ok = true
					// … unconditionally: whatever the search hands back is handed on; a page is complete only when the
					// ENGINE says so (how many items came back says nothing: Limit bounds the items examined)
					at := map[ssa.Value]bool{}
					var top ssa.Instruction = s.call
					if len(s.ctx) > 0 {
						top = s.ctx[0].call.(ssa.Instruction) // the search runs in a helper: judged at the helper's call in the method
					}
					for _, cd := range condsAt(top.Block()) {
						at[normCond(cd).V] = true
					}
					for _, cd := range condsAt(st.Block()) {
						cv := normCond(cd).V
						if at[cv] {
							continue
						}
						// the error test of the helper that ran the search
						if tv, _, isNil := nilTest(cv); isNil && len(s.ctx) > 0 {
							if ex, isEx := strip(tv).(*ssa.Extract); isEx && ex.Tuple == s.ctx[0].call.(ssa.Value) && isErrorType(ex.Type()) {
								continue
							}
						}
						ok = false
						extra = cv.String()
					}
				}
			}
		})
		e.check(ok, "R1", construct+":LastEvaluatedKey", e.ipos(s.call), "output.LastEvaluatedKey = conv(second result of SearchData), set whenever the search returns %s", map[bool]string{true: "", false: "(additionally governed by " + extra + ")"}[extra == ""])
	}
	e.minCount("R1", 12)
}

func c04R2(e *Engine) {
	sd := e.fn("core", "Table.SearchData")
	if !e.anchor("R2", "core.Table.SearchData", sd == nil) {
		return
	}
	// the function that builds the returned key: called in the return of SearchData, second result
	var lk *ssa.Call
	for _, r := range returnsOf(sd) {
		if c, ok := strip(retVals(r)[1]).(*ssa.Call); ok {
			lk = c
		}
	}
	if lk == nil || lk.Call.StaticCallee() == nil {
		e.undecided("R2", "core.Table.SearchData:last-key", e.pos(sd.Pos()), "the second result of SearchData is not a call of a key-building function")
		return
	}
	glk := lk.Call.StaticCallee()
	// (a) the item argument: a loop-carried variable assigned on every non-skipped iteration
	var itemArg ssa.Value
	for _, a := range lk.Call.Args {
		if strings.Contains(typeName(a.Type()), "map[string]*types.Item") {
			itemArg = a
		}
	}
	construct := "core.Table.SearchData:last-evaluated-item"
	okItem, why := false, "item argument not found"
	if ph, ok := itemArg.(*ssa.Phi); ok {
		why = "the loop-carried 'last' value is not the item of the current iteration"
		// find the per-iteration item (result #0 of the decision call) among the transitive phi sources
		for _, src := range phiSources(ph) {
			ex, isEx := src.(*ssa.Extract)
			if !isEx || ex.Index != 0 {
				continue
			}
			if _, isCall := ex.Tuple.(*ssa.Call); !isCall {
				continue
			}
			// the edge that carries it into the loop-carried phi must not be conditional on the match verdict
			var verdict ssa.Value
			for _, v := range extractOf(ex.Tuple, 2) {
				verdict = v
			}
			cond := false
			var chk func(p *ssa.Phi, seen map[*ssa.Phi]bool)
			chk = func(p *ssa.Phi, seen map[*ssa.Phi]bool) {
				if seen[p] {
					return
				}
				seen[p] = true
				for i, ed := range p.Edges {
					if ed == ssa.Value(ex) {
						for _, cd := range edgeFacts(p.Block().Preds[i], p.Block()) {
							if normCond(cd).V == verdict {
								cond = true
							}
						}
					}
					if q, isPhi := ed.(*ssa.Phi); isPhi {
						chk(q, seen)
					}
				}
			}
			chk(ph, map[*ssa.Phi]bool{})
			if cond {
				why = "the 'last' item is only updated when the item matched: after a page that ends on filtered-out items the returned key points before them and they are evaluated again (or the read never advances)"
			} else {
				okItem = true
			}
		}
	}
	// record form: the loop state lives in a local record (page.last) written by a step/emit helper
	if u, ok := strip(itemArg).(*ssa.UnOp); ok && u.Op == token.MUL && itemArg != nil {
		if fa, isFA := u.X.(*ssa.FieldAddr); isFA {
			if nt := namedOf(fa.X.Type()); nt != nil && e.localRecord(nt) {
				why = "the 'last' field of the loop state is never set to the item of the current iteration"
				conditional := false
				e.walkLocal("core", sd, 3, func(in ssa.Instruction, ctx []callCtx) {
					st, isSt := in.(*ssa.Store)
					if !isSt {
						return
					}
					fa2, isFA2 := st.Addr.(*ssa.FieldAddr)
					if !isFA2 || fa2.Field != fa.Field {
						return
					}
					if nt2 := namedOf(fa2.X.Type()); nt2 == nil || nt2.Origin() != nt.Origin() {
						return
					}
					v, _ := resolveParam(st.Val, ctx)
					ex, isEx := strip(v).(*ssa.Extract)
					if !isEx || ex.Index != 0 {
						return // the initial value
					}
					call, isCall := ex.Tuple.(*ssa.Call)
					if !isCall {
						return
					}
					var verdict ssa.Value
					for _, x := range extractOf(call, 2) {
						verdict = x
					}
					// neither the store nor any call on the way to it may depend on the match verdict
					blocks := []*ssa.BasicBlock{in.Block()}
					ctxs := [][]callCtx{ctx}
					for i := len(ctx) - 1; i >= 0; i-- {
						blocks = append(blocks, ctx[i].call.Block())
						ctxs = append(ctxs, ctx[:i])
					}
					cond := false
					for i, blk := range blocks {
						for _, cd := range condsAt(blk) {
							cv, _ := resolveParam(normCond(cd).V, ctxs[i])
							if verdict != nil && normCond(Cond{cv, true}).V == verdict {
								cond = true
							}
						}
					}
					if cond {
						conditional = true
					} else {
						okItem = true
					}
				})
				if conditional {
					okItem = false
					why = "the 'last' item is only updated when the item matched: after a page that ends on filtered-out items the returned key points before them and they are evaluated again (or the read never advances)"
				}
			}
		}
	}
	if okItem {
		e.pass("R2", construct, e.ipos(lk), "the key is built from the item of the last evaluated position (assigned on every non-skipped iteration, matched or not)")
	} else {
		e.fail("R2", construct, e.ipos(lk), "%s", why)
	}
	// (b) key contents: table key attributes + index key attributes when an index is used
	var tableKeys, indexKeys, indexGuard bool
	var tableKeyCalls []ssa.Instruction
	instrs(glk, func(in ssa.Instruction) {
		c, ok := in.(*ssa.Call)
		if !ok || c.Call.StaticCallee() == nil || len(c.Call.Args) < 1 {
			return
		}
		sf, _ := loadedFieldDeep(c.Call.Args[0])
		if fa, isFA := c.Call.Args[0].(*ssa.FieldAddr); isFA {
			sf = fieldOf(fa)
		}
		if sf == nil {
			return
		}
		switch fieldOwner(sf) + "." + sf.Name() {
		case "Table.KeySchema":
			tableKeys = true
			tableKeyCalls = append(tableKeyCalls, in)
		case "index.keySchema":
			indexKeys = true
			for _, cd := range condsAt(in.Block()) {
				if _, nonNilOnTrue, isNil := nilTest(cd.V); isNil && cd.Val == nonNilOnTrue {
					indexGuard = true
				}
			}
		}
	})
	// … on every path: a returned key that is not the empty "no more pages" map is built on the table's key attributes
	for _, r := range returnsOf(glk) {
		rv := strip(retVals(r)[0])
		if mm, isMM := rv.(*ssa.MakeMap); isMM && len(refsOf(mm)) <= 1 {
			continue
		}
		dominated := false
		for _, c := range tableKeyCalls {
			if idominates(c, r) {
				dominated = true
			}
		}
		if !dominated && tableKeys {
			tableKeys = false
			e.fail("R2", e.fname(glk)+":key-attributes-on-every-path", e.ipos(r), "a key is returned on a path on which the table's key attributes were not derived with the table's key schema: with a hash+range table the key handed out cannot be turned back into a position, the next page starts over or never ends")
		}
	}
	e.check(tableKeys && indexKeys && indexGuard, "R2", e.fname(glk)+":key-attributes", e.pos(glk.Pos()), "the returned key carries the table's key attributes (%v) and, when an index is used (%v), the index's key attributes (%v)", tableKeys, indexGuard, indexKeys)
	// (c) the incoming start key is rendered with the table's key schema
	ok := false
	instrs(sd, func(in ssa.Instruction) {
		c, isC := in.(*ssa.Call)
		if !isC || c.Call.StaticCallee() == nil {
			return
		}
		hasStart := false
		for _, a := range c.Call.Args {
			for _, o := range e.origins(a) {
				if strings.Contains(o, "QueryInput.ExclusiveStartKey") {
					hasStart = true
				}
			}
		}
		if !hasStart {
			return
		}
		for _, a := range c.Call.Args {
			if f, _ := loadedFieldDeep(a); f != nil && fieldOwner(f)+"."+f.Name() == "Table.KeySchema" {
				ok = true
			}
		}
	})
	e.check(ok, "R2", "core.Table.SearchData:start-key-schema", e.pos(sd.Pos()), "the exclusive start key is rendered with the table's key schema (the search compares primary-key strings)")
}

func c04R3(e *Engine) {
	f := e.field("core", "QueryInput", "started")
	if !e.anchor("R3", "core.QueryInput.started", f == nil) {
		return
	}
	n, n7 := 0, 0
	_ = n7
	for _, fn := range e.funcs("core") {
		instrs(fn, func(in ssa.Instruction) {
			st, ok := in.(*ssa.Store)
			if !ok || fieldOf(st.Addr) != f {
				return
			}
			v, isK := constBool(st.Val)
			conds := condsAt(in.Block())
			if !isK {
				// started = (pk == startKey): the flag takes the value of a comparison – the comparison is the resume test
				b, isB := strip(st.Val).(*ssa.BinOp)
				if !isB || b.X.Type().Underlying().String() != "string" {
					return
				}
				if _, isC := constString(b.Y); isC {
					return // initialisation: started = (startKey == "")
				}
				if _, isC := constString(b.X); isC {
					return
				}
				conds = append(append([]Cond{}, conds...), Cond{b, true})
			} else if !v {
				return // initialisation from "no start key"
			}
			n++
			// (keyed by what it is, not by the function it sits in: the same finding after the step is inlined or extracted)
			construct := "core:resume-test"
			kind := ""
			directed := false
			for _, cd := range conds {
				cd = normCond(cd)
				for _, o := range e.origins(cd.V) {
					if strings.Contains(o, "ScanIndexForward") {
						directed = true
					}
				}
				b, isB := cd.V.(*ssa.BinOp)
				if !isB {
					continue
				}
				bt := b.X.Type().Underlying().String()
				if bt != "string" {
					continue
				}
				// the comparison is between the primary key of the visited position and the rendered start key
				n7++
				okOperands, why := e.resumeOperands(fn, b)
				e.check(okOperands, "R3", construct+":compares-primary-keys", e.ipos(b), "the resume test compares the primary key of the visited position with the start key rendered by the table's key schema %s", why)
				switch b.Op {
				case token.EQL, token.NEQ:
					// governs as an equality only on its "equal" side
					if (b.Op == token.EQL) == cd.Val && kind == "" {
						kind = "equality"
					}
				case token.LSS, token.LEQ, token.GTR, token.GEQ:
					kind = "ordered"
				}
			}
			switch kind {
			case "ordered":
				// keys are visited in ascending or descending order depending on ScanIndexForward: "after the start key"
				// means greater in one direction and smaller in the other
				if directed {
					e.pass("R3", construct+":ordered", e.ipos(in), "iteration resumes at the first position ordered after the start key, in the direction of the scan")
				} else {
					e.fail("R3", construct+":ordered", e.ipos(in), "iteration resumes at the first key ordered after the start key without regard to the scan direction: in a backward scan the first key visited is the largest one, so every page restarts at the top (page 2 repeats page 1 and pagination never ends)")
				}
			case "equality":
				e.fail("R3", construct, e.ipos(in), "iteration resumes only after a key *equal* to the exclusive start key has been seen: if the item named by LastEvaluatedKey was deleted between two pages the flag never flips and the rest of the result is silently lost (the next page is empty and final)")
			default:
				e.undecided("R3", construct, e.ipos(in), "the condition under which the search starts emitting was not recognised")
			}
		})
	}
	if n == 0 {
		e.undecided("R3", "core:resume-test", "-", "no place sets QueryInput.started to true")
	}
}

// resumeOperands: one operand of the resume comparison is the value the position step hands back as the primary key of the
// visited position (a result of fn itself), the other is the start key as rendered by the table's key schema – nothing
// else (an index key is not unique: resuming by it restarts at the first entry of a run of equal index keys).
func (e *Engine) resumeOperands(fn *ssa.Function, b *ssa.BinOp) (bool, string) {
	isPositionKey := func(v ssa.Value) bool {
		for _, r := range returnsOf(fn) {
			rv := retVals(r)
			if len(rv) > 0 && strip(rv[0]) == strip(v) {
				return true
			}
		}
		// the step inlined: the key at the position (a string handed back by a position function of the engine), or – when
		// reading through an index – the primary key its entry cursor hands back for it
		srcs := []ssa.Value{strip(v)}
		if ph, ok := strip(v).(*ssa.Phi); ok {
			srcs = phiSources(ph)
		}
		if len(srcs) == 0 {
			return false
		}
		for _, s := range srcs {
			switch x := strip(s).(type) {
			case *ssa.Call:
				g := x.Call.StaticCallee()
				if g == nil || e.fnRole(g) != "core" || !isStringType(x.Type()) {
					return false
				}
			case *ssa.Extract:
				c, ok := x.Tuple.(*ssa.Call)
				if !ok || x.Index != 0 || c.Call.StaticCallee() == nil || e.fnRole(c.Call.StaticCallee()) != "core" || !isStringType(x.Type()) {
					return false
				}
			default:
				return false
			}
		}
		return true
	}
	isStartKey := func(v ssa.Value) (bool, string) {
		os := e.origins(v)
		if len(os) == 0 {
			return false, "no origin"
		}
		for _, o := range os {
			if o == `const:""` {
				continue
			}
			if strings.HasPrefix(o, "getkey(schema=field:Table.KeySchema") {
				continue
			}
			return false, o
		}
		return true, ""
	}
	for _, pair := range [][2]ssa.Value{{b.X, b.Y}, {b.Y, b.X}} {
		if !isPositionKey(pair[0]) {
			continue
		}
		if ok, why := isStartKey(pair[1]); !ok {
			return false, "(the start-key operand also comes from " + why + ")"
		}
		return true, ""
	}
	return false, "(neither operand is the primary key the position step returns)"
}
