package main

import (
	"fmt"
	"go/types"
	"strings"

	"golang.org/x/tools/go/ssa"
)

// derivesFrom: does value v derive from (a result of) call c, through extraction, phis, wrapping calls and conversions?
func derivesFrom(v ssa.Value, c ssa.Value) bool {
	seen := map[ssa.Value]bool{}
	var walk func(ssa.Value) bool
	walk = func(x ssa.Value) bool {
		if x == nil || seen[x] {
			return false
		}
		seen[x] = true
		if x == c {
			return true
		}
		switch y := x.(type) {
		case *ssa.Extract:
			return walk(y.Tuple)
		case *ssa.Phi:
			for _, ed := range y.Edges {
				if walk(ed) {
					return true
				}
			}
		case *ssa.Call:
			for _, a := range y.Call.Args {
				if walk(a) {
					return true
				}
			}
			if y.Call.IsInvoke() {
				return walk(y.Call.Value)
			}
		case *ssa.MakeInterface:
			return walk(y.X)
		case *ssa.ChangeInterface:
			return walk(y.X)
		case *ssa.ChangeType:
			return walk(y.X)
		case *ssa.UnOp:
			if al, ok := y.X.(*ssa.Alloc); ok {
				for _, st := range storesTo(al) {
					if walk(st.Val) {
						return true
					}
				}
				// composite built in the alloc: fields stored
				for _, r := range refsOf(al) {
					if fa, ok := r.(*ssa.FieldAddr); ok {
						for _, st := range storesTo(fa) {
							if walk(st.Val) {
								return true
							}
						}
					}
				}
			}
			return walk(y.X)
		case *ssa.Slice:
			return walk(y.X)
		case *ssa.Alloc:
			for _, r := range refsOf(y) {
				if ia, ok := r.(*ssa.IndexAddr); ok {
					for _, st := range storesTo(ia) {
						if walk(st.Val) {
							return true
						}
					}
				}
				if fa, ok := r.(*ssa.FieldAddr); ok {
					for _, st := range storesTo(fa) {
						if walk(st.Val) {
							return true
						}
					}
				}
			}
		}
		return false
	}
	return walk(v)
}

// errorExits lists the "failure exits" of fn: returns with a possibly non-nil error and calls that may raise a panic.
type eExit struct {
	in     ssa.Instruction
	what   string
	errVal ssa.Value
}

func (cs *coreState) errorExits(fn *ssa.Function) []eExit {
	var out []eExit
	ei := errResultIndex(fn)
	if ei >= 0 {
		for _, r := range returnsOf(fn) {
			v := retVals(r)[ei]
			if isNilConst(v) {
				continue
			}
			// value known nil on this path?
			if isNil, _ := knownNilness(r.Block(), func(x ssa.Value) bool { return x == v }); isNil {
				continue
			}
			out = append(out, eExit{r, "error return", v})
		}
	}
	instrs(fn, func(in ssa.Instruction) {
		if _, ok := in.(*ssa.Panic); ok {
			out = append(out, eExit{in, "panic", nil})
			return
		}
		c, ok := in.(ssa.CallInstruction)
		if !ok || isBuiltin(c) {
			return
		}
		for _, g := range cs.e.callees(c) {
			if cs.panics[g] && cs.e.fnRole(g) != "" {
				out = append(out, eExit{in, "call to " + cs.e.fname(g) + " which may raise the documented interpreter panic", nil})
				return
			}
		}
	})
	return out
}

// typestate: no failure exit may follow a state write (clean -> dirty is one-way; error/panic only in clean).
func (cs *coreState) typestate(rule string, fn *ssa.Function, writes []wEvent, exempt func(w wEvent, x eExit) bool) {
	e := cs.e
	construct := e.fname(fn) + ":no-failure-after-write"
	exits := cs.errorExits(fn)
	if len(writes) == 0 {
		return
	}
	var bad []string
	for _, w := range writes {
		for _, x := range exits {
			if w.in == x.in && x.errVal == nil {
				// a call that both writes and may panic: the callee is analysed on its own
				continue
			}
			if !mayFollow(w.in, x.in) {
				continue
			}
			if exempt != nil && exempt(w, x) {
				continue
			}
			bad = append(bad, fmt.Sprintf("%s at %s is reachable after %s at %s", x.what, e.ipos(x.in), w.what, e.ipos(w.in)))
		}
	}
	if len(bad) > 0 {
		e.fail(rule, construct, e.ipos(writes[0].in), "%s: the request fails but has already modified state (%d such path(s))", bad[0], len(bad))
	} else {
		e.pass(rule, construct, e.pos(fn.Pos()), "%d state-write site(s), %d failure exit(s): no failure exit is reachable after a write", len(writes), len(exits))
	}
}

func init() {
	register(&Prop{
		ID:         "C08",
		Title:      "A request that fails leaves no trace",
		Decided:    "two-state typestate (clean → dirty on the first state write) over every core function that writes table/index state and can fail, and over every client data method: (R1) in core, no error return and no call that may raise the documented interpreter panic is reachable after a write to Table.Data/SortedKeys/index.refs/index.sortedKeys, a call that may write them, or a call that mutates in place a map obtained from Table.Data – i.e. all fallible steps (key derivation, condition, expression evaluation, index-key derivation for every index) precede the first write; (R2) Language.Update hands the caller's item to a mutating callee (Environment.Apply) only on the success edges of every error test and nothing fails afterwards; Native.Update calls the updater only when found; (R3) in the client data methods every fallible call that precedes the core mutator (failure test, placeholder validation, table lookup, key derivation) is tested and the mutator lies on its nil edge, and no unrelated error is returned after the mutator; (R4) the error of a core mutator always reaches the method's error result; (R5) the working copy an update is applied to is a shallow copy (a new map sharing the *types.Item values with the stored item), so all-or-nothing also needs that no engine function writes through a *types.Item it did not just allocate – an in-place write reaches the stored item before the later steps can fail; (R6) the shape of every request of a batch is validated before any request is executed (= C16.R7).",
		NotDecided: "state equality is never computed: the argument is that no write happened, which is stronger. Batch calls are sequences of single-item calls (C19) and may have applied a prefix. Table-management calls are outside the statement. Mutation performed by user-supplied native updaters before they panic is outside scope.",
		Assumes:    []string{"a function value of type interpreter.MatcherFunc supplied by the user does not mutate the item it is given", "SDK/stdlib calls do not mutate minidyn state"},
		Rules: []RuleDef{
			{ID: "R1", Desc: "core typestate: no error return / interpreter panic after the first state write (T-STATE)", Run: c08R1},
			{ID: "R2", Desc: "interpreter commits to the caller's item only after every error test passed (T-DOM)", Run: c08R2},
			{ID: "R3", Desc: "client data methods: fallible pre-steps are tested and dominate the core mutator; no unrelated failure after it", Run: c08R3},
			{ID: "R4", Desc: "errors of core mutators are propagated, never dropped", Run: c08R4},
			{ID: "R5", Desc: "attribute values are never modified in place: no store through a *types.Item that is not freshly built (what makes the shallow working copies sufficient)", Run: c08R5},
			{ID: "R6", Desc: "a batch with a malformed request is rejected by the validator, which runs before the first request is executed (= C16.R7): nothing of a rejected batch is applied", Run: aliasRule("R6", c16R7, nil)},
		},
	})
}

// commitPoints: calls in fn that pass a value derived from parameter field `Item` to a mutating parameter.
func (cs *coreState) commitPoints(fn *ssa.Function) []ssa.CallInstruction {
	var out []ssa.CallInstruction
	e := cs.e
	instrs(fn, func(in ssa.Instruction) {
		c, ok := in.(ssa.CallInstruction)
		if !ok || isBuiltin(c) {
			return
		}
		isItem := func(a ssa.Value) bool {
			// a == input.Item (Field of parameter, or load of FieldAddr of param-alloc)
			a = strip(a)
			switch x := a.(type) {
			case *ssa.Field:
				if f := fieldOf(x); f != nil && f.Name() == "Item" {
					return true
				}
			case *ssa.UnOp:
				if f := fieldOf(x.X); f != nil && f.Name() == "Item" {
					return true
				}
			}
			return false
		}
		cal := e.callees(c)
		if len(cal) == 0 && c.Common().StaticCallee() == nil && !c.Common().IsInvoke() {
			// dynamic call of a function value (user updater)
			for _, a := range c.Common().Args {
				if isItem(a) {
					out = append(out, c)
					return
				}
			}
		}
		for _, g := range cal {
			for i, a := range c.Common().Args {
				if cs.mutParams[g][i] && isItem(a) {
					out = append(out, c)
					return
				}
			}
		}
	})
	return out
}

func c08R2(e *Engine) {
	cs := e.coreModel()
	if !e.anchor("R2", "core model", cs == nil) {
		return
	}
	for _, name := range []string{"Language.Update", "Native.Update"} {
		fn := e.fn("interp", name)
		if !e.anchor("R2", "interp."+name, fn == nil) {
			continue
		}
		construct := "interp." + name + ":commit-after-success"
		commits := cs.commitPoints(fn)
		if len(commits) == 0 {
			e.fail("R2", construct, e.pos(fn.Pos()), "no call hands input.Item to a mutating callee: the update is never applied")
			continue
		}
		bad := ""
		ei := errResultIndex(fn)
		for _, c := range commits {
			ci := c.(ssa.Instruction)
			// no failure after commit
			for _, r := range returnsOf(fn) {
				if ei >= 0 && !isNilConst(retVals(r)[ei]) && mayFollow(ci, r) {
					bad = fmt.Sprintf("error return at %s is reachable after the item was modified at %s", e.ipos(r), e.ipos(ci))
				}
			}
			// every error test is on the path: commit lies on the opposite edge of each error return's deciding condition
			cconds := condsAt(ci.Block())
			for _, r := range returnsOf(fn) {
				if ei < 0 || isNilConst(retVals(r)[ei]) {
					continue
				}
				rc := condsAt(r.Block())
				if len(rc) == 0 {
					continue
				}
				dec := rc[0] // nearest deciding condition
				found := false
				for _, cc := range cconds {
					if cc.V == dec.V && cc.Val != dec.Val {
						found = true
					}
				}
				if !found {
					bad = fmt.Sprintf("the item is modified at %s without having passed the error test that leads to the return at %s", e.ipos(ci), e.ipos(r))
				}
			}
			// nothing else writes the item before
		}
		// direct writes to input.Item outside commit
		instrs(fn, func(in ssa.Instruction) {
			if mu, ok := in.(*ssa.MapUpdate); ok {
				if f, _ := loadedField(mu.Map); f != nil && f.Name() == "Item" {
					bad = fmt.Sprintf("direct write into input.Item at %s", e.ipos(in))
				}
				if fl, ok := strip(mu.Map).(*ssa.Field); ok && fieldOf(fl) != nil && fieldOf(fl).Name() == "Item" {
					bad = fmt.Sprintf("direct write into input.Item at %s", e.ipos(in))
				}
			}
		})
		if bad != "" {
			e.fail("R2", construct, e.ipos(commits[0].(ssa.Instruction)), "%s", bad)
		} else {
			e.pass("R2", construct, e.ipos(commits[0].(ssa.Instruction)), "%d commit point(s); each lies on the success edge of every error test and no error return follows", len(commits))
		}
	}
}

// coreMutatorCalls: calls in client method fn into core functions that may write state.
func coreMutatorCalls(e *Engine, cs *coreState, fn *ssa.Function) []*ssa.Call {
	var out []*ssa.Call
	instrs(fn, func(in ssa.Instruction) {
		c, ok := in.(*ssa.Call)
		if !ok || isBuiltin(c) {
			return
		}
		g := c.Call.StaticCallee()
		if g != nil && e.fnRole(g) == "core" && cs.mayWrite[g] {
			out = append(out, c)
		}
	})
	return out
}

func c08R3(e *Engine) {
	cs := e.coreModel()
	if !e.anchor("R3", "core model", cs == nil) {
		return
	}
	for _, role := range clientRoles {
		ms := e.clientMethods(role)
		for _, name := range sortedFuncs(e, ms) {
			fn := ms[name]
			if _, isData := dataOpNames[name]; !isData {
				continue
			}
			muts := coreMutatorCalls(e, cs, fn)
			if len(muts) == 0 {
				continue
			}
			construct := role + ".Client." + name
			ei := errResultIndex(fn)
			for _, m := range muts {
				// (a) every fallible call that dominates the mutator was tested and the mutator is on its nil edge
				bad := ""
				nchecked := 0
				instrs(fn, func(in ssa.Instruction) {
					c, ok := in.(*ssa.Call)
					if !ok || c == m || isBuiltin(c) || !idominates(c, m) {
						return
					}
					res := c.Call.Signature().Results()
					if res.Len() == 0 || !isErrorType(res.At(res.Len()-1).Type()) {
						return
					}
					var errV ssa.Value = c
					if res.Len() > 1 {
						ex := extractOf(c, res.Len()-1)
						if len(ex) == 0 {
							bad = fmt.Sprintf("error result of %s at %s is discarded before the write", staticCalleeName(c), e.ipos(c))
							return
						}
						errV = ex[0]
					}
					nchecked++
					isNil, _ := knownNilness(m.Block(), func(x ssa.Value) bool { return x == errV })
					if !isNil {
						bad = fmt.Sprintf("the write at %s is not confined to the success edge of %s (%s)", e.ipos(m), staticCalleeName(c), e.ipos(c))
					}
				})
				if bad != "" {
					e.fail("R3", construct+":pre-steps-checked", e.ipos(m), "%s", bad)
				} else {
					e.pass("R3", construct+":pre-steps-checked", e.ipos(m), "%d fallible pre-step(s) (validation, table lookup, …) are tested and the core mutator lies on their nil edges", nchecked)
				}
				// (b) no unrelated failure after the mutator
				bad = ""
				for _, r := range returnsOf(fn) {
					if ei < 0 || !mayFollow(m, r) {
						continue
					}
					v := retVals(r)[ei]
					if isNilConst(v) || derivesFrom(v, m) {
						continue
					}
					bad = fmt.Sprintf("error return at %s follows the state write at %s and does not stem from it", e.ipos(r), e.ipos(m))
				}
				if bad != "" {
					e.fail("R3", construct+":no-failure-after-write", e.ipos(m), "%s", bad)
				} else {
					e.pass("R3", construct+":no-failure-after-write", e.ipos(m), "after the core mutator only its own error (or nil) is returned")
				}
			}
		}
	}
	e.minCount("R3", 12)
}

func c08R4(e *Engine) {
	cs := e.coreModel()
	if !e.anchor("R4", "core model", cs == nil) {
		return
	}
	for _, role := range clientRoles {
		for _, fn := range e.funcs(role) {
			for _, m := range coreMutatorCalls(e, cs, fn) {
				res := m.Call.Signature().Results()
				if res.Len() == 0 || !isErrorType(res.At(res.Len()-1).Type()) {
					continue
				}
				construct := e.fname(fn) + "->" + strings.TrimPrefix(e.fname(m.Call.StaticCallee()), "core.")
				var errV ssa.Value = m
				if res.Len() > 1 {
					ex := extractOf(m, res.Len()-1)
					if len(ex) == 0 {
						e.fail("R4", construct, e.ipos(m), "the error result of the core mutator is discarded: a failed write is reported as success")
						continue
					}
					errV = ex[0]
				}
				ei := errResultIndex(fn)
				if ei < 0 {
					e.fail("R4", construct, e.ipos(m), "enclosing function has no error result to carry the mutator's error")
					continue
				}
				// every return reachable from m where err may be non-nil must carry a value derived from err
				bad := ""
				okN := 0
				for _, r := range returnsOf(fn) {
					if !mayFollow(m, r) {
						continue
					}
					isNil, _ := knownNilness(r.Block(), func(x ssa.Value) bool { return x == errV })
					if isNil || onlyViaNilEdge(m, r.Block(), errV) {
						continue
					}
					if derivesFrom(retVals(r)[ei], errV) {
						okN++
						continue
					}
					bad = fmt.Sprintf("return at %s can be reached with a non-nil mutator error that it does not carry", e.ipos(r))
				}
				if bad != "" {
					e.fail("R4", construct, e.ipos(m), "%s", bad)
				} else {
					e.pass("R4", construct, e.ipos(m), "mutator error reaches the caller on every path where it may be non-nil (%d return(s))", okN)
				}
			}
		}
	}
	e.minCount("R4", 6)
}

var _ = types.Typ

// c08R5: Table.Update evaluates the expression on copyItem(stored), a new map whose values are the stored item's own
// *types.Item pointers. That protects the stored item only as long as nothing writes THROUGH such a pointer: every
// change must install a newly built Item. A store into a field of, or over, a *types.Item that is not a local allocation
// is a write into shared attribute values.
func c08R5(e *Engine) {
	isItemPtr := func(t types.Type) bool {
		p, ok := t.Underlying().(*types.Pointer)
		if !ok {
			return false
		}
		nt, isNamed := p.Elem().(*types.Named)
		return isNamed && nt.Obj().Name() == "Item" && nt.Obj().Pkg() != nil && nt.Obj().Pkg().Path() == modPath+"/types"
	}
	n, bad := 0, 0
	for _, role := range []string{"core", "interp", "lang", "types"} {
		for _, fn := range e.funcs(role) {
			instrs(fn, func(in ssa.Instruction) {
				st, ok := in.(*ssa.Store)
				if !ok {
					return
				}
				var base ssa.Value
				switch a := st.Addr.(type) {
				case *ssa.FieldAddr:
					if isItemPtr(a.X.Type()) {
						base = a.X
					}
				default:
					if isItemPtr(st.Addr.Type()) {
						base = st.Addr
					}
				}
				if base == nil {
					return
				}
				n++
				if _, fresh := strip(base).(*ssa.Alloc); fresh {
					return
				}
				bad++
				e.fail("R5", e.fname(fn)+":item-written-in-place", e.ipos(in), "a store through a *types.Item that this function did not allocate (%s): working copies of items share their attribute values with the stored item, so the stored item changes before the operation has succeeded", strings.Join(e.origins(base), "|"))
			})
		}
	}
	if bad == 0 {
		e.pass("R5", "engine:items-immutable", "-", "%d stores into types.Item values, all into freshly allocated ones", n)
	}
}

// c08R1: core typestate (shared with C01.R10).
func c08R1(e *Engine) {
	cs := e.coreModel()
	if !e.anchor("R1", "core state fields (Table.Data, Table.SortedKeys, index.refs, index.sortedKeys)", cs == nil) {
		return
	}
	n := 0
	// scope: the statement is about data operations – core functions reachable from the clients' data methods
	scope := map[*ssa.Function]bool{}
	for _, role := range clientRoles {
		for name, m := range e.clientMethods(role) {
			if _, ok := dataOpNames[name]; ok {
				for g := range e.reach(m) {
					scope[g] = true
				}
			}
		}
	}
	for _, fn := range e.funcs("core") {
		if !scope[fn] {
			continue
		}
		ws := cs.writeEvents(fn)
		if len(ws) == 0 {
			continue
		}
		hasExit := len(cs.errorExits(fn)) > 0
		if !hasExit {
			e.ob("R1", e.fname(fn)+":no-failure-after-write", e.pos(fn.Pos()), Pass, false, "writes state (%d sites) and has no failure exit", len(ws))
			n++
			continue
		}
		n++
		cs.typestate("R1", fn, ws, func(w wEvent, x eExit) bool {
			// the error produced by the writing call itself, outside any loop: the callee is judged on its own by this same rule
			if x.errVal == nil {
				return false
			}
			wv, ok := w.in.(ssa.Value)
			if !ok || !derivesFrom(x.errVal, wv) {
				return false
			}
			if mayFollow(w.in, w.in) {
				return false // in a loop: an earlier iteration has written
			}
			// other writes before this one?
			for _, w2 := range ws {
				if w2.in != w.in && mayFollow(w2.in, w.in) {
					return false
				}
			}
			// the callee must be one whose own failure exits precede its writes (core: checked by R1; interpreter: by R2)
			if strings.Contains(w.what, "in place") {
				return true
			}
			return true
		})
	}
	e.minCount("R1", 5)
}
