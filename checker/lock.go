package main

import (
	"fmt"
	"go/token"
	"go/types"
	"sort"
	"strings"

	"golang.org/x/tools/go/ssa"
)

// Lockset analysis of Client.mu for one client package (role v1 or v2).

type lstate int

const (
	lsBottom lstate = iota // unreachable / not yet computed
	lsUnheld
	lsHeld
	lsBoth // reached both held and unheld (⊤)
)

func (s lstate) String() string {
	return [...]string{"unreachable", "unheld", "held", "held-on-some-paths-only"}[s]
}

func joinLS(a, b lstate) lstate {
	if a == lsBottom {
		return b
	}
	if b == lsBottom {
		return a
	}
	if a == b {
		return a
	}
	return lsBoth
}

type guardedAccess struct {
	in    ssa.Instruction
	fn    *ssa.Function
	what  string // e.g. field:tables, core:Table.Put, tablefield:Data
	state lstate
}

type lockResult struct {
	role      string
	mu        *types.Var
	funcs     []*ssa.Function
	entry     map[*ssa.Function]lstate
	entryWhy  map[*ssa.Function]string   // a witness call chain for a non-held entry
	at        map[ssa.Instruction]lstate // state before each instruction
	accesses  []guardedAccess
	locks     map[*ssa.Function][]ssa.Instruction // Lock calls per function
	unlocks   map[*ssa.Function][]ssa.Instruction // non-deferred Unlock calls
	defUnlock map[*ssa.Function][]ssa.Instruction // deferred Unlock
	acquires  map[*ssa.Function]bool              // may acquire mu (transitively)
	isEntry   map[*ssa.Function]bool
}

// muCall classifies a call/defer on Client.mu: "Lock", "Unlock" or "".
func (r *lockResult) muCall(c ssa.CallInstruction) string {
	f := c.Common().StaticCallee()
	if f == nil {
		return ""
	}
	s := f.String()
	var kind string
	switch s {
	case "(*sync.Mutex).Lock", "(*sync.RWMutex).Lock":
		kind = "Lock"
	case "(*sync.Mutex).Unlock", "(*sync.RWMutex).Unlock":
		kind = "Unlock"
	case "(*sync.Mutex).TryLock", "(*sync.RWMutex).RLock", "(*sync.RWMutex).RUnlock", "(*sync.RWMutex).TryLock", "(*sync.RWMutex).TryRLock":
		kind = "Other:" + f.Name()
	default:
		return ""
	}
	if len(c.Common().Args) == 0 {
		return ""
	}
	if fieldOf(c.Common().Args[0]) == r.mu {
		return kind
	}
	return ""
}

func (e *Engine) lockAnalysis(role string) *lockResult {
	if e.locks == nil {
		e.locks = map[string]*lockResult{}
	}
	if r, ok := e.locks[role]; ok {
		return r
	}
	r := e.lockAnalysis0(role)
	e.locks[role] = r
	return r
}

func (e *Engine) lockAnalysis0(role string) *lockResult {
	r := &lockResult{role: role, mu: e.field(role, "Client", "mu"),
		entry: map[*ssa.Function]lstate{}, entryWhy: map[*ssa.Function]string{}, at: map[ssa.Instruction]lstate{},
		locks: map[*ssa.Function][]ssa.Instruction{}, unlocks: map[*ssa.Function][]ssa.Instruction{}, defUnlock: map[*ssa.Function][]ssa.Instruction{},
		acquires: map[*ssa.Function]bool{}, isEntry: map[*ssa.Function]bool{}}
	if r.mu == nil {
		return r
	}
	r.funcs = e.funcs(role)
	inPkg := map[*ssa.Function]bool{}
	for _, f := range r.funcs {
		inPkg[f] = true
	}
	// direct lock/unlock sites
	for _, f := range r.funcs {
		instrs(f, func(in ssa.Instruction) {
			c, ok := in.(ssa.CallInstruction)
			if !ok {
				return
			}
			switch r.muCall(c) {
			case "Lock":
				r.locks[f] = append(r.locks[f], in)
			case "Unlock":
				if _, isDefer := in.(*ssa.Defer); isDefer {
					r.defUnlock[f] = append(r.defUnlock[f], in)
				} else {
					r.unlocks[f] = append(r.unlocks[f], in)
				}
			}
		})
	}
	// call edges inside the package (closures are treated as called from their parent at MakeClosure... conservatively at entry state of use)
	type edge struct {
		site ssa.CallInstruction
		to   *ssa.Function
	}
	out := map[*ssa.Function][]edge{}
	hasCaller := map[*ssa.Function]bool{}
	for _, f := range r.funcs {
		instrs(f, func(in ssa.Instruction) {
			c, ok := in.(ssa.CallInstruction)
			if !ok || isBuiltin(c) {
				return
			}
			for _, g := range e.callees(c) {
				if inPkg[g] {
					out[f] = append(out[f], edge{c, g})
					hasCaller[g] = true
				}
			}
		})
	}
	// mayAcquire fixpoint
	for f := range r.locks {
		r.acquires[f] = true
	}
	for changed := true; changed; {
		changed = false
		for f, es := range out {
			if r.acquires[f] {
				continue
			}
			for _, ed := range es {
				if r.acquires[ed.to] {
					r.acquires[f] = true
					changed = true
					break
				}
			}
		}
	}
	// entry points: exported functions and methods (callable by users), functions without in-package callers, closures (analysed with parent's state at creation: conservative unheld)
	for _, f := range r.funcs {
		exported := f.Parent() == nil && f.Object() != nil && f.Object().Exported()
		if exported || !hasCaller[f] {
			r.isEntry[f] = true
			r.entry[f] = lsUnheld
			r.entryWhy[f] = "entry point " + e.fname(f)
		}
	}
	// interprocedural fixpoint
	for iter := 0; iter < 50; iter++ {
		changed := false
		r.at = map[ssa.Instruction]lstate{}
		for _, f := range r.funcs {
			if r.entry[f] == lsBottom {
				continue
			}
			r.flow(f)
			for _, ed := range out[f] {
				s := r.at[ed.site.(ssa.Instruction)]
				if s == lsBottom {
					continue
				}
				if _, isGo := ed.site.(*ssa.Go); isGo {
					s = lsUnheld
				}
				if _, isDefer := ed.site.(*ssa.Defer); isDefer {
					// deferred call runs at function exit; state there: unheld if a deferred unlock was registered later... conservative: same as at registration
				}
				n := joinLS(r.entry[ed.to], s)
				if n != r.entry[ed.to] {
					if s != lsHeld {
						r.entryWhy[ed.to] = r.entryWhy[f] + " -> " + e.fname(ed.to) + " (called " + s.String() + " at " + e.ipos(ed.site.(ssa.Instruction)) + ")"
					}
					r.entry[ed.to] = n
					changed = true
				}
			}
		}
		if !changed {
			break
		}
	}
	// collect guarded accesses
	for _, f := range r.funcs {
		if r.entry[f] == lsBottom {
			continue
		}
		instrs(f, func(in ssa.Instruction) {
			if what, ok := e.guarded(role, in); ok {
				r.accesses = append(r.accesses, guardedAccess{in: in, fn: f, what: what, state: r.at[in]})
			}
		})
	}
	return r
}

// flow computes the lock state before every instruction of f, given r.entry[f].
func (r *lockResult) flow(f *ssa.Function) {
	if len(f.Blocks) == 0 {
		return
	}
	in := map[*ssa.BasicBlock]lstate{f.Blocks[0]: r.entry[f]}
	work := []*ssa.BasicBlock{f.Blocks[0]}
	outState := map[*ssa.BasicBlock]lstate{}
	for len(work) > 0 {
		b := work[0]
		work = work[1:]
		s := in[b]
		for _, ins := range b.Instrs {
			r.at[ins] = joinLS(r.at[ins], s)
			if c, ok := ins.(*ssa.Call); ok {
				switch r.muCall(c) {
				case "Lock":
					s = lsHeld
				case "Unlock":
					s = lsUnheld
				}
			}
		}
		if outState[b] == s && outState[b] != lsBottom {
			// still propagate first time only
		}
		outState[b] = s
		for _, succ := range b.Succs {
			n := joinLS(in[succ], s)
			if n != in[succ] {
				in[succ] = n
				work = append(work, succ)
			}
		}
	}
}

// originIsLocalAlloc: the base pointer is a fresh allocation of this function (constructor-local object).
func originIsLocalAlloc(v ssa.Value) bool {
	for i := 0; i < 6; i++ {
		switch x := v.(type) {
		case *ssa.Alloc:
			return true
		case *ssa.FieldAddr:
			v = x.X
		case *ssa.UnOp:
			return false
		default:
			return false
		}
	}
	return false
}

// guarded: does instruction `in` (inside client package `role`) access state that Client.mu must protect?
func (e *Engine) guarded(role string, in ssa.Instruction) (string, bool) {
	clientT := e.namedType(role, "Client")
	corePath := rolePaths["core"]
	switch x := in.(type) {
	case *ssa.FieldAddr:
		f := fieldOf(x)
		if f == nil {
			return "", false
		}
		n := namedOf(x.X.Type())
		if n == nil {
			return "", false
		}
		if n == clientT {
			if f.Name() == "mu" {
				return "", false
			}
			if originIsLocalAlloc(x.X) {
				return "", false
			}
			return "field:" + f.Name(), true
		}
		if n.Obj().Pkg() != nil && n.Obj().Pkg().Path() == corePath && (n.Obj().Name() == "Table" || n.Obj().Name() == "index") {
			return "tablefield:" + n.Obj().Name() + "." + f.Name(), true
		}
	case *ssa.Field:
		f := fieldOf(x)
		n := namedOf(x.X.Type())
		if f != nil && n != nil && n == clientT && f.Name() != "mu" {
			return "field:" + f.Name(), true
		}
	case ssa.CallInstruction:
		if isBuiltin(x) {
			return "", false
		}
		callee := x.Common().StaticCallee()
		if callee == nil || callee.Pkg == nil || callee.Pkg.Pkg.Path() != corePath {
			return "", false
		}
		// a call into core that receives a *Table or *index (receiver or argument)
		for _, a := range x.Common().Args {
			if n := namedOf(a.Type()); n != nil && n.Obj().Pkg() != nil && n.Obj().Pkg().Path() == corePath && (n.Obj().Name() == "Table" || n.Obj().Name() == "index") {
				if _, isPtr := a.Type().(*types.Pointer); isPtr {
					// unpublished table: result of core.NewTable in this very function and not yet stored — still treated as guarded (simple and safe)
					return "core:" + strings.TrimPrefix(e.fname(callee), "core."), true
				}
			}
		}
	}
	return "", false
}

// ---------- rules built on the analysis ----------

func shortFn(e *Engine, f *ssa.Function) string { return e.fname(f) }

// ruleL1: every guarded access is performed with the mutex held in every calling context.
func (e *Engine) ruleL1(rule string, r *lockResult, filter func(a guardedAccess) bool) {
	type key struct{ fn, what string }
	agg := map[key]*guardedAccess{}
	cnt := map[key]int{}
	var keys []key
	for i := range r.accesses {
		a := &r.accesses[i]
		if filter != nil && !filter(*a) {
			continue
		}
		k := key{e.fname(a.fn), a.what}
		cnt[k]++
		if prev, ok := agg[k]; !ok {
			agg[k] = a
			keys = append(keys, k)
		} else if prev.state == lsHeld && a.state != lsHeld {
			agg[k] = a
		}
	}
	sort.Slice(keys, func(i, j int) bool {
		if keys[i].fn != keys[j].fn {
			return keys[i].fn < keys[j].fn
		}
		return keys[i].what < keys[j].what
	})
	for _, k := range keys {
		a := agg[k]
		construct := k.fn + ":" + k.what
		if a.state == lsHeld {
			e.pass(rule, construct, e.ipos(a.in), "%d access(es), Client.mu held on every path and in every calling context", cnt[k])
		} else {
			why := r.entryWhy[a.fn]
			e.fail(rule, construct, e.ipos(a.in), "guarded state %s accessed with Client.mu %s (context: %s): a concurrent caller races on it", k.what, a.state, why)
		}
	}
}

// ruleL2: no acquisition while held (sync.Mutex is not re-entrant).
func (e *Engine) ruleL2(rule string, r *lockResult) {
	n := 0
	for _, f := range r.funcs {
		if r.entry[f] == lsBottom {
			continue
		}
		instrs(f, func(in ssa.Instruction) {
			c, ok := in.(ssa.CallInstruction)
			if !ok || isBuiltin(c) {
				return
			}
			st := r.at[in]
			if r.muCall(c) == "Lock" {
				n++
				construct := e.fname(f) + ":Lock"
				if st == lsHeld || st == lsBoth {
					e.fail(rule, construct, e.ipos(in), "Client.mu.Lock() reached while the mutex is %s (entry context: %s): self-deadlock", st, r.entryWhy[f])
				} else {
					e.pass(rule, construct, e.ipos(in), "Lock acquired in state unheld")
				}
				return
			}
			if strings.HasPrefix(r.muCall(c), "Other:") {
				e.undecided(rule, e.fname(f)+":"+r.muCall(c), e.ipos(in), "lock primitive %s on Client.mu is not modelled by the lockset rule", r.muCall(c))
				return
			}
			for _, g := range e.callees(c) {
				if r.acquires[g] {
					n++
					construct := e.fname(f) + "->" + e.fname(g)
					if st == lsHeld || st == lsBoth {
						e.fail(rule, construct, e.ipos(in), "call to %s, which acquires Client.mu, while the mutex is %s: self-deadlock (sync.Mutex is not re-entrant)", e.fname(g), st)
					} else {
						e.pass(rule, construct, e.ipos(in), "callee acquires the mutex; caller is unheld at this call")
					}
				}
			}
		})
	}
}

// mayPanic: functions (in the six packages) that may reach an explicit panic.
func (e *Engine) panicReach() map[*ssa.Function]bool {
	direct := map[*ssa.Function]bool{}
	for _, f := range e.all {
		instrs(f, func(in ssa.Instruction) {
			if _, ok := in.(*ssa.Panic); ok {
				direct[f] = true
			}
		})
	}
	res := map[*ssa.Function]bool{}
	memo := map[*ssa.Function]map[*ssa.Function]bool{}
	for _, f := range e.all {
		rs := memo[f]
		if rs == nil {
			rs = e.reach(f)
			memo[f] = rs
		}
		for g := range rs {
			if direct[g] {
				res[f] = true
				break
			}
		}
	}
	return res
}

// ruleL3: every acquire is released on every exit; if a call inside the critical section may panic, release must be deferred.
func (e *Engine) ruleL3(rule string, r *lockResult) {
	panics := e.panicReach()
	for _, f := range r.funcs {
		if len(r.locks[f]) == 0 {
			if len(r.unlocks[f])+len(r.defUnlock[f]) > 0 {
				e.fail(rule, e.fname(f)+":unlock-without-lock", e.ipos(append(r.unlocks[f], r.defUnlock[f]...)[0]), "function releases Client.mu without acquiring it")
			}
			continue
		}
		for _, lk := range r.locks[f] {
			construct := e.fname(f) + ":release"
			// deferred unlock that is registered right after the lock (dominated by lock, and every return is dominated by the defer)
			var def ssa.Instruction
			for _, d := range r.defUnlock[f] {
				if idominates(lk, d) {
					def = d
				}
			}
			if def != nil {
				ok := true
				for _, ret := range returnsOf(f) {
					if mayFollow(lk, ret) && !idominates(def, ret) {
						ok = false
					}
				}
				// nothing guarded or fallible between lock and defer
				gap := false
				if def.Block() == lk.Block() {
					for i := instrIndex(lk) + 1; i < instrIndex(def); i++ {
						if c, isCall := lk.Block().Instrs[i].(ssa.CallInstruction); isCall && !isBuiltin(c) {
							gap = true
						}
					}
				} else {
					gap = true
				}
				if ok && !gap {
					e.pass(rule, construct, e.ipos(lk), "Lock is immediately followed by defer Unlock that dominates every return (also released on panic)")
					continue
				}
				if !ok {
					e.fail(rule, construct, e.ipos(lk), "a return is reachable after Lock that is not covered by the deferred Unlock")
					continue
				}
			}
			// explicit unlocks: state at every return reachable from lk must be unheld
			bad := ""
			for _, ret := range returnsOf(f) {
				if !mayFollow(lk, ret) {
					continue
				}
				st := r.at[ret]
				if def != nil && idominates(def, ret) {
					continue
				}
				if st != lsUnheld {
					bad = fmt.Sprintf("return at %s is reached with the mutex %s", e.ipos(ret), st)
				}
			}
			if bad != "" {
				e.fail(rule, construct, e.ipos(lk), "%s: lock leaked", bad)
				continue
			}
			// panic safety
			leak := ""
			instrs(f, func(in ssa.Instruction) {
				c, ok := in.(ssa.CallInstruction)
				if !ok || isBuiltin(c) || r.at[in] != lsHeld || !mayFollow(lk, in) {
					return
				}
				if def != nil && idominates(def, in) {
					return
				}
				for _, g := range e.callees(c) {
					if panics[g] {
						leak = fmt.Sprintf("call to %s at %s may raise the documented interpreter panic while Client.mu is held without a deferred Unlock", e.fname(g), e.ipos(in))
					}
				}
			})
			if leak != "" {
				e.fail(rule, construct, e.ipos(lk), "%s: the mutex stays locked forever and every later call deadlocks", leak)
				continue
			}
			e.pass(rule, construct, e.ipos(lk), "explicit Unlock on every exit; no panicking callee inside the critical section")
		}
	}
}

// ruleL4: one critical section per call: no second acquisition after a release, and nothing derived from guarded
// reads is used after an explicit release.
func (e *Engine) ruleL4(rule string, r *lockResult) {
	for _, f := range r.funcs {
		if len(r.locks[f]) == 0 {
			continue
		}
		construct := e.fname(f) + ":single-critical-section"
		bad := ""
		for _, u := range r.unlocks[f] {
			for _, lk := range r.locks[f] {
				if mayFollow(u, lk) {
					bad = fmt.Sprintf("Lock at %s is reachable after Unlock at %s: the method runs as two critical sections, so another call can interleave between its read and its write", e.ipos(lk), e.ipos(u))
				}
			}
		}
		if len(r.locks[f]) > 1 && bad == "" {
			// two locks not ordered by an unlock: covered by L2 if nested; if on disjoint branches it is fine
		}
		// a locking method that also calls another locking method of the client (outside its own critical section, or L2
		// would report a self-deadlock): the call is a critical section of its own, so the method reads in one and writes
		// in another – check-then-act with a window in between. (The batch methods take no lock themselves: they are
		// compositions of atomic calls by design and are not judged here.)
		// (a method whose own critical section only reads a switch or a configured value – an inlined locked getter – is
		// not an operation on tables and is not judged)
		operatesOnTables := false
		for _, a := range r.accesses {
			if a.fn == f && a.state == lsHeld && (a.what == "field:tables" || strings.HasPrefix(a.what, "tablefield:") || strings.HasPrefix(a.what, "core:")) {
				operatesOnTables = true
			}
		}
		if bad == "" && operatesOnTables {
			instrs(f, func(in ssa.Instruction) {
				c, ok := in.(ssa.CallInstruction)
				if !ok || bad != "" || isBuiltin(c) {
					return
				}
				g := c.Common().StaticCallee()
				if g == nil || g == f || e.fnRole(g) != e.fnRole(f) {
					return
				}
				locksToo := false
				for h := range e.reach(g) {
					if e.fnRole(h) == e.fnRole(f) && len(r.locks[h]) > 0 && !e.lockedGetter(e.fnRole(f), r, h) {
						locksToo = true
					}
				}
				if locksToo {
					bad = fmt.Sprintf("the method takes the mutex itself and also calls %s at %s, which takes it on its own: two critical sections – another call can interleave between what one of them reads and what the other writes", e.fname(g), e.ipos(in))
				}
			})
		}
		// guarded-derived values used after explicit unlock
		if bad == "" && len(r.unlocks[f]) > 0 {
			tainted := map[ssa.Value]bool{}
			for _, a := range r.accesses {
				if a.fn != f {
					continue
				}
				if v, ok := a.in.(ssa.Value); ok {
					tainted[v] = true
				}
			}
			// propagate forward through value uses (bounded)
			for changed, it := true, 0; changed && it < 20; it++ {
				changed = false
				instrs(f, func(in ssa.Instruction) {
					v, ok := in.(ssa.Value)
					if !ok || tainted[v] {
						return
					}
					switch in.(type) {
					case *ssa.UnOp, *ssa.Extract, *ssa.Phi, *ssa.Lookup, *ssa.Index, *ssa.IndexAddr, *ssa.FieldAddr, *ssa.Field, *ssa.ChangeType, *ssa.MakeInterface, *ssa.Slice, *ssa.Call:
					default:
						return
					}
					for _, op := range in.Operands(nil) {
						if *op != nil && tainted[*op] && isRefType((*op).Type()) {
							tainted[v] = true
							changed = true
							return
						}
					}
				})
			}
			instrs(f, func(in ssa.Instruction) {
				if bad != "" || r.at[in] == lsHeld || r.at[in] == lsBottom {
					return
				}
				after := false
				for _, u := range r.unlocks[f] {
					if mayFollow(u, in) {
						after = true
					}
				}
				if !after {
					return
				}
				c, ok := in.(ssa.CallInstruction)
				if !ok || isBuiltin(c) {
					return
				}
				for _, a := range c.Common().Args {
					if tainted[a] && isRefType(a.Type()) {
						bad = fmt.Sprintf("value derived from guarded state is passed to %s at %s after the mutex was released: stored data is read outside the critical section", staticCalleeName(c), e.ipos(in))
					}
				}
			})
		}
		if bad != "" {
			e.fail(rule, construct, e.ipos(r.locks[f][0]), "%s", bad)
		} else {
			e.pass(rule, construct, e.ipos(r.locks[f][0]), "one acquisition, released only at exit; stored data is not touched after release")
		}
	}
}

func isRefType(t types.Type) bool {
	switch t.Underlying().(type) {
	case *types.Pointer, *types.Map, *types.Slice, *types.Interface, *types.Tuple:
		return true
	}
	return false
}

// ruleL5: the mutex is never copied or reassigned; Client is used by pointer only.
func (e *Engine) ruleL5(rule string, r *lockResult) {
	clientT := e.namedType(r.role, "Client")
	n := 0
	for _, f := range r.funcs {
		instrs(f, func(in ssa.Instruction) {
			switch x := in.(type) {
			case *ssa.FieldAddr:
				if fieldOf(x) != r.mu {
					return
				}
				for _, ref := range refsOf(x) {
					switch u := ref.(type) {
					case ssa.CallInstruction:
						if r.muCall(u) != "" {
							continue
						}
						n++
						e.fail(rule, e.fname(f)+":mu-escapes", e.ipos(ref), "address of Client.mu passed to %s", staticCalleeName(u))
					case *ssa.Store:
						if u.Addr == x && originIsLocalAlloc(x.X) {
							continue // constructor initialises its fresh object
						}
						n++
						e.fail(rule, e.fname(f)+":mu-assigned", e.ipos(ref), "Client.mu is assigned/copied after construction")
					case *ssa.UnOp:
						n++
						e.fail(rule, e.fname(f)+":mu-copied", e.ipos(ref), "Client.mu is copied by value")
					}
				}
			case *ssa.UnOp:
				if x.Op == token.MUL && namedOf(x.Type()) == clientT {
					if _, isStruct := x.Type().Underlying().(*types.Struct); isStruct {
						if _, ptr := x.X.Type().Underlying().(*types.Pointer); ptr {
							if originIsLocalAlloc(x.X) {
								return
							}
							n++
							e.fail(rule, e.fname(f)+":client-copied", e.ipos(in), "Client value (with its mutex) is copied")
						}
					}
				}
			}
		})
	}
	// method receivers must be pointers
	ms := 0
	for _, f := range r.funcs {
		if recv := f.Signature.Recv(); recv != nil && namedOf(recv.Type()) == clientT {
			ms++
			if _, ok := recv.Type().(*types.Pointer); !ok {
				e.fail(rule, e.fname(f)+":value-receiver", e.pos(f.Pos()), "method has a value receiver: every call copies the mutex")
				n++
			}
		}
	}
	if n == 0 {
		e.pass(rule, r.role+":mu-not-copied", "-", "%d methods on *Client, all pointer receivers; Client.mu only used as receiver of Lock/Unlock and initialised in the constructor", ms)
	}
}
