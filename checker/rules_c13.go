package main

import (
	"fmt"
	"go/token"
	"go/types"
	"sort"
	"strings"

	"golang.org/x/tools/go/ssa"
)

func init() {
	register(&Prop{
		ID:         "C13",
		Title:      "Primary keys identify items faithfully and are enforced",
		Decided:    "(R1) the function that renders a composite key must use an injective encoding (per-component quoting/escaping of the separator, a length prefix, or %q): joining raw renderings with a constant separator that can occur inside a component is recognised as the non-injective idiom; (R2) at every call site of keySchema.GetKey the error result is extracted and tested (the only accepted discard is the sparse-index case inside GetKey itself); (R3) in the key-attribute accessors the case for type label X returns field X of the attribute and tests presence of that same field, and a value is produced only on the present∧typed edges; (R4) UpdateItem re-derives the key of the updated item before committing and rejects a change; (R5) GetItem/Delete/Update address Table.Data with the key derived from the request's Key by the table's own schema (shared with C01.R3); (R6) no function on the key derivation path rounds, trims, folds or re-formats a component (shared with C01.R8): two different key values never become one key string; (R7) the declared type of an attribute decides how its key text is built and which requests are well typed: every write into Table.AttributesDef that a client operation other than table creation can reach is guarded by a test that the attribute is not defined yet; (R8) in both clients every success return of PutItem, UpdateItem, DeleteItem and GetItem is dominated by a call into the engine that derives the key with the table's schema (the only place a missing or wrongly typed key attribute is rejected): a shortcut that answers before that call accepts malformed keys; (R9) SET stores a copy of its operand (= C07.R11): otherwise `SET next = seq ADD next :one` increments the key attribute seq through the object the two names share; (R10) the bare errors of the key derivation never reach a v2 caller unwrapped (error-class dataflow through helpers and the mapper).; (R11) no function on the key derivation path converts a byte slice to raw text (string(b), %s) unless the text goes straight into a quoting or hex encoder: the %v rendering of a binary key cannot contain the separator, its raw bytes can – the known R1 finding is about text components only.",
		NotDecided: "that the rendering of each single component is itself injective per type (%v of a string, of a number literal: see C12 for numerals); attribute types that DynamoDB does not allow as keys.",
		Rules: []RuleDef{
			{ID: "R1", Desc: "composite key encoding is injective (idiom rule on the key-rendering function)", Run: c13R1},
			{ID: "R2", Desc: "GetKey error discipline at every call site", Run: c13R2},
			{ID: "R3", Desc: "type label ↔ attribute field agreement in the key-attribute accessors (T-TABLE)", Run: c13R3},
			{ID: "R4", Desc: "an update cannot change the key: key re-derived and compared before commit (T-DOM)", Run: c13R4},
			{ID: "R5", Desc: "single-item operations address Data by GetKey(request key) (provenance; = C01.R3)", Run: func(e *Engine) {
				cs := e.coreModel()
				if !e.anchor("R5", "core model", cs == nil) {
					return
				}
				search := e.fn("core", "Table.SearchData")
				sr := map[*ssa.Function]bool{}
				if search != nil {
					sr = e.reach(search)
				}
				for _, s := range cs.dataSites() {
					fn := s.in.Parent()
					if sr[fn] && e.fname(fn) != "core.Table.getItem" {
						continue
					}
					os := e.origins(s.key)
					good := len(os) > 0
					for _, o := range os {
						if !keyOriginAllowed(o, false, s.kind) {
							good = false
						}
					}
					e.check(good, "R5", e.fname(fn)+":Data["+s.kind+"]", e.ipos(s.in), "key origins: %s", strings.Join(os, "; "))
				}
				e.minCount("R5", 6)
			}},
			{ID: "R7", Desc: "the declared type of a defined attribute never changes after table creation (T-FIELD + guard)", Run: c13R7},
			{ID: "R6", Desc: "each key component is rendered without loss: no rounding, trimming or folding on the key derivation path (= C01.R8)", Run: func(e *Engine) {
				before := len(e.obs)
				c01R8(e)
				for i := before; i < len(e.obs); i++ {
					e.obs[i].Rule = "R6"
				}
			}},
			{ID: "R8", Desc: "single-item operations report success only after the engine has validated the key: every success return of the client methods is dominated by the core call that derives the key", Run: c13R8},
			{ID: "R9", Desc: "an update cannot change a key attribute through a shared object: SET stores a copy of its operand (= C07.R11)", Run: aliasRule("R9", c07R11, nil)},
			{ID: "R10", Desc: "a malformed key is rejected with a validation error: the bare errors of the key derivation reach a v2 caller only wrapped (error-class dataflow)", Run: c13R10},
			{ID: "R11", Desc: "a binary key component is never rendered as its raw bytes: on the key derivation path no []byte is converted to text (string(b), %s) unless the text goes straight into a quoting/hex encoder – raw bytes can contain the separator, the bracketed decimal list of %v cannot", Run: c13R11},
		},
	})
}

func c13R1(e *Engine) {
	gk := e.fn("core", "keySchema.GetKey")
	if !e.anchor("R1", "core.keySchema.GetKey", gk == nil) {
		return
	}
	found := 0
	report := func(g *ssa.Function, in ssa.Instruction, sep string, isConst bool, comps []ssa.Value) {
		found++
		construct := e.fname(g) + ":composite-key-encoding"
		injective := true
		for _, el := range comps {
			if !injectiveComponent(el, sep) {
				injective = false
			}
		}
		switch {
		case !isConst:
			e.undecided("R1", construct, e.ipos(in), "separator is not a constant")
		case len(comps) == 0:
			e.undecided("R1", construct, e.ipos(in), "components of the joined key not found")
		case !injective:
			e.fail("R1", construct, e.ipos(in), "hash and range renderings are joined with the constant %q without escaping or length-prefixing: (\"a%sb\",\"c\") and (\"a\",\"b%sc\") produce the same key string and overwrite each other", sep, sep, sep)
		default:
			e.pass("R1", construct, e.ipos(in), "every component is quoted/escaped/length-prefixed before joining with %q", sep)
		}
	}
	for g := range e.reach(gk) {
		if e.fnRole(g) != "core" {
			continue
		}
		// string concatenations that are operands of a larger concatenation are not roots
		inner := map[ssa.Value]bool{}
		instrs(g, func(in ssa.Instruction) {
			if b, ok := in.(*ssa.BinOp); ok && b.Op == token.ADD && isStringType(b.Type()) {
				inner[b.X], inner[b.Y] = true, true
			}
		})
		instrs(g, func(in ssa.Instruction) {
			switch x := in.(type) {
			case *ssa.Call:
				switch staticCalleeName(x) {
				case "strings.Join":
					sep, isConst := constString(x.Call.Args[1])
					var comps []ssa.Value
					instrs(g, func(j ssa.Instruction) {
						if ac, ok := j.(*ssa.Call); ok && staticCalleeName(ac) == "builtin.append" {
							comps = append(comps, variadicElems(ac.Call.Args[1])...)
						}
					})
					comps = append(comps, variadicElems(x.Call.Args[0])...)
					report(g, in, sep, isConst, comps)
				case "fmt.Sprintf":
					// a format with several verbs composes its arguments
					f, isConst := constString(x.Call.Args[0])
					comps := variadicElems(x.Call.Args[1])
					if len(comps) >= 2 {
						if isConst && strings.Count(f, "%q")+strings.Count(f, "%x") == len(comps) {
							found++
							e.pass("R1", e.fname(g)+":composite-key-encoding", e.ipos(in), "every component is rendered quoted/hex by the format %q", f)
						} else {
							report(g, in, f, isConst, comps)
						}
					}
				}
			case *ssa.BinOp:
				if x.Op != token.ADD || !isStringType(x.Type()) || inner[x] {
					return
				}
				var leaves []ssa.Value
				var flat func(v ssa.Value)
				flat = func(v ssa.Value) {
					if b, ok := v.(*ssa.BinOp); ok && b.Op == token.ADD && isStringType(b.Type()) {
						flat(b.X)
						flat(b.Y)
						return
					}
					leaves = append(leaves, v)
				}
				flat(x)
				sep := ""
				var comps []ssa.Value
				for _, l := range leaves {
					if c, ok := constString(l); ok {
						sep += c
					} else {
						comps = append(comps, l)
					}
				}
				if len(comps) >= 2 {
					report(g, in, sep, true, comps)
				}
			}
		})
	}
	if found == 0 {
		e.undecided("R1", "core:composite-key-encoding", e.pos(gk.Pos()), "no recognised key composition (strings.Join, string concatenation, multi-verb Sprintf) reachable from GetKey; the encoding idiom cannot be classified")
	}
}

// injectiveComponent: the component string is produced by a quoting/escaping/length-prefixing construct.
func injectiveComponent(v ssa.Value, sep string) bool {
	for _, src := range phiSources(v) {
		c, ok := strip(src).(*ssa.Call)
		if !ok {
			return false
		}
		switch name := staticCalleeName(c); name {
		case "strconv.Quote", "strconv.QuoteToASCII", "net/url.QueryEscape", "encoding/hex.EncodeToString":
			continue
		case "fmt.Sprintf":
			f, _ := constString(c.Call.Args[0])
			if strings.Contains(f, "%q") || strings.Contains(f, "%x") || (strings.Contains(f, "%d") && strings.Contains(f, ":")) {
				continue
			}
			return false
		case "strings.ReplaceAll":
			if s, ok := constString(c.Call.Args[1]); ok && s == sep {
				continue
			}
			return false
		default:
			return false
		}
	}
	return true
}

func c13R2(e *Engine) {
	gk := e.fn("core", "keySchema.GetKey")
	if !e.anchor("R2", "core.keySchema.GetKey", gk == nil) {
		return
	}
	for _, site := range e.callersOf(gk) {
		c, ok := site.(*ssa.Call)
		if !ok {
			continue
		}
		fn := c.Parent()
		// stable construct: function + which schema
		sf, _, _, _ := getKeyBases(c)
		construct := e.fname(fn) + ":GetKey(" + sf + ")"
		errs := extractOf(c, 1)
		tested := false
		for _, ex := range errs {
			for _, r := range refsOf(ex) {
				switch u := r.(type) {
				case *ssa.BinOp:
					if (u.Op == token.NEQ || u.Op == token.EQL) && (isNilConst(u.X) || isNilConst(u.Y)) {
						tested = true
					}
				case *ssa.Return:
					tested = true // propagated as is
				case *ssa.Phi:
					for _, rr := range refsOf(u) {
						if b, ok := rr.(*ssa.BinOp); ok && (b.Op == token.NEQ || b.Op == token.EQL) {
							tested = true
						}
						if _, ok := rr.(*ssa.Return); ok {
							tested = true
						}
					}
				}
			}
		}
		if tested {
			e.pass("R2", construct, e.ipos(c), "error result is tested or propagated")
		} else {
			e.fail("R2", construct, e.ipos(c), "the error result of GetKey is discarded: a malformed or wrongly typed key is silently treated as the empty key")
		}
	}
	e.minCount("R2", 8)
}

func c13R3(e *Engine) {
	// accessor functions: (val *types.Item, typ string) (interface{}, bool) in core
	n := 0
	for _, fn := range e.funcs("core") {
		if fn.Parent() != nil || len(fn.Params) != 2 || fn.Signature.Results().Len() != 2 {
			continue
		}
		if !strings.HasSuffix(typeName(fn.Params[0].Type()), "types.Item") || typeName(fn.Params[1].Type()) != "string" {
			continue
		}
		typP := fn.Params[1]
		instrs(fn, func(in ssa.Instruction) {
			b, ok := in.(*ssa.BinOp)
			if !ok || b.Op != token.EQL || b.X != ssa.Value(typP) {
				return
			}
			label, ok := constString(b.Y)
			if !ok {
				return
			}
			// the If on this comparison
			for _, r := range refsOf(b) {
				ifi, ok := r.(*ssa.If)
				if !ok {
					continue
				}
				blk := ifi.Block().Succs[0]
				ret, ok := blk.Instrs[len(blk.Instrs)-1].(*ssa.Return)
				if !ok {
					continue
				}
				n++
				construct := e.fname(fn) + ":case[" + label + "]"
				rv := retVals(ret)
				// the value: the attribute's own slot, read through a nil-safe dereference ("" for nil)
				var vo []string
				for _, o := range e.origins(rv[0]) {
					if o == `const:""` {
						continue
					}
					vo = append(vo, strings.TrimPrefix(o, "deref-of "))
				}
				okV := len(vo) == 1 && vo[0] == "field:Item."+label
				okP := false
				if pb, ok := rv[1].(*ssa.BinOp); ok && pb.Op == token.NEQ && isNilConst(pb.Y) {
					po := e.origins(pb.X)
					okP = len(po) == 1 && po[0] == "field:Item."+label
				}
				if okV && okP {
					e.pass("R3", construct, e.ipos(ret), "returns Item.%s and tests Item.%s != nil", label, label)
				} else {
					e.fail("R3", construct, e.ipos(ret), "the case for declared key type %q returns %s with presence test ok=%v: a key attribute of another type would be accepted (or a valid one rejected)", label, strings.Join(vo, "|"), okP)
				}
			}
		})
	}
	if n < 9 {
		e.fail("R3", "count:R3", "-", "only %d type-label cases found in the key-attribute accessors (9 confirmed by hand)", n)
	}
	// getItemValue: value only on present ∧ typed
	giv := e.fn("core", "getItemValue")
	if e.anchor("R3", "core.getItemValue", giv == nil) {
		ok := true
		for _, r := range returnsOf(giv) {
			rv := retVals(r)
			if !isNilConst(rv[1]) {
				continue
			}
			// success return: must be governed by two true comma-ok/flag conditions
			trues := 0
			for _, cd := range condsAt(r.Block()) {
				cd = normCond(cd)
				if _, isEx := cd.V.(*ssa.Extract); isEx && cd.Val {
					trues++
				}
			}
			if trues < 2 {
				ok = false
			}
		}
		e.check(ok, "R3", "core.getItemValue:present-and-typed", e.pos(giv.Pos()), "a key value is produced only when the attribute is present and has the declared type")
	}
}

func c13R4(e *Engine) {
	upd := e.fn("core", "Table.Update")
	gk := e.fn("core", "keySchema.GetKey")
	cs := e.coreModel()
	if !e.anchor("R4", "core.Table.Update", upd == nil || gk == nil || cs == nil) {
		return
	}
	construct := "core.Table.Update:key-unchanged"
	// the interpreter call (hands the item to a mutating callee) and the commit (first write event)
	var interp *ssa.Call
	instrs(upd, func(in ssa.Instruction) {
		c, ok := in.(*ssa.Call)
		if !ok || isBuiltin(c) {
			return
		}
		for _, g := range e.callees(c) {
			if len(cs.mutParams[g]) > 0 && strings.Contains(e.fname(g), "interpreterUpdate") || (e.fnRole(g) == "interp" && g.Name() == "Update") {
				interp = c
			}
		}
	})
	ws := cs.writeEvents(upd)
	if interp == nil || len(ws) == 0 {
		e.undecided("R4", construct, e.pos(upd.Pos()), "could not locate the interpreter call and the commit in Table.Update")
		return
	}
	// a GetKey with the table's schema after the interpreter call, compared with the addressing key, before the commit
	ok := false
	instrs(upd, func(in ssa.Instruction) {
		c, isC := in.(*ssa.Call)
		if !isC || c.Call.StaticCallee() != gk || !mayFollow(interp, c) {
			return
		}
		sf, _, _, _ := getKeyBases(c)
		if sf != "Table.KeySchema" {
			return
		}
		for _, ex := range extractOf(c, 0) {
			for _, r := range refsOf(ex) {
				if b, isB := r.(*ssa.BinOp); isB && (b.Op == token.NEQ || b.Op == token.EQL) {
					other := b.X
					if other == ssa.Value(ex) {
						other = b.Y
					}
					for _, o := range e.origins(other) {
						if o == primaryGetKey {
							before := true
							for _, w := range ws {
								if !mayFollow(c, w.in) {
									before = false
								}
							}
							if before {
								ok = true
							}
						}
					}
				}
			}
		}
	})
	if ok {
		e.pass("R4", construct, e.ipos(interp), "the key of the updated item is re-derived after evaluation, compared with the addressing key, before the commit")
	} else {
		e.fail("R4", construct, e.ipos(interp), "the update expression is applied and committed without checking that the key attributes are unchanged: SET <key attribute> = … leaves an item whose key differs from the key it is stored under")
	}
}

var _ = fmt.Sprint

// c13R7: the key strings of the stored items were built under the declared attribute types. An operation on an existing
// table that overwrites a definition (UpdateTable carrying the AddIndex helper's all-S definitions for an N key) makes
// well-typed requests fail validation and stored items unreachable.
func c13R7(e *Engine) {
	f := e.field("core", "Table", "AttributesDef")
	if !e.anchor("R7", "core.Table.AttributesDef", f == nil) {
		return
	}
	n := 0
	for _, fn := range e.funcs("core") {
		instrs(fn, func(in ssa.Instruction) {
			mu, ok := in.(*ssa.MapUpdate)
			if !ok {
				return
			}
			if lf, _ := loadedField(mu.Map); lf != f {
				return
			}
			n++
			construct := e.fname(fn) + ":attribute-type-immutable"
			guarded := false
			for _, cd := range condsAt(in.Block()) {
				cd = normCond(cd)
				ex, ok := cd.V.(*ssa.Extract)
				if !ok || ex.Index != 1 || cd.Val {
					continue
				}
				lk, ok := ex.Tuple.(*ssa.Lookup)
				if !ok {
					continue
				}
				if lf, _ := loadedField(lk.X); lf == f && sameLoad(lk.Index, mu.Key) {
					guarded = true
				}
			}
			if guarded {
				e.pass("R7", construct, e.ipos(in), "the definition is written only when the attribute is not defined yet")
				return
			}
			// unguarded: acceptable only on the creation path
			var from []string
			for _, role := range clientRoles {
				for name, m := range e.clientMethods(role) {
					if m.Object() == nil || !m.Object().Exported() || strings.HasPrefix(name, "CreateTable") {
						continue
					}
					if e.reach(m)[fn] {
						from = append(from, role+"."+name)
					}
				}
			}
			sort.Strings(from)
			if len(from) > 0 {
				e.fail("R7", construct, e.ipos(in), "attribute definitions are overwritten unconditionally and this is reachable from %s: an operation on an existing table can change the declared type of its key attributes (AddIndex declares every key attribute as S), after which well-typed keys are rejected and stored items are unreachable", strings.Join(from, ", "))
			} else {
				e.pass("R7", construct, e.ipos(in), "unconditional definition, reachable from table creation only")
			}
		})
	}
	// … and a definition is never REMOVED from a table that exists: the key derivation needs the declared type of the
	// table's own key attributes (an index that is dropped may share an attribute with the table key or another index)
	for _, fn := range e.funcs("core") {
		instrs(fn, func(in ssa.Instruction) {
			c, ok := in.(*ssa.Call)
			if !ok || staticCalleeName(c) != "builtin.delete" {
				return
			}
			if lf, _ := loadedField(c.Call.Args[0]); lf != f {
				return
			}
			n++
			e.fail("R7", e.fname(fn)+":attribute-definition-removed", e.ipos(in), "an attribute definition is deleted from an existing table: when the attribute is (also) a key attribute of the table or of a remaining index its declared type is gone, every request that names the key is rejected (invalid attribute value type) and the stored items are unreachable")
		})
		instrs(fn, func(in ssa.Instruction) {
			st, ok := in.(*ssa.Store)
			if !ok || fieldOf(st.Addr) != f {
				return
			}
			if originIsLocalAlloc(st.Addr.(*ssa.FieldAddr).X) {
				return // constructor
			}
			n++
			e.fail("R7", e.fname(fn)+":attribute-definitions-replaced", e.ipos(in), "the attribute definitions of an existing table are replaced wholesale")
		})
	}
	if n == 0 {
		e.undecided("R7", "core:attribute-definitions", "-", "no write into Table.AttributesDef found")
	}
}

// sameLoad: a and b are the same value or loads through the same address expression (*attr.AttributeName twice).
func sameLoad(a, b ssa.Value) bool {
	a, b = strip(a), strip(b)
	if a == b {
		return true
	}
	ua, ok1 := a.(*ssa.UnOp)
	ub, ok2 := b.(*ssa.UnOp)
	if !ok1 || !ok2 || ua.Op != token.MUL || ub.Op != token.MUL {
		return false
	}
	return sameLoad(ua.X, ub.X) || sameAddr(ua.X, ub.X)
}

func sameAddr(a, b ssa.Value) bool {
	fa, ok1 := a.(*ssa.FieldAddr)
	fb, ok2 := b.(*ssa.FieldAddr)
	if ok1 && ok2 {
		return fa.Field == fb.Field && (fa.X == fb.X || sameLoad(fa.X, fb.X))
	}
	return false
}

// c13R8: the engine is the only place a key is checked (GetKey: attribute present, of the declared type). A client method
// that can return success without having called into it – an "empty table, nothing to delete" fast path – accepts
// malformed keys whenever that path is taken.
func c13R8(e *Engine) {
	gk := e.fn("core", "keySchema.GetKey")
	if !e.anchor("R8", "core.keySchema.GetKey", gk == nil) {
		return
	}
	n := 0
	// validates(g): every success return of g is preceded, on every path, by the key derivation – itself or an engine
	// function of which the same holds. where(g) names the success return that is not.
	memo := map[*ssa.Function]string{}
	var gap func(g *ssa.Function, depth int) string
	gap = func(g *ssa.Function, depth int) string {
		if g == gk {
			return ""
		}
		if r, ok := memo[g]; ok {
			return r
		}
		memo[g] = "" // recursion guard
		if depth > 4 || g.Blocks == nil {
			memo[g] = "?"
			return "?"
		}
		var keyCalls []ssa.Instruction
		instrs(g, func(in ssa.Instruction) {
			c, ok := in.(*ssa.Call)
			if !ok || c.Call.StaticCallee() == nil {
				return
			}
			h := c.Call.StaticCallee()
			if h == gk || (e.fnRole(h) != "" && e.reach(h)[gk] && gap(h, depth+1) == "") {
				keyCalls = append(keyCalls, in)
			}
		})
		ei := errResultIndex(g)
		bad := ""
		for _, r := range returnsOf(g) {
			if ei < 0 || !isNilConst(retVals(r)[ei]) {
				continue
			}
			dominated := false
			for _, kc := range keyCalls {
				if idominates(kc, r) {
					dominated = true
				}
			}
			if !dominated {
				bad = e.fname(g) + " at " + e.ipos(r)
				// name the innermost function with the gap
				instrs(g, func(in ssa.Instruction) {
					c, ok := in.(*ssa.Call)
					if !ok || c.Call.StaticCallee() == nil || !idominates(in, r) {
						return
					}
					h := c.Call.StaticCallee()
					if h != gk && e.fnRole(h) != "" && e.reach(h)[gk] {
						if w := gap(h, depth+1); w != "" && w != "?" {
							bad = w
						}
					}
				})
			}
		}
		memo[g] = bad
		return bad
	}
	for _, role := range clientRoles {
		ms := e.clientMethods(role)
		for _, op := range []string{"PutItem", "UpdateItem", "DeleteItem", "GetItem"} {
			fn := ms[op]
			if fn == nil {
				continue
			}
			n++
			construct := role + ".Client." + op + ":success-after-key-validation"
			bad := gap(fn, 0)
			if bad != "" {
				e.fail("R8", construct, e.pos(fn.Pos()), "the success return in %s is not preceded on every path by the call that derives and validates the key: a request with a missing or wrongly typed key attribute succeeds on that path", bad)
			} else {
				e.pass("R8", construct, e.pos(fn.Pos()), "every success return – of the method and of the engine functions it relies on – is dominated by the key derivation")
			}
		}
	}
	if n < 8 {
		e.fail("R8", "count:R8", "-", "only %d single-item operations found in the two clients", n)
	}
}

// c13R11: the known R1 finding is the separator inside a *text* component (S, N). A byte-slice component is rendered
// by %v as "[97 46 98]", which cannot contain the separator; rendering it as raw bytes opens the same collision for B keys.
func c13R11(e *Engine) {
	gk := e.fn("core", "keySchema.GetKey")
	if !e.anchor("R11", "core.keySchema.GetKey", gk == nil) {
		return
	}
	// encoded(v): every use of the text is an argument of a quoting/hex encoder or of an error/panic message (followed
	// through interface boxing, phis and the argument array of a variadic call); anything else may end up in the key.
	var encoded func(v ssa.Value) bool
	seenV := map[ssa.Value]bool{}
	encoded = func(v ssa.Value) bool {
		if seenV[v] {
			return true
		}
		seenV[v] = true
		refs := v.Referrers()
		if refs == nil || len(*refs) == 0 {
			return false
		}
		for _, r := range *refs {
			switch u := r.(type) {
			case *ssa.DebugRef:
			case *ssa.MakeInterface:
				if !encoded(u) {
					return false
				}
			case *ssa.Phi:
				if !encoded(u) {
					return false
				}
			case *ssa.Store:
				// element of the argument array of a variadic call
				ia, ok := u.Addr.(*ssa.IndexAddr)
				if !ok || u.Val != v {
					return false
				}
				al, ok := ia.X.(*ssa.Alloc)
				if !ok {
					return false
				}
				for _, ar := range refsOf(al) {
					if sl, ok := ar.(*ssa.Slice); ok && !encoded(sl) {
						return false
					}
				}
			case *ssa.Panic:
			case *ssa.Call:
				switch staticCalleeName(u) {
				case "strconv.Quote", "strconv.QuoteToASCII", "net/url.QueryEscape", "encoding/hex.EncodeToString", "(*encoding/base64.Encoding).EncodeToString",
					"fmt.Errorf", "errors.New":
				default:
					return false
				}
			default:
				return false
			}
		}
		return true
	}
	isBytes := func(t types.Type) bool {
		sl, ok := t.Underlying().(*types.Slice)
		if !ok {
			return false
		}
		b, ok := sl.Elem().Underlying().(*types.Basic)
		return ok && b.Kind() == types.Uint8
	}
	bad, fns := 0, 0
	for g := range e.reach(gk) {
		if e.fnRole(g) != "core" {
			continue
		}
		fns++
		instrs(g, func(in ssa.Instruction) {
			switch x := in.(type) {
			case *ssa.Convert:
				if isBytes(x.X.Type()) && isStringType(x.Type()) && !encoded(x) {
					bad++
					e.fail("R11", "core:key-component:bytes-as-text", e.ipos(in), "%s converts a byte slice to text on the key derivation path: a binary key keeps its raw bytes, which can contain the separator of the composite key – B keys (\"a.b\",\"c\") and (\"a\",\"b.c\") become one key string", e.fname(g))
				}
			case *ssa.Call:
				if staticCalleeName(x) != "fmt.Sprintf" && staticCalleeName(x) != "fmt.Sprint" {
					return
				}
				f, isConst := "", false
				args := x.Call.Args
				if staticCalleeName(x) == "fmt.Sprintf" {
					f, isConst = constString(args[0])
					args = args[1:]
					if !isConst || !strings.Contains(f, "%s") {
						return
					}
				} else {
					return
				}
				for _, a := range variadicElems(args[0]) {
					st := strip(a)
					_, isIface := st.Type().Underlying().(*types.Interface)
					if (isBytes(st.Type()) || (isIface && !isErrorType(st.Type()))) && !encoded(x) {
						bad++
						e.fail("R11", "core:key-component:bytes-as-text", e.ipos(in), "%s renders a value that may be a byte slice with %%s on the key derivation path: a binary key keeps its raw bytes, which can contain the separator of the composite key", e.fname(g))
						return
					}
				}
			}
		})
	}
	if bad == 0 {
		e.pass("R11", "core:key-component:bytes-as-text", e.pos(gk.Pos()), "no function of the key derivation path (%d core functions reachable from GetKey) turns a byte slice into raw text", fns)
	}
}
