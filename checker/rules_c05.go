package main

import (
	"fmt"
	"go/token"
	"go/types"
	"sort"
	"strings"

	"golang.org/x/tools/go/ssa"
)

// structFieldStores returns the values stored into field `name` of the struct value v (a load of a local alloc),
// following into a static callee that builds and returns the struct.
func (e *Engine) structFieldStores(v ssa.Value, name string) []ssa.Value {
	var out []ssa.Value
	v = strip(v)
	switch x := v.(type) {
	case *ssa.UnOp:
		if al, ok := x.X.(*ssa.Alloc); ok {
			for _, r := range refsOf(al) {
				if fa, ok := r.(*ssa.FieldAddr); ok && fieldOf(fa) != nil && fieldOf(fa).Name() == name {
					for _, st := range storesTo(fa) {
						out = append(out, st.Val)
					}
				}
			}
			for _, st := range storesTo(al) {
				out = append(out, e.structFieldStores(st.Val, name)...)
			}
		}
	case *ssa.Call:
		if g := x.Call.StaticCallee(); g != nil && g.Blocks != nil {
			for _, r := range returnsOf(g) {
				for _, rv := range retVals(r) {
					if types.Identical(rv.Type(), v.Type()) {
						out = append(out, e.structFieldStores(rv, name)...)
					}
				}
			}
		}
	case *ssa.Phi:
		for _, ed := range x.Edges {
			out = append(out, e.structFieldStores(ed, name)...)
		}
	}
	return out
}

// conditionEvaluators: core functions that build a MatchInput with ExpressionTypeConditional (today: Table.matchKey).
func (e *Engine) conditionEvaluators() []*ssa.Function {
	// the core function that decides "this is a write condition": it stores the constant kind "conditional" into a
	// MatchInput – itself, or through a helper that receives the kind as a parameter (then the caller passing the constant)
	seen := map[*ssa.Function]bool{}
	var out []*ssa.Function
	add := func(fn *ssa.Function) {
		if !seen[fn] {
			seen[fn] = true
			out = append(out, fn)
		}
	}
	for _, fn := range e.funcs("core") {
		instrs(fn, func(in ssa.Instruction) {
			st, ok := in.(*ssa.Store)
			if !ok {
				return
			}
			f := fieldOf(st.Addr)
			if f == nil || f.Name() != "ExpressionType" || fieldOwner(f) != "MatchInput" {
				return
			}
			if s, ok := constString(st.Val); ok {
				if s == "conditional" {
					add(fn)
				}
				return
			}
			p, isParam := strip(st.Val).(*ssa.Parameter)
			if !isParam {
				return
			}
			idx := -1
			for i, q := range fn.Params {
				if q == p {
					idx = i
				}
			}
			for _, c := range e.callersOf(fn) {
				if idx >= 0 && idx < len(c.Common().Args) {
					if s, ok := constString(c.Common().Args[idx]); ok && s == "conditional" {
						add(c.Parent())
					}
				}
			}
		})
	}
	sort.Slice(out, func(i, j int) bool { return out[i].Pos() < out[j].Pos() })
	return out
}

func init() {
	register(&Prop{
		ID:         "C05",
		Title:      "Conditional writes are decided on the target item only, atomically",
		Decided:    "(R1) every evaluation of a write condition (a call of the core function that builds a MatchInput of kind 'conditional', with a condition set) receives as item the map stored under – or the empty map for – the key derived with the table's own GetKey from the request in the same function; (R2) no QueryInput that reaches the whole-table iteration (SearchData) ever carries a write condition, and no client write method evaluates a condition by iterating the table; (R3) in Put/Update/Delete the condition verdict is obtained before the first state write and the failing edge returns without any write (typestate, shared with C08.R1), the documented interpreter panic can only be raised before any write; (R4) the failing edge yields the code ConditionalCheckFailedException, the v2 adapter maps that code to the SDK type and carries Item; the item attached on request is the stored item; (R5) all three write operations (PutItem, UpdateItem, DeleteItem) hand their condition to core; (R7) the target item is the one stored under the key of the request: the key derivation folds no two key values into one (= C01.R8), otherwise the condition is decided on a bystander; (R8) the values a condition compares the target item with are the ones the request supplied: the request's values are loaded after the item and win (= C06.R10); (R9) decision table of the evaluator: over presence and verdict of key condition, filter and write condition (and every other test the function makes, tried both ways) the verdict is the write condition's own whenever one is present; (R10) no conversion on the request path retains the address of a loop variable (= C18.R9): every placeholder keeps its own name and value; (R11) attribute names are looked up literally before being split as paths (= C06.R17).",
		NotDecided: "the truth value of the condition itself (C06); equality of table state before/after a refused write is implied by 'no write before the verdict', not computed.",
		Rules: []RuleDef{
			{ID: "R1", Desc: "the condition sees Data[GetKey(request)] or the empty item (T-FLOW/SSA origin)", Run: func(e *Engine) {
				cs := e.coreModel()
				evs := e.conditionEvaluators()
				if !e.anchor("R1", "core function building a conditional MatchInput", cs == nil || len(evs) == 0) {
					return
				}
				n := 0
				for _, ev := range evs {
					for _, c := range e.callersOf(ev) {
						call, ok := c.(*ssa.Call)
						if !ok {
							continue
						}
						// does this call carry a condition?  QueryInput arg with ConditionExpression stored
						var qi, itemArg ssa.Value
						for _, a := range call.Call.Args {
							if strings.HasSuffix(typeName(a.Type()), "QueryInput") {
								qi = a
							}
							if _, isMap := a.Type().Underlying().(*types.Map); isMap {
								itemArg = a
							}
						}
						if qi == nil || itemArg == nil {
							continue
						}
						conds := e.structFieldStores(qi, "ConditionExpression")
						set := false
						for _, cv := range conds {
							if !isNilConst(cv) {
								set = true
							}
						}
						if !set {
							// may still carry one when the QueryInput is a parameter (search path): R2 covers it
							continue
						}
						n++
						fn := call.Parent()
						construct := e.fname(fn) + ":condition-item"
						os := e.origins(itemArg)
						good := len(os) > 0
						for _, o := range os {
							if o != "mapval-of field:Table.Data" && o != "fresh-map" {
								good = false
							}
						}
						// the key of that lookup
						keyOK := true
						instrs(fn, func(in ssa.Instruction) {
							lk, ok := in.(*ssa.Lookup)
							if !ok {
								return
							}
							if f, _ := loadedField(lk.X); f == cs.Data {
								for _, o := range e.origins(lk.Index) {
									if o != primaryGetKey {
										keyOK = false
									}
								}
							}
						})
						if good && keyOK {
							e.pass("R1", construct, e.ipos(call), "the condition is evaluated on %s, keyed by the table's GetKey of the request", strings.Join(os, " / "))
						} else {
							e.fail("R1", construct, e.ipos(call), "the write condition may be evaluated on an item other than the one stored under the request's key (item origins: %s)", strings.Join(os, "; "))
						}
					}
				}
				if n < 2 {
					e.minCount("R1", 2)
				}
			}},
			{ID: "R2", Desc: "whole-table iteration never carries a write condition", Run: func(e *Engine) {
				sd := e.fn("core", "Table.SearchData")
				if !e.anchor("R2", "core.Table.SearchData", sd == nil) {
					return
				}
				// the searches of the clients (directly or through a shared helper, one site per method) …
				type sdSite struct {
					call      *ssa.Call
					construct string
					conds     []string
				}
				var sites []sdSite
				seenCall := map[*ssa.Call]bool{}
				for _, s := range e.searchSites() {
					seenCall[s.call] = true
					sites = append(sites, sdSite{s.call, s.role + ".Client." + s.method + "->SearchData", e.queryInputField(s, "ConditionExpression")})
				}
				// … and any other caller of the search
				for _, c := range e.callersOf(sd) {
					call, ok := c.(*ssa.Call)
					if !ok || seenCall[call] {
						continue
					}
					var os []string
					for _, cv := range e.structFieldStores(qiArg(call), "ConditionExpression") {
						os = append(os, e.origins(cv)...)
					}
					sites = append(sites, sdSite{call, e.fname(call.Parent()) + "->SearchData", os})
				}
				for _, st := range sites {
					call, construct := st.call, st.construct
					bad := false
					for _, o := range st.conds {
						if o != "const:nil" {
							bad = true
						}
					}
					if bad {
						e.fail("R2", construct, e.ipos(call), "a write condition is evaluated by iterating the whole table: the outcome depends on items other than the target (any bystander satisfying the condition lets the write through)")
					} else {
						e.pass("R2", construct, e.ipos(call), "QueryInput handed to SearchData has no ConditionExpression")
					}
				}
				e.minCount("R2", 4)
			}},
			{ID: "R3", Desc: "verdict before the first write; refusal and interpreter panic only in state clean (T-STATE)", Run: func(e *Engine) {
				cs := e.coreModel()
				evs := e.conditionEvaluators()
				if !e.anchor("R3", "core model", cs == nil || len(evs) == 0) {
					return
				}
				n := 0
				fwds := e.verdictForwarders(evs)
				for _, fn := range e.funcs("core") {
					ws := cs.writeEvents(fn)
					if len(ws) == 0 {
						continue
					}
					// condition evaluations in this function
					instrs(fn, func(in ssa.Instruction) {
						c, ok := in.(*ssa.Call)
						if !ok {
							return
						}
						isEv := false
						for _, ev := range evs {
							if c.Call.StaticCallee() == ev {
								isEv = true
							}
						}
						isFwd := fwds[c.Call.StaticCallee()]
						if !isEv && !isFwd {
							return
						}
						if isEv && len(e.structFieldStores(qiArg(c), "ConditionExpression")) == 0 {
							return // a key-condition/filter evaluation of the search, not a write condition
						}
						if fwds[fn] {
							return // the forwarder itself: judged at its call sites
						}
						n++
						construct := e.fname(fn) + ":verdict-before-write"
						bad := ""
						for _, w := range ws {
							if mayFollow(w.in, c) {
								bad = fmt.Sprintf("the condition is evaluated at %s after %s at %s", e.ipos(c), w.what, e.ipos(w.in))
							}
						}
						// the refusing edge: along every path on which the verdict is false no write may be reached
						var verdicts []ssa.Value
						if isFwd {
							verdicts = []ssa.Value{c}
						} else {
							for _, ex := range extractOf(c, 1) {
								verdicts = append(verdicts, ex)
							}
						}
						if len(verdicts) == 0 {
							bad = "the verdict of the condition is never used: a refused condition does not stop the write"
						}
						for _, v := range verdicts {
							if w := writeReachableUnder(ws, c, map[ssa.Value]bool{v: false}); w != nil {
								bad = fmt.Sprintf("on the refused edge of the condition, %s at %s is still reachable", w.what, e.ipos(w.in))
							}
						}
						if bad != "" {
							e.fail("R3", construct, e.ipos(c), "%s", bad)
						} else {
							e.pass("R3", construct, e.ipos(c), "condition evaluated before any of the %d write site(s); the refused edge reaches no write", len(ws))
						}
					})
					// the verdict may be obtained through a helper that turns a refusal into an error
					instrs(fn, func(in ssa.Instruction) {
						c, ok := in.(*ssa.Call)
						if !ok || c.Call.StaticCallee() == nil || !e.verdictHelper(c.Call.StaticCallee(), evs, cs) {
							return
						}
						h := c.Call.StaticCallee()
						n++
						construct := e.fname(fn) + ":verdict-before-write"
						bad := ""
						for _, w := range ws {
							if mayFollow(w.in, c) {
								bad = fmt.Sprintf("the condition is evaluated (in %s) at %s after %s at %s", e.fname(h), e.ipos(c), w.what, e.ipos(w.in))
							}
						}
						// the error result must be tested, and its non-nil edge must reach no write
						ei := errResultIndex(h)
						var errVals []ssa.Value
						if h.Signature.Results().Len() == 1 {
							errVals = append(errVals, c)
						} else {
							for _, ex := range extractOf(c, ei) {
								errVals = append(errVals, ex)
							}
						}
						tested := false
						for _, ev := range errVals {
							for _, r := range refsOf(ev) {
								b, isB := r.(*ssa.BinOp)
								if !isB {
									continue
								}
								_, nonNilOnTrue, isNT := nilTest(b)
								if !isNT {
									continue
								}
								for _, rr := range refsOf(b) {
									ifi, isIf := rr.(*ssa.If)
									if !isIf {
										continue
									}
									tested = true
									refused := ifi.Block().Succs[1]
									if nonNilOnTrue {
										refused = ifi.Block().Succs[0]
									}
									if w := firstWriteReachable(ws, refused); w != nil {
										bad = fmt.Sprintf("on the refused edge of the condition, %s at %s is still reachable", w.what, e.ipos(w.in))
									}
								}
							}
						}
						if !tested {
							bad = fmt.Sprintf("the verdict returned by %s is never tested: a refused condition does not stop the write", e.fname(h))
						}
						if bad != "" {
							e.fail("R3", construct, e.ipos(c), "%s", bad)
						} else {
							e.pass("R3", construct, e.ipos(c), "condition evaluated (in %s) before any of the %d write site(s); the refused edge reaches no write", e.fname(h), len(ws))
						}
					})
				}
				if n < 2 {
					e.minCount("R3", 2)
				}
			}},
			{ID: "R4", Desc: "refusal carries ConditionalCheckFailedException; v2 maps it to the SDK type with Item (T-TABLE)", Run: c05R4},
			{ID: "R6", Desc: "verdict and write happen in one critical section of the client mutex (lockset, shared with C11)", Run: func(e *Engine) {
				cs := e.coreModel()
				if !e.anchor("R6", "core model", cs == nil) {
					return
				}
				for _, role := range clientRoles {
					lr := e.lockAnalysis(role)
					ms := e.clientMethods(role)
					for _, op := range []string{"PutItem", "UpdateItem", "DeleteItem"} {
						fn := ms[op]
						if fn == nil {
							e.fail("R6", role+".Client."+op+":atomic", "-", "method missing")
							continue
						}
						muts := coreMutatorCalls(e, cs, fn)
						ok := len(muts) > 0
						why := ""
						for _, m := range muts {
							if lr.at[m] != lsHeld {
								ok, why = false, fmt.Sprintf("the engine call that evaluates the condition and writes (%s) runs with Client.mu %s", e.fname(m.Call.StaticCallee()), lr.at[m])
							}
						}
						for _, u := range lr.unlocks[fn] {
							for _, m := range muts {
								if mayFollow(u, m) {
									ok, why = false, "the mutex is released before the engine call"
								}
							}
						}
						if ok {
							e.pass("R6", role+".Client."+op+":atomic", e.pos(fn.Pos()), "the engine call that decides the condition and performs the write runs entirely under Client.mu: no other call can interleave between verdict and write")
						} else {
							e.fail("R6", role+".Client."+op+":atomic", e.pos(fn.Pos()), "%s: another call can change the item between the verdict and the write (two racing attribute_not_exists puts both succeed)", why)
						}
					}
				}
			}},
			{ID: "R5", Desc: "all three write operations hand their condition to core (T-FLOW)", Run: func(e *Engine) {
				evs := e.conditionEvaluators()
				for _, op := range []string{"Put", "Update", "Delete"} {
					fn := e.fn("core", "Table."+op)
					if !e.anchor("R5", "core.Table."+op, fn == nil) {
						continue
					}
					rs := e.reach(fn)
					hit := false
					for _, ev := range evs {
						if rs[ev] {
							hit = true
						}
					}
					// the request's ConditionExpression must flow into the evaluator's QueryInput
					flows := false
					e.walkLocal("core", fn, 2, func(in ssa.Instruction, ctx []callCtx) {
						st, ok := in.(*ssa.Store)
						if !ok {
							return
						}
						f := fieldOf(st.Addr)
						if f == nil || f.Name() != "ConditionExpression" || fieldOwner(f) != "QueryInput" {
							return
						}
						for _, o := range e.originsCtx(st.Val, ctx) {
							if strings.HasSuffix(o, "ItemInput.ConditionExpression") {
								flows = true
							}
						}
					})
					e.check(hit && flows, "R5", "core.Table."+op+":evaluates-condition", e.pos(fn.Pos()), "Table.%s evaluates the request's ConditionExpression on the target item (reaches evaluator: %v, request condition plumbed: %v)", op, hit, flows)
				}
				// and the client passes the condition through
				for _, role := range clientRoles {
					for _, op := range []string{"PutItem", "UpdateItem", "DeleteItem"} {
						conv := findInputConversion(e, role, op)
						if conv == nil {
							e.fail("R5", role+"."+op+":condition-plumbed", "-", "no conversion of %sInput to the internal input found", op)
							continue
						}
						ok := false
						instrs(conv, func(in ssa.Instruction) {
							st, isSt := in.(*ssa.Store)
							if !isSt {
								return
							}
							f := fieldOf(st.Addr)
							if f != nil && f.Name() == "ConditionExpression" {
								for _, o := range e.origins(st.Val) {
									if strings.HasSuffix(o, "ItemInput.ConditionExpression") {
										ok = true
									}
								}
							}
						})
						e.check(ok, "R5", role+"."+op+":condition-plumbed", e.pos(conv.Pos()), "%s copies ConditionExpression from the SDK request", e.fname(conv))
					}
				}
			}},
			{ID: "R7", Desc: "the target item is identified without loss: no rounding, trimming or folding on the key derivation path (= C01.R8)", Run: aliasRule("R7", c01R8, nil)},
			{ID: "R8", Desc: "the condition compares against the values the request supplied: placeholders are not shadowed by stored attributes (= C06.R10)", Run: aliasRule("R8", c06R10, nil)},
			{ID: "R9", Desc: "the engine's verdict for a request is exactly the combination of the interpreter's verdicts for the expressions present – no shortcut answers for an expression without evaluating it (decision table)", Run: c05R9},
			{ID: "R10", Desc: "the names and values a condition refers to reach the engine one by one: no conversion keeps the address of a loop-carried variable (all placeholders would resolve to the last one) (= C18.R9)", Run: aliasRule("R10", c18R9, nil)},
			{ID: "R11", Desc: "the condition reads the target's attribute under its resolved name, whatever characters the name contains (= C06.R17)", Run: aliasRule("R11", c06R17, nil)},
		},
	})
}

// verdictForwarders: package-local functions that evaluate the write condition through an evaluator and hand its verdict
// back unchanged as their only (boolean) result – conditionHolds(cond, values, names, item) bool. A call of a forwarder is
// a condition evaluation at the call site, its value is the verdict.
func (e *Engine) verdictForwarders(evs []*ssa.Function) map[*ssa.Function]bool {
	out := map[*ssa.Function]bool{}
	isEv := map[*ssa.Function]bool{}
	for _, ev := range evs {
		isEv[ev] = true
	}
	for _, fn := range e.funcs("core") {
		if fn.Parent() != nil || isEv[fn] || fn.Signature.Results().Len() != 1 || !isBoolType(fn.Signature.Results().At(0).Type()) {
			continue
		}
		ok := false
		all := true
		for _, r := range returnsOf(fn) {
			ex, isEx := strip(retVals(r)[0]).(*ssa.Extract)
			if !isEx || ex.Index != 1 {
				all = false
				continue
			}
			c, isC := ex.Tuple.(*ssa.Call)
			if !isC || !isEv[c.Call.StaticCallee()] || len(e.structFieldStores(qiArg(c), "ConditionExpression")) == 0 {
				all = false
				continue
			}
			ok = true
		}
		if ok && all {
			out[fn] = true
		}
	}
	return out
}

// writeReachableUnder: starting right after instruction `from`, is one of the write events reachable along a path that is
// consistent with the given truth values (the verdict is false, say)? Branch conditions are evaluated from the facts
// through negation, boolean (in)equality and the phis of short-circuit expressions (resolved against the edge the path
// came along); a condition that cannot be decided is explored both ways.
func writeReachableUnder(ws []wEvent, from ssa.Instruction, facts map[ssa.Value]bool) *wEvent {
	return writeReachableUnderAvoiding(ws, from, facts, nil)
}

// writeReachableUnderAvoiding: the same, but a path ends where it meets one of the `stop` instructions (a barrier: the
// recording that must lie on every such path, say). An event in the same block counts only if it comes before the barrier.
func writeReachableUnderAvoiding(ws []wEvent, from ssa.Instruction, facts map[ssa.Value]bool, stop map[ssa.Instruction]bool) *wEvent {
	type state struct{ b, prev *ssa.BasicBlock }
	var eval func(v ssa.Value, cur, prev *ssa.BasicBlock, d int) (bool, bool)
	eval = func(v ssa.Value, cur, prev *ssa.BasicBlock, d int) (bool, bool) {
		if d > 8 {
			return false, false
		}
		if val, ok := facts[v]; ok {
			return val, true
		}
		switch x := v.(type) {
		case *ssa.Const:
			return constBool(x)
		case *ssa.UnOp:
			if x.Op == token.NOT {
				r, ok := eval(x.X, cur, prev, d+1)
				return !r, ok
			}
		case *ssa.Phi:
			if x.Block() == cur && prev != nil {
				for i, p := range cur.Preds {
					if p == prev {
						return eval(x.Edges[i], prev, nil, d+1)
					}
				}
			}
		case *ssa.BinOp:
			if (x.Op == token.EQL || x.Op == token.NEQ) && isBoolType(x.X.Type()) {
				a, ok1 := eval(x.X, cur, prev, d+1)
				b, ok2 := eval(x.Y, cur, prev, d+1)
				if ok1 && ok2 {
					return (a == b) == (x.Op == token.EQL), true
				}
			}
		}
		return false, false
	}
	// stopAt: index of the first barrier of b after afterIdx (len(b.Instrs) when there is none)
	stopAt := func(b *ssa.BasicBlock, afterIdx int) int {
		for i, in := range b.Instrs {
			if i > afterIdx && stop[in] {
				return i
			}
		}
		return len(b.Instrs)
	}
	hits := func(b *ssa.BasicBlock, afterIdx int) *wEvent {
		lim := stopAt(b, afterIdx)
		for i := range ws {
			if ws[i].in.Block() == b && instrIndex(ws[i].in) > afterIdx && instrIndex(ws[i].in) < lim {
				return &ws[i]
			}
		}
		return nil
	}
	if w := hits(from.Block(), instrIndex(from)); w != nil {
		return w
	}
	if stopAt(from.Block(), instrIndex(from)) < len(from.Block().Instrs) {
		return nil
	}
	seen := map[state]bool{}
	var work []state
	push := func(b, prev *ssa.BasicBlock) {
		st := state{b, prev}
		if !seen[st] {
			seen[st] = true
			work = append(work, st)
		}
	}
	step := func(b, prev *ssa.BasicBlock) {
		switch t := b.Instrs[len(b.Instrs)-1].(type) {
		case *ssa.If:
			if val, ok := eval(t.Cond, b, prev, 0); ok {
				if val {
					push(b.Succs[0], b)
				} else {
					push(b.Succs[1], b)
				}
				return
			}
			push(b.Succs[0], b)
			push(b.Succs[1], b)
		case *ssa.Jump:
			push(b.Succs[0], b)
		}
	}
	step(from.Block(), nil)
	for len(work) > 0 {
		st := work[len(work)-1]
		work = work[:len(work)-1]
		if w := hits(st.b, -1); w != nil {
			return w
		}
		if stopAt(st.b, -1) < len(st.b.Instrs) {
			continue
		}
		step(st.b, st.prev)
	}
	return nil
}

func firstWriteReachable(ws []wEvent, from *ssa.BasicBlock) *wEvent {
	reach := reachableFrom(from)
	reach[from] = true
	for i := range ws {
		if reach[ws[i].in.Block()] {
			return &ws[i]
		}
	}
	return nil
}

// findInputConversion: the client function converting *dynamodb.<op>Input into *types.<op>Input.
func findInputConversion(e *Engine, role, op string) *ssa.Function {
	for _, fn := range e.funcs(role) {
		if fn.Parent() != nil || len(fn.Params) != 1 || fn.Signature.Results().Len() != 1 {
			continue
		}
		pt, rt := typeName(fn.Params[0].Type()), typeName(fn.Signature.Results().At(0).Type())
		if strings.HasSuffix(pt, "dynamodb."+op+"Input") && strings.HasSuffix(rt, "types."+op+"Input") {
			return fn
		}
	}
	return nil
}

func c05R4(e *Engine) {
	const code = "ConditionalCheckFailedException"
	cs := e.coreModel()
	evs := e.conditionEvaluators()
	if !e.anchor("R4", "core model", cs == nil || len(evs) == 0) {
		return
	}
	// (a) in core: the error returned on the refused edge carries the code
	fwds := e.verdictForwarders(evs)
	for _, fn := range e.funcs("core") {
		instrs(fn, func(in ssa.Instruction) {
			c, ok := in.(*ssa.Call)
			if !ok {
				return
			}
			isEv := false
			for _, ev := range evs {
				if c.Call.StaticCallee() == ev && ev != fn {
					isEv = true
				}
			}
			isFwd := fwds[c.Call.StaticCallee()]
			if fwds[fn] {
				return // a forwarder hands the verdict on: the refusal is made by its callers
			}
			if !isFwd && (!isEv || len(e.structFieldStores(qiArg(c), "ConditionExpression")) == 0) {
				return
			}
			construct := e.fname(fn) + ":refusal-code"
			// returns governed by matched==false
			found, good := false, true
			for _, r := range returnsOf(fn) {
				ei := errResultIndex(fn)
				if ei < 0 {
					continue
				}
				refused := false
				for _, cd := range condsAt(r.Block()) {
					cd = normCond(cd)
					if ex, ok := cd.V.(*ssa.Extract); ok && ex.Tuple == ssa.Value(c) && ex.Index == 1 && !cd.Val {
						refused = true
					}
					if isFwd && cd.V == ssa.Value(c) && !cd.Val {
						refused = true
					}
				}
				if !refused {
					continue
				}
				found = true
				if !carriesCode(e, retVals(r)[ei], code) {
					good = false
				}
			}
			if !found {
				e.fail("R4", construct, e.ipos(c), "no return is governed by the refused edge of the condition: a false condition does not stop the write")
				return
			}
			e.check(good, "R4", construct, e.ipos(c), "the refused edge returns an error with code %s", code)
		})
	}
	// (b) v2 adapter maps the code to the SDK type and carries Item
	mk := e.fn("v2", "mapKnownError")
	if e.anchor("R4", "v2.mapKnownError", mk == nil) {
		mapped, item := false, false
		// the mapper and the package-local helpers it is factored into
		var fam []*ssa.Function
		for g := range e.reach(mk) {
			if e.fnRole(g) == "v2" {
				fam = append(fam, g)
			}
		}
		sort.Slice(fam, func(i, j int) bool { return fam[i].Pos() < fam[j].Pos() })
		scan := func(in ssa.Instruction) {
			if b, ok := in.(*ssa.BinOp); ok && (b.Op == token.EQL || b.Op == token.NEQ) {
				if s, ok := constString(b.Y); ok && s == code {
					mapped = true
				}
				if s, ok := constString(b.X); ok && s == code {
					mapped = true
				}
			}
			if st, ok := in.(*ssa.Store); ok {
				if f := fieldOf(st.Addr); f != nil && f.Name() == "Item" && strings.Contains(fieldOwner2(st.Addr), "ConditionalCheckFailedException") {
					for _, o := range e.origins(st.Val) {
						if strings.Contains(o, "ConditionalCheckFailedException.Item") {
							item = true
						}
					}
				}
			}
		}
		for _, g := range fam {
			instrs(g, scan)
		}
		typed := false
		for _, g := range fam {
			for _, r := range returnsOf(g) {
				rv := retVals(r)
				if len(rv) != 1 {
					continue
				}
				mi, ok := rv[0].(*ssa.MakeInterface)
				if !ok || !strings.HasSuffix(typeName(mi.X.Type()), "types.ConditionalCheckFailedException") || !strings.Contains(mi.X.Type().String(), "aws-sdk-go-v2") {
					continue
				}
				if g == mk {
					typed = true
					continue
				}
				// built by a helper: the mapper returns that helper's result
				for _, mr := range returnsOf(mk) {
					if c, isC := strip(retVals(mr)[0]).(*ssa.Call); isC && c.Call.StaticCallee() == g {
						typed = true
					}
				}
			}
		}
		e.check(mapped && typed, "R4", "v2.mapKnownError:maps-code", e.pos(mk.Pos()), "code %s is mapped to the SDK's *types.ConditionalCheckFailedException (case present: %v, typed result: %v)", code, mapped, typed)
		e.check(item, "R4", "v2.mapKnownError:carries-item", e.pos(mk.Pos()), "the mapped error's Item is converted from the internal error's Item")
	}
	// (c) every error returned by a client write method after the core call goes through the mapper (v2)
	for _, op := range []string{"PutItem", "UpdateItem", "DeleteItem"} {
		fn := e.clientMethods("v2")[op]
		if fn == nil || mk == nil {
			continue
		}
		for _, m := range coreMutatorCalls(e, cs, fn) {
			ok := true
			for _, r := range returnsOf(fn) {
				ei := errResultIndex(fn)
				v := retVals(r)[ei]
				if isNilConst(v) || !derivesFrom(v, m) {
					continue
				}
				viaMapper := false
				if call, isCall := strip(v).(*ssa.Call); isCall && call.Call.StaticCallee() == mk {
					viaMapper = true
				}
				if _, isMI := v.(*ssa.MakeInterface); isMI {
					viaMapper = true // constructed SDK error (syntax error branch)
				}
				if !viaMapper {
					ok = false
				}
			}
			e.check(ok, "R4", "v2.Client."+op+":error-mapped", e.ipos(m), "errors of the core call are returned through mapKnownError (so a refusal surfaces as the SDK's ConditionalCheckFailedException)")
		}
	}
	// (d) the item attached on request is the stored item
	h := e.fn("core", "handleConditionalCheckError")
	if h != nil {
		for _, c := range e.callersOf(h) {
			call := c.(*ssa.Call)
			var itemArg ssa.Value
			for _, a := range call.Call.Args {
				if _, isMap := a.Type().Underlying().(*types.Map); isMap {
					itemArg = a
				}
			}
			os := e.origins(itemArg)
			good := len(os) > 0
			for _, o := range os {
				if o != "mapval-of field:Table.Data" && o != "fresh-map" && !strings.HasPrefix(o, "copy-of mapval-of field:Table.Data") {
					good = false
				}
			}
			e.check(good, "R4", e.fname(call.Parent())+":attached-item", e.ipos(call), "item attached to the refusal: %s", strings.Join(os, "; "))
		}
	}
}

func qiArg(c *ssa.Call) ssa.Value {
	for _, a := range c.Call.Args {
		if strings.HasSuffix(typeName(a.Type()), "QueryInput") {
			return a
		}
	}
	return nil
}

// carriesCode: error value v is NewError(code, …) or a *ConditionalCheckFailedException-like struct whose Code() returns code.
func carriesCode(e *Engine, v ssa.Value, code string) bool {
	ok := false
	for _, src := range phiSources(v) {
		src = strip(src)
		switch x := src.(type) {
		case *ssa.Call:
			if g := x.Call.StaticCallee(); g != nil && g.Name() == "NewError" && len(x.Call.Args) > 0 {
				if s, isC := constString(x.Call.Args[0]); isC && s == code {
					ok = true
					continue
				}
			}
			return false
		case *ssa.Alloc:
			if strings.HasSuffix(typeName(x.Type()), "types."+code) {
				ok = true
				continue
			}
			return false
		default:
			return false
		}
	}
	return ok
}

// verdictHelper: h evaluates a write condition (calls one of the evaluators), writes nothing itself, and turns the refusal
// into a non-nil error: every return on the refused edge of that evaluation carries a non-nil error.
func (e *Engine) verdictHelper(h *ssa.Function, evs []*ssa.Function, cs *coreState) bool {
	if h == nil || h.Blocks == nil || e.fnRole(h) != "core" || errResultIndex(h) < 0 || len(cs.writeEvents(h)) > 0 {
		return false
	}
	for _, ev := range evs {
		if h == ev {
			return false
		}
	}
	var call *ssa.Call
	instrs(h, func(in ssa.Instruction) {
		if c, ok := in.(*ssa.Call); ok {
			for _, ev := range evs {
				if c.Call.StaticCallee() == ev {
					call = c
				}
			}
		}
	})
	if call == nil {
		return false
	}
	ei := errResultIndex(h)
	refusedReturns := 0
	for _, r := range returnsOf(h) {
		refused := false
		for _, cd := range condsAt(r.Block()) {
			cd = normCond(cd)
			if ex, ok := cd.V.(*ssa.Extract); ok && ex.Tuple == ssa.Value(call) && ex.Index == 1 && !cd.Val {
				refused = true
			}
		}
		if !refused {
			continue
		}
		refusedReturns++
		if isNilConst(retVals(r)[ei]) {
			return false
		}
	}
	return refusedReturns > 0
}

// c05R9: the verdict of the expression evaluator of the engine (matchKey) as a decision table. For every assignment of
// (key condition present, filter present, write condition present, Scan flag, the interpreter's verdicts for the three
// kinds) the function is evaluated abstractly; whatever else it branches on (the size of the item, a text pattern, a
// cache hit) is tried both ways. The verdict must be
//
//	m = Scan;  key present: m = V(key);  filter present: m = m && V(filter);  condition present: m = V(condition)
//
// in every case – in particular no branch may answer for an expression that is present without asking the interpreter.
func c05R9(e *Engine) {
	evs := e.conditionEvaluators()
	if !e.anchor("R9", "core: the expression evaluator (builder of MatchInput)", len(evs) == 0) {
		return
	}
	mk := evs[0]
	im := e.fn("core", "Table.interpreterMatch")
	kindOf := map[*ssa.Call]string{}
	instrs(mk, func(in ssa.Instruction) {
		c, ok := in.(*ssa.Call)
		if !ok || c.Call.StaticCallee() == nil {
			return
		}
		g := c.Call.StaticCallee()
		if g == im && len(c.Call.Args) > 1 {
			for _, v := range e.structFieldStores(c.Call.Args[1], "ExpressionType") {
				if s, isK := constString(v); isK {
					kindOf[c] = s
				}
			}
			return
		}
		if e.fnRole(g) == "core" && im != nil && e.reach(g)[im] && isBoolType(c.Type()) {
			for _, a := range c.Call.Args {
				if s, isK := constString(a); isK && (s == "key" || s == "filter" || s == "conditional") {
					kindOf[c] = s
				}
			}
		}
	})
	construct := e.fname(mk) + ":verdict-table"
	if len(kindOf) < 3 {
		e.undecided("R9", construct, e.pos(mk.Pos()), "the interpreter calls for the three expression kinds were not all found (%d)", len(kindOf))
		return
	}
	fieldName := func(v ssa.Value) string {
		for i := 0; i < 4; i++ {
			v = strip(v)
			switch x := v.(type) {
			case *ssa.UnOp:
				if x.Op != token.MUL {
					return ""
				}
				v = x.X
				continue
			case *ssa.FieldAddr:
				return fieldOf(x).Name()
			case *ssa.Field:
				return fieldOf(x).Name()
			}
			break
		}
		return ""
	}
	type world struct{ k, f, c1, c2, s, vk, vf, vc bool }
	bits := func(n int) world {
		return world{n&1 != 0, n&2 != 0, n&4 != 0, n&8 != 0, n&16 != 0, n&32 != 0, n&64 != 0, n&128 != 0}
	}
	var probs []string
	cases := 0
	for n := 0; n < 256; n++ {
		w := bits(n)
		if !w.c1 && w.c2 {
			continue // *nil is never read
		}
		free := map[ssa.Value]bool{}
		var freeOrder []ssa.Value
		for mask := 0; ; mask++ {
			if mask >= 1<<uint(len(freeOrder)) && mask > 0 {
				break
			}
			for i, v := range freeOrder {
				free[v] = mask&(1<<uint(i)) != 0
			}
			grew := false
			ret, evalAt, ok := interpBool(mk, func(v ssa.Value) (bool, bool) {
				switch x := v.(type) {
				case *ssa.BinOp:
					if x.Op != token.EQL && x.Op != token.NEQ {
						if isBoolType(x.X.Type()) {
							return false, false
						}
						break
					}
					if isBoolType(x.X.Type()) {
						return false, false // boolean algebra: left to the interpreter
					}
					eq := x.Op == token.EQL
					if s, isK := constString(x.Y); isK && s == "" {
						switch fieldName(x.X) {
						case "KeyConditionExpression":
							return w.k != eq, true
						case "FilterExpression":
							return w.f != eq, true
						case "ConditionExpression":
							return w.c2 != eq, true
						}
					}
					if isNilConst(x.Y) && fieldName(x.X) == "ConditionExpression" {
						return w.c1 != eq, true
					}
				case *ssa.UnOp:
					if x.Op == token.MUL && isBoolType(x.Type()) && fieldName(x) == "Scan" {
						return w.s, true
					}
					if x.Op == token.NOT {
						return false, false
					}
				case *ssa.Field:
					if isBoolType(x.Type()) && fieldOf(x) != nil && fieldOf(x).Name() == "Scan" {
						return w.s, true
					}
				case *ssa.Call:
					switch kindOf[x] {
					case "key":
						return w.vk, true
					case "filter":
						return w.vf, true
					case "conditional":
						return w.vc, true
					}
				case *ssa.Const, *ssa.Phi:
					return false, false
				}
				if !isBoolType(v.Type()) {
					return false, false
				}
				// anything else the function branches on: tried both ways
				if val, have := free[v]; have {
					return val, true
				}
				if len(freeOrder) < 4 {
					freeOrder = append(freeOrder, v)
					free[v] = false
					grew = true
					return false, true
				}
				return false, false
			})
			if grew {
				mask = -1 // new free atoms were discovered: start the enumeration over with them
				continue
			}
			cases++
			want := w.s
			if w.k {
				want = w.vk
			}
			if w.f {
				want = want && w.vf
			}
			if w.c1 && w.c2 {
				want = w.vc
			}
			got, decided := false, false
			if ok {
				got, decided = evalAt(retVals(ret)[1])
			}
			desc := fmt.Sprintf("key condition present:%v (verdict %v), filter present:%v (verdict %v), write condition present:%v (verdict %v), Scan:%v", w.k, w.vk, w.f, w.vf, w.c1 && w.c2, w.vc, w.s)
			if len(freeOrder) > 0 {
				var fs []string
				for _, v := range freeOrder {
					fs = append(fs, fmt.Sprintf("%s=%v", v.String(), free[v]))
				}
				desc += "; other tests: " + strings.Join(fs, ", ")
			}
			switch {
			case !decided:
				probs = append(probs, "the verdict could not be evaluated for: "+desc)
			case got != want:
				probs = append(probs, fmt.Sprintf("the verdict is %v where the expressions' own verdicts give %v – %s", got, want, desc))
			}
			if len(freeOrder) == 0 {
				break
			}
		}
	}
	if len(probs) > 0 {
		sort.Strings(probs)
		e.fail("R9", construct, e.pos(mk.Pos()), "%s (%d more case(s)): an expression that is present is answered without, or against, the interpreter's verdict", probs[0], len(probs)-1)
	} else {
		e.pass("R9", construct, e.pos(mk.Pos()), "decision table over %d cases: the verdict is Scan, replaced by the key condition's, conjoined with the filter's, replaced by the write condition's – each whenever that expression is present, never otherwise", cases)
	}
}
