package main

func init() {
	mk := func(id, desc string, run func(e *Engine, role string, r *lockResult, rule string)) RuleDef {
		return RuleDef{ID: id, Desc: desc, Run: func(e *Engine) {
			for _, role := range []string{"v1", "v2"} {
				r := e.lockAnalysis(role)
				if !e.anchor(id, role+".Client.mu", r.mu == nil) {
					continue
				}
				run(e, role, r, id)
			}
		}}
	}
	register(&Prop{
		ID:         "C11",
		Title:      "The client is safe for concurrent use and its operations are atomic",
		Decided:    "lock discipline of Client.mu in both client packages: (L1) every access to a Client field other than mu, to a field of *core.Table/*core.index, and every call into core on a table is executed with the mutex held in every calling context (entry points start unheld; package-local callees inherit the join over their call sites); (L2) no path acquires the mutex while it is held, in particular the batch methods are unheld where they re-enter the locking single-item methods; (L3) every acquire is released on every exit and by defer wherever a callee may raise the documented interpreter panic; (L4) each locking method is a single critical section and touches no stored data after release; (L5) the mutex is never copied. With the Go memory model these give data-race freedom and per-call atomicity of the locking methods for any number of goroutines and any schedule.",
		NotDecided: "linearizability of batch calls as a unit (they are compositions of atomic calls); races inside user-supplied native callbacks or through the *Native pointer handed out by GetNativeInterpreter; the numeric outcomes quoted in the statement (N ADD-1 updates give N) follow from atomicity plus C07, they are not computed here.",
		Assumes:    []string{"SDK and standard-library code does not call back into minidyn nor touch Client state (no callbacks are passed to it)", "guarded state = Client fields except mu, fields of core.Table/core.index, calls into core that take a *Table/*index"},
		Rules: []RuleDef{
			mk("L1", "lockset: guarded access ⇒ mutex held in every context", func(e *Engine, role string, r *lockResult, rule string) {
				e.ruleL1(rule, r, nil)
			}),
			mk("L2", "no re-acquisition while held (direct or through a callee that locks)", func(e *Engine, role string, r *lockResult, rule string) {
				e.ruleL2(rule, r)
			}),
			mk("L3", "every acquire released on every exit; deferred where a callee may panic", func(e *Engine, role string, r *lockResult, rule string) {
				e.ruleL3(rule, r)
			}),
			mk("L4", "one critical section per locking method; no stored data used after release", func(e *Engine, role string, r *lockResult, rule string) {
				e.ruleL4(rule, r)
			}),
			mk("L5", "mutex never copied, reassigned or passed by value", func(e *Engine, role string, r *lockResult, rule string) {
				e.ruleL5(rule, r)
			}),
			{ID: "L0", Desc: "non-vacuity: instance counts confirmed by hand", Run: func(e *Engine) {
				e.pass("L0", "counts", "-", "minimum instance counts asserted")
				e.minCount("L1", 40)
				e.minCount("L2", 12)
				e.minCount("L3", 12)
				e.minCount("L4", 12)
			}},
		},
	})
}
