package main

import (
	"fmt"
	"go/token"
	"go/types"
	"os"
	"sort"
	"strings"

	"golang.org/x/tools/go/ssa"
)

// attribute-value conversion functions, discovered by signature.
func (e *Engine) attrConversions() []*ssa.Function {
	var out []*ssa.Function
	isAttr := func(t types.Type) bool {
		s := types.TypeString(t, nil)
		return strings.Contains(s, modPath+"/types.Item") || strings.Contains(s, "dynamodb.AttributeValue") || strings.Contains(s, "dynamodb/types.AttributeValue")
	}
	for _, role := range []string{"v1", "v2"} {
		for _, fn := range e.funcs(role) {
			if fn.Parent() != nil || fn.Signature.Recv() != nil || fn.Signature.Results().Len() != 1 || len(fn.Params) != 1 {
				continue
			}
			p, r := fn.Params[0].Type(), fn.Signature.Results().At(0).Type()
			if !isAttr(p) || !isAttr(r) {
				continue
			}
			ps, rs := types.TypeString(p, nil), types.TypeString(r, nil)
			pInternal, rInternal := strings.Contains(ps, modPath+"/types.Item"), strings.Contains(rs, modPath+"/types.Item")
			if pInternal != rInternal {
				out = append(out, fn)
			}
		}
	}
	sort.Slice(out, func(i, j int) bool { return e.fname(out[i]) < e.fname(out[j]) })
	return out
}

// ownership classification of a reference-typed value stored into a conversion result.
//
//	fresh  – allocated here / by a copying or converting callee / a value→pointer helper
//	alias  – loaded from (or the address of a part of) the argument: caller and result share memory
func (e *Engine) ownership(v ssa.Value, fn *ssa.Function, seen map[ssa.Value]bool) (string, string) {
	if seen[v] {
		return "fresh", ""
	}
	seen[v] = true
	v = strip(v)
	switch x := v.(type) {
	case *ssa.Const:
		return "fresh", ""
	case *ssa.Alloc, *ssa.MakeMap, *ssa.MakeSlice, *ssa.MakeInterface:
		if mi, ok := x.(*ssa.MakeInterface); ok {
			return e.ownership(mi.X, fn, seen)
		}
		return "fresh", ""
	case *ssa.Phi:
		for _, ed := range x.Edges {
			if k, why := e.ownership(ed, fn, seen); k != "fresh" {
				return k, why
			}
		}
		return "fresh", ""
	case *ssa.Parameter:
		return "alias", "the parameter itself"
	case *ssa.FieldAddr:
		if originIsLocalAlloc(x.X) {
			return "fresh", ""
		}
		return "alias", "the address of field " + fieldOf(x).Name() + " of the argument"
	case *ssa.IndexAddr:
		if k, why := e.ownership(x.X, fn, seen); k != "fresh" {
			return k, "the address of an element of " + strings.TrimPrefix(why, "the ")
		}
		return "fresh", ""
	case *ssa.Slice:
		return e.ownership(x.X, fn, seen)
	case *ssa.UnOp:
		if x.Op != token.MUL {
			return "fresh", ""
		}
		switch a := x.X.(type) {
		case *ssa.FieldAddr:
			if originIsLocalAlloc(a.X) {
				// field of a local composite: follow what was stored there
				for _, st := range storesTo(a) {
					if k, why := e.ownership(st.Val, fn, seen); k != "fresh" {
						return k, why
					}
				}
				return "fresh", ""
			}
			return "alias", "field " + fieldOf(a).Name() + " loaded from the argument"
		case *ssa.Alloc:
			for _, st := range storesTo(a) {
				if k, why := e.ownership(st.Val, fn, seen); k != "fresh" {
					return k, why
				}
			}
			return "fresh", ""
		case *ssa.IndexAddr:
			return e.ownership(a.X, fn, seen)
		case *ssa.Global:
			return "alias", "the package-level variable " + a.Name() + " (one object shared by every result)"
		}
		return "alias", "a value loaded through a pointer of the argument"
	case *ssa.Field:
		return "alias", "field " + fieldOf(x).Name() + " of the argument"
	case *ssa.Extract:
		switch t := x.Tuple.(type) {
		case *ssa.TypeAssert:
			return e.ownership(t.X, fn, seen)
		case *ssa.Next:
			if rg, ok := t.Iter.(*ssa.Range); ok {
				return e.ownership(rg.X, fn, seen)
			}
		case *ssa.Call:
			return e.ownership(t, fn, seen)
		case *ssa.Lookup:
			return e.ownership(t.X, fn, seen)
		}
		return "alias", "extracted from the argument"
	case *ssa.Lookup:
		return e.ownership(x.X, fn, seen)
	case *ssa.Call:
		name := staticCalleeName(x)
		if name == "builtin.append" {
			// append(fresh, elems...) is fresh as a container; element ownership is judged where elements are stored
			return e.ownership(x.Call.Args[0], fn, seen)
		}
		g := x.Call.StaticCallee()
		if g == nil {
			// a generic helper applying a function it was given (mapSlice(in, f)): judged by what every caller passes
			if p, isP := strip(x.Call.Value).(*ssa.Parameter); isP && !x.Call.IsInvoke() {
				idx := -1
				for i, q := range p.Parent().Params {
					if q == p {
						idx = i
					}
				}
				callers := e.callersOf(p.Parent())
				if os.Getenv("MINICHECK_TRACE") != "" {
					fmt.Println("TRACE ownership dyn", e.fname(p.Parent()), "idx", idx, "callers", len(callers))
				}
				if idx >= 0 && len(callers) > 0 {
					for _, c := range callers {
						if idx >= len(c.Common().Args) {
							return "alias", "result of a dynamic call"
						}
						fs := e.closuresOf(c.Common().Args[idx], nil, 0)
						if len(fs) == 0 {
							return "alias", "result of a function value of unknown origin"
						}
						for _, h := range fs {
							if k, why := e.producesFresh(h, seen); k != "fresh" {
								return k, why
							}
						}
					}
					return "fresh", ""
				}
			}
			return "alias", "result of a dynamic call"
		}
		if isPtrHelper(g) {
			// value -> pointer allocates; pointer -> value copies the value; only reference-typed values stay shared
			res := g.Signature.Results().At(0).Type()
			if _, isPtr := res.Underlying().(*types.Pointer); isPtr {
				return "fresh", ""
			}
			if isRefType(res) {
				return e.ownership(x.Call.Args[0], fn, seen)
			}
			return "fresh", ""
		}
		if g.Blocks == nil || e.fnRole(g) == "" {
			// library call: conservatively fresh only for known copying routines
			switch name {
			case "bytes.Clone", "slices.Clone", "strings.Clone", "maps.Clone":
				return "fresh", ""
			}
			return "alias", "result of " + name + " applied to the argument"
		}
		if ok, _ := isConversion(e, g); ok || isMapCopyFunc(g) || g == fn {
			return "fresh", "" // judged on its own
		}
		// package-local helper: judge its returns
		for _, r := range returnsOf(g) {
			for _, rv := range retVals(r) {
				if !isRefType(rv.Type()) {
					continue
				}
				if k, why := e.ownership(rv, g, seen); k != "fresh" {
					return k, why + " (via " + e.fname(g) + ")"
				}
			}
		}
		return "fresh", ""
	case *ssa.TypeAssert:
		return e.ownership(x.X, fn, seen)
	}
	return "alias", "an unrecognised value form"
}

func isAttrStructType(t types.Type) bool {
	nt := namedOf(t)
	if nt == nil {
		return false
	}
	n := nt.Obj().Name()
	return n == "Item" || n == "AttributeValue" || strings.HasPrefix(n, "AttributeValueMember")
}

func init() {
	register(&Prop{
		ID:         "C14",
		Title:      "Stored data is isolated from caller-owned memory",
		Decided:    "ownership of every reference (pointer, slice, map) that crosses the API boundary: (R1) in each attribute-value conversion function of both adapters (discovered by signature, both directions) every reference-typed component stored into the result originates from an allocation made by the conversion, a recursive conversion, a copying helper or a value→pointer helper – never from a load out of the argument nor from the address of a part of it; (R2) no address into a package-level singleton object escapes (shared with C18.R6); (R3) the outputs of the client data methods carry stored data only through such conversions; (R4) the table stores a private top-level map (shared with C01.R4); (R5) a client that asks the engine to attach the stored item to a failed condition returns the engine's error only through a mapper that converts the item.",
		NotDecided: "sharing through user-supplied native callbacks (they receive the stored map by design); immutability of Go strings is relied upon (string headers may share bytes safely).",
		Rules: []RuleDef{
			{ID: "R1", Desc: "ownership of reference-typed components in every attribute-value conversion (T-COPY)", Run: c14R1},
			{ID: "R2", Desc: "no address into a package-level singleton escapes (= C18.R6)", Run: func(e *Engine) {
				before := len(e.obs)
				c18R6(e)
				// keep only the singleton/global obligations, relabelled
				kept := e.obs[:before]
				for _, o := range e.obs[before:] {
					if strings.Contains(o.Construct, "singleton") || o.Construct == "globals-immutable" {
						o.Rule = "R2"
						kept = append(kept, o)
					}
				}
				e.obs = kept
			}},
			{ID: "R3", Desc: "client outputs carry stored data only through conversions (SSA origin)", Run: c14R3},
			{ID: "R4", Desc: "the table stores a private top-level map (= C01.R4)", Run: func(e *Engine) {
				cs := e.coreModel()
				if !e.anchor("R4", "core model", cs == nil) {
					return
				}
				for _, s := range cs.dataSites() {
					if s.kind != "write" {
						continue
					}
					os := e.origins(s.in.(*ssa.MapUpdate).Value)
					good := len(os) > 0
					for _, o := range os {
						if !(strings.HasPrefix(o, "copy-of ") || o == "fresh-map" || o == "mapval-of field:Table.Data") {
							good = false
						}
					}
					e.check(good, "R4", e.fname(s.in.Parent())+":stored-value", e.ipos(s.in), "stored map origins: %s", strings.Join(os, "; "))
				}
			}},
			{ID: "R5", Desc: "the stored map attached to a failed condition reaches a caller only through a converting error mapper: a client that asks for it maps the engine's error", Run: c14R5},
		},
	})
}

func c14R1(e *Engine) {
	convs := e.attrConversions()
	if !e.anchor("R1", "attribute-value conversion functions (by signature)", len(convs) < 8) {
		return
	}
	// helpers of the conversions (package-local functions they call that return references) are judged the same way
	inSet := map[*ssa.Function]bool{}
	for _, f := range convs {
		inSet[f] = true
	}
	for i := 0; i < len(convs); i++ {
		f := convs[i]
		instrs(f, func(in ssa.Instruction) {
			c, ok := in.(*ssa.Call)
			if !ok || isBuiltin(c) {
				return
			}
			g := c.Call.StaticCallee()
			if g == nil || g.Blocks == nil || e.fnRole(g) != e.fnRole(f) || inSet[g] || g.Signature.Results().Len() != 1 || !isRefType(g.Signature.Results().At(0).Type()) {
				return
			}
			inSet[g] = true
			convs = append(convs, g)
		})
	}
	for _, fn := range convs {
		type site struct {
			field string
			in    ssa.Instruction
			kind  string
			why   string
		}
		var sites []site
		instrs(fn, func(in ssa.Instruction) {
			st, ok := in.(*ssa.Store)
			if !ok {
				return
			}
			fa, ok := st.Addr.(*ssa.FieldAddr)
			if !ok || !isRefType(st.Val.Type()) {
				return
			}
			owner := namedOf(fa.X.Type())
			if owner == nil {
				return
			}
			// result-side structs: attribute structs and the language objects built from them
			n := owner.Obj().Name()
			isResult := isAttrStructType(fa.X.Type()) || (e.roleOf(owner.Obj().Pkg()) == "lang" && (n == "Binary" || n == "BinarySet" || n == "StringSet" || n == "NumberSet" || n == "List" || n == "Map"))
			if !isResult || !originIsLocalAlloc(fa.X) {
				return
			}
			k, why := e.ownership(st.Val, fn, map[ssa.Value]bool{})
			sites = append(sites, site{n + "." + fieldOf(fa).Name(), in, k, why})
		})
		// elements put into slices and maps that end up in the result (BS elements, *string elements of sets, …)
		refElem := func(t types.Type) bool {
			switch t.Underlying().(type) {
			case *types.Pointer, *types.Slice, *types.Map:
				return true
			}
			return false
		}
		instrs(fn, func(in ssa.Instruction) {
			switch x := in.(type) {
			case *ssa.Call:
				if staticCalleeName(x) == "builtin.copy" {
					// copy(dst, src) on a slice of references duplicates the element headers only
					dst, src := x.Call.Args[0], x.Call.Args[1]
					if sl, ok := dst.Type().Underlying().(*types.Slice); ok && refElem(sl.Elem()) {
						if k, _ := e.ownership(dst, fn, map[ssa.Value]bool{}); k == "fresh" {
							k2, why := e.ownership(src, fn, map[ssa.Value]bool{})
							if k2 != "fresh" {
								why = "the elements of " + strings.TrimPrefix(why, "the ") + " (copy() duplicates the slice headers/pointers, not what they point to)"
							}
							sites = append(sites, site{"elements copied into a result slice", in, k2, why})
						}
					}
					return
				}
				if staticCalleeName(x) != "builtin.append" {
					return
				}
				// append(result, src...) with a whole slice of references spread in
				if len(x.Call.Args) == 2 && len(variadicElems(x.Call.Args[1])) == 0 {
					if sl, ok := x.Call.Args[1].Type().Underlying().(*types.Slice); ok && refElem(sl.Elem()) {
						k2, why := e.ownership(x.Call.Args[1], fn, map[ssa.Value]bool{})
						if k2 != "fresh" {
							why = "the elements of " + strings.TrimPrefix(why, "the ") + " (append(dst, src...) copies the element headers only)"
						}
						sites = append(sites, site{"elements appended to a result slice", in, k2, why})
					}
				}
				for _, el := range variadicElems(x.Call.Args[1]) {
					if !refElem(el.Type()) {
						continue
					}
					k, why := e.ownership(el, fn, map[ssa.Value]bool{})
					sites = append(sites, site{"element appended to a result slice", in, k, why})
				}
			case *ssa.Store:
				ia, ok := x.Addr.(*ssa.IndexAddr)
				if !ok || !refElem(x.Val.Type()) {
					return
				}
				// only containers made by this function (the result under construction)
				if k, _ := e.ownership(ia.X, fn, map[ssa.Value]bool{}); k != "fresh" {
					return
				}
				k, why := e.ownership(x.Val, fn, map[ssa.Value]bool{})
				sites = append(sites, site{"element stored into a result slice", in, k, why})
			case *ssa.MapUpdate:
				if !refElem(x.Value.Type()) {
					return
				}
				if k, _ := e.ownership(x.Map, fn, map[ssa.Value]bool{}); k != "fresh" {
					return
				}
				k, why := e.ownership(x.Value, fn, map[ssa.Value]bool{})
				sites = append(sites, site{"value stored into a result map", in, k, why})
			}
		})
		// the result itself, when it is a pointer (or an interface holding one): a shared instance handed out to every
		// caller is memory that one caller's change shows to all the others
		if res := fn.Signature.Results(); res.Len() >= 1 {
			rt := res.At(0).Type().Underlying()
			_, isPtr := rt.(*types.Pointer)
			_, isIface := rt.(*types.Interface)
			if isPtr || isIface {
				for _, r := range returnsOf(fn) {
					rv := retVals(r)[0]
					if isNilConst(rv) {
						continue
					}
					if u, ok := strip(rv).(*ssa.UnOp); ok {
						if _, isG := u.X.(*ssa.Global); isG {
							_, why := e.ownership(rv, fn, map[ssa.Value]bool{})
							sites = append(sites, site{"result", r, "alias", why})
						}
					}
				}
			}
		}
		for _, s := range sites {
			construct := e.fname(fn) + ":" + s.field
			if s.kind == "fresh" {
				e.pass("R1", construct, e.ipos(s.in), "reference stored in the result is owned by the result")
			} else {
				e.fail("R1", construct, e.ipos(s.in), "the result shares memory with the argument: %s is stored without copying – changing one side later changes the other", s.why)
			}
		}
		if len(sites) == 0 {
			e.ob("R1", e.fname(fn)+":no-reference-components", e.pos(fn.Pos()), Pass, false, "conversion stores no reference-typed component directly")
		}
	}
	e.minCount("R1", 25)
}

func c14R3(e *Engine) {
	for _, role := range clientRoles {
		ms := e.clientMethods(role)
		for _, name := range sortedFuncs(e, ms) {
			if _, ok := dataOpNames[name]; !ok {
				continue
			}
			fn := ms[name]
			instrs(fn, func(in ssa.Instruction) {
				st, ok := in.(*ssa.Store)
				if !ok {
					return
				}
				f := fieldOf(st.Addr)
				if f == nil || !strings.HasSuffix(fieldOwner2(st.Addr), "Output") {
					return
				}
				switch f.Name() {
				case "Item", "Items", "Attributes", "LastEvaluatedKey":
				default:
					return
				}
				os := e.origins(st.Val)
				good := len(os) > 0
				for _, o := range os {
					if !(strings.HasPrefix(o, "conv ") || strings.HasPrefix(o, "copy-of conv ") || o == "const:nil" || o == "fresh-map" || o == "fresh-slice") {
						good = false
					}
				}
				e.check(good, "R3", role+".Client."+name+":"+f.Name(), e.ipos(in), "output field %s ← %s", f.Name(), strings.Join(os, "; "))
			})
		}
	}
	e.minCount("R3", 12)
}

// producesFresh: every reference-typed result of h is owned by the caller (h is a conversion/copy judged on its own, a
// value→pointer helper, or its returns are fresh).
func (e *Engine) producesFresh(h *ssa.Function, seen map[ssa.Value]bool) (string, string) {
	if h == nil {
		return "alias", "an unknown function"
	}
	if ok, _ := isConversion(e, h); ok || isMapCopyFunc(h) {
		return "fresh", ""
	}
	if isPtrHelper(h) {
		if _, isPtr := h.Signature.Results().At(0).Type().Underlying().(*types.Pointer); isPtr {
			return "fresh", ""
		}
	}
	if h.Blocks == nil || e.fnRole(h) == "" {
		return "alias", "result of " + h.String()
	}
	for _, r := range returnsOf(h) {
		for _, rv := range retVals(r) {
			if !isRefType(rv.Type()) {
				continue
			}
			if k, why := e.ownership(rv, h, seen); k != "fresh" {
				return k, why + " (via " + e.fname(h) + ")"
			}
		}
	}
	return "fresh", ""
}

// c14R5: the engine attaches the STORED map itself to a failed condition's error (ConditionalCheckFailedException.Item)
// when the request asks for it (ReturnValuesOnConditionCheckFailure). That is only safe while every adapter that can ask
// for it hands the error back through a mapper that converts (copies) the item. For each client: if its UpdateItem input
// mapper fills that request field, every error of the engine's Update that the client's UpdateItem returns must have
// passed through a package-local error mapper that stores a CONVERSION of the item into the SDK error.
func c14R5(e *Engine) {
	cs := e.coreModel()
	upd := e.fn("core", "Table.Update")
	if !e.anchor("R5", "core.Table.Update", cs == nil || upd == nil) {
		return
	}
	for _, role := range clientRoles {
		// does the client ever ask for the item?
		var askedAt ssa.Instruction
		for _, fn := range e.funcs(role) {
			instrs(fn, func(in ssa.Instruction) {
				st, ok := in.(*ssa.Store)
				if !ok {
					return
				}
				f := fieldOf(st.Addr)
				if f == nil || f.Name() != "ReturnValuesOnConditionCheckFailure" || !strings.HasSuffix(fieldOwner(f), "UpdateItemInput") {
					return
				}
				if nt := namedOf(deref2(st.Addr)); nt != nil && nt.Obj().Pkg() != nil && nt.Obj().Pkg().Path() != modPath+"/types" {
					return
				}
				if isNilConst(st.Val) {
					return
				}
				askedAt = in
			})
		}
		construct := role + ".Client.UpdateItem:failed-condition-item-is-converted"
		fn := e.clientMethods(role)["UpdateItem"]
		if fn == nil {
			continue
		}
		if askedAt == nil {
			e.pass("R5", construct, e.pos(fn.Pos()), "this client never asks the engine to attach the stored item to a failed condition")
			continue
		}
		// error mappers of the role: error -> error functions whose family stores a converted item into an SDK error
		copying := map[*ssa.Function]bool{}
		for _, g := range e.funcs(role) {
			if g.Parent() != nil || len(g.Params) != 1 || !isErrorType(g.Params[0].Type()) || errResultIndex(g) != 0 || g.Signature.Results().Len() != 1 {
				continue
			}
			for h := range e.reach(g) {
				if e.fnRole(h) != role {
					continue
				}
				instrs(h, func(in ssa.Instruction) {
					st, ok := in.(*ssa.Store)
					if !ok {
						return
					}
					f := fieldOf(st.Addr)
					if f == nil || f.Name() != "Item" || !strings.Contains(fieldOwner2(st.Addr), "ConditionalCheckFailedException") {
						return
					}
					for _, o := range e.origins(st.Val) {
						if strings.HasPrefix(o, "conv ") || strings.HasPrefix(o, "copy-of ") {
							copying[g] = true
						}
					}
				})
			}
		}
		bad := ""
		ei := errResultIndex(fn)
		for _, r := range returnsOf(fn) {
			v := retVals(r)[ei]
			if isNilConst(v) {
				continue
			}
			// does the value come from the engine's Update without passing a copying mapper?
			var walk func(x ssa.Value, d int) bool
			walk = func(x ssa.Value, d int) bool {
				if d > 6 {
					return false
				}
				switch y := strip(x).(type) {
				case *ssa.Extract:
					if c, ok := y.Tuple.(*ssa.Call); ok && c.Call.StaticCallee() == upd {
						return true
					}
				case *ssa.Phi:
					for _, ed := range y.Edges {
						if walk(ed, d+1) {
							return true
						}
					}
				case *ssa.Call:
					g := y.Call.StaticCallee()
					if g != nil && copying[g] {
						return false
					}
					for _, a := range y.Call.Args {
						if isErrorType(a.Type()) && walk(a, d+1) {
							return true
						}
					}
				}
				return false
			}
			if walk(v, 0) {
				bad = e.ipos(r)
			}
		}
		if bad != "" {
			e.fail("R5", construct, bad, "the client asks the engine for the item of a failed condition (%s) and returns the engine's error as it is: the error carries the stored map itself – a caller that writes through it changes the table without any API call", e.ipos(askedAt))
		} else {
			e.pass("R5", construct, e.pos(fn.Pos()), "the engine's error reaches the caller only through a mapper that converts the attached item")
		}
	}
}

func deref2(v ssa.Value) types.Type {
	if fa, ok := v.(*ssa.FieldAddr); ok {
		return fa.X.Type()
	}
	return v.Type()
}
