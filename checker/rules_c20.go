package main

import (
	"fmt"
	"go/token"
	"go/types"
	"sort"
	"strings"

	"golang.org/x/tools/go/ssa"
)

// registryKey describes how a registry map key is built: param(table) + sep + norm(param(expr)).
type registryKey struct {
	ok    bool
	sep   string
	norm  *ssa.Function
	table string // origin description of the table part
	expr  string // origin description of the expression part
	why   string
}

func (e *Engine) parseRegistryKey(v ssa.Value) registryKey {
	return e.parseRegistryKeyCtx(v, nil)
}

func (e *Engine) parseRegistryKeyCtx(v ssa.Value, ctx []callCtx) registryKey {
	v = strip(v)
	// the key may be built by a package-local helper: expressionKey(table, expression)
	if hc, ok := v.(*ssa.Call); ok && len(ctx) < 3 {
		if g := hc.Call.StaticCallee(); g != nil && g.Blocks != nil && e.fnRole(g) == "interp" {
			if rets := returnsOf(g); len(rets) == 1 && len(retVals(rets[0])) == 1 {
				return e.parseRegistryKeyCtx(retVals(rets[0])[0], append(append([]callCtx{}, ctx...), callCtx{hc, g}))
			}
		}
	}
	b, ok := v.(*ssa.BinOp)
	if !ok || b.Op != token.ADD {
		return registryKey{why: "key is not a concatenation"}
	}
	c, ok := strip(b.Y).(*ssa.Call)
	if !ok || c.Call.StaticCallee() == nil {
		return registryKey{why: "expression part is not a call of a normalising function"}
	}
	l, ok := strip(b.X).(*ssa.BinOp)
	if !ok || l.Op != token.ADD {
		return registryKey{why: "table part is not table+separator"}
	}
	sep, ok := constString(l.Y)
	if !ok {
		return registryKey{why: "separator is not a constant"}
	}
	if len(ctx) > 0 && e.fnRole(c.Call.StaticCallee()) == "" {
		// the key helper normalises in place (strings.Join(strings.Fields(expression), " ")): the helper itself is the
		// normalising function, the expression part is what the chain of library calls starts from
		x := ssa.Value(c)
		for {
			cc, isCall := strip(x).(*ssa.Call)
			if !isCall || cc.Call.StaticCallee() == nil || e.fnRole(cc.Call.StaticCallee()) != "" || len(cc.Call.Args) == 0 {
				break
			}
			x = cc.Call.Args[0]
		}
		return registryKey{ok: true, sep: sep, norm: b.Parent(), table: strings.Join(e.originsCtx(l.X, ctx), "|"), expr: strings.Join(e.originsCtx(x, ctx), "|")}
	}
	return registryKey{ok: true, sep: sep, norm: c.Call.StaticCallee(), table: strings.Join(e.originsCtx(l.X, ctx), "|"), expr: strings.Join(e.originsCtx(c.Call.Args[0], ctx), "|")}
}

// kindAt: the ExpressionType constant that governs block b (switch on the kind parameter), or "" if unconditional / "default".
func kindAt(b *ssa.BasicBlock) string {
	for _, c := range condsAt(b) {
		c = normCond(c)
		bo, ok := c.V.(*ssa.BinOp)
		if !ok || bo.Op != token.EQL || !c.Val {
			continue
		}
		if s, ok := constString(bo.Y); ok {
			return s
		}
		if s, ok := constString(bo.X); ok {
			return s
		}
	}
	return ""
}

func init() {
	register(&Prop{
		ID:         "C20",
		Title:      "Native-interpreter overrides are dispatched exactly and fall back safely",
		Decided:    "(R1) registration and lookup agree: every access to the four registry maps of interpreter.Native builds its key as table + the same constant separator + the same normalising function applied to the expression, and in the two kind switches (AddMatcher / lookup) each ExpressionType constant selects the same map; all three matcher kinds are present in both and an unknown kind panics instead of registering; (R2) the normalising function is order-preserving: it reaches no sorting routine and no map iteration and only trims/collapses whitespace, so two different expressions never share a key unless they differ only in whitespace; (R3) Native.Update invokes the updater only on the found edge and the miss edge returns an error wrapping ErrUnsupportedFeature without touching the item; Native.Match returns the lookup error without calling anything; (R4) Table.interpreterMatch uses the native verdict iff its error is nil and otherwise lets the language interpreter decide, Table.interpreterUpdate uses the native interpreter iff UseNativeInterpreter, with no fallback; (R5) the table name, the expression text and the expression kind reach MatchInput/UpdateInput unchanged and correctly paired; (R6) CreateTable copies the three interpreter settings into the new table, ActivateNativeInterpreter and SetInterpreter update the client field and every existing table; (R7) the native interpreter has no state beyond its four registries; a memo added later must be rewritten by every registration.",
		NotDecided: "which callback a given request reaches at run time – R1–R5 are the structural reasons it is the registered one; behaviour of user-supplied callbacks.",
		Rules: []RuleDef{
			{ID: "R1", Desc: "registry agreement between AddMatcher/AddUpdater and lookup (T-SIB/T-TABLE)", Run: c20R1},
			{ID: "R2", Desc: "expression normalisation is order-preserving (T-PURE/idiom)", Run: c20R2},
			{ID: "R3", Desc: "native updater/matcher invoked only when found; miss yields ErrUnsupportedFeature (T-DOM)", Run: c20R3},
			{ID: "R4", Desc: "fallback discipline in Table.interpreterMatch / interpreterUpdate", Run: c20R4},
			{ID: "R5", Desc: "table name, expression and kind reach the interpreter inputs correctly paired (T-FLOW)", Run: c20R5},
			{ID: "R6", Desc: "interpreter settings are copied into new tables and propagated to existing ones (T-FLOW)", Run: c20R6},
			{ID: "R7", Desc: "the native interpreter has no state beyond its four registries: a memo of resolved matchers must be rewritten by every registration (T-FIELD closure)", Run: func(e *Engine) { stateModelClosed(e, "R7", func(k string) bool { return k == "interp.Native" }) }},
		},
	})
}

type regAccess struct {
	fn    *ssa.Function
	in    ssa.Instruction
	field string
	write bool
	key   registryKey
	kind  string
}

func (e *Engine) registryAccesses() []regAccess {
	nt := e.namedType("interp", "Native")
	if nt == nil {
		return nil
	}
	var out []regAccess
	for _, fn := range e.funcs("interp") {
		instrs(fn, func(in ssa.Instruction) {
			var m, k ssa.Value
			write := false
			switch x := in.(type) {
			case *ssa.Lookup:
				m, k = x.X, x.Index
			case *ssa.MapUpdate:
				m, k, write = x.Map, x.Key, true
			default:
				return
			}
			f, base := loadedField(m)
			if f == nil || base == nil || namedOf(base.Type()) != nt {
				// the registry may be chosen by a helper (kind ↦ map): one access per map the helper can hand back, with the
				// kind that governs that return
				var hc *ssa.Call
				switch x := strip(m).(type) {
				case *ssa.Call:
					hc = x
				case *ssa.Extract:
					if x.Index == 0 {
						hc, _ = x.Tuple.(*ssa.Call)
					}
				}
				if hc == nil || hc.Call.StaticCallee() == nil || e.fnRole(hc.Call.StaticCallee()) != "interp" {
					return
				}
				for _, r := range returnsOf(hc.Call.StaticCallee()) {
					rf, rbase := loadedField(retVals(r)[0])
					if rf == nil || rbase == nil || namedOf(rbase.Type()) != nt {
						continue
					}
					out = append(out, regAccess{fn: fn, in: in, field: rf.Name(), write: write, key: e.parseRegistryKey(k), kind: kindAt(r.Block())})
				}
				return
			}
			out = append(out, regAccess{fn: fn, in: in, field: f.Name(), write: write, key: e.parseRegistryKey(k), kind: kindAt(in.Block())})
		})
	}
	return out
}

func c20R1(e *Engine) {
	accs := e.registryAccesses()
	if !e.anchor("R1", "interp.Native registry maps", len(accs) == 0) {
		return
	}
	var ref *registryKey
	writeKinds, readKinds := map[string]string{}, map[string]string{}
	for i := range accs {
		a := accs[i]
		construct := e.fname(a.fn) + ":" + a.field
		if a.kind != "" {
			construct += "[" + a.kind + "]"
		}
		if !a.key.ok {
			e.fail("R1", construct, e.ipos(a.in), "registry key is not of the form table+sep+norm(expression): %s", a.key.why)
			continue
		}
		if ref == nil {
			ref = &accs[i].key
		}
		switch {
		case a.key.sep != ref.sep:
			e.fail("R1", construct, e.ipos(a.in), "separator %q differs from %q used elsewhere: registrations and lookups can never meet", a.key.sep, ref.sep)
		case a.key.norm != ref.norm:
			e.fail("R1", construct, e.ipos(a.in), "expression normalised with %s here but with %s elsewhere", e.fname(a.key.norm), e.fname(ref.norm))
		case !strings.Contains(a.key.table, "able") || !(strings.Contains(strings.ToLower(a.key.expr), "expr")):
			e.fail("R1", construct, e.ipos(a.in), "key parts do not come from the table name and the expression (table part: %s; expression part: %s)", a.key.table, a.key.expr)
		default:
			e.pass("R1", construct, e.ipos(a.in), "key = table + %q + %s(expression)", a.key.sep, e.fname(a.key.norm))
		}
		if a.kind != "" {
			if a.write {
				writeKinds[a.kind] = a.field
			} else {
				readKinds[a.kind] = a.field
			}
		}
	}
	// kind -> map agreement
	kinds := map[string]bool{}
	for _, c := range e.constsOfType("interp", "ExpressionType") {
		kinds[strings.Trim(c.Val().ExactString(), "\"")] = true
	}
	for _, k := range sortedKeys(kinds) {
		w, okW := writeKinds[k]
		r, okR := readKinds[k]
		construct := "kind[" + k + "]"
		switch {
		case !okW || !okR:
			e.fail("R1", construct, "-", "expression kind %q is handled by registration:%v lookup:%v – a matcher of this kind can never be found", k, okW, okR)
		case w != r:
			e.fail("R1", construct, "-", "kind %q is registered in %s but looked up in %s: the matcher never fires for its own kind and may fire for another", k, w, r)
		default:
			e.pass("R1", construct, "-", "kind %q ↔ %s in both registration and lookup", k, w)
		}
	}
	// distinct kinds use distinct maps
	seen := map[string]string{}
	for k, f := range writeKinds {
		if other, dup := seen[f]; dup {
			e.fail("R1", "kinds-distinct-maps", "-", "kinds %q and %q share the map %s: a registration fires for a different kind", k, other, f)
		}
		seen[f] = k
	}
	// unknown kind must not register: the default branch of the registering switch panics
	am := e.fn("interp", "Native.AddMatcher")
	if am != nil {
		hasPanic := false
		instrs(am, func(in ssa.Instruction) {
			if _, ok := in.(*ssa.Panic); ok {
				hasPanic = true
			}
		})
		e.check(hasPanic, "R1", "interp.Native.AddMatcher:unknown-kind-panics", e.pos(am.Pos()), "registration with an unknown kind panics rather than silently registering nowhere")
	}
	e.minCount("R1", 10)
}

func c20R2(e *Engine) {
	accs := e.registryAccesses()
	var norm *ssa.Function
	for _, a := range accs {
		if a.key.ok {
			norm = a.key.norm
		}
	}
	if !e.anchor("R2", "normalising function of the registry key", norm == nil) {
		return
	}
	construct := e.fname(norm) + ":order-preserving"
	allowed := map[string]bool{"strings.TrimSpace": true, "strings.Fields": true, "strings.Join": true, "strings.ReplaceAll": true, "strings.Trim": true, "strings.TrimLeft": true, "strings.TrimRight": true}
	var bad []string
	for g := range e.reach(norm) {
		instrs(g, func(in ssa.Instruction) {
			switch x := in.(type) {
			case ssa.CallInstruction:
				if isBuiltin(x) {
					return
				}
				name := staticCalleeName(x)
				if sc := x.Common().StaticCallee(); sc != nil && e.fnRole(sc) != "" {
					return // analysed as part of reach
				}
				if strings.HasPrefix(name, "sort.") || strings.HasPrefix(name, "slices.Sort") {
					bad = append(bad, fmt.Sprintf("%s at %s reorders the pieces of the expression: expressions that are permutations of one another get the same key", name, e.ipos(in)))
				} else if !allowed[name] {
					bad = append(bad, fmt.Sprintf("%s at %s is not in the table of whitespace-only normalisations", name, e.ipos(in)))
				}
			case *ssa.Range:
				if _, isMap := x.X.Type().Underlying().(*types.Map); isMap {
					bad = append(bad, "map iteration at "+e.ipos(in)+" makes the result order-dependent")
				}
			}
		})
	}
	sort.Strings(bad)
	if len(bad) > 0 {
		e.fail("R2", construct, e.pos(norm.Pos()), "%s", bad[0])
	} else {
		e.pass("R2", construct, e.pos(norm.Pos()), "only whitespace trimming/collapsing calls are reached; no sort, no map iteration")
	}
	// … and it is a normal form: EVERY run of whitespace collapses to one blank, whatever its length and whichever
	// whitespace characters it is made of. strings.Fields splits on runs (complete); a single pass of ReplaceAll halves
	// a run and leaves tabs and newlines alone – the same expression laid out over several lines misses its registration.
	usesFields, replaceOutsideLoop := false, ""
	for g := range e.reach(norm) {
		loops := naturalLoops(g)
		instrs(g, func(in ssa.Instruction) {
			c, ok := in.(*ssa.Call)
			if !ok {
				return
			}
			switch staticCalleeName(c) {
			case "strings.Fields", "strings.FieldsFunc":
				usesFields = true
			case "strings.ReplaceAll", "strings.Replace":
				inLoop := false
				for _, body := range loops {
					if body[c.Block()] {
						inLoop = true
					}
				}
				if !inLoop {
					replaceOutsideLoop = e.ipos(in)
				}
			}
		})
	}
	construct = e.fname(norm) + ":collapses-every-run"
	switch {
	case usesFields:
		e.pass("R2", construct, e.pos(norm.Pos()), "the expression is split on runs of whitespace (strings.Fields) and rejoined with single blanks")
	case replaceOutsideLoop != "":
		e.fail("R2", construct, replaceOutsideLoop, "repeated whitespace is collapsed by a single replacement pass: a run of three or more blanks (and any tab or newline) survives, so an expression that differs from its registration only in layout is not dispatched to it")
	default:
		e.undecided("R2", construct, e.pos(norm.Pos()), "the normalising function neither splits on whitespace runs nor is a recognised fixed-point collapse")
	}
}

func c20R3(e *Engine) {
	upd := e.fn("interp", "Native.Update")
	mat := e.fn("interp", "Native.Match")
	if !e.anchor("R3", "interp.Native.Update/Match", upd == nil || mat == nil) {
		return
	}
	unsup := e.global("interp", "ErrUnsupportedFeature")
	wrapsUnsupported := func(v ssa.Value) bool {
		for _, src := range phiSources(v) {
			c, ok := strip(src).(*ssa.Call)
			if !ok {
				return false
			}
			if staticCalleeName(c) == "fmt.Errorf" {
				f, _ := constString(c.Call.Args[0])
				has := false
				for _, el := range variadicElems(c.Call.Args[1]) {
					if u, ok := strip(el).(*ssa.UnOp); ok && u.X == ssa.Value(unsup) {
						has = true
					}
				}
				if !(strings.Contains(f, "%w") && has) {
					return false
				}
				continue
			}
			return false
		}
		return true
	}
	// Update: dynamic call of the updater dominated by found==true
	var dyn []*ssa.Call
	instrs(upd, func(in ssa.Instruction) {
		if c, ok := in.(*ssa.Call); ok && c.Call.StaticCallee() == nil && !c.Call.IsInvoke() && !isBuiltin(c) {
			dyn = append(dyn, c)
		}
	})
	if len(dyn) != 1 {
		e.fail("R3", "interp.Native.Update:updater-only-when-found", e.pos(upd.Pos()), "expected exactly one updater invocation, found %d", len(dyn))
	} else {
		c := dyn[0]
		found := false
		if ex, ok := c.Call.Value.(*ssa.Extract); ok && ex.Index == 0 {
			if lk, ok := ex.Tuple.(*ssa.Lookup); ok && lk.CommaOk {
				for _, cd := range condsAt(c.Block()) {
					cd = normCond(cd)
					if e2, ok := cd.V.(*ssa.Extract); ok && e2.Tuple == ssa.Value(lk) && e2.Index == 1 && cd.Val {
						found = true
					}
				}
			}
		}
		e.check(found, "R3", "interp.Native.Update:updater-only-when-found", e.ipos(c), "the invoked function is the looked-up registry entry and the call is on the found edge of that lookup")
		// the miss edge: error wraps ErrUnsupportedFeature, and no call touching input.Item precedes it
		okMiss := false
		for _, r := range returnsOf(upd) {
			v := retVals(r)[0]
			if isNilConst(v) {
				continue
			}
			okMiss = wrapsUnsupported(v) && !mayFollow(c, r)
		}
		e.check(okMiss, "R3", "interp.Native.Update:miss-is-unsupported", e.pos(upd.Pos()), "the miss edge returns fmt.Errorf(%%w…, ErrUnsupportedFeature) and the updater is not reachable before it")
	}
	// getMatcher miss
	for _, fn := range e.funcs("interp") {
		if fn.Signature.Results().Len() != 2 {
			continue
		}
		if nt, isNamed := fn.Signature.Results().At(0).Type().(*types.Named); fn.Signature.Results().Len() == 2 && isNamed && nt.Obj().Name() == "MatcherFunc" && isErrorType(fn.Signature.Results().At(1).Type()) {
			ok := false
			for _, r := range returnsOf(fn) {
				if v := retVals(r)[1]; !isNilConst(v) {
					ok = wrapsUnsupported(v)
				}
			}
			e.check(ok, "R3", e.fname(fn)+":miss-is-unsupported", e.pos(fn.Pos()), "a missing matcher yields an error wrapping ErrUnsupportedFeature (which lets the table fall back to the language interpreter)")
		}
	}
	// Match: on lookup error returns (false, err) before invoking anything
	okMatch := true
	var dynM []*ssa.Call
	instrs(mat, func(in ssa.Instruction) {
		if c, ok := in.(*ssa.Call); ok && c.Call.StaticCallee() == nil && !c.Call.IsInvoke() && !isBuiltin(c) {
			dynM = append(dynM, c)
		}
	})
	for _, c := range dynM {
		nilKnown := false
		for _, cd := range condsAt(c.Block()) {
			if _, nonNilOnTrue, ok := nilTest(cd.V); ok && cd.Val != nonNilOnTrue {
				nilKnown = true
			}
		}
		if !nilKnown {
			okMatch = false
		}
	}
	e.check(okMatch && len(dynM) == 1, "R3", "interp.Native.Match:matcher-only-when-found", e.pos(mat.Pos()), "the matcher is invoked only on the err==nil edge of the lookup")
}

func c20R4(e *Engine) {
	im := e.fn("core", "Table.interpreterMatch")
	iu := e.fn("core", "Table.interpreterUpdate")
	if !e.anchor("R4", "core.Table.interpreterMatch/interpreterUpdate", im == nil || iu == nil) {
		return
	}
	useF := e.field("core", "Table", "UseNativeInterpreter")
	// the calls of the two interpreters: in the function itself or in a package-local helper it calls (the language
	// call behind a helper that raises the documented panic, say)
	var nativeCall, langCall *ssa.Call
	langHelpers := map[*ssa.Function]bool{}
	e.walkLocal("core", im, 2, func(in ssa.Instruction, ctx []callCtx) {
		c, ok := in.(*ssa.Call)
		if !ok || c.Call.StaticCallee() == nil {
			return
		}
		switch e.fname(c.Call.StaticCallee()) {
		case "interp.Native.Match":
			if len(ctx) == 0 {
				nativeCall = c
			}
		case "interp.Language.Match":
			langCall = c
			for _, cc := range ctx {
				langHelpers[cc.callee] = true
			}
		}
	})
	if nativeCall == nil || langCall == nil {
		e.fail("R4", "core.Table.interpreterMatch:fallback", e.pos(im.Pos()), "expected one call of Native.Match and one of Language.Match (native:%v language:%v)", nativeCall != nil, langCall != nil)
	} else {
		// decision table over (table uses the native interpreter, the native interpreter knows the expression, its
		// verdict, the language interpreter's verdict); every other test the function makes is tried both ways. The
		// verdict must be the native one iff the table uses the native interpreter AND it answered without error –
		// the language interpreter's otherwise. A remembered miss, a per-kind switch, a size test … all show up as a
		// case in which the registered matcher is not the one that decides.
		var probs []string
		cases := 0
		for n := 0; n < 16; n++ {
			u, en, vn, vl := n&1 != 0, n&2 != 0, n&4 != 0, n&8 != 0
			free := map[ssa.Value]bool{}
			var freeOrder []ssa.Value
			for mask := 0; ; mask++ {
				if mask >= 1<<uint(len(freeOrder)) && mask > 0 {
					break
				}
				for i, v := range freeOrder {
					free[v] = mask&(1<<uint(i)) != 0
				}
				grew := false
				ret, evalAt, ok := interpBool(im, func(v ssa.Value) (bool, bool) {
					switch x := v.(type) {
					case *ssa.UnOp:
						if x.Op == token.NOT {
							return false, false
						}
						if isLoadOfField(x, useF) {
							return u, true
						}
					case *ssa.Field:
						if fieldOf(x) == useF {
							return u, true
						}
					case *ssa.BinOp:
						if isBoolType(x.X.Type()) {
							return false, false
						}
						if (x.Op == token.EQL || x.Op == token.NEQ) && isNilConst(x.Y) {
							if ex, isEx := x.X.(*ssa.Extract); isEx && ex.Tuple == ssa.Value(nativeCall) && ex.Index == 1 {
								return en == (x.Op == token.EQL), true
							}
							if ex, isEx := x.X.(*ssa.Extract); isEx && ex.Tuple == ssa.Value(langCall) && ex.Index == 1 {
								return x.Op == token.EQL, true // the language interpreter answered (its error is the panic clause below)
							}
						}
					case *ssa.Extract:
						if x.Tuple == ssa.Value(nativeCall) && x.Index == 0 {
							return vn, true
						}
						if x.Tuple == ssa.Value(langCall) && x.Index == 0 {
							return vl, true
						}
					case *ssa.Call:
						if g := x.Call.StaticCallee(); g != nil && langHelpers[g] && isBoolType(x.Type()) {
							return vl, true
						}
					case *ssa.Const, *ssa.Phi:
						return false, false
					}
					if !isBoolType(v.Type()) {
						return false, false
					}
					if val, have := free[v]; have {
						return val, true
					}
					if len(freeOrder) < 3 {
						freeOrder = append(freeOrder, v)
						free[v] = false
						grew = true
						return false, true
					}
					return false, false
				})
				if grew {
					mask = -1
					continue
				}
				cases++
				want := vl
				if u && en {
					want = vn
				}
				got, decided := false, false
				if ok {
					got, decided = evalAt(retVals(ret)[0])
				}
				desc := fmt.Sprintf("table uses the native interpreter:%v, it knows the expression:%v (verdict %v), language verdict %v", u, en, vn, vl)
				for _, v := range freeOrder {
					desc += fmt.Sprintf("; %s=%v", v.String(), free[v])
				}
				switch {
				case !decided:
					probs = append(probs, "the verdict could not be evaluated for: "+desc)
				case got != want:
					probs = append(probs, fmt.Sprintf("the verdict is %v, expected %v – %s", got, want, desc))
				}
				if len(freeOrder) == 0 {
					break
				}
			}
		}
		if len(probs) > 0 {
			sort.Strings(probs)
			e.fail("R4", "core.Table.interpreterMatch:fallback", e.ipos(nativeCall), "%s (%d more): the native verdict must decide iff the table uses the native interpreter and it answered without error, the language interpreter otherwise", probs[0], len(probs)-1)
		} else {
			e.pass("R4", "core.Table.interpreterMatch:fallback", e.ipos(nativeCall), "decision table over %d cases: native verdict iff UseNativeInterpreter and err == nil, language verdict otherwise; no other test takes part", cases)
		}
		// language error is not swallowed: panics with the error (in the function or in the helper that makes the call)
		pan := false
		instrs(langCall.Parent(), func(in ssa.Instruction) {
			if p, ok := in.(*ssa.Panic); ok && derivesFrom(p.X, langCall) {
				if _, nn := knownNilness(p.Block(), func(x ssa.Value) bool { return derivesFrom(x, langCall) }); nn {
					pan = true
				}
			}
		})
		e.check(pan, "R4", "core.Table.interpreterMatch:language-error-surfaces", e.ipos(langCall), "an error of the language interpreter is raised as the documented panic carrying that error")
	}
	// interpreterUpdate
	var nU, lU *ssa.Call
	instrs(iu, func(in ssa.Instruction) {
		c, ok := in.(*ssa.Call)
		if !ok || c.Call.StaticCallee() == nil {
			return
		}
		switch e.fname(c.Call.StaticCallee()) {
		case "interp.Native.Update":
			nU = c
		case "interp.Language.Update":
			lU = c
		}
	})
	okU := nU != nil && lU != nil
	if okU {
		gN, gL := false, false
		for _, cd := range condsAt(nU.Block()) {
			cd = normCond(cd)
			if cd.Val && isLoadOfField(cd.V, useF) {
				gN = true
			}
		}
		for _, cd := range condsAt(lU.Block()) {
			cd = normCond(cd)
			if !cd.Val && isLoadOfField(cd.V, useF) {
				gL = true
			}
		}
		okU = gN && gL
	}
	e.check(okU, "R4", "core.Table.interpreterUpdate:no-fallback", e.pos(iu.Pos()), "updates go to the native interpreter iff UseNativeInterpreter, to the language interpreter otherwise, and both results are returned as they are")
}

func c20R5(e *Engine) {
	// every MatchInput / UpdateInput built in core: TableName ← Table.Name, Expression/ExpressionType pairing
	pair := map[string]string{"key": "KeyConditionExpression", "filter": "FilterExpression", "conditional": "ConditionExpression"}
	n := 0
	for _, fn := range e.funcs("core") {
		allocs := map[*ssa.Alloc]map[string]ssa.Value{}
		instrs(fn, func(in ssa.Instruction) {
			st, ok := in.(*ssa.Store)
			if !ok {
				return
			}
			fa, ok := st.Addr.(*ssa.FieldAddr)
			if !ok {
				return
			}
			al, ok := fa.X.(*ssa.Alloc)
			if !ok {
				return
			}
			tn := typeName(al.Type())
			if !strings.HasSuffix(tn, "interpreter.MatchInput") && !strings.HasSuffix(tn, "interpreter.UpdateInput") {
				return
			}
			if allocs[al] == nil {
				allocs[al] = map[string]ssa.Value{}
			}
			allocs[al][fieldOf(fa).Name()] = st.Val
		})
		for al, fields := range allocs {
			// calling contexts: where kind or expression is a parameter of this function (a shared helper), every caller
			// is a site of its own
			ctxs := [][]callCtx{nil}
			needsCaller := false
			for _, f := range []string{"ExpressionType", "Expression"} {
				if v, ok := fields[f]; ok {
					if _, isP := strip(v).(*ssa.Parameter); isP {
						needsCaller = true
					}
				}
			}
			if needsCaller {
				ctxs = nil
				for _, c := range e.callersOf(fn) {
					ctxs = append(ctxs, []callCtx{{c, fn}})
				}
			}
			for _, ctx := range ctxs {
				n++
				site := fn
				pos := e.pos(al.Pos())
				if len(ctx) > 0 {
					site = ctx[0].call.Parent()
					pos = e.ipos(ctx[0].call)
				}
				kind := ""
				if v, ok := fields["ExpressionType"]; ok {
					if ks := e.constStringsOf(v, ctx, 0); len(ks) == 1 {
						kind = ks[0]
					}
				}
				construct := fmt.Sprintf("%s:%s", e.fname(site), strings.TrimPrefix(typeName(al.Type()), "*interpreter."))
				if kind != "" {
					construct += "[" + kind + "]"
				}
				var bad []string
				tnO := e.originsCtx(fields["TableName"], ctx)
				if len(tnO) != 1 || tnO[0] != "field:Table.Name" {
					bad = append(bad, "TableName ← "+strings.Join(tnO, "|")+" (want Table.Name)")
				}
				exO := strings.Join(e.originsCtx(fields["Expression"], ctx), "|")
				if kind != "" {
					if want := pair[kind]; want == "" || !strings.Contains(exO, "QueryInput."+want) {
						bad = append(bad, fmt.Sprintf("kind %q is paired with expression %s (want QueryInput.%s)", kind, exO, want))
					}
				} else if strings.HasSuffix(typeName(al.Type()), "UpdateInput") {
					if !strings.Contains(exO, "UpdateItemInput.UpdateExpression") {
						bad = append(bad, "Expression ← "+exO+" (want UpdateItemInput.UpdateExpression)")
					}
				} else {
					bad = append(bad, "MatchInput without a constant ExpressionType")
				}
				if _, ok := fields["Item"]; !ok {
					bad = append(bad, "Item not set")
				}
				if len(bad) > 0 {
					e.fail("R5", construct, pos, "%s", strings.Join(bad, "; "))
				} else {
					e.pass("R5", construct, pos, "TableName ← Table.Name; Expression ← %s", exO)
				}
			}
		}
	}
	if n < 4 {
		e.minCount("R5", 4)
	}
}

func c20R6(e *Engine) {
	want := []string{"NativeInterpreter", "UseNativeInterpreter", "LangInterpreter"}
	src := map[string]string{"NativeInterpreter": "nativeInterpreter", "UseNativeInterpreter": "useNativeInterpreter", "LangInterpreter": "langInterpreter"}
	for _, role := range clientRoles {
		ms := e.clientMethods(role)
		ct := ms["CreateTable"]
		if !e.anchor("R6", role+".Client.CreateTable", ct == nil) {
			continue
		}
		got := map[string]string{}
		instrs(ct, func(in ssa.Instruction) {
			st, ok := in.(*ssa.Store)
			if !ok {
				return
			}
			f := fieldOf(st.Addr)
			if f == nil || fieldOwner(f) != "Table" {
				return
			}
			got[f.Name()] = strings.Join(e.origins(st.Val), "|")
		})
		for _, w := range want {
			e.check(strings.Contains(got[w], "Client."+src[w]), "R6", role+".Client.CreateTable:copies-"+w, e.pos(ct.Pos()), "new table's %s ← %s", w, got[w])
		}
		// propagation to existing tables
		for name, field := range map[string][2]string{"ActivateNativeInterpreter": {"useNativeInterpreter", "UseNativeInterpreter"}, "SetInterpreter": {"nativeInterpreter", "NativeInterpreter"}} {
			fn := ms[name]
			if fn == nil {
				e.fail("R6", role+".Client."+name, "-", "method missing")
				continue
			}
			clientSet, tableSetInLoop := false, false
			conditional := ""
			instrsDeep(fn, func(in ssa.Instruction) {
				st, ok := in.(*ssa.Store)
				if !ok {
					return
				}
				f := fieldOf(st.Addr)
				if f == nil {
					return
				}
				if fieldOwner(f) == "Client" && f.Name() == field[0] {
					clientSet = true
				}
				if fieldOwner(f) == "Table" && f.Name() == field[1] {
					// base is the range value over fd.tables
					if fa, ok := st.Addr.(*ssa.FieldAddr); ok {
						for _, o := range e.origins(fa.X) {
							if o == "rangeval-of field:Client.tables" {
								tableSetInLoop = true
							}
						}
					}
					// … of EVERY table, whatever the client's other settings: the store is governed only by the loop's
					// progress and by guards whose other side panics
					for b := st.Block(); b != nil && len(b.Preds) == 1; b = b.Preds[0] {
						p := b.Preds[0]
						ifi, isIf := p.Instrs[len(p.Instrs)-1].(*ssa.If)
						if !isIf || isProgressCond(ifi.Cond) {
							continue
						}
						other := p.Succs[0]
						if other == b {
							other = p.Succs[1]
						}
						if _, panics := other.Instrs[len(other.Instrs)-1].(*ssa.Panic); !panics {
							conditional = "the update of the existing tables is skipped when " + ifi.Cond.String() + " decides so (" + e.ipos(ifi) + ")"
						}
					}
					// the loop header itself may be conditional
					for _, body := range naturalLoops(st.Parent()) {
						if !body[st.Block()] {
							continue
						}
						for hb := range body {
							for _, pr := range hb.Preds {
								if body[pr] {
									continue
								}
								for b := pr; b != nil; {
									if len(b.Preds) != 1 {
										break
									}
									p := b.Preds[0]
									if ifi, isIf := p.Instrs[len(p.Instrs)-1].(*ssa.If); isIf {
										other := p.Succs[0]
										if other == b {
											other = p.Succs[1]
										}
										if _, panics := other.Instrs[len(other.Instrs)-1].(*ssa.Panic); !panics && !reachesBlock(other, hb) {
											conditional = "the loop over the existing tables is skipped on a branch at " + e.ipos(ifi)
										}
									}
									b = p
								}
							}
						}
					}
				}
			})
			e.check(clientSet && tableSetInLoop && conditional == "", "R6", role+".Client."+name+":propagates", e.pos(fn.Pos()), "updates Client.%s (%v) and Table.%s of every existing table (%v) unconditionally %s", field[0], clientSet, field[1], tableSetInLoop, conditional)
		}
	}
}

// reachesBlock: to is reachable from from.
func reachesBlock(from, to *ssa.BasicBlock) bool {
	seen := map[*ssa.BasicBlock]bool{}
	work := []*ssa.BasicBlock{from}
	for len(work) > 0 {
		b := work[len(work)-1]
		work = work[:len(work)-1]
		if b == to {
			return true
		}
		if seen[b] {
			continue
		}
		seen[b] = true
		work = append(work, b.Succs...)
	}
	return false
}
