package main

import (
	"go/token"
	"strings"

	"golang.org/x/tools/go/ssa"
)

func tablePair(cs *coreState) pairSpec {
	return pairSpec{name: "Data/SortedKeys", M: cs.Data, S: cs.SortedKeys, byValue: false}
}

func indexPair(cs *coreState) pairSpec {
	return pairSpec{name: "refs/sortedKeys", M: cs.refs, S: cs.sortedKeys, byValue: true}
}

// dataAccessSites lists every instruction indexing Table.Data (lookup, update, delete) with its key operand.
type dataSite struct {
	in   ssa.Instruction
	key  ssa.Value
	kind string
}

func (cs *coreState) dataSites() []dataSite {
	var out []dataSite
	for _, fn := range cs.e.all {
		instrs(fn, func(in ssa.Instruction) {
			switch x := in.(type) {
			case *ssa.Lookup:
				if f, _ := loadedField(x.X); f == cs.Data {
					out = append(out, dataSite{in, x.Index, "read"})
				}
			case *ssa.MapUpdate:
				if f, _ := loadedField(x.Map); f == cs.Data {
					out = append(out, dataSite{in, x.Key, "write"})
				}
			case *ssa.Call:
				if staticCalleeName(x) == "builtin.delete" {
					if f, _ := loadedField(x.Call.Args[0]); f == cs.Data {
						out = append(out, dataSite{in, x.Call.Args[1], "delete"})
					}
				}
			}
		})
	}
	return out
}

const primaryGetKey = "getkey(schema=field:Table.KeySchema attrs=field:Table.AttributesDef)"

func keyOriginAllowed(o string, searchPath bool, kind string) bool {
	if o == primaryGetKey {
		return true
	}
	if kind == "read" && o == "elem-of field:Table.SortedKeys" {
		return true // iterating the table's own key list: under I1 every element is a key of Data
	}
	if !searchPath {
		return false
	}
	switch o {
	case `const:""`, "elem-of field:Table.SortedKeys", "elem-of field:index.sortedKeys", "elem[0]-of elem-of field:index.sortedRefs":
		return true
	}
	return false
}

func init() {
	register(&Prop{
		ID:         "C01",
		Title:      "Single-item operations behave as a sequential key-to-item map",
		Decided:    "the representation invariant I1 (SortedKeys is exactly the sorted key set of Data) is preserved by every mutator on every path, and every access to Data uses the table's own key derivation: (R1) only core functions write Table.Data/SortedKeys after construction and each of them is a checked mutator; (R2) path-case analysis of each mutator: net change of Data[k] (absent→present, present→absent, overwrite) is matched by exactly the corresponding insertion (followed by a sort) or binary-search removal of k in SortedKeys, presence being established by a comma-ok lookup of the same key before the change; reset resets both; (R3) the key operand of every Data lookup/update/delete derives from keySchema.GetKey(t.KeySchema, t.AttributesDef, ·) of the same table (or, on the search path, from SortedKeys/index entries); (R4) the map stored under a key is a fresh copy (or the map already stored there), never a caller's map; (R5) UpdateItem on an absent key starts from a copy of the request key; (R7) GetItem's output derives from Data[key] with key derived from the request key, through conversion/copy only. By induction over histories I1 holds in every reachable state, which is what makes GetItem/Scan/ItemCount agree; (R8) no function on the key derivation path calls a text or number transformation (strings.*, strconv.*, bytes.*, math.*, regexp) other than a join: distinct key values never fold into one key string; (R9) where an update builds its working item, 'start from a copy of the request's key' is selected by the presence flag of the Data lookup under the request's key and by nothing else – a flag overwritten by another verdict (the condition's) creates items without their key attributes; (R10) 'behaves as a key→item map' includes that a write which reports an error leaves the map as it was: no failure after the first state write in core, the interpreter commits only after success, attribute values are never modified in place (= C08.R1, R2, R5); (R11) the item stored under a key changes only through operations on that key: every reference-typed component the adapters store or hand out is owned by the result (= C14.R1), so re-using a buffer for a write to another key cannot rewrite this one; (R12) the table has no state beyond the confirmed fields – a field added later is classified (never read / derived and kept coherent by every writer of its sources / not decided); (R13) removals made by an update are recorded under the resolved attribute name (= C07.R16); (R14) attribute definitions of an existing table are neither retyped nor removed (= C13.R7).; (R15) every success return of the engine's Put and Update is reached only through the store into Table.Data, directly or through helpers of which the same holds: a shortcut that answers success before the store ('nothing changed') leaves an upsert on an absent key unwritten.",
		NotDecided: "contents of items after an update (C07), injectivity of the key encoding (C13), value-level equality of returned items (C10), ownership below the top-level map (C14).",
		Assumes:    []string{"I1 is assumed at function entry when discharging a mutator (induction hypothesis); the branch 'binary search did not find a key that a lookup just found' is infeasible under I1 and dropped"},
		Rules: []RuleDef{
			{ID: "R1", Desc: "who-may-write Table.Data / Table.SortedKeys (T-FIELD)", Run: func(e *Engine) {
				cs := e.coreModel()
				if !e.anchor("R1", "core.Table.Data/SortedKeys", cs == nil) {
					return
				}
				for _, f := range []*typesVar{cs.Data, cs.SortedKeys} {
					for fn, accs := range e.writersOf(f, e.all) {
						fresh := true
						for _, a := range accs {
							if !a.Fresh {
								fresh = false
							}
						}
						construct := e.fname(fn) + ":writes-" + f.Name()
						switch {
						case fresh:
							e.ob("R1", construct, e.ipos(accs[0].Instr), Pass, false, "constructor initialising its own fresh Table")
						case e.fnRole(fn) != "core":
							e.fail("R1", construct, e.ipos(accs[0].Instr), "Table.%s is modified outside package core (%s): the Data/SortedKeys pairing cannot be maintained there", f.Name(), accs[0].Kind)
						default:
							e.pass("R1", construct, e.ipos(accs[0].Instr), "core mutator (%d write site(s)); discharged by R2", len(accs))
						}
					}
				}
				e.minCount("R1", 6)
			}},
			{ID: "R2", Desc: "path-case analysis of every Data/SortedKeys mutator against the I1 case table (T-CASE)", Run: c01R2},
			{ID: "R3", Desc: "key operand of every Data access derives from the table's own key derivation (provenance)", Run: func(e *Engine) {
				cs := e.coreModel()
				if !e.anchor("R3", "core model", cs == nil) {
					return
				}
				search := e.fn("core", "Table.SearchData")
				searchReach := map[*ssa.Function]bool{}
				if search != nil {
					searchReach = e.reach(search)
				}
				for _, s := range cs.dataSites() {
					fn := s.in.Parent()
					construct := e.fname(fn) + ":Data[" + s.kind + "]"
					os := e.origins(s.key)
					onSearch := searchReach[fn]
					var bad []string
					for _, o := range os {
						if !keyOriginAllowed(o, onSearch, s.kind) {
							bad = append(bad, o)
						}
					}
					if len(os) == 0 {
						bad = append(bad, "no origin found")
					}
					if len(bad) > 0 {
						e.fail("R3", construct, e.ipos(s.in), "Table.Data is indexed with a key that may come from %s – not from GetKey with this table's KeySchema and AttributesDef: items would be stored/fetched under a different identity", strings.Join(bad, "; "))
					} else {
						e.pass("R3", construct, e.ipos(s.in), "key origins: %s", strings.Join(os, "; "))
					}
				}
				e.minCount("R3", 7)
			}},
			{ID: "R4", Desc: "the map stored under a key is a fresh copy or the map already stored (SSA origin)", Run: func(e *Engine) {
				cs := e.coreModel()
				if !e.anchor("R4", "core model", cs == nil) {
					return
				}
				for _, s := range cs.dataSites() {
					if s.kind != "write" {
						continue
					}
					mu := s.in.(*ssa.MapUpdate)
					os := e.origins(mu.Value)
					var bad []string
					for _, o := range os {
						switch {
						case strings.HasPrefix(o, "copy-of "), o == "fresh-map", o == "mapval-of field:Table.Data":
						default:
							bad = append(bad, o)
						}
					}
					construct := e.fname(s.in.Parent()) + ":stored-value"
					if len(bad) > 0 || len(os) == 0 {
						e.fail("R4", construct, e.ipos(s.in), "a map that is not a private copy may be stored in Table.Data (origin: %s): later changes to it by its owner change the stored item", strings.Join(bad, "; "))
					} else {
						e.pass("R4", construct, e.ipos(s.in), "stored value origins: %s", strings.Join(os, "; "))
					}
				}
			}},
			{ID: "R5", Desc: "UpdateItem on an absent key starts from a copy of the request key", Run: func(e *Engine) {
				cs := e.coreModel()
				upd := e.fn("core", "Table.Update")
				if !e.anchor("R5", "core.Table.Update", cs == nil || upd == nil) {
					return
				}
				// the Item handed to the interpreter (by Update itself or by a helper it is split into)
				n := 0
				e.walkLocal("core", upd, 3, func(in ssa.Instruction, ctx []callCtx) {
					c, ok := in.(*ssa.Call)
					if !ok || isBuiltin(c) {
						return
					}
					hit := false
					for _, g := range e.callees(c) {
						if len(cs.mutParams[g]) > 0 && e.fnRole(g) != "" {
							hit = true
						}
					}
					if !hit {
						return
					}
					for _, a := range c.Call.Args {
						if !strings.Contains(typeName(a.Type()), "UpdateInput") {
							continue
						}
						// origins of field Item of this struct, where the struct is built (a helper that merely passes its
						// own parameter on is not a site)
						var itemOrigins []string
						built := false
						if u, ok := a.(*ssa.UnOp); ok {
							if al, ok := u.X.(*ssa.Alloc); ok {
								for _, r := range refsOf(al) {
									if fa, ok := r.(*ssa.FieldAddr); ok && fieldOf(fa) != nil && fieldOf(fa).Name() == "Item" {
										for _, st := range storesTo(fa) {
											built = true
											itemOrigins = append(itemOrigins, e.originsCtx(st.Val, ctx)...)
										}
									}
								}
							}
						}
						if !built {
							continue
						}
						n++
						hasKeyCopy, hasEmpty := false, false
						for _, o := range itemOrigins {
							if strings.Contains(o, "copy-of") && strings.HasSuffix(o, "field:UpdateItemInput.Key") {
								hasKeyCopy = true
							}
							if o == "fresh-map" {
								hasEmpty = true
							}
						}
						construct := "core.Table.Update:upsert-from-key"
						if hasKeyCopy && !hasEmpty {
							e.pass("R5", construct, e.ipos(in), "item handed to the interpreter: %s", strings.Join(itemOrigins, "; "))
						} else {
							e.fail("R5", construct, e.ipos(in), "on an absent key the update does not start from a copy of the request Key (origins: %s): the created item lacks its key attributes", strings.Join(itemOrigins, "; "))
						}
					}
				})
				if n == 0 {
					e.fail("R5", "core.Table.Update:upsert-from-key", e.pos(upd.Pos()), "no call hands an item to the update interpreter")
				}
			}},
			{ID: "R8", Desc: "the key derivation contains no lossy conversion (two different key values never render to one key string through rounding)", Run: c01R8},
			{ID: "R7", Desc: "GetItem output derives from Data[GetKey(request key)] through copy/conversion only (T-FLOW)", Run: func(e *Engine) {
				for _, role := range clientRoles {
					gi := e.clientMethods(role)["GetItem"]
					if !e.anchor("R7", role+".Client.GetItem", gi == nil) {
						continue
					}
					found := false
					instrs(gi, func(in ssa.Instruction) {
						st, ok := in.(*ssa.Store)
						if !ok {
							return
						}
						f := fieldOf(st.Addr)
						if f == nil || f.Name() != "Item" || !strings.Contains(fieldOwner2(st.Addr), "GetItemOutput") {
							return
						}
						found = true
						os := e.origins(st.Val)
						good := len(os) > 0
						for _, o := range os {
							if !strings.HasSuffix(o, "mapval-of field:Table.Data") {
								good = false
							}
						}
						e.check(good, "R7", role+".Client.GetItem:output-from-Data", e.ipos(in), "GetItemOutput.Item origins: %s", strings.Join(os, "; "))
					})
					if !found {
						e.fail("R7", role+".Client.GetItem:output-from-Data", e.pos(gi.Pos()), "GetItemOutput.Item is never set")
					}
				}
			}},
			{ID: "R9", Desc: "an upsert starts from the request's key exactly when the key is absent (the branch is decided by the presence lookup only)", Run: c01R9},
			{ID: "R10", Desc: "a single-item write that reports an error has changed nothing (= C08.R1, R2, R5)", Run: aliasRule("R10", func(e *Engine) { c08R1(e); c08R2(e); c08R5(e) }, nil)},
			{ID: "R11", Desc: "what is stored under a key, and what a read hands out, shares no memory with the caller or with another key's item (= C14.R1)", Run: aliasRule("R11", c14R1, nil)},
			{ID: "R12", Desc: "the state of a table is the confirmed set of fields: a new field is new state (cache, memo, snapshot) – derived state must be rewritten by every writer of what it derives from (T-FIELD closure)", Run: func(e *Engine) { stateModelClosed(e, "R12", func(k string) bool { return k == "core.Table" }) }},
			{ID: "R13", Desc: "what an UpdateItem removes is removed from the stored item: removals are recorded under the resolved attribute name (= C07.R16)", Run: aliasRule("R13", c07R16, nil)},
			{ID: "R14", Desc: "the declared types of the key attributes stay with the table: no operation on an existing table retypes or removes an attribute definition (= C13.R7) – otherwise stored items become unreachable by their keys", Run: aliasRule("R14", c13R7, nil)},
			{ID: "R15", Desc: "a PutItem or UpdateItem that reports success has stored the item: every success return of the engine's Put and Update is reached only through the store into Table.Data (must-pass-through, through helpers)", Run: c01R15},
		},
	})
}

// fieldOwner2 names the struct type whose field is addressed.
func fieldOwner2(addr ssa.Value) string {
	if fa, ok := addr.(*ssa.FieldAddr); ok {
		return typeName(fa.X.Type())
	}
	return ""
}

// c01R8: the key derivation contains no lossy conversion (shared with C13.R6).
func c01R8(e *Engine) {
	gk := e.fn("core", "keySchema.GetKey")
	if !e.anchor("R8", "core.keySchema.GetKey", gk == nil) {
		return
	}
	n := 0
	for g := range e.reach(gk) {
		if e.fnRole(g) == "" {
			continue
		}
		n++
		bad := ""
		instrs(g, func(in ssa.Instruction) {
			switch x := in.(type) {
			case *ssa.Call:
				name := staticCalleeName(x)
				// only renderings and joins are expected on this path; any other text or number transformation may fold keys
				if name == "strings.Join" {
					break
				}
				for _, pkg := range []string{"strings.", "strconv.", "bytes.", "unicode.", "(*regexp.Regexp).", "math.", "(*math/big."} {
					if strings.HasPrefix(name, pkg) {
						bad = name + " at " + e.ipos(in)
					}
				}
			case *ssa.Convert:
				if isFloat(x.Type()) || isFloat(x.X.Type()) {
					bad = "floating-point conversion at " + e.ipos(in)
				}
			}
		})
		if bad != "" {
			e.fail("R8", e.fname(g)+":lossless-key-rendering", e.pos(g.Pos()), "%s on the key derivation path: distinct key values can be folded into one key string (e.g. 9007199254740992 and 9007199254740993 as float64), so a write to one key overwrites another", bad)
		} else {
			e.ob("R8", e.fname(g)+":lossless-key-rendering", e.pos(g.Pos()), Pass, false, "no rounding, case folding or trimming on the key derivation path")
		}
	}
	if n < 3 {
		e.fail("R8", "count:R8", "-", "only %d functions on the key derivation path", n)
	}
}

// c01R2: T-CASE over every mutator of the table pair (shared with C02.R10).
func c01R2(e *Engine) {
	cs := e.coreModel()
	if !e.anchor("R2", "core model", cs == nil) {
		return
	}
	tc := &tcase{e: e, spec: tablePair(cs)}
	seen := map[*ssa.Function]bool{}
	for _, f := range []*typesVar{cs.Data, cs.SortedKeys} {
		for fn, accs := range e.writersOf(f, e.all) {
			if seen[fn] {
				continue
			}
			seen[fn] = true
			allFresh := true
			for _, a := range accs {
				if !a.Fresh {
					allFresh = false
				}
			}
			if allFresh {
				continue
			}
			// helpers whose every caller is itself a mutator of the pair are analysed inlined in their callers
			if tc.onlyCalledByMutators(fn, seen) {
				e.ob("R2", e.fname(fn)+":Data/SortedKeys", e.pos(fn.Pos()), Pass, false, "helper analysed inlined in its callers")
				continue
			}
			tc.run("R2", fn)
		}
	}
	e.minCount("R2", 3)
}

// c01R9: Table.Update starts a new item from the request's key when the key is absent and from a copy of the stored item
// otherwise. The branch must be decided by the comma-ok result of the lookup in Data – if the variable holding it is
// reused for another verdict, an upsert whose condition holds starts from an empty item and the created item lacks its key
// attributes (it is stored under a key it does not carry).
func c01R9(e *Engine) {
	cs := e.coreModel()
	if !e.anchor("R9", "core model", cs == nil) {
		return
	}
	n := 0
	for _, fn := range e.funcs("core") {
		instrs(fn, func(in ssa.Instruction) {
			c, ok := in.(*ssa.Call)
			if !ok || c.Call.StaticCallee() == nil || !isMapCopyFunc(c.Call.StaticCallee()) || len(c.Call.Args) != 1 {
				return
			}
			// copyItem(input.Key) – the argument is the request's Key field itself, selected by the branch this block hangs
			// on – or copyItem(source) with source a phi one of whose edges is that field, selected by the edge's condition
			isKeyField := func(v ssa.Value) bool {
				kf, _ := loadedFieldDeep(v)
				return kf != nil && kf.Name() == "Key" && strings.HasSuffix(fieldOwner(kf), "Input")
			}
			var last Cond
			found := false
			viaPhi := false
			switch {
			case isKeyField(c.Call.Args[0]):
				if d := c.Block().Idom(); d != nil {
					if ifi, isIf := d.Instrs[len(d.Instrs)-1].(*ssa.If); isIf && (d.Succs[0] == c.Block()) != (d.Succs[1] == c.Block()) {
						last, found = normCond(Cond{ifi.Cond, d.Succs[0] == c.Block()}), true
					}
				}
			default:
				ph, isPhi := strip(c.Call.Args[0]).(*ssa.Phi)
				if !isPhi {
					return
				}
				for i, ed := range ph.Edges {
					if !isKeyField(ed) {
						continue
					}
					viaPhi = true
					efs := edgeFacts(ph.Block().Preds[i], ph.Block())
					if len(efs) > 0 {
						last, found = normCond(efs[len(efs)-1]), true
					}
				}
				if !viaPhi {
					return
				}
			}
			n++
			construct := e.fname(fn) + ":create-from-key-iff-absent"
			if !found {
				e.fail("R9", construct, e.ipos(c), "the working item is started from the request's key without a deciding presence test: an update of an existing item loses every other attribute")
				return
			}
			// leaves of the deciding condition through negation, phis and flags handed down as parameters
			viaParam := false
			var leaves []ssa.Value
			seen := map[ssa.Value]bool{}
			var walk func(v ssa.Value)
			walk = func(v ssa.Value) {
				if seen[v] {
					return
				}
				seen[v] = true
				switch x := v.(type) {
				case *ssa.Phi:
					for _, ed := range x.Edges {
						walk(ed)
					}
				case *ssa.UnOp:
					if x.Op == token.NOT {
						walk(x.X)
						return
					}
					leaves = append(leaves, v)
				case *ssa.Parameter:
					// a flag handed down by the caller (applyUpdate(input, stored, exists)): what every caller passes
					callers := e.callersOf(x.Parent())
					idx := -1
					for i, q := range x.Parent().Params {
						if q == x {
							idx = i
						}
					}
					if len(callers) == 0 || idx < 0 {
						leaves = append(leaves, v)
						return
					}
					viaParam = true
					for _, cs := range callers {
						if idx < len(cs.Common().Args) {
							walk(cs.Common().Args[idx])
						}
					}
				default:
					leaves = append(leaves, v)
				}
			}
			walk(last.V)
			bad := ""
			for _, l := range leaves {
				ex, isEx := l.(*ssa.Extract)
				if isEx && ex.Index == 1 {
					if lk, isLk := ex.Tuple.(*ssa.Lookup); isLk {
						if f, _ := loadedField(lk.X); f == cs.Data {
							continue
						}
					}
				}
				bad = l.Name() + " = " + l.String()
			}
			switch {
			case bad != "":
				e.fail("R9", construct, e.ipos(c), "whether the working item starts from the request's key is decided (also) by %s, not only by the presence of the key in Data: an upsert can start from an empty item and store an item without its key attributes", bad)
			case last.Val && !viaParam:
				e.fail("R9", construct, e.ipos(c), "the item is started from the request's key when the key IS present")
			default:
				e.pass("R9", construct, e.ipos(c), "start-from-key is selected by the presence flag of the Data lookup, on its absent side")
			}
		})
	}
	if n == 0 {
		e.undecided("R9", "core:create-from-key", "-", "no place starts a working item from the request's key")
	}
}

// c01R15: "every GetItem returns the item established by the most recent successful write" needs the successful write to
// have written. A shortcut that answers success before the store (nothing changed, same item, cache hit) leaves an
// upsert on an absent key unwritten.
func c01R15(e *Engine) {
	cs := e.coreModel()
	if !e.anchor("R15", "core.Table.Data", cs == nil) {
		return
	}
	direct := map[ssa.Instruction]bool{}
	for _, a := range e.fieldAccesses(cs.Data, e.all) {
		if a.Write && a.Kind == "map-update" {
			direct[a.Instr] = true
		}
	}
	gapOf := e.successGap(direct)
	n := 0
	for _, name := range []string{"Table.Put", "Table.Update"} {
		fn := e.fn("core", name)
		if !e.anchor("R15", "core."+name, fn == nil) {
			continue
		}
		n++
		construct := "core." + name + ":success-implies-stored"
		switch bad := gapOf(fn); bad {
		case "":
			e.pass("R15", construct, e.pos(fn.Pos()), "every success return is reached only through the store into Table.Data")
		case "?":
			e.undecided("R15", construct, e.pos(fn.Pos()), "no store into Table.Data found on the function's own paths or in the core functions it calls")
		default:
			e.fail("R15", construct, e.pos(fn.Pos()), "the success return in %s is reachable without the store into Table.Data: the operation reports success – and returns the resulting item – while a later GetItem finds the old state (on an absent key: nothing)", bad)
		}
	}
}

// successGap: for a set of "the store" instructions, gap(g) names a (success) return of g that can be reached from the
// entry without passing a store – directly or through a core function of which the same holds. "" when there is none,
// "?" when g has no store on its paths at all.
func (e *Engine) successGap(direct map[ssa.Instruction]bool) func(g *ssa.Function) string {
	memo := map[*ssa.Function]string{}
	var gapOf func(g *ssa.Function, depth int) string
	gapOf = func(g *ssa.Function, depth int) string {
		if r, ok := memo[g]; ok {
			return r
		}
		memo[g] = "?" // recursion: not a store
		if depth > 4 || g.Blocks == nil {
			return "?"
		}
		barrier := map[*ssa.BasicBlock]bool{}
		instrs(g, func(in ssa.Instruction) {
			if direct[in] {
				barrier[in.Block()] = true
				return
			}
			if c, ok := in.(*ssa.Call); ok {
				if h := c.Call.StaticCallee(); h != nil && e.fnRole(h) == "core" && h != g && gapOf(h, depth+1) == "" {
					barrier[in.Block()] = true
				}
			}
		})
		if len(barrier) == 0 {
			return "?"
		}
		seen := map[*ssa.BasicBlock]bool{}
		work := []*ssa.BasicBlock{g.Blocks[0]}
		for len(work) > 0 {
			b := work[len(work)-1]
			work = work[:len(work)-1]
			if seen[b] || barrier[b] {
				continue
			}
			seen[b] = true
			work = append(work, b.Succs...)
		}
		ei := errResultIndex(g)
		bad := ""
		for _, r := range returnsOf(g) {
			if !seen[r.Block()] {
				continue
			}
			if ei >= 0 && !isNilConst(retVals(r)[ei]) {
				continue
			}
			bad = e.fname(g) + " at " + e.ipos(r)
		}
		memo[g] = bad
		return bad
	}
	return func(g *ssa.Function) string { return gapOf(g, 0) }
}
