package main

import (
	"crypto/sha1"
	"encoding/json"
	"flag"
	"fmt"
	"os"
	"path/filepath"
	"sort"
	"strconv"
	"strings"
	"time"
)

type Prop struct {
	ID         string
	Title      string
	Decided    string   // what the rules decide (structural clauses)
	NotDecided string   // what is left undecided
	Assumes    []string // standing assumptions
	Rules      []RuleDef
}

type RuleDef struct {
	ID   string
	Desc string
	Run  func(e *Engine)
}

var props = map[string]*Prop{}

func register(p *Prop) { props[p.ID] = p }

type KnownFinding struct {
	Property  string `json:"property"`
	Rule      string `json:"rule"`
	Construct string `json:"construct"`
	Status    string `json:"status"` // known | fixed
	Commit    string `json:"commit,omitempty"`
	What      string `json:"what"`
	Demo      string `json:"demo,omitempty"`
}

type Evidence struct {
	PropertyID  string                 `json:"property_id"`
	Tier        string                 `json:"tier"`
	Seed        int                    `json:"seed"`
	Level       string                 `json:"level"`
	Coverage    map[string]interface{} `json:"coverage"`
	Assumptions []string               `json:"assumptions"`
	WallS       float64                `json:"wall_s"`
	Violations  int                    `json:"violations"`
}

func main() {
	repo := flag.String("repo", "/repo", "repository root")
	prop := flag.String("prop", "", "property id (C01..C20) or 'all'")
	tier := flag.String("tier", "quick", "quick|thorough")
	verif := flag.String("verif", "/verif", "verif root (known findings, evidence)")
	replay := flag.String("replay", "", "re-evaluate the obligation stored in this violation file")
	list := flag.Bool("list", false, "list every obligation")
	noEvidence := flag.Bool("no-evidence", false, "do not write evidence files (used by self-tests on scratch copies)")
	extraFile := flag.String("extra", "", "JSON object to embed in coverage.thorough_extra (self-validation, cross-reference)")
	flag.Parse()

	if *replay != "" {
		os.Exit(doReplay(*repo, *verif, *replay))
	}
	if *prop == "" {
		fmt.Fprintln(os.Stderr, "usage: minicheck -prop C01 [-tier quick|thorough] [-repo /repo]")
		os.Exit(2)
	}
	ids := []string{*prop}
	if *prop == "all" {
		ids = nil
		for id := range props {
			ids = append(ids, id)
		}
		sort.Strings(ids)
	}
	seed := 0
	if s := os.Getenv("VERIF_SEED"); s != "" {
		seed, _ = strconv.Atoi(s)
	}
	if t := os.Getenv("VERIF_TIER"); t == "thorough" || t == "quick" {
		if !flagPassed("tier") {
			*tier = t
		}
	}
	rc := 0
	for _, id := range ids {
		p := props[id]
		if p == nil {
			fmt.Fprintf(os.Stderr, "unknown property %s\n", id)
			os.Exit(2)
		}
		r := runProp(p, *repo, *verif, *tier, seed, *list, !*noEvidence, *extraFile)
		if r > rc {
			rc = r
		}
	}
	os.Exit(rc)
}

func flagPassed(name string) bool {
	found := false
	flag.Visit(func(f *flag.Flag) {
		if f.Name == name {
			found = true
		}
	})
	return found
}

type config struct{ tags, goarch, label string }

func runProp(p *Prop, repo, verif, tier string, seed int, list, writeEvidence bool, extraFile string) int {
	t0 := time.Now()
	configs := []config{{"verif", "", "default(tags=verif)"}}
	if tier == "thorough" {
		configs = append(configs, config{"", "", "tags-off"}, config{"verif", "386", "GOARCH=386"})
	}
	kfs := loadKnown(verif)
	var allObs []Ob
	var notes, assumes []string
	violations := 0
	known := 0
	files := 0
	nfuncs := 0
	type vio struct {
		ob  Ob
		cfg string
	}
	var vios []vio
	printedKF := map[string]bool{}
	firstCfgObs := 0
	for ci, cfg := range configs {
		e, err := load(repo, cfg.tags, cfg.goarch)
		if err != nil {
			fmt.Printf("ERROR property=%s config=%s: %v\n", p.ID, cfg.label, err)
			// a tree that does not load cannot be decided: report as violation of the check's precondition
			path := writeViolation(verif, p.ID, Ob{Rule: "LOAD", Construct: "load:" + cfg.label, Detail: err.Error(), VerdictS: "UNDECIDED"})
			fmt.Printf("VIOLATION property=%s replay=%s\n", p.ID, path)
			return 1
		}
		files, nfuncs = e.files, len(e.all)
		debugCensus(e)
		for _, r := range p.Rules {
			before := len(e.obs)
			func() {
				defer func() {
					if rec := recover(); rec != nil {
						e.ob(r.ID, "panic:"+r.ID, "-", Undecided, false, "rule panicked: %v", rec)
						if os.Getenv("MINICHECK_DEBUG") != "" {
							panic(rec)
						}
					}
				}()
				r.Run(e)
			}()
			if len(e.obs) == before {
				e.ob(r.ID, "count:"+r.ID, "-", Undecided, false, "rule produced no obligation: it would pass vacuously")
			}
		}
		sort.SliceStable(e.obs, func(i, j int) bool {
			if e.obs[i].Rule != e.obs[j].Rule {
				return ruleLess(e.obs[i].Rule, e.obs[j].Rule)
			}
			return e.obs[i].Construct < e.obs[j].Construct
		})
		if ci == 0 {
			allObs = e.obs
			notes, assumes = e.notes, e.assume
			firstCfgObs = len(e.obs)
		}
		for _, o := range e.obs {
			if o.Verdict == Fail || o.Verdict == Undecided {
				if kf := matchKnown(kfs, p.ID, o); kf != nil {
					key := o.Rule + "|" + o.Construct
					if !printedKF[key] {
						printedKF[key] = true
						known++
						fmt.Printf("KNOWN-FINDING: property=%s rule=%s construct=%s at %s: %s\n", p.ID, o.Rule, o.Construct, o.Pos, kf.What)
					}
					continue
				}
				dup := false
				for _, v := range vios {
					if v.ob.Rule == o.Rule && v.ob.Construct == o.Construct {
						dup = true
					}
				}
				if !dup {
					vios = append(vios, vio{o, cfg.label})
				}
			}
		}
		if ci > 0 {
			notes = append(notes, fmt.Sprintf("config %s: %d obligations evaluated (default: %d)", cfg.label, len(e.obs), firstCfgObs))
		}
	}
	// stale known findings (listed as known but not observed) are reported, never fatal
	for _, kf := range kfs {
		if kf.Property == p.ID && kf.Status == "known" && !printedKF[kf.Rule+"|"+kf.Construct] {
			fmt.Printf("NOTE property=%s known finding not observed on this tree (rule=%s construct=%s); consider marking it fixed\n", p.ID, kf.Rule, kf.Construct)
		}
	}
	violations = len(vios)
	for _, v := range vios {
		path := writeViolation(verif, p.ID, v.ob)
		fmt.Printf("%s property=%s rule=%s construct=%s at %s [%s]: %s\n", v.ob.VerdictS, p.ID, v.ob.Rule, v.ob.Construct, v.ob.Pos, v.cfg, v.ob.Detail)
		fmt.Printf("VIOLATION property=%s replay=%s\n", p.ID, path)
	}
	// summary
	total, discharged, assumed := 0, 0, 0
	distinct := map[string]bool{}
	perRule := map[string][2]int{}
	for _, o := range allObs {
		total++
		pr := perRule[o.Rule]
		pr[0]++
		if o.Verdict == Pass || o.Verdict == Assumed {
			discharged++
			pr[1]++
		}
		if o.Verdict == Assumed {
			assumed++
		}
		perRule[o.Rule] = pr
		if o.NonTrivial {
			distinct[o.Rule+"|"+o.Construct] = true
		}
	}
	if list {
		for _, o := range allObs {
			fmt.Printf("  %-9s %s %-40s %s  %s\n", o.VerdictS, o.Rule, o.Construct, o.Pos, o.Detail)
		}
	}
	var ruleSumm []string
	var ruleIDs []string
	for r := range perRule {
		ruleIDs = append(ruleIDs, r)
	}
	sort.Slice(ruleIDs, func(i, j int) bool { return ruleLess(ruleIDs[i], ruleIDs[j]) })
	for _, r := range ruleIDs {
		ruleSumm = append(ruleSumm, fmt.Sprintf("%s:%d/%d", r, perRule[r][1], perRule[r][0]))
	}
	wall := time.Since(t0).Seconds()
	fmt.Printf("property=%s tier=%s packages=6 files=%d functions=%d obligations=%d discharged=%d known-findings=%d violations=%d [%s] %.1fs\n",
		p.ID, tier, files, nfuncs, total, discharged, known, violations, strings.Join(ruleSumm, " "), wall)

	if writeEvidence {
		var samples []interface{}
		// sample: up to 3 per rule, preferring non-trivial
		cnt := map[string]int{}
		for _, o := range allObs {
			if cnt[o.Rule] >= 3 {
				continue
			}
			cnt[o.Rule]++
			samples = append(samples, o)
		}
		var ruleDescs []string
		for _, r := range p.Rules {
			ruleDescs = append(ruleDescs, r.ID+": "+r.Desc)
		}
		var cfgLabels []string
		for _, c := range configs {
			cfgLabels = append(cfgLabels, c.label)
		}
		ev := Evidence{PropertyID: p.ID, Tier: tier, Seed: seed, Level: "other", WallS: wall, Violations: violations,
			Assumptions: append(append([]string{}, p.Assumes...), assumes...),
			Coverage: map[string]interface{}{
				"explanation": "Static analysis of /repo's current source (go/packages type-checked AST + go/ssa + VTA call graph; nothing is executed). DECIDED: " + p.Decided +
					" NOT DECIDED: " + p.NotDecided,
				"evaluations":         total,
				"distinct_nontrivial": len(distinct),
				"rule":                "one evaluation = one rule instance on one construct of the current source (a field access, a call site, a path, a table entry); non-trivial = needed a dominance/dataflow/path/table argument rather than a bare lookup; distinct = distinct (rule, construct) pairs. Rules: " + strings.Join(ruleDescs, " | "),
				"samples":             samples,
				"obligations":         total,
				"discharged":          discharged,
				"assumed":             assumed,
				"known_findings":      known,
				"per_rule":            ruleSumm,
				"analysed":            map[string]interface{}{"packages": 6, "files": files, "functions": nfuncs, "configurations": cfgLabels},
				"notes":               notes,
				"exhaustive":          false,
			}}
		if extraFile != "" {
			if b, err := os.ReadFile(extraFile); err == nil {
				var x interface{}
				if json.Unmarshal(b, &x) == nil {
					ev.Coverage["thorough_extra"] = x
				}
			}
		}
		if ev.Assumptions == nil {
			ev.Assumptions = []string{}
		}
		os.MkdirAll(filepath.Join(verif, "evidence"), 0o755)
		b, _ := json.MarshalIndent(ev, "", " ")
		if err := os.WriteFile(filepath.Join(verif, "evidence", p.ID+".json"), b, 0o644); err != nil {
			fmt.Fprintf(os.Stderr, "cannot write evidence: %v\n", err)
			return 2
		}
	}
	if violations > 0 {
		return 1
	}
	return 0
}

func ruleLess(a, b string) bool {
	// natural order R1 < R2 < R10, L1...
	na, nb := strings.TrimLeft(a, "RLTABCDEFGHIJKMNOPQSUVWXYZ"), strings.TrimLeft(b, "RLTABCDEFGHIJKMNOPQSUVWXYZ")
	ia, ea := strconv.Atoi(strings.SplitN(na, ".", 2)[0])
	ib, eb := strconv.Atoi(strings.SplitN(nb, ".", 2)[0])
	if ea == nil && eb == nil && ia != ib {
		return ia < ib
	}
	return a < b
}

func loadKnown(verif string) []KnownFinding {
	b, err := os.ReadFile(filepath.Join(verif, "known_findings.json"))
	if err != nil {
		return nil
	}
	var out []KnownFinding
	if err := json.Unmarshal(b, &out); err != nil {
		fmt.Fprintf(os.Stderr, "known_findings.json does not parse: %v\n", err)
		os.Exit(2)
	}
	return out
}

func matchKnown(kfs []KnownFinding, prop string, o Ob) *KnownFinding {
	for i := range kfs {
		k := &kfs[i]
		if k.Status == "known" && k.Property == prop && k.Rule == o.Rule && k.Construct == o.Construct {
			return k
		}
	}
	return nil
}

func writeViolation(verif, prop string, o Ob) string {
	dir := filepath.Join(verif, "evidence", "violations")
	os.MkdirAll(dir, 0o755)
	h := sha1.Sum([]byte(o.Rule + "|" + o.Construct))
	path := filepath.Join(dir, fmt.Sprintf("%s-%s-%x.json", prop, o.Rule, h[:4]))
	b, _ := json.MarshalIndent(map[string]interface{}{"property": prop, "rule": o.Rule, "construct": o.Construct, "pos": o.Pos, "verdict": o.VerdictS, "detail": o.Detail}, "", " ")
	os.WriteFile(path, b, 0o644)
	return path
}

func doReplay(repo, verif, path string) int {
	b, err := os.ReadFile(path)
	if err != nil {
		fmt.Fprintln(os.Stderr, err)
		return 2
	}
	var v struct{ Property, Rule, Construct string }
	if err := json.Unmarshal(b, &v); err != nil {
		fmt.Fprintln(os.Stderr, err)
		return 2
	}
	p := props[v.Property]
	if p == nil {
		fmt.Fprintln(os.Stderr, "unknown property", v.Property)
		return 2
	}
	e, err := load(repo, "verif", "")
	if err != nil {
		fmt.Println("ERROR", err)
		return 1
	}
	for _, r := range p.Rules {
		if r.ID == v.Rule || strings.HasPrefix(v.Rule, r.ID) {
			r.Run(e)
		}
	}
	rc := 0
	found := false
	for _, o := range e.obs {
		if o.Rule == v.Rule && o.Construct == v.Construct {
			found = true
			fmt.Printf("%s property=%s rule=%s construct=%s at %s: %s\n", o.VerdictS, v.Property, o.Rule, o.Construct, o.Pos, o.Detail)
			if o.Verdict == Fail || o.Verdict == Undecided {
				rc = 1
			}
		}
	}
	if !found {
		fmt.Printf("obligation rule=%s construct=%s is no longer produced on this tree\n", v.Rule, v.Construct)
	}
	return rc
}
