package main

import (
	"go/token"
	"go/types"

	"golang.org/x/tools/go/ssa"
)

// Must-non-nil analysis for pointer, slice and map values (T-GUARD). The internal attribute representation encodes the
// TYPE of a value in which field is non-nil, so "an empty list is still a list" is the statement that the L field is
// provably non-nil wherever a list is written.

type nonNil struct {
	e      *Engine
	inProg map[ssa.Value]bool
	fnMemo map[*ssa.Function]int // 0 unknown, 1 in progress/true, 2 false
	fields map[*types.Var]int    // field invariants: 1 in progress/true, 2 false
}

func (e *Engine) newNonNil() *nonNil {
	return &nonNil{e: e, inProg: map[ssa.Value]bool{}, fnMemo: map[*ssa.Function]int{}, fields: map[*types.Var]int{}}
}

// val: v is non-nil whenever control is at block `at` (nil: no branch facts used).
func (a *nonNil) val(v ssa.Value, at *ssa.BasicBlock) bool {
	if v == nil {
		return false
	}
	if a.inProg[v] {
		return true // coinductive: a loop-carried value is non-nil if every entry into the cycle is
	}
	a.inProg[v] = true
	defer delete(a.inProg, v)
	switch x := v.(type) {
	case *ssa.Alloc, *ssa.MakeSlice, *ssa.MakeMap, *ssa.MakeClosure, *ssa.Function, *ssa.FieldAddr, *ssa.IndexAddr, *ssa.Global:
		return true
	case *ssa.MakeInterface:
		return true
	case *ssa.Const:
		return x.Value != nil // typed nil constants have a nil Value
	case *ssa.ChangeType:
		return a.val(x.X, at)
	case *ssa.Slice:
		// s[i:j] of a non-nil slice / of an array is non-nil
		if _, isPtr := x.X.Type().Underlying().(*types.Pointer); isPtr {
			return a.val(x.X, at)
		}
		if _, isStr := x.X.Type().Underlying().(*types.Basic); isStr {
			return true
		}
		return a.val(x.X, at)
	case *ssa.Phi:
		for i, ed := range x.Edges {
			if !a.val(ed, x.Block().Preds[i]) {
				return false
			}
		}
		return true
	case *ssa.Call:
		if staticCalleeName(x) == "builtin.append" {
			if a.val(x.Call.Args[0], at) {
				return true
			}
			if len(x.Call.Args) > 1 && len(variadicElems(x.Call.Args[1])) >= 1 {
				return true // appending at least one element yields a non-nil slice
			}
			return false
		}
		g := x.Call.StaticCallee()
		if g == nil {
			return false
		}
		if g.Blocks == nil || a.e.fnRole(g) == "" {
			// SDK pointer helpers: aws.String(v) = &v
			if isPtrHelper(g) {
				_, resPtr := g.Signature.Results().At(0).Type().Underlying().(*types.Pointer)
				_, parPtr := g.Signature.Params().At(0).Type().Underlying().(*types.Pointer)
				return resPtr && !parPtr
			}
			return false
		}
		return a.fn(g, 0, x)
	case *ssa.Extract:
		if c, ok := x.Tuple.(*ssa.Call); ok {
			if g := c.Call.StaticCallee(); g != nil && g.Blocks != nil && a.e.fnRole(g) != "" {
				return a.fn(g, x.Index, c)
			}
		}
		return false
	case *ssa.UnOp:
		if x.Op != token.MUL {
			return false
		}
		// a field of a struct built locally: every store into it is non-nil and one of them dominates this load
		if fa, ok := x.X.(*ssa.FieldAddr); ok {
			if al, ok := fa.X.(*ssa.Alloc); ok && !escapesBeforeReturn(al) {
				dominated, all := false, true
				n := 0
				for _, r := range refsOf(al) {
					fa2, ok := r.(*ssa.FieldAddr)
					if !ok || fa2.Field != fa.Field {
						continue
					}
					for _, st := range storesTo(fa2) {
						n++
						if !a.val(st.Val, st.Block()) {
							all = false
						}
						if idominates(st, x) {
							dominated = true
						}
					}
				}
				if n > 0 && all && dominated {
					return true
				}
			}
		}
		if a.guarded(x, at) {
			return true
		}
		// a field of one of the repository's own object types that is non-nil in every object ever built
		if fa, ok := x.X.(*ssa.FieldAddr); ok {
			if f := fieldOf(fa); f != nil && f.Pkg() != nil && a.e.roleOf(f.Pkg()) != "" {
				return a.fieldInvariant(f, namedOf(fa.X.Type()))
			}
		}
		return false
	}
	return a.guarded(v, at)
}

// fieldInvariant: field f of struct type owner is non-nil in every value of that type the six packages build: every
// store into it is non-nil and every allocation of the struct initialises it (a literal that leaves it out leaves nil).
func (a *nonNil) fieldInvariant(f *types.Var, owner *types.Named) bool {
	if owner == nil {
		return false
	}
	if st := a.fields[f]; st != 0 {
		return st == 1
	}
	a.fields[f] = 1
	ok := true
	for _, fn := range a.e.all {
		instrs(fn, func(in ssa.Instruction) {
			if !ok {
				return
			}
			switch x := in.(type) {
			case *ssa.Alloc:
				if namedOf(x.Type()) != owner {
					return
				}
				if _, isPtrToStruct := x.Type().Underlying().(*types.Pointer).Elem().Underlying().(*types.Struct); !isPtrToStruct {
					return
				}
				init := false
				for _, r := range refsOf(x) {
					if fa, isFA := r.(*ssa.FieldAddr); isFA && fieldOf(fa) == f && len(storesTo(fa)) > 0 {
						init = true
					}
					if st, isSt := r.(*ssa.Store); isSt && st.Addr == ssa.Value(x) {
						init = true // whole-value copy of another object of the type
					}
				}
				if !init {
					ok = false
				}
			case *ssa.Store:
				if fa, isFA := x.Addr.(*ssa.FieldAddr); isFA && fieldOf(fa) == f {
					if !a.val(x.Val, x.Block()) {
						ok = false
					}
				}
			}
		})
	}
	if ok {
		a.fields[f] = 1
	} else {
		a.fields[f] = 2
	}
	return ok
}

// guarded: a nil test of the same value (or of a load of the same field of the same base) holds at block `at`.
func (a *nonNil) guarded(v ssa.Value, at *ssa.BasicBlock) bool {
	if at == nil {
		return false
	}
	f, base := loadedFieldDeep(v)
	_, ok := knownNilness(at, func(x ssa.Value) bool {
		if x == v {
			return true
		}
		f2, base2 := loadedFieldDeep(x)
		return f != nil && f2 == f && base2 == base
	})
	return ok
}

// fn: result idx of g is non-nil on every return. When the function hands back nil only for a nil argument (copy helpers:
// `if p == nil { return nil }`), the result is non-nil wherever the argument is – call gives the site to judge that.
func (a *nonNil) fn(g *ssa.Function, idx int, call *ssa.Call) bool {
	for _, r := range returnsOf(g) {
		rv := retVals(r)
		if idx >= len(rv) {
			return false
		}
		if a.val(rv[idx], r.Block()) {
			continue
		}
		// nil returned on the "argument is nil" edge only
		excused := false
		if isNilConst(rv[idx]) && call != nil {
			for _, cd := range condsAt(r.Block()) {
				x, nonNilOnTrue, ok := nilTest(cd.V)
				if !ok || cd.Val == nonNilOnTrue {
					continue
				}
				if p, isP := x.(*ssa.Parameter); isP {
					for i, q := range g.Params {
						if q == p && i < len(call.Call.Args) && a.val(call.Call.Args[i], call.Block()) {
							excused = true
						}
					}
				}
			}
		}
		if !excused {
			return false
		}
	}
	return true
}

// escapesBeforeReturn: the local struct's address is handed to a call or stored somewhere (so fields may change behind
// the analysis' back). Returning a copy of the struct value does not count.
func escapesBeforeReturn(al *ssa.Alloc) bool {
	for _, r := range refsOf(al) {
		switch u := r.(type) {
		case *ssa.FieldAddr, *ssa.UnOp:
		case *ssa.Store:
			if u.Val == ssa.Value(al) {
				return true
			}
		case ssa.CallInstruction:
			return true
		case *ssa.MakeInterface, *ssa.MakeClosure:
			return true
		default:
			_ = u
		}
	}
	return false
}
