package main

import (
	"fmt"
	"go/types"
	"os"

	"golang.org/x/tools/go/ssa"
)

// debugCensus prints assertion / indexing sites (developer aid; enabled with MINICHECK_CENSUS=1).
func debugCensus(e *Engine) {
	if os.Getenv("MINICHECK_CENSUS") == "" {
		return
	}
	for _, fn := range e.funcs("lang", "interp") {
		instrs(fn, func(in ssa.Instruction) {
			switch x := in.(type) {
			case *ssa.TypeAssert:
				if !x.CommaOk {
					fmt.Printf("ASSERT %s %s -> %s\n", e.ipos(in), e.fname(fn), typeName(x.AssertedType))
				}
			case *ssa.IndexAddr:
				if _, isArr := x.X.Type().Underlying().(*types.Pointer); isArr {
					return
				}
				fmt.Printf("INDEX  %s %s %s[%s]\n", e.ipos(in), e.fname(fn), x.X.Name(), x.Index)
			case *ssa.Index:
				fmt.Printf("INDEXV %s %s %s[%s] %s\n", e.ipos(in), e.fname(fn), x.X.Name(), x.Index, typeName(x.X.Type()))
			case *ssa.Lookup:
				if b, ok := x.X.Type().Underlying().(*types.Basic); ok && b.Info()&types.IsString != 0 {
					fmt.Printf("STRIDX %s %s %s[%s]\n", e.ipos(in), e.fname(fn), x.X.Name(), x.Index)
				}
			case *ssa.Slice:
				if _, isArr := x.X.Type().Underlying().(*types.Pointer); isArr {
					return
				}
				fmt.Printf("SLICE  %s %s %s[%v:%v]\n", e.ipos(in), e.fname(fn), x.X.Name(), x.Low, x.High)
			}
		})
	}
}
