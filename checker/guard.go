package main

import (
	"fmt"
	"go/token"
	"go/types"
	"os"
	"strings"

	"golang.org/x/tools/go/ssa"
)

// T-GUARD: facts that make type assertions and indexing safe.

type guard struct {
	e      *Engine
	tagOf  map[string]string // type name (lang) -> ObjectType tag its Type() returns
	typeOf map[string]string // tag -> type name
	depth  int
	env    func(ssa.Value) (int64, bool) // constants bound in the calling context under analysis (closure free variables)
	ctx    []callCtx                     // calls whose callee's returns are being classified (innermost last)
	assume map[ssa.Value]string          // object root -> tag known from the dynamic dispatch under analysis (the receiver of an invoke that selected the method being analysed)
}

// resolveArg: a parameter of the function whose returns are being classified (callTagOf) stands for the argument of the
// call under analysis – so a constant operator handed down through a forwarding method is still known.
func (g *guard) resolveArg(v ssa.Value) ssa.Value {
	for k := len(g.ctx) - 1; k >= 0; k-- {
		p, ok := strip(v).(*ssa.Parameter)
		if !ok || p.Parent() != g.ctx[k].callee {
			break
		}
		idx := -1
		for i, q := range p.Parent().Params {
			if q == p {
				idx = i
			}
		}
		cc := g.ctx[k].call.Common()
		if cc.IsInvoke() {
			idx--
		}
		if idx < 0 || idx >= len(cc.Args) {
			break
		}
		v = cc.Args[idx]
	}
	return v
}

// objRoot: the object an interface value denotes, through wrappers and assertions to other interface types.
func objRoot(v ssa.Value) ssa.Value {
	for i := 0; i < 6; i++ {
		v = strip(v)
		switch x := v.(type) {
		case *ssa.Extract:
			if ta, ok := x.Tuple.(*ssa.TypeAssert); ok && x.Index == 0 {
				if _, isIface := ta.AssertedType.Underlying().(*types.Interface); isIface {
					v = ta.X
					continue
				}
			}
		case *ssa.TypeAssert:
			if _, isIface := x.AssertedType.Underlying().(*types.Interface); isIface && !x.CommaOk {
				v = x.X
				continue
			}
		}
		return v
	}
	return v
}

// constIntEnv: a constant, or a value the calling context under analysis binds to one.
func (g *guard) constIntEnv(v ssa.Value) (int64, bool) {
	if c, ok := constInt(v); ok {
		return c, true
	}
	if g.env != nil {
		return g.env(strip(v))
	}
	return 0, false
}

func (e *Engine) newGuard() *guard {
	g := &guard{e: e, tagOf: map[string]string{}, typeOf: map[string]string{}}
	for _, fn := range e.funcs("lang") {
		if fn.Name() != "Type" || fn.Signature.Recv() == nil {
			continue
		}
		nt := namedOf(fn.Signature.Recv().Type())
		if nt == nil {
			continue
		}
		for _, r := range returnsOf(fn) {
			if s, ok := constString(retVals(r)[0]); ok {
				g.tagOf[nt.Obj().Name()] = s
				g.typeOf[s] = nt.Obj().Name()
			}
		}
	}
	return g
}

// typeCallOn: v is `x.Type()` (invoke of method Type on an Object) → x
func typeCallOn(v ssa.Value) (ssa.Value, bool) {
	c, ok := strip(v).(*ssa.Call)
	if !ok || !c.Call.IsInvoke() || c.Call.Method.Name() != "Type" {
		return nil, false
	}
	return c.Call.Value, true
}

// sameObj: two interface values denote the same object (same SSA value modulo wrappers).
func sameObj(a, b ssa.Value) bool { return strip(a) == strip(b) }

// dynTag returns the ObjectType tag that value v is known to carry at block b ("" if unknown).
func (g *guard) dynTag(v ssa.Value, b *ssa.BasicBlock, depth int) string {
	if depth > 4 {
		return ""
	}
	v0 := v
	v = strip(v)
	if t, ok := g.assume[objRoot(v)]; ok {
		return t
	}
	// static knowledge: interface made from a concrete pointer type
	if mi, ok := v0.(*ssa.MakeInterface); ok {
		if nt := namedOf(mi.X.Type()); nt != nil {
			if t, ok := g.tagOf[nt.Obj().Name()]; ok {
				return t
			}
		}
	}
	if nt := namedOf(v.Type()); nt != nil {
		if _, isIface := v.Type().Underlying().(*types.Interface); !isIface {
			if t, ok := g.tagOf[nt.Obj().Name()]; ok {
				return t
			}
		}
	}
	conds := condsAt(b)
	// direct tests
	for _, cd := range conds {
		cd = normCond(cd)
		switch x := cd.V.(type) {
		case *ssa.BinOp:
			if x.Op != token.EQL && x.Op != token.NEQ {
				continue
			}
			eq := (x.Op == token.EQL) == cd.Val
			if !eq {
				continue
			}
			if o, ok := typeCallOn(x.X); ok && sameObj(o, v) {
				if s, ok := constString(x.Y); ok {
					return s
				}
			}
			if o, ok := typeCallOn(x.Y); ok && sameObj(o, v) {
				if s, ok := constString(x.X); ok {
					return s
				}
			}
		case *ssa.Call:
			if !cd.Val {
				continue
			}
			// matchTypes(C, objs...) / isNumber(x) / isString(x) style helpers
			if tag, objs, ok := g.typeHelper(x); ok {
				for _, o := range objs {
					if sameObj(o, v) {
						if tag != "" {
							return tag
						}
					}
				}
			}
		case *ssa.Extract:
			// comma-ok assertion of the same value
			if ta, ok := x.Tuple.(*ssa.TypeAssert); ok && x.Index == 1 && cd.Val && sameObj(ta.X, v) {
				if nt := namedOf(ta.AssertedType); nt != nil {
					if t, ok := g.tagOf[nt.Obj().Name()]; ok {
						return t
					}
				}
			}
		}
	}
	// same-type classes: Type(v) == Type(w) or matchTypes(Type(w), …v…) with a known tag for w
	for _, cd := range conds {
		cd = normCond(cd)
		if !cd.Val {
			if b2, ok := cd.V.(*ssa.BinOp); !ok || b2.Op != token.NEQ {
				continue
			}
		}
		var peers []ssa.Value
		switch x := cd.V.(type) {
		case *ssa.BinOp:
			eq := (x.Op == token.EQL) == cd.Val
			if !eq {
				continue
			}
			a, ok1 := typeCallOn(x.X)
			c, ok2 := typeCallOn(x.Y)
			if ok1 && ok2 {
				if sameObj(a, v) {
					peers = append(peers, c)
				} else if sameObj(c, v) {
					peers = append(peers, a)
				}
			}
		case *ssa.Call:
			if tagV, objs, ok := g.typeHelperDyn(x); ok && cd.Val {
				in := false
				for _, o := range objs {
					if sameObj(o, v) {
						in = true
					}
				}
				if in {
					peers = append(peers, tagV)
					for _, o := range objs {
						if !sameObj(o, v) {
							peers = append(peers, o)
						}
					}
				}
			}
		}
		for _, p := range peers {
			if t := g.dynTag(p, b, depth+1); t != "" {
				return t
			}
		}
	}
	// earlier unconditional exits: `if x.Type() != C { return }` dominating b are covered by condsAt.
	// parameter: all call sites establish the tag, or establish that it has the same tag as another parameter whose tag is known here
	if p, ok := v.(*ssa.Parameter); ok {
		if t := g.paramTag(p, depth); t != "" {
			return t
		}
		for _, q := range p.Parent().Params {
			if q == p || !isObjectIface(q.Type()) {
				continue
			}
			if g.sameClassAtAllCallSites(p, q) {
				if t := g.localTag(q, b); t != "" {
					return t
				}
			}
		}
		return ""
	}
	// result of a call whose every (selected) return carries one tag
	if c, ok := v.(*ssa.Call); ok {
		return g.callTag(c, depth)
	}
	if ex, ok := v.(*ssa.Extract); ok {
		if ta, ok := ex.Tuple.(*ssa.TypeAssert); ok && ex.Index == 0 {
			if nt := namedOf(ta.AssertedType); nt != nil {
				return g.tagOf[nt.Obj().Name()]
			}
		}
	}
	if ph, ok := v.(*ssa.Phi); ok {
		tag := ""
		for i, ed := range ph.Edges {
			t := g.dynTag(ed, ph.Block().Preds[i], depth+1)
			if t == "" || (tag != "" && t != tag) {
				return ""
			}
			tag = t
		}
		return tag
	}
	return ""
}

// typeHelper recognises calls of helper predicates whose truth implies a constant tag for their arguments:
// matchTypes(C, objs...) and single-object predicates (isNumber, isString, …) – verified by shape, not by name.
func (g *guard) typeHelper(c *ssa.Call) (string, []ssa.Value, bool) {
	f := c.Call.StaticCallee()
	if f == nil || g.e.fnRole(f) != "lang" || f.Signature.Results().Len() != 1 {
		return "", nil, false
	}
	if g.isMatchTypes(f) {
		tag, _ := constString(c.Call.Args[0])
		return tag, variadicElems(c.Call.Args[1]), true
	}
	// single-object predicate: returns obj.Type() == C (possibly under obj != nil)
	if len(f.Params) == 1 {
		tag := ""
		okShape := true
		for _, r := range returnsOf(f) {
			rv := retVals(r)[0]
			if b, isB := constBool(rv); isB {
				if b {
					okShape = false
				}
				continue
			}
			bo, ok := rv.(*ssa.BinOp)
			if !ok || bo.Op != token.EQL {
				okShape = false
				continue
			}
			if o, ok := typeCallOn(bo.X); ok && sameObj(o, f.Params[0]) {
				if s, ok := constString(bo.Y); ok {
					tag = s
					continue
				}
			}
			okShape = false
		}
		if okShape && tag != "" {
			return tag, []ssa.Value{c.Call.Args[0]}, true
		}
	}
	return "", nil, false
}

// typeHelperDyn: matchTypes(x.Type(), objs...) – all objs share x's tag.
func (g *guard) typeHelperDyn(c *ssa.Call) (ssa.Value, []ssa.Value, bool) {
	f := c.Call.StaticCallee()
	if f == nil || !g.isMatchTypes(f) {
		return nil, nil, false
	}
	if o, ok := typeCallOn(c.Call.Args[0]); ok {
		return o, variadicElems(c.Call.Args[1]), true
	}
	return nil, nil, false
}

// isMatchTypes: func(typ T, objs ...Object) bool that returns true only if every element's Type() equals typ.
func (g *guard) isMatchTypes(f *ssa.Function) bool {
	if len(f.Params) != 2 || !f.Signature.Variadic() || g.e.fnRole(f) != "lang" {
		return false
	}
	// shape: a false return under `typ != o.Type()` inside a range over objs; true return only after the loop
	falseUnderNeq, trueAfter := false, false
	for _, r := range returnsOf(f) {
		b, ok := constBool(retVals(r)[0])
		if !ok {
			return false
		}
		if !b {
			for _, cd := range condsAt(r.Block()) {
				cd = normCond(cd)
				if bo, ok := cd.V.(*ssa.BinOp); ok && ((bo.Op == token.NEQ && cd.Val) || (bo.Op == token.EQL && !cd.Val)) {
					if bo.X == ssa.Value(f.Params[0]) || bo.Y == ssa.Value(f.Params[0]) {
						falseUnderNeq = true
					}
				}
			}
		} else {
			trueAfter = true
		}
	}
	return falseUnderNeq && trueAfter
}

func (g *guard) paramTag(p *ssa.Parameter, depth int) string {
	fn := p.Parent()
	idx := -1
	for i, q := range fn.Params {
		if q == p {
			idx = i
		}
	}
	callers := g.e.callersOf(fn)
	if len(callers) == 0 || idx < 0 {
		return ""
	}
	tag := ""
	for _, c := range callers {
		args := c.Common().Args
		ai := idx
		if c.Common().IsInvoke() {
			ai = idx - 1
		}
		if ai < 0 || ai >= len(args) {
			return ""
		}
		// where the facts about the arguments are to be taken: at the call – or, when the callee is chosen among several
		// function values (cmp := evalNumberInfixExpression in one switch case, evalStringInfixExpression in another), at
		// the end of the branch that chose THIS function
		blocks := []*ssa.BasicBlock{c.(ssa.Instruction).Block()}
		if ph, isPhi := c.Common().Value.(*ssa.Phi); isPhi && c.Common().StaticCallee() == nil && !c.Common().IsInvoke() {
			var chosen []*ssa.BasicBlock
			for i, ed := range ph.Edges {
				for _, f := range g.e.closuresOf(ed, nil, 0) {
					if f == fn {
						chosen = append(chosen, ph.Block().Preds[i])
					}
				}
			}
			if len(chosen) > 0 {
				blocks = chosen
			}
		}
		// dynamic dispatch: this call reaches fn only when the receiver's dynamic type is fn's receiver type
		saved := g.assume
		if c.Common().IsInvoke() && fn.Signature.Recv() != nil {
			if nt := namedOf(fn.Signature.Recv().Type()); nt != nil {
				if rt, ok := g.tagOf[nt.Obj().Name()]; ok {
					g.assume = map[ssa.Value]string{}
					for k, v := range saved {
						g.assume[k] = v
					}
					g.assume[objRoot(c.Common().Value)] = rt
				}
			}
		}
		for _, blk := range blocks {
			t := g.dynTag(args[ai], blk, depth+1)
			if t == "" || (tag != "" && t != tag) {
				g.assume = saved
				return ""
			}
			tag = t
		}
		g.assume = saved
	}
	return tag
}

// callTag: the tag of a call's result when every return consistent with the call's constant arguments carries it.
func (g *guard) callTag(c *ssa.Call, depth int) string {
	f := c.Call.StaticCallee()
	if f == nil {
		// a call through a function value chosen among known functions, or a dynamically dispatched method: all of the
		// possible callees must agree
		var fs []*ssa.Function
		if c.Call.IsInvoke() {
			fs = g.e.callees(c)
		} else {
			fs = g.e.closuresOf(c.Call.Value, nil, 0)
		}
		tag := ""
		for _, h := range fs {
			t := g.callTagOf(c, h, depth)
			if t == "" || (tag != "" && t != tag) {
				return ""
			}
			tag = t
		}
		return tag
	}
	return g.callTagOf(c, f, depth)
}

func (g *guard) callTagOf(c *ssa.Call, f *ssa.Function, depth int) string {
	if f == nil || f.Blocks == nil || g.e.fnRole(f) == "" {
		return ""
	}
	tag := ""
	n := 0
	for _, r := range returnsOf(f) {
		// skip returns excluded by a constant argument (switch on a string parameter)
		excluded := false
		for _, cd := range condsAt(r.Block()) {
			cd = normCond(cd)
			bo, ok := cd.V.(*ssa.BinOp)
			if !ok || bo.Op != token.EQL {
				continue
			}
			p, isP := bo.X.(*ssa.Parameter)
			k, isK := constString(bo.Y)
			if !isP || !isK {
				continue
			}
			for i, q := range f.Params {
				ai := i
				if c.Call.IsInvoke() {
					ai = i - 1 // the receiver is not among the arguments of an invoke
				}
				if q == p && ai >= 0 && ai < len(c.Call.Args) {
					if actual, isC := constString(g.resolveArg(c.Call.Args[ai])); isC {
						if (actual == k) != cd.Val {
							excluded = true
						}
					}
				}
			}
		}
		if excluded {
			continue
		}
		n++
		g.ctx = append(g.ctx, callCtx{c, f})
		t := g.dynTag(retVals(r)[0], r.Block(), depth+1)
		g.ctx = g.ctx[:len(g.ctx)-1]
		if t == "" || (tag != "" && t != tag) {
			return ""
		}
		tag = t
	}
	if n == 0 {
		return ""
	}
	return tag
}

// ---------- length facts ----------

// sameSlice: two values denote the same slice (same SSA value, or loads of the same field of the same base with no store in between – approximated by same field and base).
func sameSlice(a, b ssa.Value) bool {
	a, b = strip(a), strip(b)
	if a == b {
		return true
	}
	fa, ba := loadedFieldDeep(a)
	fb, bb := loadedFieldDeep(b)
	return fa != nil && fa == fb && ba == bb
}

func lenOf(v ssa.Value) (ssa.Value, bool) {
	v = strip(v)
	if cv, ok := v.(*ssa.Convert); ok {
		v = strip(cv.X)
	}
	c, ok := v.(*ssa.Call)
	if ok && staticCalleeName(c) == "builtin.len" {
		return c.Call.Args[0], true
	}
	return nil, false
}

// lenLowerBound: the largest k such that the branch conditions at block b imply len(x) >= k.
func (g *guard) lenLowerBound(x ssa.Value, b *ssa.BasicBlock, depth int) int64 {
	var lb int64
	// statically known: slice of a fresh fixed-size array (variadic packing)
	if sl, ok := strip(x).(*ssa.Slice); ok && sl.Low == nil && sl.High == nil {
		if al, ok := sl.X.(*ssa.Alloc); ok {
			if p, ok := al.Type().Underlying().(*types.Pointer); ok {
				if arr, ok := p.Elem().Underlying().(*types.Array); ok {
					return arr.Len()
				}
			}
		}
	}
	for _, cd := range condsAt(b) {
		cd = normCond(cd)
		bo, ok := cd.V.(*ssa.BinOp)
		if !ok {
			continue
		}
		op, l, r := bo.Op, bo.X, bo.Y
		// normalise to len(x) OP const
		if s, isLen := lenOf(r); isLen && sameSlice(s, x) {
			l, r = r, l
			op = flipOp(op)
		}
		s, isLen := lenOf(l)
		if !isLen || !sameSlice(s, x) {
			continue
		}
		c, isC := g.constIntEnv(r)
		if !isC {
			continue
		}
		if !cd.Val {
			op = negOp(op)
		}
		var k int64
		switch op {
		case token.GTR:
			k = c + 1
		case token.GEQ, token.EQL:
			k = c
		case token.NEQ:
			if c == 0 {
				k = 1
			}
		}
		if k > lb {
			lb = k
		}
	}
	if lb == 0 && depth < 3 {
		if p, ok := strip(x).(*ssa.Parameter); ok {
			fn := p.Parent()
			idx := -1
			for i, q := range fn.Params {
				if q == p {
					idx = i
				}
			}
			callers := g.e.callersOf(fn)
			if len(callers) > 0 && idx >= 0 {
				min := int64(-1)
				for _, c := range callers {
					args := c.Common().Args
					if c.Common().StaticCallee() == nil {
						// called through a closure's free variable: fn was composed into the closure by a function-building
						// helper; the guard of the closure may compare with another value bound at the same site
						ks, ok := g.lenThroughClosure(fn, c, idx, depth)
						if !ok {
							return 0
						}
						for _, k := range ks {
							if min < 0 || k < min {
								min = k
							}
						}
						continue
					}
					if idx >= len(args) {
						return 0
					}
					k := g.lenLowerBound(args[idx], c.(ssa.Instruction).Block(), depth+1)
					if min < 0 || k < min {
						min = k
					}
				}
				if min > 0 {
					lb = min
				}
			}
		}
	}
	return lb
}

// lenThroughClosure: fn is called as `fv(args…)` inside a closure cf, fv a free variable of cf. For every site that builds
// cf with fn bound to fv (through a parameter of the building helper m, at a static call of m), the lower bound of the
// length of argument idx at the call, with cf's free variables resolved to the constants bound at that site.
func (g *guard) lenThroughClosure(fn *ssa.Function, c ssa.CallInstruction, idx int, depth int) ([]int64, bool) {
	fv, ok := freeVarOf(c.Common().Value)
	cf := c.Parent()
	if os.Getenv("MINICHECK_TRACE") != "" {
		fmt.Println("TRACE lenThroughClosure", fn.Name(), cf.Name(), ok, c.Common().Value)
	}
	if !ok || cf.Parent() == nil || idx >= len(c.Common().Args) {
		return nil, false
	}
	m := cf.Parent()
	bi := -1
	for i, v := range cf.FreeVars {
		if v == fv {
			bi = i
		}
	}
	var out []int64
	found := false
	okAll := true
	instrs(m, func(in ssa.Instruction) {
		mc, isMC := in.(*ssa.MakeClosure)
		if !isMC || mc.Fn != ssa.Value(cf) || bi < 0 {
			return
		}
		paramIdx := func(v ssa.Value) int {
			p, isP := strip(bindingValue(v)).(*ssa.Parameter)
			if !isP {
				return -1
			}
			for i, q := range m.Params {
				if q == p {
					return i
				}
			}
			return -1
		}
		pi := paramIdx(mc.Bindings[bi])
		if pi < 0 {
			okAll = false
			return
		}
		for _, mcall := range g.e.callersOf(m) {
			if mcall.Common().StaticCallee() != m || pi >= len(mcall.Common().Args) {
				if os.Getenv("MINICHECK_TRACE") != "" {
					fmt.Println("TRACE lenThroughClosure nonstatic", mcall, mcall.Parent().Name(), pi, len(mcall.Common().Args))
				}
				okAll = false
				continue
			}
			binds := false
			for _, f := range g.e.closuresOf(mcall.Common().Args[pi], nil, 0) {
				if f == fn {
					binds = true
				}
			}
			if !binds {
				continue
			}
			found = true
			margs := mcall.Common().Args
			saved := g.env
			g.env = func(v ssa.Value) (int64, bool) {
				if x, isFV := freeVarOf(v); isFV {
					for i, q := range cf.FreeVars {
						if q == x {
							if j := paramIdx(mc.Bindings[i]); j >= 0 && j < len(margs) {
								return constInt(margs[j])
							}
						}
					}
				}
				return 0, false
			}
			out = append(out, g.lenLowerBound(c.Common().Args[idx], c.(ssa.Instruction).Block(), depth+1))
			g.env = saved
		}
	})
	if os.Getenv("MINICHECK_TRACE") != "" {
		fmt.Println("TRACE lenThroughClosure result", fn.Name(), out, found, okAll, bi)
	}
	return out, found && okAll
}

// bindingValue: the value a closure binding stands for. go/ssa captures variables by reference: a captured parameter is
// spilled to a cell (Alloc) and the cell is bound; with a single store into the cell, the binding is that stored value.
func bindingValue(b ssa.Value) ssa.Value {
	al, ok := strip(b).(*ssa.Alloc)
	if !ok {
		return b
	}
	var stored ssa.Value
	n := 0
	for _, r := range refsOf(al) {
		if st, isSt := r.(*ssa.Store); isSt && st.Addr == ssa.Value(al) {
			stored = st.Val
			n++
		}
	}
	if n == 1 {
		return stored
	}
	return b
}

// freeVarOf: v is a free variable of a closure or a load through one (captured by reference).
func freeVarOf(v ssa.Value) (*ssa.FreeVar, bool) {
	v = strip(v)
	if u, ok := v.(*ssa.UnOp); ok && u.Op == token.MUL {
		v = strip(u.X)
	}
	fv, ok := v.(*ssa.FreeVar)
	return fv, ok
}

func flipOp(op token.Token) token.Token {
	switch op {
	case token.LSS:
		return token.GTR
	case token.GTR:
		return token.LSS
	case token.LEQ:
		return token.GEQ
	case token.GEQ:
		return token.LEQ
	}
	return op
}

func negOp(op token.Token) token.Token {
	switch op {
	case token.LSS:
		return token.GEQ
	case token.GTR:
		return token.LEQ
	case token.LEQ:
		return token.GTR
	case token.GEQ:
		return token.LSS
	case token.EQL:
		return token.NEQ
	case token.NEQ:
		return token.EQL
	}
	return op
}

// indexVerdict classifies one indexing site.
func (g *guard) indexVerdict(x ssa.Value, idx ssa.Value, in ssa.Instruction) (safe bool, how string) {
	b := in.Block()
	// constant index
	if k, ok := constInt(idx); ok {
		if k < 0 {
			return false, "negative constant index"
		}
		if lb := g.lenLowerBound(x, b, 0); lb >= k+1 {
			return true, fmt.Sprintf("constant index %d with len >= %d established", k, lb)
		}
		return false, fmt.Sprintf("constant index %d without an established length >= %d", k, k+1)
	}
	base := idx
	if cv, ok := base.(*ssa.Convert); ok {
		base = cv.X
	}
	// range-lowered loop: idx = phi+1 (or phi) governed by idx < len(S), with S the indexed slice or a slice of the same length
	for _, cd := range condsAt(b) {
		cd = normCond(cd)
		bo, ok := cd.V.(*ssa.BinOp)
		if !ok || !cd.Val || bo.Op != token.LSS || strip(bo.X) != strip(base) {
			continue
		}
		s, isLen := lenOf(bo.Y)
		if !isLen {
			continue
		}
		if !(sameSlice(s, x) || sameLength(x, s)) {
			continue
		}
		if nonNegative(base, 0) {
			return true, "loop index bounded by len of the indexed slice"
		}
	}
	// count-down loop: idx = phi(len(x)-1, idx-1) governed by idx >= 0 (or > 0)
	if ph, ok := base.(*ssa.Phi); ok {
		upper, dec := false, false
		for _, ed := range ph.Edges {
			if sb, ok := ed.(*ssa.BinOp); ok && sb.Op == token.SUB {
				if n, isC := constInt(sb.Y); isC && n == 1 {
					if s, isLen := lenOf(sb.X); isLen && sameSlice(s, x) {
						upper = true
						continue
					}
					if sb.X == ssa.Value(ph) {
						dec = true
						continue
					}
				}
			}
		}
		lower := false
		for _, cd := range condsAt(b) {
			cd = normCond(cd)
			if bo, ok := cd.V.(*ssa.BinOp); ok && bo.X == ssa.Value(ph) {
				if n, isC := constInt(bo.Y); isC && n == 0 && cd.Val && (bo.Op == token.GEQ || bo.Op == token.GTR) {
					lower = true
				}
			}
		}
		if upper && dec && lower {
			return true, "count-down index from len-1 guarded by >= 0"
		}
	}
	// explicit two-sided guard on an arbitrary index: 0 <= idx (or idx >= 0) and idx < len(x)
	lower, upper := nonNegative(base, 0), false
	for _, cd := range condsAt(b) {
		cd = normCond(cd)
		bo, ok := cd.V.(*ssa.BinOp)
		if !ok {
			continue
		}
		op, l, r := bo.Op, bo.X, bo.Y
		if strip(r) == strip(idx) || strip(r) == strip(base) {
			l, r = r, l
			op = flipOp(op)
		}
		if strip(l) != strip(idx) && strip(l) != strip(base) {
			continue
		}
		if !cd.Val {
			op = negOp(op)
		}
		if s, isLen := lenOf(r); isLen && sameSlice(s, x) && op == token.LSS {
			upper = true
		}
		if n, isC := constInt(r); isC {
			if (op == token.GEQ && n >= 0) || (op == token.GTR && n >= -1) {
				lower = true
			}
		}
	}
	if lower && upper {
		return true, "index guarded on both sides (0 <= i < len)"
	}
	if upper {
		return false, "upper bound established but the index may be negative"
	}
	return false, "no bound established for the index"
}

// sameLength: x was made with the length of s (make([]T, len(s))).
func sameLength(x, s ssa.Value) bool {
	if mk, ok := strip(x).(*ssa.MakeSlice); ok {
		if l, isLen := lenOf(mk.Len); isLen && sameSlice(l, s) {
			return true
		}
	}
	return false
}

// nonNegative: v is a constant >= 0, a phi over such values and +1 increments, or len-derived.
func nonNegative(v ssa.Value, depth int) bool {
	if depth > 4 {
		return false
	}
	v = strip(v)
	if n, ok := constInt(v); ok {
		return n >= 0
	}
	switch x := v.(type) {
	case *ssa.Phi:
		for _, ed := range x.Edges {
			if ed == ssa.Value(x) {
				continue
			}
			if !nonNegative(ed, depth+1) {
				// allow -1 start of range-lowered loops only when the use is phi+1
				return false
			}
		}
		return true
	case *ssa.BinOp:
		if x.Op == token.ADD {
			if n, ok := constInt(x.Y); ok && n >= 0 {
				if nonNegative(x.X, depth+1) {
					return true
				}
				// range lowering: phi(-1, phi+1) + 1
				if ph, isPhi := x.X.(*ssa.Phi); isPhi && n >= 1 {
					ok := true
					for _, ed := range ph.Edges {
						if ed == ssa.Value(x) {
							continue
						}
						if c, isC := constInt(ed); !isC || c < -1 {
							ok = false
						}
					}
					return ok
				}
			}
		}
	case *ssa.Call:
		if staticCalleeName(x) == "builtin.len" {
			return true
		}
	case *ssa.UnOp:
		// loads of fields that are only ever incremented from zero are handled by the caller (named assumption)
	}
	return false
}

var _ = strings.Contains

func isObjectIface(t types.Type) bool {
	_, ok := t.Underlying().(*types.Interface)
	return ok
}

// localTag: tag of v known from the branch conditions at b only (no call-site reasoning).
func (g *guard) localTag(v ssa.Value, b *ssa.BasicBlock) string {
	if t, ok := g.assume[objRoot(v)]; ok {
		return t
	}
	for _, cd := range condsAt(b) {
		cd = normCond(cd)
		switch x := cd.V.(type) {
		case *ssa.BinOp:
			if (x.Op == token.EQL) != cd.Val || (x.Op != token.EQL && x.Op != token.NEQ) {
				continue
			}
			if o, ok := typeCallOn(x.X); ok && sameObj(o, v) {
				if s, ok := constString(x.Y); ok {
					return s
				}
			}
		case *ssa.Extract:
			if ta, ok := x.Tuple.(*ssa.TypeAssert); ok && x.Index == 1 && cd.Val && sameObj(ta.X, v) {
				if nt := namedOf(ta.AssertedType); nt != nil {
					return g.tagOf[nt.Obj().Name()]
				}
			}
		}
	}
	return ""
}

// sameClassAtAllCallSites: at every call site of the function the arguments bound to p and q are known to have the same type tag.
func (g *guard) sameClassAtAllCallSites(p, q *ssa.Parameter) bool {
	fn := p.Parent()
	ip, iq := -1, -1
	for i, x := range fn.Params {
		if x == p {
			ip = i
		}
		if x == q {
			iq = i
		}
	}
	callers := g.e.callersOf(fn)
	if len(callers) == 0 || ip < 0 || iq < 0 {
		return false
	}
	for _, c := range callers {
		args := c.Common().Args
		if ip >= len(args) || iq >= len(args) {
			return false
		}
		a, b2 := args[ip], args[iq]
		blk := c.(ssa.Instruction).Block()
		same := false
		for _, cd := range condsAt(blk) {
			cd = normCond(cd)
			switch x := cd.V.(type) {
			case *ssa.BinOp:
				if (x.Op == token.EQL) != cd.Val || (x.Op != token.EQL && x.Op != token.NEQ) {
					continue
				}
				o1, ok1 := typeCallOn(x.X)
				o2, ok2 := typeCallOn(x.Y)
				if ok1 && ok2 && ((sameObj(o1, a) && sameObj(o2, b2)) || (sameObj(o1, b2) && sameObj(o2, a))) {
					same = true
				}
			case *ssa.Call:
				if !cd.Val {
					continue
				}
				if tagV, objs, ok := g.typeHelperDyn(x); ok {
					all := append([]ssa.Value{tagV}, objs...)
					ina, inb := false, false
					for _, o := range all {
						if sameObj(o, a) {
							ina = true
						}
						if sameObj(o, b2) {
							inb = true
						}
					}
					if ina && inb {
						same = true
					}
				}
				if _, objs, ok := g.typeHelper(x); ok {
					ina, inb := false, false
					for _, o := range objs {
						if sameObj(o, a) {
							ina = true
						}
						if sameObj(o, b2) {
							inb = true
						}
					}
					if ina && inb {
						same = true
					}
				}
			}
		}
		// both arguments statically of the same concrete type
		if !same {
			ta, tb := g.dynTag(a, blk, 3), g.dynTag(b2, blk, 3)
			if ta != "" && ta == tb {
				same = true
			}
		}
		if !same {
			return false
		}
	}
	return true
}
