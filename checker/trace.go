package main

import (
	"fmt"
	"go/constant"
	"go/token"
	"go/types"
	"sort"
	"strings"

	"golang.org/x/tools/go/ssa"
)

// Backward value-origin tracer (interprocedural, context-insensitive beyond the current call chain).
// It answers "where can this value come from?" in terms of roles: struct fields, key derivations,
// elements of containers, constants, entry-point parameters.

type tracer struct {
	e      *Engine
	depth  int
	seen   map[string]bool
	out    map[string]bool
	facts  []Cond // branch facts assumed by the phi edges taken so far (within one function)
	factFn *ssa.Function
	keys   map[string]bool // when non-nil: origins of the keys of the map lookups passed through
	evalOf bool            // describe the result of evaluating an AST node as "eval-of <origins of the node>"
}

// originsEval: like origins, but a call whose first argument is an AST node (Eval, EvalUpdate, a function value of that
// shape) is described by the node it evaluates instead of being traced into.
func (e *Engine) originsEval(v ssa.Value) []string {
	t := &tracer{e: e, seen: map[string]bool{}, out: map[string]bool{}, evalOf: true}
	t.trace(v, nil, 0, "")
	var out []string
	for k := range t.out {
		out = append(out, k)
	}
	sort.Strings(out)
	return out
}

// originsAndKeys: like origins, and additionally the origins of every map key used by a lookup on the way (resolved in
// the same calling context, so a key handed down through helpers is traced back to the entry point).
func (e *Engine) originsAndKeys(v ssa.Value) (origins, keys []string) {
	t := &tracer{e: e, seen: map[string]bool{}, out: map[string]bool{}, keys: map[string]bool{}}
	t.trace(v, nil, 0, "")
	for k := range t.out {
		origins = append(origins, k)
	}
	for k := range t.keys {
		keys = append(keys, k)
	}
	sort.Strings(origins)
	sort.Strings(keys)
	return
}

func (t *tracer) lookupKey(lk *ssa.Lookup, ctx []callCtx, depth int) {
	if t.keys == nil {
		return
	}
	sub := &tracer{e: t.e, seen: map[string]bool{}, out: t.keys}
	sub.trace(lk.Index, ctx, depth+1, "")
	if p := fieldPathOf(lk.Index, ctx); p != "" {
		t.keys["path:"+p] = true
	}
}

// edgeFacts: conditions that hold when control flows from pred to succ.
func edgeFacts(pred, succ *ssa.BasicBlock) []Cond {
	fs := condsAt(pred)
	if ifi, ok := pred.Instrs[len(pred.Instrs)-1].(*ssa.If); ok && pred.Succs[0] != pred.Succs[1] {
		fs = append(fs, Cond{ifi.Cond, pred.Succs[0] == succ})
	}
	return fs
}

func normCond(c Cond) Cond {
	for {
		if u, ok := c.V.(*ssa.UnOp); ok && u.Op == token.NOT {
			c = Cond{u.X, !c.Val}
			continue
		}
		return c
	}
}

func contradicts(a, b []Cond) bool {
	for _, x := range a {
		x = normCond(x)
		for _, y := range b {
			y = normCond(y)
			if x.V == y.V && x.Val != y.Val {
				return true
			}
		}
	}
	return false
}

type callCtx struct {
	call   ssa.CallInstruction
	callee *ssa.Function
}

func (e *Engine) origins(v ssa.Value) []string {
	t := &tracer{e: e, seen: map[string]bool{}, out: map[string]bool{}}
	t.trace(v, nil, 0, "")
	var out []string
	for k := range t.out {
		out = append(out, k)
	}
	sort.Strings(out)
	return out
}

func (t *tracer) emit(prefix, s string) { t.out[prefix+s] = true }

func (t *tracer) trace(v ssa.Value, ctx []callCtx, depth int, prefix string) {
	if depth > 14 {
		t.emit(prefix, "too-deep")
		return
	}
	v = strip(v)
	key := fmt.Sprintf("%p|%d|%s|%d", v, len(ctx), prefix, len(t.facts))
	if len(ctx) > 0 {
		key += fmt.Sprintf("|%p", ctx[len(ctx)-1].call)
	}
	if t.seen[key] {
		return
	}
	t.seen[key] = true
	e := t.e
	switch x := v.(type) {
	case *ssa.Const:
		if x.Value == nil {
			t.emit(prefix, "const:nil")
		} else {
			t.emit(prefix, "const:"+x.Value.ExactString())
		}
	case *ssa.Phi:
		if t.factFn != x.Parent() {
			t.factFn, t.facts = x.Parent(), nil
		}
		saved := t.facts
		for i, ed := range x.Edges {
			ef := edgeFacts(x.Block().Preds[i], x.Block())
			if contradicts(saved, ef) {
				continue // this edge is infeasible given the edges already taken
			}
			t.facts = append(append([]Cond{}, saved...), ef...)
			t.trace(ed, ctx, depth+1, prefix)
		}
		t.facts = saved
	case *ssa.Parameter:
		fn := x.Parent()
		idx := -1
		for i, p := range fn.Params {
			if p == x {
				idx = i
			}
		}
		if len(ctx) > 0 && ctx[len(ctx)-1].callee == fn {
			c := ctx[len(ctx)-1].call
			args := c.Common().Args
			ai := idx
			if c.Common().IsInvoke() {
				ai = idx - 1
				if idx == 0 {
					t.trace(c.Common().Value, ctx[:len(ctx)-1], depth+1, prefix)
					return
				}
			}
			if ai >= 0 && ai < len(args) {
				t.trace(args[ai], ctx[:len(ctx)-1], depth+1, prefix)
				return
			}
		}
		callers := e.callersOf(fn)
		if len(callers) == 0 || (fn.Object() != nil && fn.Object().Exported() && fn.Parent() == nil && len(callers) == 0) {
			t.emit(prefix, "param:"+e.fname(fn)+"#"+x.Name())
			return
		}
		if fn.Parent() == nil && fn.Object() != nil && fn.Object().Exported() {
			t.emit(prefix, "param:"+e.fname(fn)+"#"+x.Name())
		}
		for _, c := range callers {
			args := c.Common().Args
			ai := idx
			if c.Common().IsInvoke() {
				ai = idx - 1
			}
			if ai >= 0 && ai < len(args) {
				t.trace(args[ai], nil, depth+1, prefix)
			}
		}
	case *ssa.Extract:
		if c, ok := x.Tuple.(*ssa.Call); ok {
			t.traceCall(c, x.Index, ctx, depth, prefix)
			return
		}
		if nx, ok := x.Tuple.(*ssa.Next); ok {
			if rg, ok := nx.Iter.(*ssa.Range); ok {
				if x.Index == 1 {
					t.trace(rg.X, ctx, depth+1, prefix+"rangekey-of ")
				} else if x.Index == 2 {
					t.trace(rg.X, ctx, depth+1, prefix+"rangeval-of ")
				}
				return
			}
		}
		if lk, ok := x.Tuple.(*ssa.Lookup); ok && x.Index == 0 {
			t.lookupKey(lk, ctx, depth)
			t.trace(lk.X, ctx, depth+1, prefix+"mapval-of ")
			return
		}
		if ta, ok := x.Tuple.(*ssa.TypeAssert); ok && x.Index == 0 {
			t.trace(ta.X, ctx, depth+1, prefix)
			return
		}
		t.emit(prefix, "unknown:extract")
	case *ssa.Call:
		t.traceCall(x, 0, ctx, depth, prefix)
	case *ssa.Lookup:
		t.lookupKey(x, ctx, depth)
		t.trace(x.X, ctx, depth+1, prefix+"mapval-of ")
	case *ssa.UnOp:
		if x.Op != token.MUL {
			t.emit(prefix, "unknown:unop")
			return
		}
		switch a := x.X.(type) {
		case *ssa.FieldAddr:
			f := fieldOf(a)
			n := namedOf(a.X.Type())
			tn := "?"
			if n != nil {
				tn = n.Obj().Name()
			}
			// a record type that only ever lives in locals and parameters (a cursor, a page of results, a pair of operands):
			// field-based resolution – whatever any function of the package stores into this field
			if n != nil && t.e.localRecord(n) {
				sts := t.e.recordFieldStores(n, a.Field)
				if len(sts) == 0 {
					t.emit(prefix, "zero")
				}
				for _, st := range sts {
					t.trace(st.Val, nil, depth+1, prefix)
				}
				return
			}
			// struct built locally: follow the store into this field
			if al, ok := a.X.(*ssa.Alloc); ok {
				found := false
				for _, r := range refsOf(al) {
					if fa2, ok := r.(*ssa.FieldAddr); ok && fa2.Field == a.Field {
						for _, st := range storesTo(fa2) {
							t.trace(st.Val, ctx, depth+1, prefix)
							found = true
						}
					}
				}
				// whole-struct stores (param copies): through to the literal that built the struct, when there is one
				for _, st := range storesTo(al) {
					resolved := false
					var lits []structLit
					if t.evalOf {
						lits = t.structLiterals(st.Val, ctx, 0)
					}
					for _, lit := range lits {
						for _, r := range refsOf(lit.al) {
							if fa2, ok := r.(*ssa.FieldAddr); ok && fa2.Field == a.Field {
								for _, st2 := range storesTo(fa2) {
									t.trace(st2.Val, lit.ctx, depth+1, prefix)
									resolved = true
								}
							}
						}
					}
					if !resolved {
						t.trace(st.Val, ctx, depth+1, prefix+"field "+tn+"."+f.Name()+" of ")
					}
					found = true
				}
				if found {
					return
				}
			}
			t.emit(prefix, "field:"+tn+"."+f.Name())
		case *ssa.IndexAddr:
			if al, ok := a.X.(*ssa.Alloc); ok {
				idx := "?"
				if n, ok := constInt(a.Index); ok {
					idx = fmt.Sprint(n)
				}
				found := false
				for _, st := range storesTo(al) { // whole-array copy
					t.trace(st.Val, ctx, depth+1, prefix+"elem["+idx+"]-of ")
					found = true
				}
				for _, r := range refsOf(al) { // element-wise initialisation
					if ia2, ok := r.(*ssa.IndexAddr); ok && ia2 != a {
						if n2, ok := constInt(ia2.Index); ok && fmt.Sprint(n2) == idx {
							for _, st := range storesTo(ia2) {
								t.trace(st.Val, ctx, depth+1, prefix)
								found = true
							}
						}
					}
				}
				if found {
					return
				}
			}
			if fa, ok := a.X.(*ssa.FieldAddr); ok {
				// an element of an array-typed field (node.Range[1]): named by the field and, when constant, the index
				idx := "?"
				if n, ok := constInt(a.Index); ok {
					idx = fmt.Sprint(n)
				}
				tn := "?"
				if n := namedOf(fa.X.Type()); n != nil {
					tn = n.Obj().Name()
				}
				t.emit(prefix, "elem["+idx+"]-of field:"+tn+"."+fieldOf(fa).Name())
				return
			}
			t.trace(a.X, ctx, depth+1, prefix+"elem-of ")
		case *ssa.Alloc:
			sts := storesTo(a)
			if len(sts) == 0 {
				t.emit(prefix, "zero")
			}
			for _, st := range sts {
				t.trace(st.Val, ctx, depth+1, prefix)
			}
		case *ssa.Global:
			t.emit(prefix, "global:"+a.Name())
		case *ssa.FreeVar:
			t.emit(prefix, "freevar:"+a.Name())
		default:
			t.trace(x.X, ctx, depth+1, prefix+"deref-of ")
		}
	case *ssa.Field:
		f := fieldOf(x)
		// struct value: parameter or loaded
		n := namedOf(x.X.Type())
		tn := "?"
		if n != nil {
			tn = n.Obj().Name()
		}
		// a small struct built by a literal somewhere up or down the call chain (operandPair{left: l, right: r} returned
		// by a helper, handed to a method by value): follow the field to what the literal put there
		if lits := t.structLiterals(x.X, ctx, 0); t.evalOf && len(lits) > 0 {
			found := false
			for _, lit := range lits {
				for _, r := range refsOf(lit.al) {
					if fa, ok := r.(*ssa.FieldAddr); ok && fa.Field == x.Field {
						for _, st := range storesTo(fa) {
							t.trace(st.Val, lit.ctx, depth+1, prefix)
							found = true
						}
					}
				}
			}
			if found {
				return
			}
		}
		t.trace(x.X, ctx, depth+1, prefix+"field "+tn+"."+f.Name()+" of ")
	case *ssa.Index:
		idx := "?"
		if n, ok := constInt(x.Index); ok {
			idx = fmt.Sprint(n)
		}
		t.trace(x.X, ctx, depth+1, prefix+"elem["+idx+"]-of ")
	case *ssa.Slice:
		t.trace(x.X, ctx, depth+1, prefix)
	case *ssa.Alloc:
		// &local where local holds a copy of a value (out := *s; return &out): a pointer to that value
		if sts := storesTo(x); len(sts) > 0 {
			for _, st := range sts {
				t.trace(st.Val, ctx, depth+1, prefix)
			}
			return
		}
		t.emit(prefix, "alloc")
	case *ssa.MakeMap:
		t.emit(prefix, "fresh-map")
	case *ssa.MakeSlice:
		t.emit(prefix, "fresh-slice")
	case *ssa.BinOp:
		t.emit(prefix, "binop:"+x.Op.String())
	case *ssa.Global:
		t.emit(prefix, "global:"+x.Name())
	case *ssa.TypeAssert:
		t.trace(x.X, ctx, depth+1, prefix)
	case *ssa.Convert:
		// integer width conversions keep the quantity; anything else (string<->bytes, float) is named
		if isIntType(x.Type()) && isIntType(x.X.Type()) {
			t.trace(x.X, ctx, depth+1, prefix)
		} else {
			t.trace(x.X, ctx, depth+1, prefix+"convert("+typeName(x.X.Type())+"->"+typeName(x.Type())+") ")
		}
	default:
		t.emit(prefix, fmt.Sprintf("unknown:%T", v))
	}
}

func (t *tracer) traceCall(c *ssa.Call, resIdx int, ctx []callCtx, depth int, prefix string) {
	e := t.e
	if t.evalOf && !isBuiltin(c) && len(c.Call.Args) >= 1 && !c.Call.IsInvoke() {
		a0 := c.Call.Args[0]
		if c.Call.StaticCallee() != nil && c.Call.StaticCallee().Signature.Recv() != nil && len(c.Call.Args) >= 2 {
			a0 = c.Call.Args[1]
		}
		if nt := namedOf(a0.Type()); nt != nil && e.roleOf(nt.Obj().Pkg()) == "lang" && (nt.Obj().Name() == "Node" || nt.Obj().Name() == "Expression") {
			if _, isIface := a0.Type().Underlying().(*types.Interface); isIface {
				t.trace(a0, ctx, depth+1, prefix+"eval-of ")
				return
			}
		}
	}
	if isBuiltin(c) {
		name := staticCalleeName(c)
		if name == "builtin.append" {
			t.trace(c.Call.Args[0], ctx, depth+1, prefix)
			return
		}
		if name == "builtin.len" {
			t.trace(c.Call.Args[0], ctx, depth+1, prefix+"len-of ")
			return
		}
		t.emit(prefix, name)
		return
	}
	g := c.Call.StaticCallee()
	if g == nil {
		cal := e.callees(c)
		if len(cal) == 0 {
			t.emit(prefix, "dyncall")
			return
		}
		for _, h := range cal {
			t.traceInto(c, h, resIdx, ctx, depth, prefix)
		}
		return
	}
	t.traceInto(c, g, resIdx, ctx, depth, prefix)
}

func (t *tracer) traceInto(c *ssa.Call, g *ssa.Function, resIdx int, ctx []callCtx, depth int, prefix string) {
	e := t.e
	// pointer helpers of the SDKs (aws.String, aws.StringValue, …) are transparent by signature; a package-local function
	// of that shape is looked into like any other (it may do more than take an address)
	if isPtrHelper(g) && len(c.Call.Args) == 1 && (e.fnRole(g) == "" || g.Blocks == nil) {
		t.trace(c.Call.Args[0], ctx, depth+1, prefix)
		return
	}
	if e.fnRole(g) == "" || g.Blocks == nil {
		t.emit(prefix, "extcall:"+g.String())
		return
	}
	// copying and converting functions are transparent: the result is described through the argument
	if arg, kind := transparentArg(e, g, c); arg != nil {
		t.trace(arg, ctx, depth+1, prefix+kind+" ")
		return
	}
	// key derivation is a role of its own
	if g.Name() == "GetKey" && e.fnRole(g) == "core" && resIdx == 0 {
		t.emit(prefix, "getkey("+t.classifyGetKey(c)+")")
		return
	}
	rets := returnsOf(g)
	ei := errResultIndex(g)
	for _, r := range rets {
		rv := retVals(r)
		if resIdx < len(rv) {
			// the `return nil, err` of a failing helper: the zero value that accompanies a non-nil error is never used by
			// a caller that checks the error – it is not an origin of the value on the success path
			if ei >= 0 && ei != resIdx && ei < len(rv) && !isNilConst(rv[ei]) && isZeroConst(rv[resIdx]) {
				continue
			}
			t.trace(rv[resIdx], append(append([]callCtx{}, ctx...), callCtx{c, g}), depth+1, prefix)
		}
	}
}

// isZeroConst: v is the constant zero value of its type (nil, "", 0, false).
func isZeroConst(v ssa.Value) bool {
	c, ok := v.(*ssa.Const)
	if !ok {
		return false
	}
	if c.Value == nil {
		return true
	}
	switch c.Value.Kind() {
	case constant.String:
		return constant.StringVal(c.Value) == ""
	case constant.Bool:
		return !constant.BoolVal(c.Value)
	case constant.Int, constant.Float:
		return constant.Sign(c.Value) == 0
	}
	return false
}

// classifyGetKey describes which schema and attribute table a GetKey call uses.
func (t *tracer) classifyGetKey(c *ssa.Call) string {
	args := c.Call.Args
	if len(args) < 3 {
		return "?"
	}
	schema := t.e.origins(args[0])
	attrs := t.e.origins(args[1])
	return "schema=" + strings.Join(schema, "|") + " attrs=" + strings.Join(attrs, "|")
}

// baseOfGetKey returns, for a GetKey call, the struct base values of the schema and attribute arguments (nil when not field loads).
func getKeyBases(c *ssa.Call) (schemaField, attrsField string, sameBase bool, item ssa.Value) {
	args := c.Call.Args
	if len(args) < 3 {
		return "", "", false, nil
	}
	item = args[2]
	sf, sb := loadedFieldDeep(args[0])
	af, ab := loadedFieldDeep(args[1])
	if sf != nil {
		schemaField = fieldOwner(sf) + "." + sf.Name()
	}
	if af != nil {
		attrsField = fieldOwner(af) + "." + af.Name()
	}
	sameBase = sb != nil && ab != nil && baseRoot(sb) == baseRoot(ab)
	return
}

func loadedFieldDeep(v ssa.Value) (f *typesVar, base ssa.Value) {
	v = strip(v)
	if u, ok := v.(*ssa.UnOp); ok && u.Op == token.MUL {
		if fa, ok := u.X.(*ssa.FieldAddr); ok {
			return fieldOf(fa), fa.X
		}
	}
	if fl, ok := v.(*ssa.Field); ok {
		return fieldOf(fl), fl.X
	}
	return nil, nil
}

// baseRoot follows field selections to the root pointer (i.Table.AttributesDef -> i ... actually Table load).
func baseRoot(v ssa.Value) ssa.Value {
	for i := 0; i < 6; i++ {
		v = strip(v)
		if u, ok := v.(*ssa.UnOp); ok && u.Op == token.MUL {
			if fa, ok := u.X.(*ssa.FieldAddr); ok {
				// loaded pointer field (e.g. i.Table): keep as distinct root keyed by the field load's base+field
				_ = fa
				return v
			}
			v = u.X
			continue
		}
		return v
	}
	return v
}

type typesVar = types.Var

var fieldOwnerMap = map[*types.Var]string{}

func fieldOwner(f *types.Var) string {
	if n, ok := fieldOwnerMap[f]; ok {
		return n
	}
	return "?"
}

func (e *Engine) indexFieldOwners() {
	for _, p := range e.Pkgs {
		sc := p.Types.Scope()
		for _, name := range sc.Names() {
			tn, ok := sc.Lookup(name).(*types.TypeName)
			if !ok {
				continue
			}
			st, ok := tn.Type().Underlying().(*types.Struct)
			if !ok {
				continue
			}
			for i := 0; i < st.NumFields(); i++ {
				fieldOwnerMap[st.Field(i)] = name
			}
		}
	}
}

// isMapCopyFunc: g allocates a map, fills it by ranging over its single map parameter, and returns it.
func isMapCopyFunc(g *ssa.Function) bool {
	if g == nil || g.Blocks == nil || len(g.Params) != 1 {
		return false
	}
	if _, ok := g.Params[0].Type().Underlying().(*types.Map); !ok {
		return false
	}
	rets := returnsOf(g)
	if len(rets) == 0 {
		return false
	}
	var mk *ssa.MakeMap
	for _, r := range rets {
		rv := retVals(r)
		if len(rv) != 1 {
			return false
		}
		m, ok := strip(rv[0]).(*ssa.MakeMap)
		if !ok {
			return false
		}
		mk = m
	}
	copies := false
	instrs(g, func(in ssa.Instruction) {
		mu, ok := in.(*ssa.MapUpdate)
		if !ok || mu.Map != mk {
			return
		}
		kx, ok1 := mu.Key.(*ssa.Extract)
		vx, ok2 := mu.Value.(*ssa.Extract)
		if !ok1 || !ok2 || kx.Tuple != vx.Tuple {
			return
		}
		if nx, ok := kx.Tuple.(*ssa.Next); ok {
			if rg, ok := nx.Iter.(*ssa.Range); ok && rg.X == g.Params[0] && kx.Index == 1 && vx.Index == 2 {
				// unconditional copy: the update's block is governed only by the range progress condition
				ok := true
				for _, c := range condsAt(in.Block()) {
					if ex, isEx := c.V.(*ssa.Extract); !isEx || ex.Tuple != nx {
						ok = false
					}
				}
				copies = ok
			}
		}
	})
	return copies
}

func mentions(t types.Type, sub string) bool { return strings.Contains(types.TypeString(t, nil), sub) }

// isConversion: a client-package function converting between the internal representation (types.Item ...) and the SDK's.
func isConversion(e *Engine, g *ssa.Function) (bool, int) {
	r := e.fnRole(g)
	if r != "v1" && r != "v2" {
		return false, 0
	}
	if g.Signature.Results().Len() != 1 || len(g.Params) == 0 || len(g.Params) > 2 {
		return false, 0
	}
	res := g.Signature.Results().At(0).Type()
	p := g.Params[0].Type()
	internal := func(t types.Type) bool { return mentions(t, modPath+"/types.") || mentions(t, modPath+"/core.") }
	sdk := func(t types.Type) bool { return mentions(t, "aws-sdk-go") }
	if (internal(p) && sdk(res) && !internal(res)) || (sdk(p) && internal(res) && !internal(p)) {
		return true, 0
	}
	return false, 0
}

func transparentArg(e *Engine, g *ssa.Function, c *ssa.Call) (ssa.Value, string) {
	if isMapCopyFunc(g) {
		return c.Call.Args[0], "copy-of"
	}
	if ok, i := isConversion(e, g); ok {
		return c.Call.Args[i], "conv"
	}
	return nil, ""
}

func isIntType(t types.Type) bool {
	b, ok := t.Underlying().(*types.Basic)
	return ok && b.Info()&types.IsInteger != 0
}

// isPtrHelper: a value<->pointer convenience function (aws.String, aws.ToString, aws.StringValue, types.ToString, ...):
// one parameter, one result, one the pointer (or map/slice of pointers) version of the other.
func isPtrHelper(g *ssa.Function) bool {
	sig := g.Signature
	if sig.Params().Len() != 1 || sig.Results().Len() != 1 || sig.Recv() != nil {
		return false
	}
	p, r := sig.Params().At(0).Type(), sig.Results().At(0).Type()
	deref := func(t types.Type) types.Type {
		if pt, ok := t.Underlying().(*types.Pointer); ok {
			return pt.Elem()
		}
		return nil
	}
	if d := deref(r); d != nil && types.Identical(d, p) {
		return true
	}
	if d := deref(p); d != nil && types.Identical(d, r) {
		return true
	}
	// map[string]*T <-> map[string]T
	if pm, ok := p.Underlying().(*types.Map); ok {
		if rm, ok := r.Underlying().(*types.Map); ok {
			if d := deref(pm.Elem()); d != nil && types.Identical(d, rm.Elem()) {
				return true
			}
			if d := deref(rm.Elem()); d != nil && types.Identical(d, pm.Elem()) {
				return true
			}
		}
	}
	return false
}

type structLit struct {
	al  *ssa.Alloc
	ctx []callCtx
}

// structLiterals: the local allocations (with the calling context they live in) a struct VALUE v can have been loaded
// from: directly, as the argument bound to a by-value parameter, or as what a package-local callee returns.
func (t *tracer) structLiterals(v ssa.Value, ctx []callCtx, depth int) []structLit {
	if depth > 5 {
		return nil
	}
	switch x := strip(v).(type) {
	case *ssa.UnOp:
		if al, ok := x.X.(*ssa.Alloc); ok && x.Op == token.MUL {
			hasFieldStore := false
			for _, r := range refsOf(al) {
				if fa, ok := r.(*ssa.FieldAddr); ok && len(storesTo(fa)) > 0 {
					hasFieldStore = true
				}
			}
			if hasFieldStore {
				return []structLit{{al, ctx}}
			}
			var out []structLit
			for _, st := range storesTo(al) {
				out = append(out, t.structLiterals(st.Val, ctx, depth+1)...)
			}
			return out
		}
	case *ssa.Parameter:
		rv, rctx := resolveParam(x, ctx)
		if rv != ssa.Value(x) {
			return t.structLiterals(rv, rctx, depth+1)
		}
		var out []structLit
		idx := -1
		for i, p := range x.Parent().Params {
			if p == x {
				idx = i
			}
		}
		for _, c := range t.e.callersOf(x.Parent()) {
			args := c.Common().Args
			if idx >= 0 && idx < len(args) {
				out = append(out, t.structLiterals(args[idx], nil, depth+1)...)
			}
		}
		return out
	case *ssa.Extract:
		if c, ok := x.Tuple.(*ssa.Call); ok {
			return t.structLiteralsOfCall(c, x.Index, ctx, depth)
		}
	case *ssa.Call:
		return t.structLiteralsOfCall(x, 0, ctx, depth)
	case *ssa.Phi:
		var out []structLit
		for _, ed := range x.Edges {
			out = append(out, t.structLiterals(ed, ctx, depth+1)...)
		}
		return out
	}
	return nil
}

func (t *tracer) structLiteralsOfCall(c *ssa.Call, idx int, ctx []callCtx, depth int) []structLit {
	g := c.Call.StaticCallee()
	if g == nil && !c.Call.IsInvoke() {
		// a function value handed down (buildInput func() core.QueryInput): the closures it can be, in the context
		rv, rctx := resolveParam(c.Call.Value, ctx)
		var out []structLit
		for _, h := range t.e.closuresOf(rv, rctx, 0) {
			for _, r := range returnsOf(h) {
				vals := retVals(r)
				if idx < len(vals) {
					out = append(out, t.structLiterals(vals[idx], nil, depth+1)...)
				}
			}
		}
		return out
	}
	if g == nil || g.Blocks == nil || t.e.fnRole(g) == "" {
		return nil
	}
	var out []structLit
	for _, r := range returnsOf(g) {
		rv := retVals(r)
		if idx < len(rv) {
			out = append(out, t.structLiterals(rv[idx], append(append([]callCtx{}, ctx...), callCtx{c, g}), depth+1)...)
		}
	}
	return out
}

// localRecord: an unexported struct type of one of the analysed packages that is never the type of a struct field, a
// map/slice/array element, a channel element or a package-level variable: its values live in locals and parameters only,
// so the stores into a field, taken over the whole package, are everything a load of that field can see.
func (e *Engine) localRecord(n *types.Named) bool {
	if e.localRec == nil {
		e.localRec = map[*types.Named]bool{}
		mentioned := map[*types.Named]bool{}
		var mention func(t types.Type, d int)
		mention = func(t types.Type, d int) {
			if d > 6 {
				return
			}
			switch x := t.(type) {
			case *types.Named:
				mentioned[x.Origin()] = true
			case *types.Pointer:
				mention(x.Elem(), d+1)
			case *types.Slice:
				mention(x.Elem(), d+1)
			case *types.Array:
				mention(x.Elem(), d+1)
			case *types.Chan:
				mention(x.Elem(), d+1)
			case *types.Map:
				mention(x.Key(), d+1)
				mention(x.Elem(), d+1)
			case *types.Struct:
				for i := 0; i < x.NumFields(); i++ {
					mention(x.Field(i).Type(), d+1)
				}
			}
		}
		var cands []*types.Named
		for _, role := range sortedKeys(e.Pkgs) {
			sc := e.Pkgs[role].Types.Scope()
			for _, name := range sc.Names() {
				switch o := sc.Lookup(name).(type) {
				case *types.TypeName:
					nt, ok := o.Type().(*types.Named)
					if !ok {
						continue
					}
					if st, isSt := nt.Underlying().(*types.Struct); isSt {
						for i := 0; i < st.NumFields(); i++ {
							mention(st.Field(i).Type(), 0)
						}
						if !o.Exported() {
							cands = append(cands, nt)
						}
					} else {
						mention(nt.Underlying(), 0)
					}
				case *types.Var:
					mention(o.Type(), 0)
				}
			}
		}
		// values boxed into interfaces or captured by closures escape the simple picture too
		boxed := map[*types.Named]bool{}
		for _, fn := range e.all {
			instrs(fn, func(in ssa.Instruction) {
				if mi, ok := in.(*ssa.MakeInterface); ok {
					if nt := namedOf(mi.X.Type()); nt != nil {
						boxed[nt.Origin()] = true
					}
				}
			})
		}
		for _, c := range cands {
			if !mentioned[c] && !boxed[c] {
				e.localRec[c] = true
			}
		}
	}
	return e.localRec[n.Origin()]
}

// recordFieldStores: every store into field idx of the record type n, in any function of the analysed packages.
func (e *Engine) recordFieldStores(n *types.Named, idx int) []*ssa.Store {
	key := fmt.Sprintf("%p|%d", n.Origin(), idx)
	if e.recStores == nil {
		e.recStores = map[string][]*ssa.Store{}
	}
	if r, ok := e.recStores[key]; ok {
		return r
	}
	var out []*ssa.Store
	for _, fn := range e.all {
		instrs(fn, func(in ssa.Instruction) {
			st, ok := in.(*ssa.Store)
			if !ok {
				return
			}
			fa, ok := st.Addr.(*ssa.FieldAddr)
			if !ok || fa.Field != idx {
				return
			}
			if nt := namedOf(fa.X.Type()); nt != nil && nt.Origin() == n.Origin() {
				out = append(out, st)
			}
		})
	}
	e.recStores[key] = out
	return out
}
