package main

import (
	"fmt"
	"go/ast"
	"go/token"
	"go/types"
	"os"
	"path/filepath"
	"sort"
	"strings"

	"golang.org/x/tools/go/callgraph"
	"golang.org/x/tools/go/callgraph/cha"
	"golang.org/x/tools/go/callgraph/vta"
	"golang.org/x/tools/go/packages"
	"golang.org/x/tools/go/ssa"
	"golang.org/x/tools/go/ssa/ssautil"
)

const modPath = "github.com/truora/minidyn"

// roles of the six packages
var rolePaths = map[string]string{
	"core":   modPath + "/core",
	"interp": modPath + "/interpreter",
	"lang":   modPath + "/interpreter/language",
	"types":  modPath + "/types",
	"v1":     modPath + "/aws-v1/client",
	"v2":     modPath + "/aws-v2/client",
}

type Verdict int

const (
	Pass Verdict = iota
	Fail
	Undecided
	Assumed
)

func (v Verdict) String() string {
	return [...]string{"pass", "VIOLATED", "UNDECIDED", "assumed"}[v]
}

// Ob is one obligation: a rule instance evaluated on one construct.
type Ob struct {
	Rule       string  `json:"rule"`
	Construct  string  `json:"construct"`
	Pos        string  `json:"pos"`
	Verdict    Verdict `json:"-"`
	VerdictS   string  `json:"verdict"`
	Detail     string  `json:"detail,omitempty"`
	NonTrivial bool    `json:"nontrivial,omitempty"`
}

type Engine struct {
	Repo       string
	Tags       string
	GOARCH     string
	Fset       *token.FileSet
	Pkgs       map[string]*packages.Package // by role
	SSA        map[string]*ssa.Package      // by role
	Prog       *ssa.Program
	all        []*ssa.Function         // source functions of the six packages (incl. closures)
	localRec   map[*types.Named]bool   // record types that live in locals and parameters only (lazily filled)
	recStores  map[string][]*ssa.Store // stores into the fields of those
	inits      []*ssa.Function         // synthetic package initialisers of the six packages (lazily filled by callersOf)
	allSet     map[*ssa.Function]bool
	cg         *callgraph.Graph
	obs        []Ob
	notes      []string
	assume     []string
	astFn      map[*types.Func]*ast.FuncDecl
	pdoms      map[*ssa.Function]*pdomInfo
	files      int
	reachMemo  map[*ssa.Function]map[*ssa.Function]bool
	calleeMemo map[ssa.CallInstruction][]*ssa.Function
	core       *coreState
	locks      map[string]*lockResult
}

func (e *Engine) note(format string, a ...interface{}) {
	e.notes = append(e.notes, fmt.Sprintf(format, a...))
}

func (e *Engine) assumef(format string, a ...interface{}) {
	s := fmt.Sprintf(format, a...)
	for _, x := range e.assume {
		if x == s {
			return
		}
	}
	e.assume = append(e.assume, s)
}

func load(repo, tags, goarch string) (*Engine, error) {
	e := &Engine{Repo: repo, Tags: tags, GOARCH: goarch, Pkgs: map[string]*packages.Package{}, SSA: map[string]*ssa.Package{},
		allSet: map[*ssa.Function]bool{}, astFn: map[*types.Func]*ast.FuncDecl{}, pdoms: map[*ssa.Function]*pdomInfo{}}
	env := []string{}
	for _, kv := range os.Environ() {
		if strings.HasPrefix(kv, "GOWORK=") || strings.HasPrefix(kv, "GOFLAGS=") || strings.HasPrefix(kv, "GOARCH=") {
			continue
		}
		env = append(env, kv)
	}
	env = append(env, "GOFLAGS=-mod=mod", "GOPROXY=off", "GOSUMDB=off", "GOWORK=off", "GOTOOLCHAIN=local")
	if goarch != "" {
		env = append(env, "GOARCH="+goarch)
	}
	cfg := &packages.Config{Mode: packages.LoadAllSyntax, Dir: repo, Tests: false, Env: env}
	if tags != "" {
		cfg.BuildFlags = []string{"-tags", tags}
	}
	pkgs, err := packages.Load(cfg, "./...")
	if err != nil {
		return nil, fmt.Errorf("load: %v", err)
	}
	if len(pkgs) == 0 {
		return nil, fmt.Errorf("load: zero packages")
	}
	var errs []string
	for _, p := range pkgs {
		for _, pe := range p.Errors {
			errs = append(errs, pe.Error())
		}
	}
	if len(errs) > 0 {
		return nil, fmt.Errorf("type/load errors in /repo: %s", strings.Join(errs, "; "))
	}
	e.Fset = pkgs[0].Fset
	prog, _ := ssautil.AllPackages(pkgs, ssa.InstantiateGenerics)
	prog.Build()
	e.Prog = prog
	byPath := map[string]*packages.Package{}
	for _, p := range pkgs {
		byPath[p.PkgPath] = p
	}
	for role, path := range rolePaths {
		p := byPath[path]
		if p == nil {
			return nil, fmt.Errorf("UNRESOLVED-ANCHOR package %s (%s) not found among %d loaded packages", role, path, len(pkgs))
		}
		e.Pkgs[role] = p
		e.SSA[role] = prog.Package(p.Types)
		e.files += len(p.Syntax)
		for _, f := range p.Syntax {
			for _, d := range f.Decls {
				if fd, ok := d.(*ast.FuncDecl); ok {
					if obj, ok := p.TypesInfo.Defs[fd.Name].(*types.Func); ok {
						e.astFn[obj] = fd
					}
				}
			}
		}
	}
	if len(byPath) != len(rolePaths) {
		var extra []string
		for p := range byPath {
			known := false
			for _, q := range rolePaths {
				if p == q {
					known = true
				}
			}
			if !known {
				extra = append(extra, p)
			}
		}
		sort.Strings(extra)
		e.note("packages outside the six known roles were loaded and are NOT covered by role-based rules: %v", extra)
	}
	// collect source functions
	for fn := range ssautil.AllFunctions(prog) {
		if fn.Pkg == nil || fn.Synthetic != "" || fn.Blocks == nil {
			continue
		}
		if e.roleOf(fn.Pkg.Pkg) == "" {
			continue
		}
		e.all = append(e.all, fn)
		e.allSet[fn] = true
	}
	sort.Slice(e.all, func(i, j int) bool { return e.all[i].Pos() < e.all[j].Pos() })
	e.indexFieldOwners()
	return e, nil
}

func (e *Engine) roleOf(p *types.Package) string {
	if p == nil {
		return ""
	}
	for r, path := range rolePaths {
		if p.Path() == path {
			return r
		}
	}
	return ""
}

func (e *Engine) fnRole(fn *ssa.Function) string {
	if fn == nil {
		return ""
	}
	for fn.Parent() != nil {
		fn = fn.Parent()
	}
	if fn.Pkg == nil {
		if fn.Object() != nil {
			return e.roleOf(fn.Object().Pkg())
		}
		return ""
	}
	return e.roleOf(fn.Pkg.Pkg)
}

// funcs returns the source functions (incl. closures) of the given roles.
func (e *Engine) funcs(roles ...string) []*ssa.Function {
	var out []*ssa.Function
	for _, fn := range e.all {
		r := e.fnRole(fn)
		for _, want := range roles {
			if r == want {
				out = append(out, fn)
			}
		}
	}
	return out
}

// fname is a stable, position-free name: role.Recv.Name or role.Name (closures: parent$n).
func (e *Engine) fname(fn *ssa.Function) string {
	if fn == nil {
		return "<nil>"
	}
	role := e.fnRole(fn)
	name := fn.Name()
	if fn.Parent() != nil {
		return e.fname(fn.Parent()) + "$" + strings.TrimPrefix(name, fn.Parent().Name()+"$")
	}
	if recv := fn.Signature.Recv(); recv != nil {
		t := recv.Type()
		if p, ok := t.(*types.Pointer); ok {
			t = p.Elem()
		}
		if n, ok := t.(*types.Named); ok {
			return role + "." + n.Obj().Name() + "." + name
		}
	}
	if role == "" && fn.Pkg != nil {
		return fn.Pkg.Pkg.Path() + "." + name
	}
	return role + "." + name
}

// fn finds a function by role and "Recv.Name" or "Name". nil if absent.
func (e *Engine) fn(role, name string) *ssa.Function {
	want := role + "." + name
	for _, f := range e.all {
		if f.Parent() == nil && e.fname(f) == want {
			return f
		}
	}
	return nil
}

// namedType returns the named type role.Name
func (e *Engine) namedType(role, name string) *types.Named {
	p := e.Pkgs[role]
	if p == nil {
		return nil
	}
	obj := p.Types.Scope().Lookup(name)
	if obj == nil {
		return nil
	}
	n, _ := obj.Type().(*types.Named)
	return n
}

func (e *Engine) field(role, typ, field string) *types.Var {
	n := e.namedType(role, typ)
	if n == nil {
		return nil
	}
	st, ok := n.Underlying().(*types.Struct)
	if !ok {
		return nil
	}
	for i := 0; i < st.NumFields(); i++ {
		if st.Field(i).Name() == field {
			return st.Field(i)
		}
	}
	return nil
}

func (e *Engine) global(role, name string) *ssa.Global {
	p := e.SSA[role]
	if p == nil {
		return nil
	}
	g, _ := p.Members[name].(*ssa.Global)
	return g
}

func (e *Engine) pos(p token.Pos) string {
	if !p.IsValid() {
		return "-"
	}
	ps := e.Fset.Position(p)
	rel, err := filepath.Rel(e.Repo, ps.Filename)
	if err != nil {
		rel = ps.Filename
	}
	return fmt.Sprintf("%s:%d", rel, ps.Line)
}

func (e *Engine) ipos(i ssa.Instruction) string {
	if i == nil {
		return "-"
	}
	p := i.Pos()
	if !p.IsValid() {
		// fall back: nearest instruction with a position in the block, then function
		if b := i.Block(); b != nil {
			for _, j := range b.Instrs {
				if j.Pos().IsValid() {
					p = j.Pos()
					break
				}
			}
		}
		if !p.IsValid() && i.Parent() != nil {
			p = i.Parent().Pos()
		}
	}
	return e.pos(p)
}

// ---- obligations ----

func (e *Engine) ob(rule, construct string, pos string, v Verdict, nontrivial bool, format string, a ...interface{}) {
	e.obs = append(e.obs, Ob{Rule: rule, Construct: construct, Pos: pos, Verdict: v, VerdictS: v.String(), Detail: fmt.Sprintf(format, a...), NonTrivial: nontrivial})
}

func (e *Engine) pass(rule, construct, pos string, format string, a ...interface{}) {
	e.ob(rule, construct, pos, Pass, true, format, a...)
}

func (e *Engine) fail(rule, construct, pos string, format string, a ...interface{}) {
	e.ob(rule, construct, pos, Fail, true, format, a...)
}

func (e *Engine) undecided(rule, construct, pos string, format string, a ...interface{}) {
	e.ob(rule, construct, pos, Undecided, true, format, a...)
}

// check records pass/fail by a boolean
func (e *Engine) check(ok bool, rule, construct, pos string, format string, a ...interface{}) bool {
	if ok {
		e.pass(rule, construct, pos, format, a...)
	} else {
		e.fail(rule, construct, pos, format, a...)
	}
	return ok
}

// anchor reports an unresolved anchor (fails the check) and returns false if x is nil.
func (e *Engine) anchor(rule string, what string, isNil bool) bool {
	if isNil {
		e.ob(rule, "anchor:"+what, "-", Undecided, false, "UNRESOLVED-ANCHOR %s: the role this rule is anchored on no longer resolves; the rule cannot be decided", what)
		return false
	}
	return true
}

// minCount asserts that the rule evaluated at least n obligations (non-vacuity).
func (e *Engine) minCount(rule string, n int) {
	c := 0
	for _, o := range e.obs {
		if o.Rule == rule && !strings.HasPrefix(o.Construct, "count:") {
			c++
		}
	}
	if c < n {
		e.ob(rule, "count:"+rule, "-", Undecided, false, "rule evaluated %d instances, fewer than the %d confirmed by hand on the reference tree: a rule that matches too little passes vacuously", c, n)
	}
}

// ---- call graph ----

func (e *Engine) callgraph() *callgraph.Graph {
	if e.cg == nil {
		e.cg = vta.CallGraph(ssautil.AllFunctions(e.Prog), cha.CallGraph(e.Prog))
	}
	return e.cg
}

// callees returns the possible callees (inside the six packages, source functions) of a call instruction.
func (e *Engine) callees(site ssa.CallInstruction) []*ssa.Function {
	if e.calleeMemo == nil {
		e.calleeMemo = map[ssa.CallInstruction][]*ssa.Function{}
	}
	if r, ok := e.calleeMemo[site]; ok {
		return r
	}
	r := e.callees0(site)
	e.calleeMemo[site] = r
	return r
}

func (e *Engine) callees0(site ssa.CallInstruction) []*ssa.Function {
	if f := site.Common().StaticCallee(); f != nil {
		return []*ssa.Function{e.unwrap(f)}
	}
	if _, ok := site.Common().Value.(*ssa.Builtin); ok {
		return nil
	}
	cg := e.callgraph()
	n := cg.Nodes[site.Parent()]
	if n == nil {
		return nil
	}
	var out []*ssa.Function
	seen := map[*ssa.Function]bool{}
	for _, ed := range n.Out {
		if ed.Site == site {
			f := e.unwrap(ed.Callee.Func)
			if f != nil && !seen[f] {
				seen[f] = true
				out = append(out, f)
			}
		}
	}
	sort.Slice(out, func(i, j int) bool { return out[i].String() < out[j].String() })
	return out
}

// unwrap maps synthetic wrappers (bound-method closures, thunks, pointer-receiver wrappers) to the declared method.
func (e *Engine) unwrap(f *ssa.Function) *ssa.Function {
	for i := 0; f != nil && f.Synthetic != "" && i < 4; i++ {
		if f.Origin() != nil {
			break // an instantiation of a generic function is a function in its own right
		}
		if f.Name() == "init" && f.Signature.Recv() == nil && f.Parent() == nil {
			break // a package initialiser is not a wrapper of the last function it calls
		}
		if obj, ok := f.Object().(*types.Func); ok && obj != nil {
			if g := e.Prog.FuncValue(obj); g != nil && g != f {
				f = g
				continue
			}
		}
		// bound method wrapper / thunk: find its single static callee
		var next *ssa.Function
		for _, b := range f.Blocks {
			for _, in := range b.Instrs {
				if c, ok := in.(ssa.CallInstruction); ok {
					if g := c.Common().StaticCallee(); g != nil {
						next = g
					}
				}
			}
		}
		if next == nil {
			break
		}
		f = next
	}
	return f
}

// reach returns all source functions of the six packages reachable from roots via the call graph (including roots).
func (e *Engine) reach(roots ...*ssa.Function) map[*ssa.Function]bool {
	if len(roots) == 1 {
		if e.reachMemo == nil {
			e.reachMemo = map[*ssa.Function]map[*ssa.Function]bool{}
		}
		if m, ok := e.reachMemo[roots[0]]; ok {
			return m
		}
		m := e.reach0(roots...)
		e.reachMemo[roots[0]] = m
		return m
	}
	return e.reach0(roots...)
}

// reach0: functions reachable from the roots over the call graph. Calls through a function-valued PARAMETER are
// resolved per calling context (one level): when evalArguments(args, env, Eval) and evalArguments(args, env, EvalUpdate)
// share a helper, the helper reached from the first call only calls Eval. Everything else uses the VTA call graph.
func (e *Engine) reach0(roots ...*ssa.Function) map[*ssa.Function]bool {
	seen := map[*ssa.Function]bool{}
	visited := map[string]bool{}
	// binding: what is known about the parameters in this calling context – the functions a function-typed parameter
	// can be, and the value of a bool parameter that was a constant at the call site (it may select the function:
	// eval := Eval; if forUpdate { eval = EvalUpdate })
	type binding struct {
		f map[int][]*ssa.Function
		b map[int]bool
	}
	keyOf := func(f *ssa.Function, bd binding) string {
		k := fmt.Sprintf("%p", f)
		var idx []int
		for i := range bd.f {
			idx = append(idx, i)
		}
		sort.Ints(idx)
		for _, i := range idx {
			k += fmt.Sprintf("|%d:", i)
			var ns []string
			for _, g := range bd.f[i] {
				ns = append(ns, fmt.Sprintf("%p", g))
			}
			sort.Strings(ns)
			k += strings.Join(ns, ",")
		}
		idx = idx[:0]
		for i := range bd.b {
			idx = append(idx, i)
		}
		sort.Ints(idx)
		for _, i := range idx {
			k += fmt.Sprintf("|%d=%v", i, bd.b[i])
		}
		return k
	}
	// infeasible: the edge pred→b contradicts a bound bool parameter
	infeasible := func(pred, b *ssa.BasicBlock, f *ssa.Function, bd binding) bool {
		if len(bd.b) == 0 {
			return false
		}
		for _, cd := range append(append([]Cond{}, condsAt(pred)...), edgeFacts(pred, b)...) {
			cd = normCond(cd)
			if q, ok := strip(cd.V).(*ssa.Parameter); ok {
				for i, p := range f.Params {
					if p == q {
						if val, known := bd.b[i]; known && val != cd.Val {
							return true
						}
					}
				}
			}
		}
		return false
	}
	// funcsOf: the functions a function-typed argument can be, when that is evident at the call site
	var funcsOf func(v ssa.Value, f *ssa.Function, bd binding) ([]*ssa.Function, bool)
	funcsOf = func(v ssa.Value, f *ssa.Function, bd binding) ([]*ssa.Function, bool) {
		switch x := v.(type) {
		case *ssa.Function:
			return []*ssa.Function{x}, true
		case *ssa.MakeClosure:
			if g, ok := x.Fn.(*ssa.Function); ok {
				return []*ssa.Function{g}, true
			}
		case *ssa.ChangeType:
			return funcsOf(x.X, f, bd)
		case *ssa.Parameter:
			for i, p := range f.Params {
				if p == x {
					if gs, ok := bd.f[i]; ok {
						return gs, true
					}
				}
			}
		case *ssa.Phi:
			var out []*ssa.Function
			for i, ed := range x.Edges {
				if infeasible(x.Block().Preds[i], x.Block(), f, bd) {
					continue
				}
				gs, ok := funcsOf(ed, f, bd)
				if !ok {
					return nil, false
				}
				out = append(out, gs...)
			}
			if len(out) > 0 {
				return out, true
			}
		}
		return nil, false
	}
	var visit func(f *ssa.Function, bd binding)
	visit = func(f *ssa.Function, bd binding) {
		if f == nil {
			return
		}
		k := keyOf(f, bd)
		if visited[k] {
			return
		}
		visited[k] = true
		seen[f] = true
		if f.Blocks == nil {
			return
		}
		for _, b := range f.Blocks {
			for _, in := range b.Instrs {
				switch c := in.(type) {
				case ssa.CallInstruction:
					var targets []*ssa.Function
					if gs, ok := funcsOf(c.Common().Value, f, bd); ok && !c.Common().IsInvoke() && c.Common().StaticCallee() == nil {
						targets = gs
					} else {
						targets = e.callees(c)
					}
					for _, g := range targets {
						if e.fnRole(g) == "" {
							continue
						}
						var nb binding
						for j, a := range c.Common().Args {
							if k, isK := a.(*ssa.Const); isK && isBoolType(a.Type()) && j < len(g.Params) && c.Common().StaticCallee() == g {
								if val, ok := constBool(k); ok {
									if nb.b == nil {
										nb.b = map[int]bool{}
									}
									nb.b[j] = val
								}
								continue
							}
							if _, isSig := a.Type().Underlying().(*types.Signature); !isSig {
								continue
							}
							pj := j
							if g.Signature.Recv() != nil && !c.Common().IsInvoke() && c.Common().StaticCallee() != nil {
								pj = j // static method call: receiver is Args[0] and Params[0]
							}
							if gs, ok := funcsOf(a, f, bd); ok && pj < len(g.Params) {
								if nb.f == nil {
									nb.f = map[int][]*ssa.Function{}
								}
								nb.f[pj] = gs
							}
						}
						visit(g, nb)
					}
				case *ssa.MakeClosure:
					if g, ok := c.Fn.(*ssa.Function); ok {
						visit(g, binding{})
					}
				}
			}
		}
	}
	for _, r := range roots {
		visit(r, binding{})
	}
	return seen
}

// callersOf returns call sites (in source functions of the six packages) that may call fn.
func (e *Engine) callersOf(fn *ssa.Function) []ssa.CallInstruction {
	var out []ssa.CallInstruction
	scan := e.all
	if e.inits == nil {
		e.inits = []*ssa.Function{}
		for _, role := range sortedKeys(e.SSA) {
			if f := e.SSA[role].Func("init"); f != nil {
				e.inits = append(e.inits, f) // package-level initialisers call function-building helpers
			}
		}
	}
	scan = append(append([]*ssa.Function{}, scan...), e.inits...)
	for _, f := range scan {
		for _, b := range f.Blocks {
			for _, in := range b.Instrs {
				if c, ok := in.(ssa.CallInstruction); ok {
					if sc := c.Common().StaticCallee(); sc != nil {
						if e.unwrap(sc) == fn {
							out = append(out, c)
						}
						continue
					}
					if c.Common().IsInvoke() || !isBuiltin(c) {
						for _, g := range e.callees(c) {
							if g == fn {
								out = append(out, c)
							}
						}
					}
				}
			}
		}
	}
	return out
}

func isBuiltin(c ssa.CallInstruction) bool {
	_, ok := c.Common().Value.(*ssa.Builtin)
	return ok
}

func sortedFnNames(e *Engine, m map[*ssa.Function]bool) []string {
	var out []string
	for f := range m {
		out = append(out, e.fname(f))
	}
	sort.Strings(out)
	return out
}

// aliasRule runs another property's rule and re-labels the obligations it produces (optionally only those whose construct
// satisfies keep): one structural fact often is a necessary condition of several properties.
func aliasRule(id string, run func(*Engine), keep func(construct string) bool) func(*Engine) {
	return func(e *Engine) {
		before := len(e.obs)
		run(e)
		kept := e.obs[:before:before]
		for _, o := range e.obs[before:] {
			if keep == nil || keep(o.Construct) {
				o.Rule = id
				kept = append(kept, o)
			}
		}
		e.obs = kept
	}
}
