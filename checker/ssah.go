package main

import (
	"go/constant"
	"go/token"
	"go/types"
	"sort"
	"strings"

	"golang.org/x/tools/go/ssa"
)

// ---------- iteration ----------

func instrs(fn *ssa.Function, f func(ssa.Instruction)) {
	for _, b := range fn.Blocks {
		for _, in := range b.Instrs {
			f(in)
		}
	}
}

func instrIndex(in ssa.Instruction) int {
	for i, x := range in.Block().Instrs {
		if x == in {
			return i
		}
	}
	return -1
}

// idominates: instruction a dominates instruction b (same function).
func idominates(a, b ssa.Instruction) bool {
	if a.Parent() != b.Parent() {
		return false
	}
	if a.Block() == b.Block() {
		return instrIndex(a) <= instrIndex(b)
	}
	return a.Block().Dominates(b.Block())
}

// ---------- post-dominators ----------

type pdomInfo struct {
	// pdom[b] = set of blocks that post-dominate b w.r.t. normal returns (Return instructions).
	// Blocks ending in Panic are treated as not reaching a normal return.
	pdom map[*ssa.BasicBlock]map[*ssa.BasicBlock]bool
	// canReturn[b]: some path from b reaches a Return
	canReturn map[*ssa.BasicBlock]bool
}

func (e *Engine) pdomOf(fn *ssa.Function) *pdomInfo {
	if p, ok := e.pdoms[fn]; ok {
		return p
	}
	info := computePdom(fn, nil)
	e.pdoms[fn] = info
	return info
}

// computePdom computes post-dominators w.r.t. normal returns; edges for which skip returns true are treated as absent
// (used for branches that are infeasible under a representation invariant).
func computePdom(fn *ssa.Function, skip func(from, to *ssa.BasicBlock) bool) *pdomInfo {
	succs := func(b *ssa.BasicBlock) []*ssa.BasicBlock {
		if skip == nil {
			return b.Succs
		}
		var out []*ssa.BasicBlock
		for _, s := range b.Succs {
			if !skip(b, s) {
				out = append(out, s)
			}
		}
		return out
	}
	preds := func(b *ssa.BasicBlock) []*ssa.BasicBlock {
		if skip == nil {
			return b.Preds
		}
		var out []*ssa.BasicBlock
		for _, p := range b.Preds {
			if !skip(p, b) {
				out = append(out, p)
			}
		}
		return out
	}
	info := &pdomInfo{pdom: map[*ssa.BasicBlock]map[*ssa.BasicBlock]bool{}, canReturn: map[*ssa.BasicBlock]bool{}}
	// canReturn: backward reachability from return blocks
	var work []*ssa.BasicBlock
	for _, b := range fn.Blocks {
		if len(b.Instrs) > 0 {
			if _, ok := b.Instrs[len(b.Instrs)-1].(*ssa.Return); ok && b != fn.Recover {
				info.canReturn[b] = true
				work = append(work, b)
			}
		}
	}
	for len(work) > 0 {
		b := work[len(work)-1]
		work = work[:len(work)-1]
		for _, p := range preds(b) {
			if !info.canReturn[p] {
				info.canReturn[p] = true
				work = append(work, p)
			}
		}
	}
	all := map[*ssa.BasicBlock]bool{}
	for _, b := range fn.Blocks {
		if info.canReturn[b] {
			all[b] = true
		}
	}
	for _, b := range fn.Blocks {
		if !info.canReturn[b] {
			continue
		}
		if _, ok := b.Instrs[len(b.Instrs)-1].(*ssa.Return); ok {
			info.pdom[b] = map[*ssa.BasicBlock]bool{b: true}
		} else {
			s := map[*ssa.BasicBlock]bool{}
			for k := range all {
				s[k] = true
			}
			info.pdom[b] = s
		}
	}
	changed := true
	for changed {
		changed = false
		for i := len(fn.Blocks) - 1; i >= 0; i-- {
			b := fn.Blocks[i]
			if !info.canReturn[b] {
				continue
			}
			if _, ok := b.Instrs[len(b.Instrs)-1].(*ssa.Return); ok {
				continue
			}
			var inter map[*ssa.BasicBlock]bool
			for _, s := range succs(b) {
				if !info.canReturn[s] {
					continue // paths that end in panic are not normal returns
				}
				if inter == nil {
					inter = map[*ssa.BasicBlock]bool{}
					for k := range info.pdom[s] {
						inter[k] = true
					}
				} else {
					for k := range inter {
						if !info.pdom[s][k] {
							delete(inter, k)
						}
					}
				}
			}
			if inter == nil {
				inter = map[*ssa.BasicBlock]bool{}
			}
			inter[b] = true
			if len(inter) != len(info.pdom[b]) {
				info.pdom[b] = inter
				changed = true
			}
		}
	}
	return info
}

// ipostdominates: every path from a to a normal return passes through b.
func (e *Engine) ipostdominates(b, a ssa.Instruction) bool {
	if a.Parent() != b.Parent() {
		return false
	}
	if a.Block() == b.Block() {
		return instrIndex(b) >= instrIndex(a)
	}
	info := e.pdomOf(a.Parent())
	if !info.canReturn[a.Block()] {
		return true // vacuous: no normal return reachable
	}
	return info.pdom[a.Block()][b.Block()]
}

// reachableFrom: blocks reachable from block b (following successors), excluding b itself unless in a cycle.
func reachableFrom(b *ssa.BasicBlock) map[*ssa.BasicBlock]bool {
	seen := map[*ssa.BasicBlock]bool{}
	var work []*ssa.BasicBlock
	work = append(work, b.Succs...)
	for len(work) > 0 {
		x := work[len(work)-1]
		work = work[:len(work)-1]
		if seen[x] {
			continue
		}
		seen[x] = true
		work = append(work, x.Succs...)
	}
	return seen
}

// mayFollow: instruction b may execute after instruction a.
func mayFollow(a, b ssa.Instruction) bool {
	if a.Parent() != b.Parent() {
		return false
	}
	if a.Block() == b.Block() && instrIndex(b) > instrIndex(a) {
		return true
	}
	return reachableFrom(a.Block())[b.Block()]
}

// ---------- edge conditions ----------

// A Cond is a branch condition known to hold (Val) on every path into a block.
type Cond struct {
	V   ssa.Value // the condition value of the If
	Val bool
}

// condsAt returns the branch conditions that must hold when control reaches block b:
// for each dominator D ending in `if c`, if exactly one successor edge of D leads to b
// (the other successor cannot reach b without passing through D again), the edge's truth value is known.
func condsAt(b *ssa.BasicBlock) []Cond {
	var out []Cond
	for d := b.Idom(); d != nil; d = d.Idom() {
		ifi, ok := d.Instrs[len(d.Instrs)-1].(*ssa.If)
		if !ok {
			continue
		}
		t, f := d.Succs[0], d.Succs[1]
		if t == f {
			continue
		}
		rt := reachesAvoiding(t, b, d)
		rf := reachesAvoiding(f, b, d)
		if rt && !rf {
			out = append(out, Cond{ifi.Cond, true})
			out = append(out, shortCircuitFacts(ifi.Cond, true, 0)...)
		} else if rf && !rt {
			out = append(out, Cond{ifi.Cond, false})
			out = append(out, shortCircuitFacts(ifi.Cond, false, 0)...)
		}
	}
	return out
}

// shortCircuitFacts: a boolean VALUE built by && / || (a tagless switch case `case a != nil && *a:`, `ok := x && y`) is a
// phi whose edges are the constant of the short cut and the last operand. When the phi has the value that only ONE edge
// can deliver, control came along that edge: the facts of that edge hold, and the operand it carries has that value.
var scDepth int // recursion guard of shortCircuitFacts through edgeFacts/condsAt (loop-carried boolean phis)

func shortCircuitFacts(v ssa.Value, val bool, depth int) []Cond {
	ph, ok := v.(*ssa.Phi)
	if !ok || depth > 3 {
		return nil
	}
	only := -1
	for i, ed := range ph.Edges {
		if c, isC := constBool(ed); isC && c != val {
			continue // this edge delivers the other value
		}
		if only >= 0 {
			return nil
		}
		only = i
	}
	if only < 0 {
		return nil
	}
	pred := ph.Block().Preds[only]
	if scDepth > 2 {
		return nil
	}
	scDepth++
	out := edgeFacts(pred, ph.Block())
	scDepth--
	if _, isC := constBool(ph.Edges[only]); !isC {
		out = append(out, Cond{ph.Edges[only], val})
		out = append(out, shortCircuitFacts(ph.Edges[only], val, depth+1)...)
	}
	return out
}

// reachesAvoiding: is target reachable from start without passing through avoid?
func reachesAvoiding(start, target, avoid *ssa.BasicBlock) bool {
	if start == target {
		return true
	}
	seen := map[*ssa.BasicBlock]bool{avoid: true}
	work := []*ssa.BasicBlock{start}
	for len(work) > 0 {
		x := work[len(work)-1]
		work = work[:len(work)-1]
		if seen[x] {
			continue
		}
		seen[x] = true
		if x == target {
			return true
		}
		work = append(work, x.Succs...)
	}
	return false
}

// condHolds: is condition value v known to be `val` at block b?  Handles negation (UnOp !).
func condHolds(b *ssa.BasicBlock, pred func(v ssa.Value, val bool) bool) bool {
	for _, c := range condsAt(b) {
		v, val := c.V, c.Val
		for {
			if u, ok := v.(*ssa.UnOp); ok && u.Op == token.NOT {
				v, val = u.X, !val
				continue
			}
			break
		}
		if pred(v, val) {
			return true
		}
	}
	return false
}

// ---------- value helpers ----------

// strip removes value-preserving wrappers.
func strip(v ssa.Value) ssa.Value {
	for {
		switch x := v.(type) {
		case *ssa.ChangeType:
			v = x.X
		case *ssa.MakeInterface:
			v = x.X
		case *ssa.ChangeInterface:
			v = x.X
		case *ssa.Convert:
			// only strip conversions between identical underlying basic kinds (e.g. named string)
			if types.Identical(x.X.Type().Underlying(), x.Type().Underlying()) {
				v = x.X
			} else {
				return v
			}
		default:
			return v
		}
	}
}

// isNilConst
func isNilConst(v ssa.Value) bool {
	c, ok := v.(*ssa.Const)
	return ok && c.IsNil()
}

func constString(v ssa.Value) (string, bool) {
	c, ok := strip(v).(*ssa.Const)
	if !ok || c.Value == nil || c.Value.Kind() != constant.String {
		return "", false
	}
	return constant.StringVal(c.Value), true
}

func constInt(v ssa.Value) (int64, bool) {
	c, ok := strip(v).(*ssa.Const)
	if !ok || c.Value == nil || c.Value.Kind() != constant.Int {
		return 0, false
	}
	n, ok := constant.Int64Val(c.Value)
	return n, ok
}

func constBool(v ssa.Value) (bool, bool) {
	c, ok := strip(v).(*ssa.Const)
	if !ok || c.Value == nil || c.Value.Kind() != constant.Bool {
		return false, false
	}
	return constant.BoolVal(c.Value), true
}

// fieldOf returns the struct field variable addressed/selected by a FieldAddr / Field instruction.
func fieldOf(v ssa.Value) *types.Var {
	switch x := v.(type) {
	case *ssa.FieldAddr:
		t := x.X.Type().Underlying()
		if p, ok := t.(*types.Pointer); ok {
			t = p.Elem().Underlying()
		}
		if st, ok := t.(*types.Struct); ok {
			return st.Field(x.Field)
		}
	case *ssa.Field:
		if st, ok := x.X.Type().Underlying().(*types.Struct); ok {
			return st.Field(x.Field)
		}
	}
	return nil
}

// loadedField: if v is (a value derived by slicing from) a load of struct field f, return the FieldAddr/Field base and the field.
func loadedField(v ssa.Value) (*types.Var, ssa.Value) {
	for i := 0; i < 8; i++ {
		v = strip(v)
		switch x := v.(type) {
		case *ssa.UnOp:
			if x.Op == token.MUL {
				if f := fieldOf(x.X); f != nil {
					return f, x.X.(*ssa.FieldAddr).X
				}
			}
			return nil, nil
		case *ssa.Field:
			return fieldOf(x), x.X
		case *ssa.Slice:
			v = x.X
		default:
			return nil, nil
		}
	}
	return nil, nil
}

// callTo: is instruction a call (or defer/go) whose static callee is pkgPath.name (name may be "(*T).M" style via Func.String suffix)?
func staticCalleeName(c ssa.CallInstruction) string {
	if f := c.Common().StaticCallee(); f != nil {
		return f.String()
	}
	if b, ok := c.Common().Value.(*ssa.Builtin); ok {
		return "builtin." + b.Name()
	}
	if c.Common().IsInvoke() {
		return "invoke." + c.Common().Method.FullName()
	}
	return ""
}

// extractOf returns the Extract instructions of tuple value t for index i.
func extractOf(t ssa.Value, idx int) []*ssa.Extract {
	var out []*ssa.Extract
	if refs := t.Referrers(); refs != nil {
		for _, r := range *refs {
			if x, ok := r.(*ssa.Extract); ok && x.Index == idx {
				out = append(out, x)
			}
		}
	}
	return out
}

// tupleSource: if v is Extract(t, i), return t, i.
func tupleSource(v ssa.Value) (ssa.Value, int, bool) {
	if x, ok := v.(*ssa.Extract); ok {
		return x.Tuple, x.Index, true
	}
	return nil, 0, false
}

// refs returns the referrers of v (never nil slice issues).
func refsOf(v ssa.Value) []ssa.Instruction {
	if r := v.Referrers(); r != nil {
		return *r
	}
	return nil
}

// phiSources expands phis transitively into the set of non-phi source values.
func phiSources(v ssa.Value) []ssa.Value {
	seen := map[ssa.Value]bool{}
	var out []ssa.Value
	var walk func(ssa.Value)
	walk = func(x ssa.Value) {
		if seen[x] {
			return
		}
		seen[x] = true
		if p, ok := x.(*ssa.Phi); ok {
			for _, ed := range p.Edges {
				walk(ed)
			}
			return
		}
		out = append(out, x)
	}
	walk(v)
	return out
}

// derefAllocValue: for a local `var x T` kept in memory (Alloc), return the values stored into it.
func storesTo(addr ssa.Value) []*ssa.Store {
	var out []*ssa.Store
	for _, r := range refsOf(addr) {
		if s, ok := r.(*ssa.Store); ok && s.Addr == addr {
			out = append(out, s)
		}
	}
	return out
}

func typeName(t types.Type) string {
	return types.TypeString(t, func(p *types.Package) string {
		parts := strings.Split(p.Path(), "/")
		return parts[len(parts)-1]
	})
}

func namedOf(t types.Type) *types.Named {
	if p, ok := t.(*types.Pointer); ok {
		t = p.Elem()
	}
	n, _ := t.(*types.Named)
	return n
}

func isNamed(t types.Type, pkgPath, name string) bool {
	n := namedOf(t)
	return n != nil && n.Obj().Name() == name && n.Obj().Pkg() != nil && n.Obj().Pkg().Path() == pkgPath
}

func sortedKeys[M ~map[string]V, V any](m M) []string {
	out := make([]string, 0, len(m))
	for k := range m {
		out = append(out, k)
	}
	sort.Strings(out)
	return out
}

// ---------- field access census ----------

type Access struct {
	Instr ssa.Instruction
	Fn    *ssa.Function
	Fresh bool // the struct holding the field is a fresh allocation of this function (constructor)
	Write bool
	Kind  string // store-field, map-update, map-delete, elem-store, copy-into, sort, append-store, load, lookup, range, len, escape:<callee>
}

// fieldAccesses enumerates every access to struct field f in the given functions, classified.
// "write" covers: assignment of the field, and any mutation of the container it holds
// (map update/delete, element store, copy into, in-place sort).
func (e *Engine) fieldAccesses(f *types.Var, fns []*ssa.Function) []Access {
	var out []Access
	fresh := false
	add := func(in ssa.Instruction, w bool, kind string) {
		out = append(out, Access{Instr: in, Fn: in.Parent(), Write: w, Kind: kind, Fresh: fresh})
	}
	for _, fn := range fns {
		instrs(fn, func(in ssa.Instruction) {
			fresh = false
			switch x := in.(type) {
			case *ssa.FieldAddr:
				if fieldOf(x) != f {
					return
				}
				fresh = originIsLocalAlloc(x.X)
				for _, r := range refsOf(x) {
					switch u := r.(type) {
					case *ssa.Store:
						if u.Addr == x {
							add(u, true, "store-field")
						} else {
							add(u, false, "escape:addr-stored")
						}
					case *ssa.UnOp:
						if u.Op == token.MUL {
							e.classifyContainerUses(u, u, add, 0)
						}
					case ssa.CallInstruction:
						add(u, true, "escape:addr-passed:"+staticCalleeName(u))
					case *ssa.MakeClosure:
						add(u, true, "escape:addr-captured")
					default:
						add(r, false, "addr-use")
					}
				}
			case *ssa.Field:
				if fieldOf(x) != f {
					return
				}
				e.classifyContainerUses(x, x, add, 0)
			}
		})
	}
	return out
}

// classifyContainerUses classifies uses of value v (a load of the field, or a slice of it).
func (e *Engine) classifyContainerUses(v ssa.Value, load ssa.Instruction, add func(ssa.Instruction, bool, string), depth int) {
	uses := refsOf(v)
	if len(uses) == 0 {
		add(load, false, "load")
		return
	}
	for _, r := range uses {
		switch u := r.(type) {
		case *ssa.MapUpdate:
			if u.Map == v {
				add(u, true, "map-update")
			} else {
				add(u, false, "load")
			}
		case *ssa.Lookup:
			add(u, false, "lookup")
		case *ssa.Range:
			add(u, false, "range")
		case *ssa.IndexAddr:
			if u.X == v {
				w := false
				for _, rr := range refsOf(u) {
					if s, ok := rr.(*ssa.Store); ok && s.Addr == u {
						add(s, true, "elem-store")
						w = true
					}
				}
				if !w {
					add(u, false, "elem-load")
				}
			} else {
				add(u, false, "load")
			}
		case *ssa.Index:
			add(u, false, "elem-load")
		case *ssa.Slice:
			if depth < 4 {
				e.classifyContainerUses(u, u, add, depth+1)
			}
		case ssa.CallInstruction:
			name := staticCalleeName(u)
			args := u.Common().Args
			switch {
			case name == "builtin.delete":
				add(u, true, "map-delete")
			case name == "builtin.len" || name == "builtin.cap":
				add(u, false, "len")
			case name == "builtin.copy":
				if len(args) > 0 && args[0] == v {
					add(u, true, "copy-into")
				} else {
					add(u, false, "load")
				}
			case name == "builtin.append":
				// append(v, ...) result stored back is seen as store-field; reading v here
				add(u, false, "append-from")
			case strings.HasPrefix(name, "sort.") || strings.HasPrefix(name, "slices.Sort"):
				if name == "sort.SearchStrings" || name == "sort.Search" || name == "sort.SearchInts" {
					add(u, false, "search")
				} else {
					add(u, true, "sort")
				}
			default:
				add(u, false, "passed:"+name)
			}
		case *ssa.Store:
			add(u, false, "load")
		default:
			add(r, false, "load")
		}
	}
}

// writersOf returns the set of functions that write field f, with kinds.
func (e *Engine) writersOf(f *types.Var, fns []*ssa.Function) map[*ssa.Function][]Access {
	out := map[*ssa.Function][]Access{}
	for _, a := range e.fieldAccesses(f, fns) {
		if a.Write {
			out[a.Fn] = append(out[a.Fn], a)
		}
	}
	return out
}

// onlyViaNilEdge: every path from instruction m to block rb passes through a nil-test of errV and leaves it on the nil edge.
func onlyViaNilEdge(m ssa.Instruction, rb *ssa.BasicBlock, errV ssa.Value) bool {
	fn := m.Parent()
	for _, b := range fn.Blocks {
		ifi, ok := b.Instrs[len(b.Instrs)-1].(*ssa.If)
		if !ok {
			continue
		}
		x, nonNilOnTrue, ok := nilTest(ifi.Cond)
		if !ok || x != errV {
			continue
		}
		nonNil, nilS := b.Succs[0], b.Succs[1]
		if !nonNilOnTrue {
			nonNil, nilS = nilS, nonNil
		}
		_ = nilS
		// (a) all paths from m to rb go through b
		if m.Block() != b {
			if reachesAvoiding(m.Block(), rb, b) {
				continue
			}
		}
		// (b) rb is not reachable from the non-nil edge without passing the test again
		if reachesAvoiding(nonNil, rb, b) {
			continue
		}
		return true
	}
	return false
}

// isErrorType
func isErrorType(t types.Type) bool {
	return types.Identical(t, types.Universe.Lookup("error").Type())
}

// returnsOf lists the normal Return instructions of fn (the synthetic recover block is excluded).
func returnsOf(fn *ssa.Function) []*ssa.Return {
	var out []*ssa.Return
	for _, b := range fn.Blocks {
		if b == fn.Recover {
			continue
		}
		for _, in := range b.Instrs {
			if r, ok := in.(*ssa.Return); ok {
				out = append(out, r)
			}
		}
	}
	return out
}

// retVals returns the values returned by ret, looking through the result spill slots that go/ssa
// introduces in functions with defers (*slot = v; rundefers; t = *slot; return t).
func retVals(ret *ssa.Return) []ssa.Value {
	out := make([]ssa.Value, len(ret.Results))
	for i, r := range ret.Results {
		out[i] = unspill(r, ret)
	}
	return out
}

func unspill(r ssa.Value, at ssa.Instruction) ssa.Value {
	u, ok := r.(*ssa.UnOp)
	if !ok || u.Op != token.MUL {
		return r
	}
	al, ok := u.X.(*ssa.Alloc)
	if !ok || al.Heap {
		return r
	}
	b := u.Block()
	for i := instrIndex(u) - 1; i >= 0; i-- {
		if st, ok := b.Instrs[i].(*ssa.Store); ok && st.Addr == al {
			return st.Val
		}
	}
	// single store in whole function?
	sts := storesTo(al)
	if len(sts) == 1 {
		return sts[0].Val
	}
	return r
}

// errResultIndex returns the index of the (last) error result of fn, or -1.
func errResultIndex(fn *ssa.Function) int {
	res := fn.Signature.Results()
	for i := res.Len() - 1; i >= 0; i-- {
		if isErrorType(res.At(i).Type()) {
			return i
		}
	}
	return -1
}

// isErrorReturn: does this return carry a (possibly) non-nil error? (error operand is not the nil constant)
func isErrorReturn(r *ssa.Return) bool {
	i := errResultIndex(r.Parent())
	if i < 0 || i >= len(r.Results) {
		return false
	}
	return !isNilConst(retVals(r)[i])
}

func isStringType(t types.Type) bool {
	b, ok := t.Underlying().(*types.Basic)
	return ok && b.Info()&types.IsString != 0
}

// instrsDeep visits the instructions of fn and of the closures it creates (recursively): a body wrapped into
// `fd.locked(func() { … })` is still that method's body.
func instrsDeep(fn *ssa.Function, visit func(ssa.Instruction)) {
	instrs(fn, visit)
	for _, a := range fn.AnonFuncs {
		instrsDeep(a, visit)
	}
}
