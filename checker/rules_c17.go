package main

import (
	"fmt"
	"go/ast"
	"go/token"
	"go/types"
	"os"
	"sort"
	"strings"

	"golang.org/x/tools/go/ssa"
)

// Sibling cross-check of the two adapters: per method a summary of guard events, core calls and error classes is
// extracted from the SSA form and the two summaries are compared after normalisation.

// normEvent maps a call instruction in a client method to a normalised event name ("" = not an event) and says whether
// the callee is to be looked into. Package-local helpers that exist under the same name in both clients are events of the
// shared vocabulary (getTable, validateExpressionAttributes, …); helpers that only one client has are how that client
// happens to be factored, so they are expanded in place.
func (e *Engine) normEvent(role string, lr *lockResult, c ssa.CallInstruction) (ev string, descend bool) {
	if isBuiltin(c) {
		return "", false
	}
	if k := lr.muCall(c); k != "" {
		return "mutex", false // how the mutex is released (defer or explicit) is an idiom, not behaviour
	}
	if c.Common().IsInvoke() {
		m := c.Common().Method
		if m.Name() == "Error" || m.Name() == "Code" || m.Name() == "Message" {
			return "", false
		}
		return "invoke:" + m.Name(), false
	}
	g := c.Common().StaticCallee()
	if g == nil {
		return "dyncall", false
	}
	if isPtrHelper(g) {
		return "", false
	}
	switch r := e.fnRole(g); r {
	case "core":
		return "core:" + strings.TrimPrefix(e.fname(g), "core."), false
	case role:
		if ok, _ := isConversion(e, g); ok || isMapCopyFunc(g) {
			return "", false
		}
		name := g.Name()
		if e.lockedGetter(role, lr, g) {
			return "mutex", false // locked read of a client field
		}
		if strings.HasPrefix(name, "map") && g.Signature.Results().Len() == 1 && len(g.Params) >= 1 {
			return "", false // mappers (inputs, descriptions, errors): representation, compared by C10 / R2 / R3
		}
		other := "v1"
		if role == "v1" {
			other = "v2"
		}
		if g.Signature.Recv() != nil {
			if _, both := e.clientMethods(other)[name]; !both {
				return "", true
			}
		} else if e.fn(other, name) == nil {
			return "", true
		}
		return "local:" + name, false
	case "types", "interp", "lang":
		return "", false
	}
	// SDK / library
	if strings.HasSuffix(staticCalleeName(c), ").Validate") {
		return "sdk:Validate", false
	}
	return "", false
}

type clientEvent struct {
	name string
	path []ssa.Instruction
}

// methodEvents: the events of a method, looked up through the helpers only this client has; first occurrence of each.
func (e *Engine) methodEvents(role string, fn *ssa.Function) []clientEvent {
	lr := e.lockAnalysis(role)
	var evs []clientEvent
	seen := map[string]bool{}
	add := func(name string, in ssa.Instruction, ctx []callCtx) {
		if name != "" && !seen[name] {
			seen[name] = true
			evs = append(evs, clientEvent{name, pathOf(in, ctx)})
		}
	}
	ff := e.field(role, "Client", "forceFailureErr")
	scanned := map[*ssa.Function]bool{}
	scanTest := func(f *ssa.Function, ctx []callCtx) {
		if ff == nil || scanned[f] {
			return
		}
		scanned[f] = true
		if ft := findFailureTest(f, ff); ft != nil && ft.gate == nil {
			add("failure-test", ft.ifi, ctx)
		}
	}
	scanTest(fn, nil)
	e.expandCalls(role, fn, func(c ssa.CallInstruction, ctx []callCtx) bool {
		ev, descend := e.normEvent(role, lr, c)
		add(ev, c, ctx)
		if descend {
			scanTest(c.Common().StaticCallee(), append(append([]callCtx{}, ctx...), callCtx{c, c.Common().StaticCallee()}))
		}
		return descend
	})
	return evs
}

func (e *Engine) methodSummary(role string, fn *ssa.Function) []string {
	var out []string
	for _, ev := range e.methodEvents(role, fn) {
		out = append(out, ev.name)
	}
	return out
}

// isCheckEvent: events whose outcome can be an error returned to the caller; their relative order decides which error a
// request with several faults gets.
func isCheckEvent(ev string) bool {
	return ev == "failure-test" || ev == "sdk:Validate" || strings.HasPrefix(ev, "local:") || strings.HasPrefix(ev, "core:")
}

func init() {
	register(&Prop{
		ID:         "C17",
		Title:      "The SDK v1 and SDK v2 clients are behaviourally equivalent",
		Decided:    "agreement of the two hand-duplicated adapters, method by method: (R1) for every operation implemented by both clients the normalised summaries agree – the set of guard events (lock, deferred unlock, failure test, request validation, placeholder validation, table lookup) and the core calls made; events present in only one client are reported one by one; (R2) every error code the core can emit has a case in the v2 error mapper that turns it into a typed SDK/smithy error (v1 callers get an awserr.Error for the same codes by construction); (R3) the description mappers cover the same fields in both clients; (R4) optional request pointers are never dereferenced without a nil test in either client; (R5) both clients implement the same set of operations; (R6) the arguments handed to the placeholder validation and the QueryInput built for searches have the same provenance in both clients; (R7) both adapters hand the shared engine the same internal value for the same logical attribute: S and N texts verbatim (= C10.R6) and, in the interface-based v2 conversions, the type-carrying field non-nil for every member case (= C10.R7) – an adapter-only difference here makes later expression evaluation succeed in one client and fail in the other; (R8) the batch-write validators of both clients implement the same limit – the total over all tables – and the same exactly-one-of rule (= C16.R7 evaluated per client); (R9) every error returned by an exported v2 operation is classified (nil / SDK / engine / bare / sentinel / configured) through helpers and the mapper: engine and bare classes never reach the caller; (R10) the failure switches act unconditionally in both clients (= C15.R4); (R11) pagination plumbing is the same in both clients (= C04.R1); (R12) no description retains the address of a loop variable (= C18.R9); (R13) no list stored under a table name by either client's batch operations is shared between tables (= C19.R4 per-table clause, C19.R7).",
		NotDecided: "value-level equality of the mapped outputs (C10), pagination keys (C04), and everything behind the shared core (identical by construction).",
		Assumes:    []string{"ReturnValuesOnConditionCheckFailure exists only in SDK v2 (accepted difference)"},
		Rules: []RuleDef{
			{ID: "R1", Desc: "guard events and core calls agree per operation (T-SIB)", Run: c17R1},
			{ID: "R2", Desc: "every core error code is mapped to a typed error in v2 (T-TABLE)", Run: c17R2},
			{ID: "R3", Desc: "description mappers cover the same fields (T-TABLE)", Run: c17R3},
			{ID: "R4", Desc: "optional request pointers are nil-tested before dereference (T-GUARD)", Run: c17R4},
			{ID: "R5", Desc: "same set of operations (T-SIB)", Run: c17R5},
			{ID: "R6", Desc: "validation arguments and QueryInput provenance agree (T-SIB over T-FLOW)", Run: c17R6},
			{ID: "R7", Desc: "both adapters hand the engine the same value: texts verbatim, type field set for every member (= C10.R6, C10.R7b)", Run: func(e *Engine) {
				before := len(e.obs)
				c10R6(e)
				c10R7(e)
				kept := e.obs[:before]
				for _, o := range e.obs[before:] {
					if strings.HasPrefix(o.Construct, "v1.") || strings.HasPrefix(o.Construct, "v2.") {
						o.Rule = "R7"
						kept = append(kept, o)
					}
				}
				e.obs = kept
			}},
			{ID: "R8", Desc: "both clients bound a batch write by the total over all tables and reject neither/both requests (= C16.R7)", Run: aliasRule("R8", c16R7, nil)},
			{ID: "R9", Desc: "error class: every error an exported v2 operation returns is an SDK API error or the configured failure – engine errors pass the mapper, bare errors are never handed to it (error-discipline dataflow)", Run: c17R9},
			{ID: "R10", Desc: "the failure switches of both clients set and clear the failure unconditionally (= C15.R4): after the same toggle sequence both clients are in the same state", Run: aliasRule("R10", c15R4, nil)},
			{ID: "R11", Desc: "both clients hand the engine's resume key on unconditionally and pass Limit and ExclusiveStartKey unchanged (= C04.R1)", Run: aliasRule("R11", c04R1, nil)},
			{ID: "R12", Desc: "descriptions built in a loop do not alias the loop variable (= C18.R9): a composite key schema is described the same by both clients", Run: aliasRule("R12", c18R9, nil)},
			{ID: "R13", Desc: "both clients report each table's own unprocessed requests and responses after a batch: no list stored under a table name is shared between tables (= C19.R4 per-table clause, C19.R7)", Run: aliasRule("R13", func(e *Engine) { c19R4(e); c19R7(e) }, func(c string) bool { return strings.Contains(c, "per-table") })},
		},
	})
}

func c17R1(e *Engine) {
	m1, m2 := e.clientMethods("v1"), e.clientMethods("v2")
	for _, name := range sortedFuncs(e, m2) {
		f1, ok := m1[name]
		f2 := m2[name]
		if !ok || f2.Object() == nil || !f2.Object().Exported() {
			continue
		}
		s1, s2 := e.methodSummary("v1", f1), e.methodSummary("v2", f2)
		set1, set2 := map[string]bool{}, map[string]bool{}
		for _, x := range s1 {
			set1[x] = true
		}
		for _, x := range s2 {
			set2[x] = true
		}
		all := map[string]bool{}
		for x := range set1 {
			all[x] = true
		}
		for x := range set2 {
			all[x] = true
		}
		diffs := 0
		for _, ev := range sortedKeys(all) {
			if set1[ev] == set2[ev] {
				continue
			}
			diffs++
			only := "v1"
			if set2[ev] {
				only = "v2"
			}
			what := "the two clients behave differently for this operation"
			if ev == "sdk:Validate" {
				what = "malformed requests (missing required fields, too-short table names) are rejected with the SDK's parameter-validation error in v1 but reach the engine in v2, so the same request fails with different error classes (or succeeds in one client only)"
			}
			e.fail("R1", "Client."+name+":"+ev, e.pos(f2.Pos()), "event %s occurs only in the %s client: %s", ev, only, what)
		}
		if diffs == 0 {
			e.pass("R1", "Client."+name+":summary", e.pos(f2.Pos()), "both clients: %s", strings.Join(s2, " → "))
		}
		// order of the checks: a request with two faults must get the same error from both clients
		ev1, ev2 := e.methodEvents("v1", f1), e.methodEvents("v2", f2)
		pos1, pos2 := map[string][]ssa.Instruction{}, map[string][]ssa.Instruction{}
		for _, x := range ev1 {
			pos1[x.name] = x.path
		}
		for _, x := range ev2 {
			pos2[x.name] = x.path
		}
		swapped, pairs := "", 0
		for _, a := range sortedKeys(all) {
			for _, b := range sortedKeys(all) {
				if a >= b || !isCheckEvent(a) || !isCheckEvent(b) || pos1[a] == nil || pos2[a] == nil || pos1[b] == nil || pos2[b] == nil {
					continue
				}
				pairs++
				if (pathBefore(pos1[a], pos1[b]) && pathBefore(pos2[b], pos2[a])) || (pathBefore(pos1[b], pos1[a]) && pathBefore(pos2[a], pos2[b])) {
					swapped = a + " / " + b
				}
			}
		}
		if pairs > 0 {
			if swapped != "" {
				e.fail("R1", "Client."+name+":check-order", e.pos(f2.Pos()), "the checks %s are made in opposite orders by the two clients: a request with both faults (e.g. an unknown table and an unused placeholder) is answered with different error classes", swapped)
			} else {
				e.pass("R1", "Client."+name+":check-order", e.pos(f2.Pos()), "%d pairs of checks are ordered consistently in both clients", pairs)
			}
		}
	}
	e.minCount("R1", 14)
}

func c17R2(e *Engine) {
	mk := e.fn("v2", "mapKnownError")
	if !e.anchor("R2", "v2.mapKnownError", mk == nil) {
		return
	}
	// codes the core (and the interpreter-facing types) can emit: constant first arguments of types.NewError in core, plus Code() of typed errors
	codes := map[string]string{}
	for _, fn := range e.funcs("core") {
		instrs(fn, func(in ssa.Instruction) {
			c, ok := in.(*ssa.Call)
			if !ok || c.Call.StaticCallee() == nil || c.Call.StaticCallee().Name() != "NewError" {
				return
			}
			if s, isK := constString(c.Call.Args[0]); isK {
				if _, seen := codes[s]; !seen {
					codes[s] = e.ipos(in)
				}
			}
		})
	}
	for _, fn := range e.funcs("types") {
		if fn.Name() == "Code" && fn.Signature.Recv() != nil {
			for _, r := range returnsOf(fn) {
				if s, isK := constString(retVals(r)[0]); isK {
					if _, seen := codes[s]; !seen {
						codes[s] = e.pos(fn.Pos())
					}
				}
			}
		}
	}
	handled := map[string]bool{}
	instrs(mk, func(in ssa.Instruction) {
		if b, ok := in.(*ssa.BinOp); ok && (b.Op == token.EQL || b.Op == token.NEQ) {
			if s, isK := constString(b.Y); isK {
				handled[s] = true
			}
		}
	})
	for _, code := range sortedKeys(codes) {
		if handled[code] {
			e.pass("R2", "v2.mapKnownError["+code+"]", e.pos(mk.Pos()), "code %s (emitted at %s) is mapped to a typed error", code, codes[code])
		} else {
			e.fail("R2", "v2.mapKnownError["+code+"]", e.pos(mk.Pos()), "the engine emits error code %s (%s) but the v2 mapper has no case for it: v2 callers receive minidyn's internal error type, which is not a smithy.APIError (errors.As fails), whereas v1 callers get an awserr.Error with that code", code, codes[code])
		}
	}
	if len(codes) < 3 {
		e.fail("R2", "count:R2", "-", "only %d error codes found in the engine", len(codes))
	}
}

// literalFieldsOf collects, per SDK struct type name, the union of fields set by composite literals of that type in the package.
func (e *Engine) literalFieldsOf(role string, typeNames ...string) map[string]map[string]bool {
	out := map[string]map[string]bool{}
	p := e.Pkgs[role]
	// output mappers: functions that take a value of minidyn's internal description types – and the package-local
	// constructors they build their results with
	isMapper := func(fd *ast.FuncDecl) bool {
		for _, prm := range fd.Type.Params.List {
			if tv, ok := p.TypesInfo.Types[prm.Type]; ok && strings.Contains(types.TypeString(tv.Type, nil), modPath+"/types.") {
				return true
			}
		}
		return false
	}
	helperDecls := map[ast.Node]bool{}
	for _, fn := range e.funcs(role) {
		fd, ok := fn.Syntax().(*ast.FuncDecl)
		if !ok || fd.Type.Params == nil || !isMapper(fd) {
			continue
		}
		for g := range e.reach(fn) {
			if e.fnRole(g) == role && g.Syntax() != nil {
				helperDecls[g.Syntax()] = true
			}
		}
	}
	for _, file := range p.Syntax {
		for _, d := range file.Decls {
			fd, isFn := d.(*ast.FuncDecl)
			if !isFn || fd.Type.Params == nil {
				continue
			}
			if !isMapper(fd) && !helperDecls[fd] {
				continue
			}
			inspectLits(p.TypesInfo, fd, typeNames, out)
		}
	}
	return out
}

func inspectLits(info *types.Info, root ast.Node, typeNames []string, out map[string]map[string]bool) {
	{
		ast.Inspect(root, func(n ast.Node) bool {
			cl, ok := n.(*ast.CompositeLit)
			if !ok {
				return true
			}
			tv, ok := info.Types[cl]
			if !ok {
				return true
			}
			nt := namedOf(tv.Type)
			if nt == nil || !strings.Contains(nt.Obj().Pkg().Path(), "aws-sdk-go") {
				return true
			}
			for _, tn := range typeNames {
				if nt.Obj().Name() == tn {
					if out[tn] == nil {
						out[tn] = map[string]bool{}
					}
					for f := range compositeFields(cl) {
						out[tn][f] = true
					}
				}
			}
			return true
		})
	}
}

func c17R3(e *Engine) {
	kinds := []string{"TableDescription", "GlobalSecondaryIndexDescription", "LocalSecondaryIndexDescription", "Projection", "KeySchemaElement"}
	l1, l2 := e.literalFieldsOf("v1", kinds...), e.literalFieldsOf("v2", kinds...)
	// only fields that carry information available from the engine; status/ARN fields that v2 passes through empty are ignored
	ignore := map[string]bool{"Backfilling": true, "IndexArn": true, "IndexSizeBytes": true, "IndexStatus": true}
	for _, k := range kinds {
		all := map[string]bool{}
		for f := range l1[k] {
			all[f] = true
		}
		for f := range l2[k] {
			all[f] = true
		}
		if len(all) == 0 {
			e.fail("R3", k, "-", "no literal of SDK type %s in either client", k)
			continue
		}
		for _, f := range sortedKeys(all) {
			if ignore[f] {
				continue
			}
			construct := k + "." + f
			if l1[k][f] == l2[k][f] {
				e.pass("R3", construct, "-", "set by both clients")
			} else {
				only := "v1"
				if l2[k][f] {
					only = "v2"
				}
				e.fail("R3", construct, "-", "field %s of %s is filled in only by the %s client: DescribeTable/CreateTable outputs differ between the clients", f, k, only)
			}
		}
	}
}

func c17R4(e *Engine) {
	n := 0
	for _, role := range clientRoles {
		for _, fn := range e.funcs(role) {
			instrs(fn, func(in ssa.Instruction) {
				u, ok := in.(*ssa.UnOp)
				if !ok || u.Op != token.MUL {
					return
				}
				// *x where x = load of a pointer-typed field of an SDK *Input struct
				inner, ok := u.X.(*ssa.UnOp)
				if !ok || inner.Op != token.MUL {
					return
				}
				fa, ok := inner.X.(*ssa.FieldAddr)
				if !ok {
					return
				}
				owner := namedOf(fa.X.Type())
				if owner == nil || !strings.HasSuffix(owner.Obj().Name(), "Input") || !strings.Contains(owner.Obj().Pkg().Path(), "aws-sdk-go") {
					return
				}
				if _, isPtr := inner.Type().Underlying().(*types.Pointer); !isPtr {
					return
				}
				n++
				f := fieldOf(fa)
				construct := e.fname(fn) + ":*" + owner.Obj().Name() + "." + f.Name()
				_, nonNil := knownNilness(in.Block(), func(v ssa.Value) bool {
					f2, _ := loadedFieldDeep(v)
					return f2 == f
				})
				if nonNil {
					e.pass("R4", construct, e.ipos(in), "dereference is on the non-nil edge of a test of the same field")
				} else {
					e.fail("R4", construct, e.ipos(in), "optional request field %s.%s is dereferenced without a nil test: a request that leaves it out panics (nil pointer dereference) in this client, while the other client reads it through a nil-safe helper", owner.Obj().Name(), f.Name())
				}
			})
		}
	}
	if n == 0 {
		e.pass("R4", "no-raw-dereference-of-request-pointers", "-", "neither client dereferences an optional request pointer directly (all reads go through nil-safe helpers)")
	}
}

func c17R5(e *Engine) {
	m1, m2 := e.clientMethods("v1"), e.clientMethods("v2")
	ops := map[string]bool{}
	for n, f := range m2 {
		if f.Object() != nil && f.Object().Exported() {
			ops[n] = true
		}
	}
	for n, f := range m1 {
		if f.Object() != nil && f.Object().Exported() && !strings.HasSuffix(n, "WithContext") {
			ops[n] = true
		}
	}
	for _, n := range sortedKeys(ops) {
		_, in1 := m1[n]
		_, in2 := m2[n]
		e.check(in1 == in2, "R5", "Client."+n+":present-in-both", "-", "operation %s implemented by v1:%v v2:%v", n, in1, in2)
	}
	// package-level helpers of the public API
	for _, h := range []string{"AddTable", "AddIndex", "ClearTable", "EmulateFailure", "ActiveForceFailure", "DeactiveForceFailure", "SetItemCollectionMetrics", "NewClient"} {
		e.check(e.fn("v1", h) != nil && e.fn("v2", h) != nil, "R5", "func."+h+":present-in-both", "-", "helper %s exists in both packages", h)
	}
}

func c17R6(e *Engine) {
	// (a) arguments of the placeholder validation per operation
	argSummary := func(role string, fn *ssa.Function) string {
		var parts []string
		e.expandCalls(role, fn, func(ci ssa.CallInstruction, ctx []callCtx) bool {
			c, ok := ci.(*ssa.Call)
			if !ok || c.Call.StaticCallee() == nil {
				return false
			}
			if c.Call.StaticCallee().Name() != "validateExpressionAttributes" {
				return true
			}
			for i, a := range c.Call.Args {
				var os []string
				if i == len(c.Call.Args)-1 && c.Call.Signature().Variadic() {
					ra, rctx := resolveParam(a, ctx)
					els := variadicElems(ra)
					if len(els) == 0 {
						os = e.originsCtx(ra, rctx)
					}
					for _, el := range els {
						os = append(os, e.originsCtx(el, rctx)...)
					}
				} else {
					os = e.originsCtx(a, ctx)
				}
				for j := range os {
					// drop the SDK-specific input type prefix: field:PutItemInput.X -> X
					if k := strings.LastIndex(os[j], "Input."); k >= 0 {
						os[j] = os[j][k+6:]
					}
				}
				sort.Strings(os)
				parts = append(parts, strings.Join(os, "+"))
			}
			return false
		})
		return strings.Join(parts, " ; ")
	}
	m1, m2 := e.clientMethods("v1"), e.clientMethods("v2")
	n := 0
	for _, name := range sortedFuncs(e, m2) {
		f1, ok := m1[name]
		if !ok {
			continue
		}
		a1, a2 := argSummary("v1", f1), argSummary("v2", m2[name])
		if a1 == "" && a2 == "" {
			continue
		}
		n++
		e.check(a1 == a2, "R6", "Client."+name+":validated-fields", e.pos(m2[name].Pos()), "placeholder validation sees [%s] in v1 and [%s] in v2", a1, a2)
	}
	// (b) QueryInput provenance for searches
	by := map[string]map[string]string{}
	for _, s := range e.searchSites() {
		for _, f := range []string{"Index", "KeyConditionExpression", "FilterExpression", "ExpressionAttributeValues", "Aliases", "Limit", "ExclusiveStartKey", "ScanIndexForward", "Scan"} {
			os := e.queryInputField(s, f)
			var norm []string
			for _, o := range os {
				o = strings.TrimPrefix(o, "deref-of ")
				if (o == "const:false" || o == `const:""` || o == "const:0" || o == "const:nil") && f != "Limit" {
					continue
				}
				norm = append(norm, o)
			}
			sort.Strings(norm)
			key := s.method + ".QueryInput." + f
			if by[key] == nil {
				by[key] = map[string]string{}
			}
			by[key][s.role] = strings.Join(norm, "|")
		}
	}
	for _, k := range sortedKeys(by) {
		n++
		e.check(by[k]["v1"] == by[k]["v2"], "R6", k, "-", "v1: %s ; v2: %s", by[k]["v1"], by[k]["v2"])
	}
	if n < 20 {
		e.fail("R6", "count:R6", "-", "only %d provenance comparisons made", n)
	}
}

var _ = fmt.Sprint

// errKinds classifies the error values a function of the analysed packages can return:
//
//	nil        – no error
//	sdk        – an SDK API error (a typed exception of the service package, smithy.GenericAPIError, …)
//	engine     – minidyn's internal error types (types.NewError codes, *types.ConditionalCheckFailedException)
//	bare       – errors.New / fmt.Errorf values and anything of a standard-library error type
//	sentinel   – a package-level error variable
//	configured – the failure the test configured on the client
//	unknown    – a value the classification cannot see through
//
// A mapping function (error -> error, the adapter's mapKnownError) turns engine into sdk and leaves everything else as it
// is – exactly what errors.As on the engine's error interface does.
type errClassifier struct {
	keyFns map[*ssa.Function]bool // functions of the key derivation: their bare errors are "the key is malformed"
	fdepth int
	e      *Engine
	memo   map[*ssa.Function]map[string]bool
	mapper map[*ssa.Function]bool
}

func (ec *errClassifier) ofFunc(fn *ssa.Function, depth int) map[string]bool {
	if r, ok := ec.memo[fn]; ok {
		return r
	}
	out := map[string]bool{}
	ec.memo[fn] = out // recursion guard
	ei := errResultIndex(fn)
	if ei < 0 {
		// a constructor of error values: a result whose type has an Error() string method (types.Error, *baseError)
		res := fn.Signature.Results()
		for i := 0; i < res.Len(); i++ {
			ms := types.NewMethodSet(res.At(i).Type())
			if sel := ms.Lookup(nil, "Error"); sel != nil {
				ei = i
				break
			}
		}
	}
	if ei < 0 || fn.Blocks == nil || ec.fdepth > 10 {
		out["unknown"] = true
		return out
	}
	ec.fdepth++
	for _, r := range returnsOf(fn) {
		for k := range ec.of(retVals(r)[ei], 0, map[ssa.Value]bool{}) {
			out[k] = true
		}
	}
	ec.fdepth--
	if os.Getenv("MINICHECK_TRACE") != "" {
		fmt.Println("TRACE errkinds", ec.e.fname(fn), sortedKeys(out))
	}
	return out
}

func (ec *errClassifier) of(v ssa.Value, depth int, seen map[ssa.Value]bool) map[string]bool {
	out := map[string]bool{}
	if seen[v] || depth > 10 {
		return out
	}
	seen[v] = true
	add := func(m map[string]bool) {
		for k := range m {
			out[k] = true
		}
	}
	e := ec.e
	switch x := v.(type) {
	case *ssa.Const:
		out["nil"] = true
	case *ssa.MakeInterface:
		nt := namedOf(x.X.Type())
		switch {
		case nt == nil || nt.Obj().Pkg() == nil:
			out["bare"] = true
		case strings.Contains(nt.Obj().Pkg().Path(), "aws-sdk-go") || strings.Contains(nt.Obj().Pkg().Path(), "smithy-go"):
			out["sdk"] = true
		case nt.Obj().Pkg().Path() == modPath+"/types":
			out["engine"] = true
		default:
			out["bare"] = true
		}
	case *ssa.Alloc:
		nt := namedOf(x.Type())
		switch {
		case nt == nil || nt.Obj().Pkg() == nil:
			out["bare"] = true
		case strings.Contains(nt.Obj().Pkg().Path(), "aws-sdk-go") || strings.Contains(nt.Obj().Pkg().Path(), "smithy-go"):
			out["sdk"] = true
		case nt.Obj().Pkg().Path() == modPath+"/types":
			out["engine"] = true
		default:
			out["bare"] = true
		}
	case *ssa.ChangeInterface:
		add(ec.of(x.X, depth+1, seen))
	case *ssa.Phi:
		for _, ed := range x.Edges {
			add(ec.of(ed, depth+1, seen))
		}
	case *ssa.Extract:
		if c, ok := x.Tuple.(*ssa.Call); ok {
			add(ec.ofCall(c, depth, seen))
		} else if ta, ok := x.Tuple.(*ssa.TypeAssert); ok {
			add(ec.of(ta.X, depth+1, seen))
		} else {
			out["unknown"] = true
		}
	case *ssa.Call:
		add(ec.ofCall(x, depth, seen))
	case *ssa.UnOp:
		if x.Op == token.MUL {
			if _, isG := x.X.(*ssa.Global); isG {
				out["sentinel"] = true
				break
			}
			if f, _ := loadedField(x); f != nil && f.Name() == "forceFailureErr" {
				out["configured"] = true
				break
			}
			if al, isAl := x.X.(*ssa.Alloc); isAl {
				for _, st := range storesTo(al) {
					add(ec.of(st.Val, depth+1, seen))
				}
				break
			}
		}
		out["unknown"] = true
	case *ssa.Lookup, *ssa.Parameter:
		out["unknown"] = true
	case *ssa.TypeAssert:
		add(ec.of(x.X, depth+1, seen))
	default:
		_ = e
		out["unknown"] = true
	}
	return out
}

func (ec *errClassifier) ofCall(c *ssa.Call, depth int, seen map[ssa.Value]bool) map[string]bool {
	out := map[string]bool{}
	g := c.Call.StaticCallee()
	name := staticCalleeName(c)
	switch {
	case name == "errors.New" || name == "fmt.Errorf":
		if ec.keyFns[c.Parent()] {
			out["bare-key"] = true
		} else {
			out["bare"] = true
		}
	case g == nil:
		// dynamic call: every possible callee
		fs := ec.e.callees(c)
		if len(fs) == 0 {
			out["unknown"] = true
		}
		for _, h := range fs {
			for k := range ec.ofFunc(h, depth+1) {
				out[k] = true
			}
		}
	case ec.mapper[g]:
		for k := range ec.of(c.Call.Args[0], depth+1, seen) {
			if k == "engine" {
				k = "sdk"
			}
			out[k] = true
		}
	case ec.e.fnRole(g) != "":
		for k := range ec.ofFunc(g, depth+1) {
			out[k] = true
		}
	default:
		out["unknown"] = true
	}
	return out
}

func newErrClassifier(e *Engine, mk *ssa.Function) *errClassifier {
	ec := &errClassifier{e: e, memo: map[*ssa.Function]map[string]bool{}, mapper: map[*ssa.Function]bool{mk: true}, keyFns: map[*ssa.Function]bool{}}
	if gk := e.fn("core", "keySchema.GetKey"); gk != nil {
		for g := range e.reach(gk) {
			ec.keyFns[g] = true
		}
	}
	return ec
}

// c13R10: a request whose key lacks a key attribute or supplies it with the wrong type is rejected with a VALIDATION
// error. The key derivation itself reports bare errors; every exported single-item operation of the v2 client must wrap
// them (ValidationException) before they reach the caller – handing them to the mapper does nothing, it only translates
// the engine's coded errors.
func c13R10(e *Engine) {
	mk := e.fn("v2", "mapKnownError")
	if !e.anchor("R10", "v2.mapKnownError", mk == nil) {
		return
	}
	ec := newErrClassifier(e, mk)
	ms := e.clientMethods("v2")
	n := 0
	for _, op := range []string{"PutItem", "UpdateItem", "DeleteItem", "GetItem"} {
		fn := ms[op]
		if fn == nil {
			continue
		}
		n++
		kinds := ec.ofFunc(fn, 0)
		construct := "v2.Client." + op + ":malformed-key-is-a-validation-error"
		if kinds["bare-key"] {
			pos := e.pos(fn.Pos())
			ei := errResultIndex(fn)
			for _, r := range returnsOf(fn) {
				if ec.of(retVals(r)[ei], 1, map[ssa.Value]bool{})["bare-key"] {
					pos = e.ipos(r)
					break
				}
			}
			e.fail("R10", construct, pos, "the error of the key derivation (missing key attribute, wrong type) reaches the caller as a bare error value, not as a ValidationException: callers cannot tell a malformed key from any other failure")
		} else {
			e.pass("R10", construct, e.pos(fn.Pos()), "errors of the key derivation reach the caller only wrapped as validation errors (classes: %v)", sortedKeys(kinds))
		}
	}
	if n < 4 {
		e.fail("R10", "count:R10", "-", "only %d single-item operations found in the v2 client", n)
	}
}

// c17R9: the error CLASS a v2 caller sees. Every error returned by an exported operation or exported helper of the v2
// client is an SDK API error (or the configured failure): never the engine's internal error type, never a bare
// errors.New/fmt.Errorf value – callers select on the class (errors.As to the SDK's exception types), so an engine error
// that skips the mapper, or a bare error handed to the mapper (which can only translate engine errors), changes what a
// caller's error handling does although the message text is the same.
func c17R9(e *Engine) {
	mk := e.fn("v2", "mapKnownError")
	if !e.anchor("R9", "v2.mapKnownError", mk == nil) {
		return
	}
	ec := newErrClassifier(e, mk)
	n := 0
	for _, fn := range sortedFns(e, fnSet(e.funcs("v2"))) {
		if fn.Parent() != nil || fn.Object() == nil || !fn.Object().Exported() || errResultIndex(fn) < 0 {
			continue
		}
		if fn.Signature.Recv() != nil {
			if nt := namedOf(fn.Signature.Recv().Type()); nt == nil || nt.Obj().Name() != "Client" {
				continue
			}
		}
		n++
		kinds := ec.ofFunc(fn, 0)
		construct := e.fname(fn) + ":error-class"
		if kinds["engine"] {
			pos := e.pos(fn.Pos())
			ei := errResultIndex(fn)
			for _, r := range returnsOf(fn) {
				if ec.of(retVals(r)[ei], 1, map[ssa.Value]bool{})["engine"] {
					pos = e.ipos(r)
					break
				}
			}
			e.fail("R9", construct, pos, "the operation can return an error of the engine's internal type (classes seen: %v): it was not passed through the mapper – v2 callers that select on the SDK's error types (ResourceNotFoundException, ConditionalCheckFailedException, APIError codes) take the wrong branch, and the v1 client reports another class for the same request", sortedKeys(kinds))
		} else {
			e.pass("R9", construct, e.pos(fn.Pos()), "no engine-internal error reaches the caller (classes: %v)", sortedKeys(kinds))
		}
	}
	if n < 12 {
		e.fail("R9", "count:R9", "-", "only %d exported error-returning operations of the v2 client found", n)
	}
}
