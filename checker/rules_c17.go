package main

import (
	"fmt"
	"go/ast"
	"go/token"
	"go/types"
	"sort"
	"strings"

	"golang.org/x/tools/go/ssa"
)

// Sibling cross-check of the two adapters: per method a summary of guard events, core calls and error classes is
// extracted from the SSA form and the two summaries are compared after normalisation.

// normEvent maps a call instruction in a client method to a normalised event name ("" = not an event).
func (e *Engine) normEvent(role string, lr *lockResult, c ssa.CallInstruction) string {
	if isBuiltin(c) {
		return ""
	}
	if k := lr.muCall(c); k != "" {
		return "mutex" // how the mutex is released (defer or explicit) is an idiom, not behaviour
	}
	if c.Common().IsInvoke() {
		m := c.Common().Method
		if m.Name() == "Error" || m.Name() == "Code" || m.Name() == "Message" {
			return ""
		}
		return "invoke:" + m.Name()
	}
	g := c.Common().StaticCallee()
	if g == nil {
		return "dyncall"
	}
	if isPtrHelper(g) {
		return ""
	}
	switch r := e.fnRole(g); r {
	case "core":
		return "core:" + strings.TrimPrefix(e.fname(g), "core.")
	case role:
		if ok, _ := isConversion(e, g); ok || isMapCopyFunc(g) {
			return ""
		}
		name := g.Name()
		if ff := e.field(role, "Client", "forceFailureErr"); ff != nil && failureGetter(g, ff) {
			return "mutex" // locked read of the failure condition; the test itself is recorded as failure-test
		}
		if strings.HasPrefix(name, "map") && g.Signature.Results().Len() == 1 && len(g.Params) >= 1 {
			// other mappers (inputs, descriptions): transparent, except the error mapper of v2
			if isErrorType(g.Signature.Results().At(0).Type()) {
				return "" // error mapping is a representation difference between the SDKs
			}
			return ""
		}
		return "local:" + name
	case "types", "interp", "lang":
		return ""
	}
	// SDK / library
	name := staticCalleeName(c)
	switch {
	case strings.HasSuffix(name, ").Validate"):
		return "sdk:Validate"
	case strings.Contains(name, "awserr.New"), strings.Contains(name, "errors.Is"), strings.Contains(name, "errors.As"), strings.HasPrefix(name, "fmt."), strings.HasPrefix(name, "strings."):
		return ""
	}
	return ""
}

// methodSummary: ordered, de-duplicated event list of a method (block order = dominance-compatible order of the CFG numbering).
func (e *Engine) methodSummary(role string, fn *ssa.Function) []string {
	lr := e.lockAnalysis(role)
	var evs []string
	seen := map[string]bool{}
	for _, b := range fn.Blocks {
		if b == fn.Recover {
			continue
		}
		for _, in := range b.Instrs {
			c, ok := in.(ssa.CallInstruction)
			if !ok {
				continue
			}
			ev := e.normEvent(role, lr, c)
			if ev == "" || seen[ev] {
				continue
			}
			seen[ev] = true
			evs = append(evs, ev)
		}
	}
	// the failure test is an event as well
	if ff := e.field(role, "Client", "forceFailureErr"); ff != nil {
		if findFailureTest(fn, ff) != nil {
			evs = append(evs, "failure-test")
		}
	}
	return evs
}

func init() {
	register(&Prop{
		ID:         "C17",
		Title:      "The SDK v1 and SDK v2 clients are behaviourally equivalent",
		Decided:    "agreement of the two hand-duplicated adapters, method by method: (R1) for every operation implemented by both clients the normalised summaries agree – the set of guard events (lock, deferred unlock, failure test, request validation, placeholder validation, table lookup) and the core calls made; events present in only one client are reported one by one; (R2) every error code the core can emit has a case in the v2 error mapper that turns it into a typed SDK/smithy error (v1 callers get an awserr.Error for the same codes by construction); (R3) the description mappers cover the same fields in both clients; (R4) optional request pointers are never dereferenced without a nil test in either client; (R5) both clients implement the same set of operations; (R6) the arguments handed to the placeholder validation and the QueryInput built for searches have the same provenance in both clients.",
		NotDecided: "value-level equality of the mapped outputs (C10), pagination keys (C04), and everything behind the shared core (identical by construction).",
		Assumes:    []string{"ReturnValuesOnConditionCheckFailure exists only in SDK v2 (accepted difference)"},
		Rules: []RuleDef{
			{ID: "R1", Desc: "guard events and core calls agree per operation (T-SIB)", Run: c17R1},
			{ID: "R2", Desc: "every core error code is mapped to a typed error in v2 (T-TABLE)", Run: c17R2},
			{ID: "R3", Desc: "description mappers cover the same fields (T-TABLE)", Run: c17R3},
			{ID: "R4", Desc: "optional request pointers are nil-tested before dereference (T-GUARD)", Run: c17R4},
			{ID: "R5", Desc: "same set of operations (T-SIB)", Run: c17R5},
			{ID: "R6", Desc: "validation arguments and QueryInput provenance agree (T-SIB over T-FLOW)", Run: c17R6},
		},
	})
}

func c17R1(e *Engine) {
	m1, m2 := e.clientMethods("v1"), e.clientMethods("v2")
	for _, name := range sortedFuncs(e, m2) {
		f1, ok := m1[name]
		f2 := m2[name]
		if !ok || f2.Object() == nil || !f2.Object().Exported() {
			continue
		}
		s1, s2 := e.methodSummary("v1", f1), e.methodSummary("v2", f2)
		set1, set2 := map[string]bool{}, map[string]bool{}
		for _, x := range s1 {
			set1[x] = true
		}
		for _, x := range s2 {
			set2[x] = true
		}
		all := map[string]bool{}
		for x := range set1 {
			all[x] = true
		}
		for x := range set2 {
			all[x] = true
		}
		diffs := 0
		for _, ev := range sortedKeys(all) {
			if set1[ev] == set2[ev] {
				continue
			}
			diffs++
			only := "v1"
			if set2[ev] {
				only = "v2"
			}
			what := "the two clients behave differently for this operation"
			if ev == "sdk:Validate" {
				what = "malformed requests (missing required fields, too-short table names) are rejected with the SDK's parameter-validation error in v1 but reach the engine in v2, so the same request fails with different error classes (or succeeds in one client only)"
			}
			e.fail("R1", "Client."+name+":"+ev, e.pos(f2.Pos()), "event %s occurs only in the %s client: %s", ev, only, what)
		}
		if diffs == 0 {
			e.pass("R1", "Client."+name+":summary", e.pos(f2.Pos()), "both clients: %s", strings.Join(s2, " → "))
		}
	}
	e.minCount("R1", 14)
}

func c17R2(e *Engine) {
	mk := e.fn("v2", "mapKnownError")
	if !e.anchor("R2", "v2.mapKnownError", mk == nil) {
		return
	}
	// codes the core (and the interpreter-facing types) can emit: constant first arguments of types.NewError in core, plus Code() of typed errors
	codes := map[string]string{}
	for _, fn := range e.funcs("core") {
		instrs(fn, func(in ssa.Instruction) {
			c, ok := in.(*ssa.Call)
			if !ok || c.Call.StaticCallee() == nil || c.Call.StaticCallee().Name() != "NewError" {
				return
			}
			if s, isK := constString(c.Call.Args[0]); isK {
				if _, seen := codes[s]; !seen {
					codes[s] = e.ipos(in)
				}
			}
		})
	}
	for _, fn := range e.funcs("types") {
		if fn.Name() == "Code" && fn.Signature.Recv() != nil {
			for _, r := range returnsOf(fn) {
				if s, isK := constString(retVals(r)[0]); isK {
					if _, seen := codes[s]; !seen {
						codes[s] = e.pos(fn.Pos())
					}
				}
			}
		}
	}
	handled := map[string]bool{}
	instrs(mk, func(in ssa.Instruction) {
		if b, ok := in.(*ssa.BinOp); ok && b.Op == token.EQL {
			if s, isK := constString(b.Y); isK {
				handled[s] = true
			}
		}
	})
	for _, code := range sortedKeys(codes) {
		if handled[code] {
			e.pass("R2", "v2.mapKnownError["+code+"]", e.pos(mk.Pos()), "code %s (emitted at %s) is mapped to a typed error", code, codes[code])
		} else {
			e.fail("R2", "v2.mapKnownError["+code+"]", e.pos(mk.Pos()), "the engine emits error code %s (%s) but the v2 mapper has no case for it: v2 callers receive minidyn's internal error type, which is not a smithy.APIError (errors.As fails), whereas v1 callers get an awserr.Error with that code", code, codes[code])
		}
	}
	if len(codes) < 3 {
		e.fail("R2", "count:R2", "-", "only %d error codes found in the engine", len(codes))
	}
}

// literalFieldsOf collects, per SDK struct type name, the union of fields set by composite literals of that type in the package.
func (e *Engine) literalFieldsOf(role string, typeNames ...string) map[string]map[string]bool {
	out := map[string]map[string]bool{}
	p := e.Pkgs[role]
	for _, file := range p.Syntax {
		for _, d := range file.Decls {
			fd, isFn := d.(*ast.FuncDecl)
			if !isFn || fd.Type.Params == nil {
				continue
			}
			// only output mappers: functions that take a value of minidyn's internal description types
			internal := false
			for _, prm := range fd.Type.Params.List {
				if tv, ok := p.TypesInfo.Types[prm.Type]; ok && strings.Contains(types.TypeString(tv.Type, nil), modPath+"/types.") {
					internal = true
				}
			}
			if !internal {
				continue
			}
			inspectLits(p.TypesInfo, fd, typeNames, out)
		}
	}
	return out
}

func inspectLits(info *types.Info, root ast.Node, typeNames []string, out map[string]map[string]bool) {
	{
		ast.Inspect(root, func(n ast.Node) bool {
			cl, ok := n.(*ast.CompositeLit)
			if !ok {
				return true
			}
			tv, ok := info.Types[cl]
			if !ok {
				return true
			}
			nt := namedOf(tv.Type)
			if nt == nil || !strings.Contains(nt.Obj().Pkg().Path(), "aws-sdk-go") {
				return true
			}
			for _, tn := range typeNames {
				if nt.Obj().Name() == tn {
					if out[tn] == nil {
						out[tn] = map[string]bool{}
					}
					for f := range compositeFields(cl) {
						out[tn][f] = true
					}
				}
			}
			return true
		})
	}
}

func c17R3(e *Engine) {
	kinds := []string{"TableDescription", "GlobalSecondaryIndexDescription", "LocalSecondaryIndexDescription", "Projection", "KeySchemaElement"}
	l1, l2 := e.literalFieldsOf("v1", kinds...), e.literalFieldsOf("v2", kinds...)
	// only fields that carry information available from the engine; status/ARN fields that v2 passes through empty are ignored
	ignore := map[string]bool{"Backfilling": true, "IndexArn": true, "IndexSizeBytes": true, "IndexStatus": true}
	for _, k := range kinds {
		all := map[string]bool{}
		for f := range l1[k] {
			all[f] = true
		}
		for f := range l2[k] {
			all[f] = true
		}
		if len(all) == 0 {
			e.fail("R3", k, "-", "no literal of SDK type %s in either client", k)
			continue
		}
		for _, f := range sortedKeys(all) {
			if ignore[f] {
				continue
			}
			construct := k + "." + f
			if l1[k][f] == l2[k][f] {
				e.pass("R3", construct, "-", "set by both clients")
			} else {
				only := "v1"
				if l2[k][f] {
					only = "v2"
				}
				e.fail("R3", construct, "-", "field %s of %s is filled in only by the %s client: DescribeTable/CreateTable outputs differ between the clients", f, k, only)
			}
		}
	}
}

func c17R4(e *Engine) {
	n := 0
	for _, role := range clientRoles {
		for _, fn := range e.funcs(role) {
			instrs(fn, func(in ssa.Instruction) {
				u, ok := in.(*ssa.UnOp)
				if !ok || u.Op != token.MUL {
					return
				}
				// *x where x = load of a pointer-typed field of an SDK *Input struct
				inner, ok := u.X.(*ssa.UnOp)
				if !ok || inner.Op != token.MUL {
					return
				}
				fa, ok := inner.X.(*ssa.FieldAddr)
				if !ok {
					return
				}
				owner := namedOf(fa.X.Type())
				if owner == nil || !strings.HasSuffix(owner.Obj().Name(), "Input") || !strings.Contains(owner.Obj().Pkg().Path(), "aws-sdk-go") {
					return
				}
				if _, isPtr := inner.Type().Underlying().(*types.Pointer); !isPtr {
					return
				}
				n++
				f := fieldOf(fa)
				construct := e.fname(fn) + ":*" + owner.Obj().Name() + "." + f.Name()
				_, nonNil := knownNilness(in.Block(), func(v ssa.Value) bool {
					f2, _ := loadedFieldDeep(v)
					return f2 == f
				})
				if nonNil {
					e.pass("R4", construct, e.ipos(in), "dereference is on the non-nil edge of a test of the same field")
				} else {
					e.fail("R4", construct, e.ipos(in), "optional request field %s.%s is dereferenced without a nil test: a request that leaves it out panics (nil pointer dereference) in this client, while the other client reads it through a nil-safe helper", owner.Obj().Name(), f.Name())
				}
			})
		}
	}
	if n == 0 {
		e.pass("R4", "no-raw-dereference-of-request-pointers", "-", "neither client dereferences an optional request pointer directly (all reads go through nil-safe helpers)")
	}
}

func c17R5(e *Engine) {
	m1, m2 := e.clientMethods("v1"), e.clientMethods("v2")
	ops := map[string]bool{}
	for n, f := range m2 {
		if f.Object() != nil && f.Object().Exported() {
			ops[n] = true
		}
	}
	for n, f := range m1 {
		if f.Object() != nil && f.Object().Exported() && !strings.HasSuffix(n, "WithContext") {
			ops[n] = true
		}
	}
	for _, n := range sortedKeys(ops) {
		_, in1 := m1[n]
		_, in2 := m2[n]
		e.check(in1 == in2, "R5", "Client."+n+":present-in-both", "-", "operation %s implemented by v1:%v v2:%v", n, in1, in2)
	}
	// package-level helpers of the public API
	for _, h := range []string{"AddTable", "AddIndex", "ClearTable", "EmulateFailure", "ActiveForceFailure", "DeactiveForceFailure", "SetItemCollectionMetrics", "NewClient"} {
		e.check(e.fn("v1", h) != nil && e.fn("v2", h) != nil, "R5", "func."+h+":present-in-both", "-", "helper %s exists in both packages", h)
	}
}

func c17R6(e *Engine) {
	// (a) arguments of the placeholder validation per operation
	argSummary := func(role string, fn *ssa.Function) string {
		var parts []string
		instrs(fn, func(in ssa.Instruction) {
			c, ok := in.(*ssa.Call)
			if !ok || c.Call.StaticCallee() == nil || c.Call.StaticCallee().Name() != "validateExpressionAttributes" {
				return
			}
			for i, a := range c.Call.Args {
				var os []string
				if i == len(c.Call.Args)-1 && c.Call.Signature().Variadic() {
					for _, el := range variadicElems(a) {
						os = append(os, e.origins(el)...)
					}
				} else {
					os = e.origins(a)
				}
				for j := range os {
					// drop the SDK-specific input type prefix: field:PutItemInput.X -> X
					if k := strings.LastIndex(os[j], "Input."); k >= 0 {
						os[j] = os[j][k+6:]
					}
				}
				sort.Strings(os)
				parts = append(parts, strings.Join(os, "+"))
			}
		})
		return strings.Join(parts, " ; ")
	}
	m1, m2 := e.clientMethods("v1"), e.clientMethods("v2")
	n := 0
	for _, name := range sortedFuncs(e, m2) {
		f1, ok := m1[name]
		if !ok {
			continue
		}
		a1, a2 := argSummary("v1", f1), argSummary("v2", m2[name])
		if a1 == "" && a2 == "" {
			continue
		}
		n++
		e.check(a1 == a2, "R6", "Client."+name+":validated-fields", e.pos(m2[name].Pos()), "placeholder validation sees [%s] in v1 and [%s] in v2", a1, a2)
	}
	// (b) QueryInput provenance for searches
	by := map[string]map[string]string{}
	for _, s := range e.searchSites() {
		for _, f := range []string{"Index", "KeyConditionExpression", "FilterExpression", "ExpressionAttributeValues", "Aliases", "Limit", "ExclusiveStartKey", "ScanIndexForward", "Scan"} {
			os := e.queryInputField(s, f)
			var norm []string
			for _, o := range os {
				o = strings.TrimPrefix(o, "deref-of ")
				if o == "const:false" || o == `const:""` || o == "const:0" || o == "const:nil" {
					continue
				}
				norm = append(norm, o)
			}
			sort.Strings(norm)
			key := s.method + ".QueryInput." + f
			if by[key] == nil {
				by[key] = map[string]string{}
			}
			by[key][s.role] = strings.Join(norm, "|")
		}
	}
	for _, k := range sortedKeys(by) {
		n++
		e.check(by[k]["v1"] == by[k]["v2"], "R6", k, "-", "v1: %s ; v2: %s", by[k]["v1"], by[k]["v2"])
	}
	if n < 20 {
		e.fail("R6", "count:R6", "-", "only %d provenance comparisons made", n)
	}
}

var _ = fmt.Sprint
