package main

import (
	"fmt"
	"go/ast"
	"go/token"
	"go/types"
	"sort"
	"strings"

	"golang.org/x/tools/go/ssa"
)

var itemFields = []string{"B", "BOOL", "BS", "L", "M", "N", "NS", "NULL", "S", "SS"}

func init() {
	register(&Prop{
		ID:         "C10",
		Title:      "Attribute values survive a write/read round trip unchanged",
		Decided:    "every conversion on the write/read path is total over the ten attribute types and discriminates by presence, not by emptiness: (R1) the v2 SDK→internal conversion has a case for every implementer of the SDK's AttributeValue union (enumerated from the SDK package through go/types) and maps member X to field X; (R2) the v2 internal→SDK conversion and the interpreter's MapToObject have a branch per field of types.Item whose presence test is `F != nil`, never `len(F) != 0` (an empty list, map or binary is a value; for the three set types emptiness tests are accepted because DynamoDB has no empty sets); (R3) the four v1 conversions set all ten fields, each from the same-named source field; (R4) each interpreter object's ToDynamoDB sets exactly the field named like the type tag its Type() returns; (R5) the item-copy helpers and the interpreter's working copies copy every entry unconditionally; (R6) every S and N text stored into any of the three representations, in either direction of either client, comes from the same-named slot through pointer copies only – no call that could trim, format or parse it (the value-origin tracer looks into package-local helpers and treats only the SDK pointer helpers as transparent); (R7) the internal representation encodes the type in which field is non-nil: in every data object's ToDynamoDB and in every member case of the SDK v2 → internal conversions the type-carrying field is provably non-nil (must-non-nil analysis over make/literal/append/phis/helper returns/field invariants), also for the empty string, binary, list and map (sets cannot be empty and are left out); (R8) the key derivation is lossless (= C01.R8): an item written under one number key is not silently replaced by a write to a different number; (R9) the value read back is the value that was written only if neither the stored value nor an earlier read result shares memory with a buffer somebody else can still change: every reference-typed component of every conversion result is owned by the result (= C14.R1); (R10) in the attribute→object conversion the object built under the presence test of field F carries the tag F (case chains and (predicate, constructor) tables alike) – with R4 (an object of tag F is written back as field F) a value keeps its type through the expression engine; (R11) every container conversion / copy helper of the adapters returns nil only under arg == nil: an empty map, list, binary or set stays present; (R12) a write that is rejected has not replaced the stored value (= C08.R1); (R13) the search path modifies no item map it did not build (= C02.R15); (R14) outside the expression language no numeral is parsed to or formatted from a float (= C12.R1 restricted to v1/v2/core/interp).",
		NotDecided: "numeric notation and precision (C12), set/element equality, nesting depth, and fidelity of values inside each branch (value-level).",
		Rules: []RuleDef{
			{ID: "R1", Desc: "v2 SDK→internal: exhaustive over the SDK union, member X ↦ field X (T-TABLE)", Run: c10R1},
			{ID: "R2", Desc: "presence tests are nil-tests, not emptiness tests (T-TABLE)", Run: c10R2},
			{ID: "R3", Desc: "v1 conversions set all ten fields from the same-named field (T-TABLE)", Run: c10R3},
			{ID: "R4", Desc: "ToDynamoDB field ↔ Type() tag agreement (T-TABLE)", Run: c10R4},
			{ID: "R5", Desc: "copies are complete (SSA)", Run: c10R5},
			{ID: "R6", Desc: "S and N texts are carried verbatim in both directions of both clients (T-FLOW)", Run: c10R6},
			{ID: "R7", Desc: "the type-carrying field is provably non-nil wherever a typed attribute is written (T-GUARD non-nil)", Run: c10R7},
			{ID: "R8", Desc: "a written item is not replaced by a write to another key: lossless key derivation (= C01.R8)", Run: aliasRule("R8", c01R8, nil)},
			{ID: "R10", Desc: "attribute value -> object: under the presence test of field F the object built is the one whose Type()/ToDynamoDB is F (with R4: a value keeps its type through a read/write round trip) (T-GUARD)", Run: c10R10},
			{ID: "R9", Desc: "what is stored and what is handed out are copies: reference components of every conversion are owned by the result (= C14.R1)", Run: aliasRule("R9", c14R1, nil)},
			{ID: "R11", Desc: "container conversions and copy helpers of the adapters answer nil only for a nil argument, never for an empty one (presence is nil-ness) (T-GUARD)", Run: c10R11},
			{ID: "R12", Desc: "what a read returns is what the last SUCCESSFUL write stored: a rejected write leaves the stored value untouched (= C08.R1)", Run: aliasRule("R12", c08R1, nil)},
			{ID: "R13", Desc: "a read returns the stored attributes: nothing on the search path strips or rewrites an item it did not build (= C02.R15)", Run: aliasRule("R13", c02R15, nil)},
			{ID: "R14", Desc: "no conversion on the adapters' or the engine's path passes a number through binary floating point (= C12.R1 outside the expression language): members of a number set that differ beyond 53 bits stay distinct", Run: c10R14},
		},
	})
}

// sdkUnionMembers: names X of the SDK types *AttributeValueMemberX implementing the v2 AttributeValue union.
func (e *Engine) sdkUnionMembers() []string {
	p := e.Pkgs["v2"]
	if p == nil {
		return nil
	}
	var sdk *types.Package
	for _, imp := range p.Types.Imports() {
		if imp.Path() == "github.com/aws/aws-sdk-go-v2/service/dynamodb/types" {
			sdk = imp
		}
	}
	if sdk == nil {
		return nil
	}
	iface, _ := sdk.Scope().Lookup("AttributeValue").Type().Underlying().(*types.Interface)
	if iface == nil {
		return nil
	}
	var out []string
	for _, n := range sdk.Scope().Names() {
		tn, ok := sdk.Scope().Lookup(n).(*types.TypeName)
		if !ok || !strings.HasPrefix(n, "AttributeValueMember") {
			continue
		}
		if types.Implements(types.NewPointer(tn.Type()), iface) {
			out = append(out, strings.TrimPrefix(n, "AttributeValueMember"))
		}
	}
	sort.Strings(out)
	return out
}

func c10R1(e *Engine) {
	members := e.sdkUnionMembers()
	if !e.anchor("R1", "SDK v2 AttributeValue union members", len(members) < 10) {
		return
	}
	// conversion functions sdk->internal in v2
	covered := map[string]string{} // member -> field stored
	fallthroughNULL := false
	for _, fn := range e.attrConversions() {
		if e.fnRole(fn) != "v2" || !strings.Contains(types.TypeString(fn.Signature.Results().At(0).Type(), nil), modPath+"/types.Item") {
			continue
		}
		instrs(fn, func(in ssa.Instruction) {
			ta, ok := in.(*ssa.TypeAssert)
			if !ok || !ta.CommaOk {
				return
			}
			nt := namedOf(ta.AssertedType)
			if nt == nil || !strings.HasPrefix(nt.Obj().Name(), "AttributeValueMember") {
				return
			}
			member := strings.TrimPrefix(nt.Obj().Name(), "AttributeValueMember")
			// on the ok edge: which Item field is stored?
			var okV ssa.Value
			for _, ex := range extractOf(ta, 1) {
				okV = ex
			}
			instrs(fn, func(j ssa.Instruction) {
				st, isSt := j.(*ssa.Store)
				if !isSt {
					return
				}
				fa, isFA := st.Addr.(*ssa.FieldAddr)
				if !isFA || !strings.HasSuffix(typeName(fa.X.Type()), "types.Item") {
					return
				}
				for _, cd := range condsAt(j.Block()) {
					cd = normCond(cd)
					if cd.V == okV && cd.Val {
						covered[member] = fieldOf(fa).Name()
					}
				}
			})
		})
		// fallthrough: a store of NULL on a path governed by no successful assert
		instrs(fn, func(in ssa.Instruction) {
			st, ok := in.(*ssa.Store)
			if !ok {
				return
			}
			fa, ok := st.Addr.(*ssa.FieldAddr)
			if !ok || !strings.HasSuffix(typeName(fa.X.Type()), "types.Item") || fieldOf(fa).Name() != "NULL" {
				return
			}
			allFalse := true
			for _, cd := range condsAt(in.Block()) {
				if normCond(cd).Val {
					allFalse = false
				}
			}
			if allFalse {
				fallthroughNULL = true
			}
		})
	}
	for _, m := range members {
		construct := "v2:sdk->internal[" + m + "]"
		f, ok := covered[m]
		switch {
		case ok && f == m:
			e.pass("R1", construct, "-", "member %s ↦ Item.%s", m, f)
		case ok:
			e.fail("R1", construct, "-", "SDK member %s is stored into Item.%s: the attribute changes type on write", m, f)
		case m == "NULL" && fallthroughNULL:
			e.pass("R1", construct, "-", "member NULL is handled by the final fall-through (NULL: true)")
		default:
			if fallthroughNULL {
				e.fail("R1", construct, "-", "SDK member %s has no case and falls through to NULL: every %s attribute is silently stored as NULL", m, m)
			} else {
				e.fail("R1", construct, "-", "SDK member %s has no case", m)
			}
		}
	}
}

type presenceTest struct {
	fn    *ssa.Function
	field string
	kind  string // nil | len
	in    ssa.Instruction
}

func (e *Engine) presenceTests(fn *ssa.Function) []presenceTest {
	var out []presenceTest
	instrs(fn, func(in ssa.Instruction) {
		b, ok := in.(*ssa.BinOp)
		if !ok {
			return
		}
		isItemField := func(v ssa.Value) string {
			f, base := loadedFieldDeep(v)
			if f != nil && base != nil && strings.HasSuffix(typeName(base.Type()), "types.Item") {
				return f.Name()
			}
			return ""
		}
		if (b.Op == token.NEQ || b.Op == token.EQL) && isNilConst(b.Y) {
			if f := isItemField(b.X); f != "" {
				out = append(out, presenceTest{fn, f, "nil", in})
			}
			return
		}
		if c, ok := b.X.(*ssa.Call); ok && staticCalleeName(c) == "builtin.len" {
			if f := isItemField(c.Call.Args[0]); f != "" {
				if n, isC := constInt(b.Y); isC && n == 0 {
					out = append(out, presenceTest{fn, f, "len", in})
				}
			}
		}
	})
	return out
}

func c10R2(e *Engine) {
	var fns []*ssa.Function
	for _, fn := range e.attrConversions() {
		if e.fnRole(fn) == "v2" && strings.Contains(types.TypeString(fn.Params[0].Type(), nil), modPath+"/types.Item") {
			fns = append(fns, fn)
		}
	}
	for _, fn := range e.funcs("lang") {
		if len(fn.Params) != 1 || !strings.HasSuffix(typeName(fn.Params[0].Type()), "types.Item") {
			continue
		}
		res := fn.Signature.Results()
		// a converter (Object, error) – or a predicate over an attribute value (the `matches` half of a table of
		// (predicate, converter) pairs, a named helper like isNumberAttribute)
		if (fn.Parent() == nil && res.Len() == 2) || (res.Len() == 1 && types.Identical(res.At(0).Type().Underlying(), types.Typ[types.Bool])) {
			fns = append(fns, fn)
		}
	}
	groups := map[string]map[string]presenceTest{"v2:internal->sdk": {}, "lang:item->object": {}}
	for _, fn := range fns {
		g := "v2:internal->sdk"
		if e.fnRole(fn) == "lang" {
			g = "lang:item->object"
		}
		for _, pt := range e.presenceTests(fn) {
			if prev, ok := groups[g][pt.field]; ok && prev.kind == "len" {
				continue
			}
			groups[g][pt.field] = pt
		}
	}
	nullFallthrough := false
	for _, fn := range fns {
		instrs(fn, func(in ssa.Instruction) {
			if al, ok := in.(*ssa.Alloc); ok && strings.HasSuffix(typeName(al.Type()), "AttributeValueMemberNULL") {
				nullFallthrough = true
			}
		})
	}
	for _, g := range sortedKeys(groups) {
		for _, f := range itemFields {
			pt, ok := groups[g][f]
			construct := g + "[" + f + "]"
			switch {
			case !ok && f == "NULL" && g == "v2:internal->sdk" && nullFallthrough:
				e.pass("R2", construct, "-", "NULL is produced by the final fall-through of the chain (every other type is tested before it)")
			case !ok:
				e.fail("R2", construct, "-", "no branch tests the presence of Item.%s: attributes of type %s are converted as something else (or rejected)", f, f)
			case pt.kind == "nil":
				e.pass("R2", construct, e.ipos(pt.in), "presence of %s decided by a nil test in %s", f, e.fname(pt.fn))
			case f == "BS" || f == "NS" || f == "SS":
				e.ob("R2", construct, e.ipos(pt.in), Assumed, true, "emptiness test len(%s) != 0 accepted: DynamoDB has no empty sets, so an empty set is never a legal value", f)
			default:
				e.fail("R2", construct, e.ipos(pt.in), "the %s branch is chosen by len(%s) != 0 in %s: an empty %s is a valid value but falls through to another type (NULL) – the attribute changes type in a write/read round trip", f, f, e.fname(pt.fn), map[string]string{"L": "list", "M": "map", "B": "binary"}[f])
			}
		}
	}
}

func c10R3(e *Engine) {
	p := e.Pkgs["v1"]
	if !e.anchor("R3", "v1 package", p == nil) {
		return
	}
	n := 0
	for _, file := range p.Syntax {
		for _, d := range file.Decls {
			fd, ok := d.(*ast.FuncDecl)
			if !ok {
				continue
			}
			ast.Inspect(fd, func(nd ast.Node) bool {
				cl, ok := nd.(*ast.CompositeLit)
				if !ok {
					return true
				}
				tv, ok := p.TypesInfo.Types[cl]
				if !ok {
					return true
				}
				nt := namedOf(tv.Type)
				if nt == nil || !(nt.Obj().Name() == "Item" && nt.Obj().Pkg().Path() == modPath+"/types" || nt.Obj().Name() == "AttributeValue" && strings.Contains(nt.Obj().Pkg().Path(), "aws-sdk-go/service/dynamodb")) {
					return true
				}
				fs := compositeFields(cl)
				if len(fs) < 3 {
					return true // key-building literals in tests/helpers, not a conversion
				}
				n++
				var bad []string
				for _, f := range itemFields {
					v, has := fs[f]
					if !has {
						bad = append(bad, f+" not set")
						continue
					}
					if !mentionsSelector(v, f) {
						bad = append(bad, fmt.Sprintf("%s ← %s", f, exprStr(v)))
					}
				}
				construct := "v1." + fd.Name.Name + ":" + nt.Obj().Name() + "-literal"
				if len(bad) > 0 {
					e.fail("R3", construct, e.pos(cl.Pos()), "conversion literal does not map every attribute type to itself: %s", strings.Join(bad, "; "))
				} else {
					e.pass("R3", construct, e.pos(cl.Pos()), "all ten fields set, each from the same-named field of the source")
				}
				return true
			})
		}
	}
	if n < 2 {
		e.fail("R3", "count:R3", "-", "only %d v1 conversion literals found (one per direction at least)", n)
	}
}

// mentionsSelector: expression is x.F or f(x.F) for the given field name.
func mentionsSelector(x ast.Expr, field string) bool {
	found := false
	ast.Inspect(x, func(n ast.Node) bool {
		if s, ok := n.(*ast.SelectorExpr); ok && s.Sel.Name == field {
			found = true
		}
		return true
	})
	return found
}

func c10R4(e *Engine) {
	n := 0
	for _, fn := range e.funcs("lang") {
		if fn.Name() != "ToDynamoDB" || fn.Signature.Recv() == nil {
			continue
		}
		recv := namedOf(fn.Signature.Recv().Type())
		if recv == nil {
			continue
		}
		typeFn := e.fn("lang", recv.Obj().Name()+".Type")
		if typeFn == nil {
			continue
		}
		tag := ""
		for _, r := range returnsOf(typeFn) {
			tag, _ = constString(retVals(r)[0])
		}
		fields := map[string]bool{}
		instrs(fn, func(in ssa.Instruction) {
			if st, ok := in.(*ssa.Store); ok {
				if fa, ok := st.Addr.(*ssa.FieldAddr); ok && strings.HasSuffix(typeName(fa.X.Type()), "types.Item") && originIsLocalAlloc(fa.X) {
					fields[fieldOf(fa).Name()] = true
				}
			}
		})
		construct := "lang." + recv.Obj().Name() + ".ToDynamoDB"
		isData := false
		for _, f := range itemFields {
			if f == tag {
				isData = true
			}
		}
		if !isData {
			e.ob("R4", construct, e.pos(fn.Pos()), Pass, false, "non-data object (tag %q): produces no attribute", tag)
			continue
		}
		n++
		ok := len(fields) == 1 && fields[tag]
		e.check(ok, "R4", construct, e.pos(fn.Pos()), "Type() = %q and ToDynamoDB sets %v", tag, sortedKeys(fields))
	}
	if n < 10 {
		e.fail("R4", "count:R4", "-", "only %d of the 10 data object kinds found", n)
	}
}

func c10R5(e *Engine) {
	for _, spec := range []struct{ role, name string }{{"core", "copyItem"}, {"v1", "copyItem"}, {"v2", "copyItem"}} {
		fn := e.fn(spec.role, spec.name)
		if fn == nil {
			// discovered by shape instead of name
			for _, f := range e.funcs(spec.role) {
				if f.Parent() == nil && isMapCopyFunc(f) {
					fn = f
				}
			}
		}
		if fn == nil && spec.role != "core" {
			// an adapter without a shallow-copy helper: what it hands out comes from its converting mappers (C14.R3)
			e.ob("R5", spec.role+": item copy function", "-", Pass, false, "the %s adapter has no item copy helper; its outputs are judged where they are built (C14.R3)", spec.role)
			continue
		}
		if !e.anchor("R5", spec.role+": item copy function", fn == nil) {
			continue
		}
		e.check(isMapCopyFunc(fn), "R5", e.fname(fn)+":copies-every-entry", e.pos(fn.Pos()), "fresh map filled by an unconditional range-copy of the argument")
	}
	// interpreter working copies: in Language.Match / Update every range over input.Item copies unconditionally
	for _, name := range []string{"Language.Match", "Language.Update"} {
		fn := e.fn("interp", name)
		if !e.anchor("R5", "interp."+name, fn == nil) {
			continue
		}
		ok := false
		e.walkLocal("interp", fn, 2, func(in ssa.Instruction, ctx []callCtx) {
			mu, isMU := in.(*ssa.MapUpdate)
			if !isMU {
				return
			}
			kx, ok1 := mu.Key.(*ssa.Extract)
			vx, ok2 := mu.Value.(*ssa.Extract)
			if !ok1 || !ok2 || kx.Tuple != vx.Tuple {
				return
			}
			nx, isNext := kx.Tuple.(*ssa.Next)
			if !isNext {
				return
			}
			rg := nx.Iter.(*ssa.Range)
			isItem := false
			for _, o := range e.originsCtx(rg.X, ctx) {
				if strings.HasSuffix(o, "Input.Item") || strings.Contains(o, "Input.Item of") {
					isItem = true
				}
			}
			if !isItem {
				return
			}
			un, _ := unconditionalInLoop(in, nx)
			if un {
				if _, fresh := strip(mu.Map).(*ssa.MakeMap); fresh {
					ok = true
				}
			}
		})
		e.check(ok, "R5", "interp."+name+":working-copy-complete", e.pos(fn.Pos()), "the interpreter's working copy of the item contains every attribute")
	}
}

// attrStructKind: is t one of the attribute-value representations (internal Item, SDK v1 AttributeValue, SDK v2 member)?
func attrStructKind(t types.Type) string {
	nt := namedOf(t)
	if nt == nil || nt.Obj().Pkg() == nil {
		return ""
	}
	name, path := nt.Obj().Name(), nt.Obj().Pkg().Path()
	switch {
	case name == "Item" && path == modPath+"/types":
		return "item"
	case name == "AttributeValue" && strings.Contains(path, "aws-sdk-go/service/dynamodb"):
		return "v1"
	case strings.HasPrefix(name, "AttributeValueMember") && strings.Contains(path, "aws-sdk-go-v2/service/dynamodb/types"):
		return "v2:" + strings.TrimPrefix(name, "AttributeValueMember")
	}
	return ""
}

// c10R6: text scalars are carried verbatim. Every value stored into an S or N slot of any of the three representations,
// in either client, comes from an S / N / Value slot through pointer copies only – no trimming, formatting, parsing or
// other call in between (a "normalised" number is a different number text, and as a key a different item).
func c10R6(e *Engine) {
	n := 0
	for _, role := range clientRoles {
		for _, fn := range e.funcs(role) {
			instrs(fn, func(in ssa.Instruction) {
				st, ok := in.(*ssa.Store)
				if !ok {
					return
				}
				fa, ok := st.Addr.(*ssa.FieldAddr)
				if !ok {
					return
				}
				kind := attrStructKind(fa.X.Type())
				f := fieldOf(fa).Name()
				slot := ""
				switch {
				case (kind == "item" || kind == "v1") && (f == "S" || f == "N"):
					slot = f
				case (kind == "v2:S" || kind == "v2:N") && f == "Value":
					slot = strings.TrimPrefix(kind, "v2:")
				default:
					return
				}
				n++
				construct := e.fname(fn) + ":" + kind + "." + f + ":verbatim"
				bad := ""
				for _, o := range e.origins(st.Val) {
					o2 := strings.TrimPrefix(o, "deref-of ")
					switch {
					case o2 == "const:nil" || o2 == `const:""` || o2 == "zero":
					case strings.HasPrefix(o2, "field:") && (strings.HasSuffix(o2, "."+slot) || strings.HasSuffix(o2, "AttributeValueMember"+slot+".Value")):
					case strings.HasPrefix(o2, "param:"):
						// a copy helper's own parameter when it has no caller in scope
					default:
						bad = o
					}
				}
				if bad != "" {
					e.fail("R6", construct, e.ipos(in), "the %s text stored here is not the source's %s text carried over unchanged (it comes from %s): the value read back differs from the value written", slot, slot, bad)
				} else {
					e.pass("R6", construct, e.ipos(in), "%s ← %s", slot, strings.Join(e.origins(st.Val), "|"))
				}
			})
		}
	}
	if n < 6 {
		e.fail("R6", "count:R6", "-", "only %d S/N slot stores found in the two clients", n)
	}
}

func isNillable(t types.Type) bool {
	switch t.Underlying().(type) {
	case *types.Pointer, *types.Slice, *types.Map, *types.Interface:
		return true
	}
	return false
}

// c10R7: the internal representation encodes an attribute's type in WHICH field of types.Item is non-nil. Wherever an
// attribute of a known type is written, that field must be provably non-nil – also for the empty list, map, set, string
// and binary: (a) every data object's ToDynamoDB, (b) every member case of the SDK v2 → internal conversions.
func c10R7(e *Engine) {
	nn := e.newNonNil()
	n := 0
	// (a) objects → Item
	for _, fn := range e.funcs("lang") {
		if fn.Name() != "ToDynamoDB" || fn.Signature.Recv() == nil {
			continue
		}
		recv := namedOf(fn.Signature.Recv().Type())
		if recv == nil {
			continue
		}
		typeFn := e.fn("lang", recv.Obj().Name()+".Type")
		if typeFn == nil {
			continue
		}
		tag := ""
		for _, r := range returnsOf(typeFn) {
			tag, _ = constString(retVals(r)[0])
		}
		isData := false
		for _, f := range itemFields {
			if f == tag {
				isData = true
			}
		}
		if !isData || strings.HasSuffix(tag, "S") && len(tag) == 2 {
			continue // sets cannot be empty in DynamoDB: no boundary value whose type could get lost
		}
		construct := "lang." + recv.Obj().Name() + ".ToDynamoDB:tag-field-set"
		bad := ""
		for _, r := range returnsOf(fn) {
			u, ok := retVals(r)[0].(*ssa.UnOp)
			al, isAl := (ssa.Value)(nil), false
			if ok {
				_, isAl = u.X.(*ssa.Alloc)
				al = u.X
			}
			if !isAl {
				bad = "the returned Item is not a locally built value at " + e.ipos(r)
				continue
			}
			found, dominated := false, false
			for _, ref := range refsOf(al.(*ssa.Alloc)) {
				fa, ok := ref.(*ssa.FieldAddr)
				if !ok || fieldOf(fa).Name() != tag {
					continue
				}
				if !isNillable(fieldOf(fa).Type()) {
					found, dominated = true, true
					continue
				}
				for _, st := range storesTo(fa) {
					found = true
					if !nn.val(st.Val, st.Block()) {
						bad = "the " + tag + " field may be set to nil at " + e.ipos(st)
					}
					if idominates(st, r) {
						dominated = true
					}
				}
			}
			if !found || !dominated {
				bad = "the " + tag + " field is not set on every path to the return at " + e.ipos(r)
			}
		}
		n++
		if bad != "" {
			e.fail("R7", construct, e.pos(fn.Pos()), "%s: an empty %s is written as an attribute with no type at all (read back as NULL, and rejected by the expression evaluator on the next update)", bad, tag)
		} else {
			e.pass("R7", construct, e.pos(fn.Pos()), "the %s field of the Item produced is non-nil on every path", tag)
		}
	}
	// (b) SDK v2 members → Item
	for _, fn := range e.attrConversions() {
		if e.fnRole(fn) != "v2" || !strings.Contains(types.TypeString(fn.Signature.Results().At(0).Type(), nil), modPath+"/types.Item") {
			continue
		}
		instrs(fn, func(in ssa.Instruction) {
			ta, ok := in.(*ssa.TypeAssert)
			if !ok || !ta.CommaOk {
				return
			}
			nt := namedOf(ta.AssertedType)
			if nt == nil || !strings.HasPrefix(nt.Obj().Name(), "AttributeValueMember") {
				return
			}
			member := strings.TrimPrefix(nt.Obj().Name(), "AttributeValueMember")
			if len(member) == 2 && strings.HasSuffix(member, "S") {
				return // SS, NS, BS: an empty set is not a valid value
			}
			var okV ssa.Value
			for _, ex := range extractOf(ta, 1) {
				okV = ex
			}
			instrs(fn, func(j ssa.Instruction) {
				st, isSt := j.(*ssa.Store)
				if !isSt {
					return
				}
				fa, isFA := st.Addr.(*ssa.FieldAddr)
				if !isFA || !strings.HasSuffix(typeName(fa.X.Type()), "types.Item") || fieldOf(fa).Name() != member || !isNillable(fieldOf(fa).Type()) {
					return
				}
				governed := false
				extra := ""
				for _, cd := range condsAt(j.Block()) {
					cd = normCond(cd)
					if cd.V == okV && cd.Val {
						governed = true
						continue
					}
					// earlier member tests that failed, loop progress and nil guards of elements are not restrictions of
					// THIS member's case; anything else (a length test, say) sends some values of the member elsewhere
					if ex, isEx := cd.V.(*ssa.Extract); isEx {
						if _, isTA := ex.Tuple.(*ssa.TypeAssert); isTA {
							continue
						}
						if _, isNext := ex.Tuple.(*ssa.Next); isNext {
							continue
						}
					}
					if isProgressCond(cd.V) {
						continue
					}
					extra = cd.V.String()
				}
				if !governed {
					return
				}
				n++
				construct := e.fname(fn) + ":member[" + member + "]:tag-field-set"
				if extra != "" {
					e.fail("R7", construct, e.ipos(j), "the %s case is entered only when additionally %s holds: the other values of that member (the empty list, the empty map, …) fall through to another type – in this client only", member, extra)
					return
				}
				if nn.val(st.Val, j.Block()) {
					e.pass("R7", construct, e.ipos(j), "Item.%s is non-nil for every %s member, empty or not", member, member)
				} else {
					e.fail("R7", construct, e.ipos(j), "Item.%s may be nil for a %s member (an empty or nil-backed value): the attribute is stored with no type, reads back as NULL and breaks expression evaluation over the item – in this client only", member, member)
				}
			})
		})
	}
	if n < 10 {
		e.fail("R7", "count:R7", "-", "only %d type-tag sites found (object kinds + v2 member cases)", n)
	}
}

// c10R10: the item -> object direction of the round trip. Whatever form the dispatch takes – a chain of cases, helper
// functions, a table of (predicate, constructor) pairs – the object produced when field F of the attribute value is
// present carries the tag F (R4 shows that an object with tag F is written back as field F).
func c10R10(e *Engine) {
	g := e.newGuard()
	isItemConv := func(fn *ssa.Function) bool {
		return len(fn.Params) == 1 && strings.HasSuffix(typeName(fn.Params[0].Type()), "types.Item") && fn.Signature.Results().Len() == 2 && isObjectIface(fn.Signature.Results().At(0).Type())
	}
	isItemPred := func(fn *ssa.Function) bool {
		res := fn.Signature.Results()
		return len(fn.Params) == 1 && strings.HasSuffix(typeName(fn.Params[0].Type()), "types.Item") && res.Len() == 1 && types.Identical(res.At(0).Type().Underlying(), types.Typ[types.Bool])
	}
	// tags of the object a value may be (nil results that accompany an error are not objects)
	var tagsOf func(v ssa.Value, b *ssa.BasicBlock, depth int, out map[string]bool)
	tagsOfFn := func(f *ssa.Function, depth int, out map[string]bool) {
		for _, r := range returnsOf(f) {
			rv := retVals(r)
			if isNilConst(rv[0]) {
				continue
			}
			tagsOf(rv[0], r.Block(), depth+1, out)
		}
	}
	tagsOf = func(v ssa.Value, b *ssa.BasicBlock, depth int, out map[string]bool) {
		if depth > 5 {
			out["?"] = true
			return
		}
		if t := g.dynTag(v, b, 0); t != "" {
			out[t] = true
			return
		}
		switch x := strip(v).(type) {
		case *ssa.Phi:
			for i, ed := range x.Edges {
				tagsOf(ed, x.Block().Preds[i], depth+1, out)
			}
		case *ssa.Extract:
			if c, ok := x.Tuple.(*ssa.Call); ok && x.Index == 0 {
				tagsOf(c, b, depth, out)
				return
			}
			out["?"] = true
		case *ssa.Call:
			fs := []*ssa.Function{x.Call.StaticCallee()}
			if fs[0] == nil {
				fs = e.closuresOf(x.Call.Value, nil, 0)
			}
			if len(fs) == 0 {
				out["?"] = true
			}
			for _, f := range fs {
				if f == nil || f.Blocks == nil {
					out["?"] = true
					continue
				}
				tagsOfFn(f, depth, out)
			}
		default:
			out["?"] = true
		}
	}
	verdict := func(construct, pos, field string, tags map[string]bool, where string) {
		ts := sortedKeys(tags)
		switch {
		case len(ts) == 1 && ts[0] == field:
			e.pass("R10", construct, pos, "present field %s ↦ object with tag %s (%s)", field, field, where)
		case tags["?"] || len(ts) == 0:
			e.undecided("R10", construct, pos, "the type of the object built when %s is present could not be determined (%s; candidates %v)", field, where, ts)
		default:
			e.fail("R10", construct, pos, "when field %s of the attribute value is present the object built has tag %v (%s): the attribute changes type on its way into the expression engine – and is written back as that other type", field, ts, where)
		}
	}
	n := 0
	// form A: returns of a converter under a true presence test
	for _, fn := range sortedFns(e, fnSet(e.funcs("lang"))) {
		if !isItemConv(fn) {
			continue
		}
		tests := map[ssa.Value]string{}
		for _, pt := range e.presenceTests(fn) {
			if pt.kind == "nil" {
				if b, ok := pt.in.(*ssa.BinOp); ok && b.Op == token.NEQ {
					tests[b] = pt.field
				}
			}
		}
		if len(tests) == 0 {
			continue
		}
		perField := map[string]map[string]bool{}
		pos := map[string]string{}
		for _, r := range returnsOf(fn) {
			rv := retVals(r)
			if isNilConst(rv[0]) {
				continue
			}
			var fields []string
			for _, cd := range condsAt(r.Block()) {
				cd = normCond(cd)
				if f, ok := tests[cd.V]; ok && cd.Val {
					fields = append(fields, f)
				}
			}
			if len(fields) != 1 {
				continue
			}
			f := fields[0]
			if perField[f] == nil {
				perField[f] = map[string]bool{}
				pos[f] = e.ipos(r)
			}
			tagsOf(rv[0], r.Block(), 0, perField[f])
		}
		for _, f := range sortedKeys(perField) {
			n++
			verdict(e.fname(fn)+":present["+f+"]", pos[f], f, perField[f], "case of "+e.fname(fn))
		}
	}
	// form B: rows of a table of (predicate, constructor) pairs
	rows := map[ssa.Value][2][]*ssa.Function{}
	var rowOrder []ssa.Value
	scan := append([]*ssa.Function{}, e.funcs("lang")...)
	if f := e.SSA["lang"].Func("init"); f != nil {
		scan = append(scan, f)
	}
	rowPos := map[ssa.Value]string{}
	for _, fn := range scan {
		instrsDeep(fn, func(in ssa.Instruction) {
			st, ok := in.(*ssa.Store)
			if !ok {
				return
			}
			fa, ok := st.Addr.(*ssa.FieldAddr)
			if !ok {
				return
			}
			if _, isSig := st.Val.Type().Underlying().(*types.Signature); !isSig {
				return
			}
			fs := e.closuresOf(st.Val, nil, 0)
			if len(fs) == 0 {
				return
			}
			r := rows[fa.X]
			switch {
			case isItemPred(fs[0]):
				r[0] = append(r[0], fs...)
			case isItemConv(fs[0]):
				r[1] = append(r[1], fs...)
			default:
				return
			}
			if _, seen := rowPos[fa.X]; !seen {
				rowPos[fa.X] = e.ipos(in)
				rowOrder = append(rowOrder, fa.X)
			}
			rows[fa.X] = r
		})
	}
	for _, key := range rowOrder {
		r := rows[key]
		if len(r[0]) == 0 || len(r[1]) == 0 {
			continue
		}
		fields := map[string]bool{}
		for _, p := range r[0] {
			for _, pt := range e.presenceTests(p) {
				fields[pt.field] = true
			}
		}
		fl := sortedKeys(fields)
		if len(fl) != 1 {
			e.undecided("R10", "table-row@"+rowPos[key], rowPos[key], "the predicate of this table row does not test the presence of exactly one field (%v)", fl)
			continue
		}
		tags := map[string]bool{}
		var names []string
		for _, c := range r[1] {
			tagsOfFn(c, 0, tags)
			names = append(names, e.fname(c))
		}
		n++
		verdict("table-row["+fl[0]+"]", rowPos[key], fl[0], tags, "row pairing the predicate with "+strings.Join(names, ","))
	}
	if n < 10 {
		e.fail("R10", "count:R10", "-", "only %d of the 10 attribute kinds have a presence-guarded construction site", n)
	}
}

func fnSet(fs []*ssa.Function) map[*ssa.Function]bool {
	m := map[*ssa.Function]bool{}
	for _, f := range fs {
		m[f] = true
	}
	return m
}

// c10R11: presence is carried by nil-ness. Every container conversion and copy helper of the adapters (maps, lists,
// byte slices, sets) may answer nil only for a nil argument: a `return nil` decided by len(arg) == 0 turns an EMPTY map,
// list, binary or set into an absent one – the attribute value has no type left (all ten fields nil), it converts to no
// object (the evaluator rejects it) or reads back as NULL.
func c10R11(e *Engine) {
	n := 0
	for _, role := range clientRoles {
		seen := map[*ssa.Function]bool{}
		var fns []*ssa.Function
		for _, f := range e.attrConversions() {
			if e.fnRole(f) != role {
				continue
			}
			for g := range e.reach(f) {
				if e.fnRole(g) == role && !seen[g] && g.Parent() == nil {
					seen[g] = true
					fns = append(fns, g)
				}
			}
		}
		sort.Slice(fns, func(i, j int) bool { return e.fname(fns[i]) < e.fname(fns[j]) })
		for _, fn := range fns {
			if len(fn.Params) != 1 || fn.Signature.Results().Len() != 1 {
				continue
			}
			p := fn.Params[0]
			switch p.Type().Underlying().(type) {
			case *types.Map, *types.Slice:
			default:
				continue
			}
			switch fn.Signature.Results().At(0).Type().Underlying().(type) {
			case *types.Map, *types.Slice:
			default:
				continue
			}
			// only conversions applied to a MEMBER of an attribute value (attr.M, attr.L, item.BS …): for the top-level maps
			// of a request an empty map and a nil one mean the same
			onMember := false
			for _, c := range e.callersOf(fn) {
				if len(c.Common().Args) != 1 {
					continue
				}
				if f, base := loadedFieldDeep(c.Common().Args[0]); f != nil && base != nil {
					switch f.Name() {
					case "M", "L", "B", "BS", "NS", "SS", "Value":
						if isAttrStructType(base.Type()) || strings.Contains(typeName(base.Type()), "AttributeValueMember") {
							onMember = true
						}
					}
				}
			}
			if !onMember {
				continue
			}
			for _, r := range returnsOf(fn) {
				if !isNilConst(retVals(r)[0]) {
					// var out []T; for … { out = append(out, …) }; return out – nil when the loop does not run, which is
					// the EMPTY argument as well as the nil one
					if phi, isPhi := retVals(r)[0].(*ssa.Phi); isPhi {
						zero, grown := false, false
						for _, src := range phiSources(phi) {
							if isNilConst(src) {
								zero = true
							} else if c, isC := src.(*ssa.Call); isC && staticCalleeName(c) == "builtin.append" {
								grown = true
							}
						}
						nonEmpty := false
						for _, cd := range condsAt(r.Block()) {
							cd = normCond(cd)
							if b, ok := cd.V.(*ssa.BinOp); ok {
								if l, isLen := lenOf(b.X); isLen && strip(l) == ssa.Value(p) {
									if k, isK := constInt(b.Y); isK && k == 0 && ((b.Op == token.EQL && !cd.Val) || (b.Op == token.NEQ && cd.Val) || (b.Op == token.GTR && cd.Val)) {
										nonEmpty = true
									}
								}
							}
						}
						if zero && grown && !nonEmpty {
							n++
							e.fail("R11", e.fname(fn)+":nil-only-for-nil", e.ipos(r), "the result is accumulated by append from the zero value: for an EMPTY argument the loop does not run and nil is returned, not only for a nil one – an empty list or set becomes an absent one and the attribute loses its type")
						}
					}
					continue
				}
				n++
				byNil, byLen := false, false
				for _, cd := range condsAt(r.Block()) {
					cd = normCond(cd)
					if v, nonNilOnTrue, isNil := nilTest(cd.V); isNil && strip(v) == ssa.Value(p) && cd.Val != nonNilOnTrue {
						byNil = true
					}
					if b, ok := cd.V.(*ssa.BinOp); ok {
						if l, isLen := lenOf(b.X); isLen && strip(l) == ssa.Value(p) {
							if k, isK := constInt(b.Y); isK && k == 0 && ((b.Op == token.EQL && cd.Val) || (b.Op == token.NEQ && !cd.Val) || (b.Op == token.GTR && !cd.Val)) {
								byLen = true
							}
						}
					}
				}
				construct := e.fname(fn) + ":nil-only-for-nil"
				switch {
				case byLen && !byNil:
					e.fail("R11", construct, e.ipos(r), "the conversion answers nil for an EMPTY argument (len == 0), not only for a nil one: an empty map, list, binary or set becomes an absent one and the attribute loses its type")
				case byNil:
					e.pass("R11", construct, e.ipos(r), "nil is returned only for a nil argument")
				default:
					e.ob("R11", construct, e.ipos(r), Pass, false, "a nil result not decided by the argument's nil-ness or length")
				}
			}
		}
	}
	if n < 4 {
		e.fail("R11", "count:R11", "-", "only %d nil-returning container conversions found", n)
	}
}

// c10R14: C12.R1's census of numeral <-> float conversions, restricted to everything outside the expression language
// (where float64 numbers are the recorded finding): adapters, engine and interpreter wiring convert no numeral.
func c10R14(e *Engine) {
	before := len(e.obs)
	c12R1(e)
	kept := e.obs[:before]
	n := 0
	for _, o := range e.obs[before:] {
		c := o.Construct
		if strings.HasPrefix(c, "v1:") || strings.HasPrefix(c, "v2:") || strings.HasPrefix(c, "core:") || strings.HasPrefix(c, "interp:") || strings.HasPrefix(c, "v1.") || strings.HasPrefix(c, "v2.") || strings.HasPrefix(c, "core.") || strings.HasPrefix(c, "interp.") {
			o.Rule = "R14"
			kept = append(kept, o)
			n++
		}
	}
	e.obs = kept
	if n == 0 {
		e.pass("R14", "no-float-outside-the-expression-language", "-", "no numeral is parsed to, formatted from or rounded through a float in the adapters, the engine or the interpreter wiring")
	}
}
