package main

import (
	"fmt"
	"go/ast"
	"go/token"
	"go/types"
	"os"
	"sort"
	"strings"

	"golang.org/x/tools/go/ssa"
)

var itemFields = []string{"B", "BOOL", "BS", "L", "M", "N", "NS", "NULL", "S", "SS"}

func init() {
	register(&Prop{
		ID:         "C10",
		Title:      "Attribute values survive a write/read round trip unchanged",
		Decided:    "every conversion on the write/read path is total over the ten attribute types and discriminates by presence, not by emptiness: (R1) the v2 SDK→internal conversion has a case for every implementer of the SDK's AttributeValue union (enumerated from the SDK package through go/types) and maps member X to field X; (R2) the v2 internal→SDK conversion and the interpreter's MapToObject have a branch per field of types.Item whose presence test is `F != nil`, never `len(F) != 0` (an empty list, map or binary is a value; for the three set types emptiness tests are accepted because DynamoDB has no empty sets); (R3) the four v1 conversions set all ten fields, each from the same-named source field; (R4) each interpreter object's ToDynamoDB sets exactly the field named like the type tag its Type() returns; (R5) the item-copy helpers and the interpreter's working copies copy every entry unconditionally.",
		NotDecided: "numeric notation and precision (C12), set/element equality, nesting depth, and fidelity of values inside each branch (value-level).",
		Rules: []RuleDef{
			{ID: "R1", Desc: "v2 SDK→internal: exhaustive over the SDK union, member X ↦ field X (T-TABLE)", Run: c10R1},
			{ID: "R2", Desc: "presence tests are nil-tests, not emptiness tests (T-TABLE)", Run: c10R2},
			{ID: "R3", Desc: "v1 conversions set all ten fields from the same-named field (T-TABLE)", Run: c10R3},
			{ID: "R4", Desc: "ToDynamoDB field ↔ Type() tag agreement (T-TABLE)", Run: c10R4},
			{ID: "R5", Desc: "copies are complete (SSA)", Run: c10R5},
		},
	})
}

// sdkUnionMembers: names X of the SDK types *AttributeValueMemberX implementing the v2 AttributeValue union.
func (e *Engine) sdkUnionMembers() []string {
	p := e.Pkgs["v2"]
	if p == nil {
		return nil
	}
	var sdk *types.Package
	for _, imp := range p.Types.Imports() {
		if imp.Path() == "github.com/aws/aws-sdk-go-v2/service/dynamodb/types" {
			sdk = imp
		}
	}
	if sdk == nil {
		return nil
	}
	iface, _ := sdk.Scope().Lookup("AttributeValue").Type().Underlying().(*types.Interface)
	if iface == nil {
		return nil
	}
	var out []string
	for _, n := range sdk.Scope().Names() {
		tn, ok := sdk.Scope().Lookup(n).(*types.TypeName)
		if !ok || !strings.HasPrefix(n, "AttributeValueMember") {
			continue
		}
		if types.Implements(types.NewPointer(tn.Type()), iface) {
			out = append(out, strings.TrimPrefix(n, "AttributeValueMember"))
		}
	}
	sort.Strings(out)
	return out
}

func c10R1(e *Engine) {
	members := e.sdkUnionMembers()
	if !e.anchor("R1", "SDK v2 AttributeValue union members", len(members) < 10) {
		return
	}
	// conversion functions sdk->internal in v2
	covered := map[string]string{} // member -> field stored
	fallthroughNULL := false
	for _, fn := range e.attrConversions() {
		if e.fnRole(fn) != "v2" || !strings.Contains(types.TypeString(fn.Signature.Results().At(0).Type(), nil), modPath+"/types.Item") {
			continue
		}
		instrs(fn, func(in ssa.Instruction) {
			ta, ok := in.(*ssa.TypeAssert)
			if !ok || !ta.CommaOk {
				return
			}
			nt := namedOf(ta.AssertedType)
			if nt == nil || !strings.HasPrefix(nt.Obj().Name(), "AttributeValueMember") {
				return
			}
			member := strings.TrimPrefix(nt.Obj().Name(), "AttributeValueMember")
			// on the ok edge: which Item field is stored?
			var okV ssa.Value
			for _, ex := range extractOf(ta, 1) {
				okV = ex
			}
			instrs(fn, func(j ssa.Instruction) {
				st, isSt := j.(*ssa.Store)
				if !isSt {
					return
				}
				fa, isFA := st.Addr.(*ssa.FieldAddr)
				if !isFA || !strings.HasSuffix(typeName(fa.X.Type()), "types.Item") {
					return
				}
				for _, cd := range condsAt(j.Block()) {
					cd = normCond(cd)
					if cd.V == okV && cd.Val {
						covered[member] = fieldOf(fa).Name()
					}
				}
			})
		})
		// fallthrough: a store of NULL on a path governed by no successful assert
		instrs(fn, func(in ssa.Instruction) {
			st, ok := in.(*ssa.Store)
			if !ok {
				return
			}
			fa, ok := st.Addr.(*ssa.FieldAddr)
			if !ok || !strings.HasSuffix(typeName(fa.X.Type()), "types.Item") || fieldOf(fa).Name() != "NULL" {
				return
			}
			allFalse := true
			for _, cd := range condsAt(in.Block()) {
				if normCond(cd).Val {
					allFalse = false
				}
			}
			if allFalse {
				fallthroughNULL = true
			}
		})
	}
	for _, m := range members {
		construct := "v2:sdk->internal[" + m + "]"
		f, ok := covered[m]
		switch {
		case ok && f == m:
			e.pass("R1", construct, "-", "member %s ↦ Item.%s", m, f)
		case ok:
			e.fail("R1", construct, "-", "SDK member %s is stored into Item.%s: the attribute changes type on write", m, f)
		case m == "NULL" && fallthroughNULL:
			e.pass("R1", construct, "-", "member NULL is handled by the final fall-through (NULL: true)")
		default:
			if fallthroughNULL {
				e.fail("R1", construct, "-", "SDK member %s has no case and falls through to NULL: every %s attribute is silently stored as NULL", m, m)
			} else {
				e.fail("R1", construct, "-", "SDK member %s has no case", m)
			}
		}
	}
}

type presenceTest struct {
	fn    *ssa.Function
	field string
	kind  string // nil | len
	in    ssa.Instruction
}

func (e *Engine) presenceTests(fn *ssa.Function) []presenceTest {
	var out []presenceTest
	instrs(fn, func(in ssa.Instruction) {
		b, ok := in.(*ssa.BinOp)
		if !ok {
			return
		}
		isItemField := func(v ssa.Value) string {
			f, base := loadedFieldDeep(v)
			if f != nil && base != nil && strings.HasSuffix(typeName(base.Type()), "types.Item") {
				return f.Name()
			}
			return ""
		}
		if (b.Op == token.NEQ || b.Op == token.EQL) && isNilConst(b.Y) {
			if f := isItemField(b.X); f != "" {
				out = append(out, presenceTest{fn, f, "nil", in})
			}
			return
		}
		if c, ok := b.X.(*ssa.Call); ok && staticCalleeName(c) == "builtin.len" {
			if f := isItemField(c.Call.Args[0]); f != "" {
				if n, isC := constInt(b.Y); isC && n == 0 {
					out = append(out, presenceTest{fn, f, "len", in})
				}
			}
		}
	})
	return out
}

func c10R2(e *Engine) {
	var fns []*ssa.Function
	for _, fn := range e.attrConversions() {
		if e.fnRole(fn) == "v2" && strings.Contains(types.TypeString(fn.Params[0].Type(), nil), modPath+"/types.Item") {
			fns = append(fns, fn)
		}
	}
	for _, fn := range e.funcs("lang") {
		if fn.Parent() == nil && len(fn.Params) == 1 && strings.HasSuffix(typeName(fn.Params[0].Type()), "types.Item") && fn.Signature.Results().Len() == 2 {
			fns = append(fns, fn)
		}
	}
	groups := map[string]map[string]presenceTest{"v2:internal->sdk": {}, "lang:item->object": {}}
	for _, fn := range fns {
		g := "v2:internal->sdk"
		if e.fnRole(fn) == "lang" {
			g = "lang:item->object"
		}
		for _, pt := range e.presenceTests(fn) {
			if prev, ok := groups[g][pt.field]; ok && prev.kind == "len" {
				continue
			}
			groups[g][pt.field] = pt
		}
	}
	nullFallthrough := false
	for _, fn := range fns {
		instrs(fn, func(in ssa.Instruction) {
			if al, ok := in.(*ssa.Alloc); ok && strings.HasSuffix(typeName(al.Type()), "AttributeValueMemberNULL") {
				nullFallthrough = true
			}
		})
	}
	for _, g := range sortedKeys(groups) {
		for _, f := range itemFields {
			pt, ok := groups[g][f]
			construct := g + "[" + f + "]"
			switch {
			case !ok && f == "NULL" && g == "v2:internal->sdk" && nullFallthrough:
				e.pass("R2", construct, "-", "NULL is produced by the final fall-through of the chain (every other type is tested before it)")
			case !ok:
				e.fail("R2", construct, "-", "no branch tests the presence of Item.%s: attributes of type %s are converted as something else (or rejected)", f, f)
			case pt.kind == "nil":
				e.pass("R2", construct, e.ipos(pt.in), "presence of %s decided by a nil test in %s", f, e.fname(pt.fn))
			case f == "BS" || f == "NS" || f == "SS":
				e.ob("R2", construct, e.ipos(pt.in), Assumed, true, "emptiness test len(%s) != 0 accepted: DynamoDB has no empty sets, so an empty set is never a legal value", f)
			default:
				e.fail("R2", construct, e.ipos(pt.in), "the %s branch is chosen by len(%s) != 0 in %s: an empty %s is a valid value but falls through to another type (NULL) – the attribute changes type in a write/read round trip", f, f, e.fname(pt.fn), map[string]string{"L": "list", "M": "map", "B": "binary"}[f])
			}
		}
	}
}

func c10R3(e *Engine) {
	p := e.Pkgs["v1"]
	if !e.anchor("R3", "v1 package", p == nil) {
		return
	}
	n := 0
	for _, file := range p.Syntax {
		for _, d := range file.Decls {
			fd, ok := d.(*ast.FuncDecl)
			if !ok {
				continue
			}
			ast.Inspect(fd, func(nd ast.Node) bool {
				cl, ok := nd.(*ast.CompositeLit)
				if !ok {
					return true
				}
				tv, ok := p.TypesInfo.Types[cl]
				if !ok {
					return true
				}
				nt := namedOf(tv.Type)
				if nt == nil || !(nt.Obj().Name() == "Item" && nt.Obj().Pkg().Path() == modPath+"/types" || nt.Obj().Name() == "AttributeValue" && strings.Contains(nt.Obj().Pkg().Path(), "aws-sdk-go/service/dynamodb")) {
					return true
				}
				fs := compositeFields(cl)
				if len(fs) < 3 {
					return true // key-building literals in tests/helpers, not a conversion
				}
				n++
				var bad []string
				for _, f := range itemFields {
					v, has := fs[f]
					if !has {
						bad = append(bad, f+" not set")
						continue
					}
					if !mentionsSelector(v, f) {
						bad = append(bad, fmt.Sprintf("%s ← %s", f, exprStr(v)))
					}
				}
				construct := "v1." + fd.Name.Name + ":" + nt.Obj().Name() + "-literal"
				if len(bad) > 0 {
					e.fail("R3", construct, e.pos(cl.Pos()), "conversion literal does not map every attribute type to itself: %s", strings.Join(bad, "; "))
				} else {
					e.pass("R3", construct, e.pos(cl.Pos()), "all ten fields set, each from the same-named field of the source")
				}
				return true
			})
		}
	}
	if n < 2 {
		e.fail("R3", "count:R3", "-", "only %d v1 conversion literals found (one per direction at least)", n)
	}
}

// mentionsSelector: expression is x.F or f(x.F) for the given field name.
func mentionsSelector(x ast.Expr, field string) bool {
	found := false
	ast.Inspect(x, func(n ast.Node) bool {
		if s, ok := n.(*ast.SelectorExpr); ok && s.Sel.Name == field {
			found = true
		}
		return true
	})
	return found
}

func c10R4(e *Engine) {
	n := 0
	for _, fn := range e.funcs("lang") {
		if fn.Name() != "ToDynamoDB" || fn.Signature.Recv() == nil {
			continue
		}
		recv := namedOf(fn.Signature.Recv().Type())
		if recv == nil {
			continue
		}
		typeFn := e.fn("lang", recv.Obj().Name()+".Type")
		if typeFn == nil {
			continue
		}
		tag := ""
		for _, r := range returnsOf(typeFn) {
			tag, _ = constString(retVals(r)[0])
		}
		fields := map[string]bool{}
		instrs(fn, func(in ssa.Instruction) {
			if st, ok := in.(*ssa.Store); ok {
				if fa, ok := st.Addr.(*ssa.FieldAddr); ok && strings.HasSuffix(typeName(fa.X.Type()), "types.Item") && originIsLocalAlloc(fa.X) {
					fields[fieldOf(fa).Name()] = true
				}
			}
		})
		construct := "lang." + recv.Obj().Name() + ".ToDynamoDB"
		isData := false
		for _, f := range itemFields {
			if f == tag {
				isData = true
			}
		}
		if !isData {
			e.ob("R4", construct, e.pos(fn.Pos()), Pass, false, "non-data object (tag %q): produces no attribute", tag)
			continue
		}
		n++
		ok := len(fields) == 1 && fields[tag]
		e.check(ok, "R4", construct, e.pos(fn.Pos()), "Type() = %q and ToDynamoDB sets %v", tag, sortedKeys(fields))
	}
	if n < 10 {
		e.fail("R4", "count:R4", "-", "only %d of the 10 data object kinds found", n)
	}
}

func c10R5(e *Engine) {
	for _, spec := range []struct{ role, name string }{{"core", "copyItem"}, {"v1", "copyItem"}, {"v2", "copyItem"}} {
		fn := e.fn(spec.role, spec.name)
		if fn == nil {
			// discovered by shape instead of name
			for _, f := range e.funcs(spec.role) {
				if f.Parent() == nil && isMapCopyFunc(f) {
					fn = f
				}
			}
		}
		if !e.anchor("R5", spec.role+": item copy function", fn == nil) {
			continue
		}
		e.check(isMapCopyFunc(fn), "R5", e.fname(fn)+":copies-every-entry", e.pos(fn.Pos()), "fresh map filled by an unconditional range-copy of the argument")
	}
	// interpreter working copies: in Language.Match / Update every range over input.Item copies unconditionally
	for _, name := range []string{"Language.Match", "Language.Update"} {
		fn := e.fn("interp", name)
		if !e.anchor("R5", "interp."+name, fn == nil) {
			continue
		}
		ok := false
		instrs(fn, func(in ssa.Instruction) {
			mu, isMU := in.(*ssa.MapUpdate)
			if !isMU {
				return
			}
			kx, ok1 := mu.Key.(*ssa.Extract)
			vx, ok2 := mu.Value.(*ssa.Extract)
			if !ok1 || !ok2 || kx.Tuple != vx.Tuple {
				return
			}
			nx, isNext := kx.Tuple.(*ssa.Next)
			if !isNext {
				return
			}
			rg := nx.Iter.(*ssa.Range)
			isItem := false
			if os.Getenv("MINICHECK_TRACE") != "" {
				fmt.Println("TRACE", name, e.origins(rg.X))
			}
			for _, o := range e.origins(rg.X) {
				if strings.HasSuffix(o, "Input.Item") || strings.Contains(o, "Input.Item of") {
					isItem = true
				}
			}
			if !isItem {
				return
			}
			un, _ := unconditionalInLoop(in, nx)
			if un {
				if _, fresh := strip(mu.Map).(*ssa.MakeMap); fresh {
					ok = true
				}
			}
		})
		e.check(ok, "R5", "interp."+name+":working-copy-complete", e.pos(fn.Pos()), "the interpreter's working copy of the item contains every attribute")
	}
}
