package main

import (
	"fmt"
	"go/token"
	"go/types"
	"sort"
	"strings"

	"golang.org/x/tools/go/ssa"
)

// scope of the front end: lang + interp functions reachable from Language.Match / Language.Update.
func (e *Engine) frontEndScope() map[*ssa.Function]bool {
	out := map[*ssa.Function]bool{}
	for _, name := range []string{"Language.Match", "Language.Update"} {
		if fn := e.fn("interp", name); fn != nil {
			for g := range e.reach(fn) {
				if r := e.fnRole(g); r == "lang" || r == "interp" {
					out[g] = true
				}
			}
		}
	}
	return out
}

// named exceptions of the indexing rule: sites whose safety rests on an argument outside the fact domain.
// key: function name + "|" + short description of the site; value: the reason (reported as `assumed`).
var indexExceptions = map[string]string{
	"lang.Lexer.readIdentifier|slice":                       "input[position:l.position]: both are values of Lexer.position, which readChar only ever sets to readPosition (monotonically increasing and <= len(input)+1 is not needed: position <= len(input) whenever ch was read from input) – slice bounds position <= l.position <= len(input) hold because readIdentifier stops at the first non-identifier byte, which is at or before the end sentinel",
	"lang.evalActionRemove|result-of-evalIndexPositions[0]": "positions[0] after a successful evalIndexPositions on an *IndexExpression: the loop appends one accessor per IndexExpression level before it reaches the Identifier, so the slice has at least one element",
	"lang.Environment.getFromIndexes|names":                 "names is the result of strings.Split (never empty) extended by append; Get returns before the call when len(names) == 0",
}

func init() {
	register(&Prop{
		ID:         "C09",
		Title:      "The expression front end is total and strict",
		Decided:    "absence of run-time faults, progress, and the parser's acceptance condition, over every function of interpreter and interpreter/language reachable from Language.Match/Update: (R1) every single-result type assertion is dominated by facts that establish the asserted dynamic type (type-tag tests, matchTypes, same-type classes, type switches, earlier comma-ok, facts established at all call sites, constant-specialised callee results); (R2) every slice/string index and slice expression is bounded: range/count-down loop indices, constant indices under an established length, two-sided guards – three sites rest on named assumptions; (R3) nil discipline: every nil result of a parse function is accompanied by a recorded error, both entry points either assign the parsed expression or record an error on every path, and Match/Update test the parser's errors before evaluating; (R4) every loop either iterates over a finite container / counts, or consumes input on every cycle; (R5) every recursive cycle contains a progressing edge (a token consumed before the call, or an argument that is a strict sub-term of a parameter, or a visited-set guard); (R6) strictness: the whole input must be one sentence – a second sentence records an error; (R7) an evaluation error object always becomes an error return of Match/Update; (R9) a malformed operand is only noticed when it is evaluated: every node evaluator evaluates all its operands, and every member of a list operand, before it returns a non-error result (= C16.R8); (R8) wherever the parser builds an identifier node from the current token by a direct call (operands of BETWEEN, path members) the token kind has just been checked (expectPeek(IDENT) or an equivalent test) – otherwise an operator, a parenthesis or the end of input is taken for a name and a non-sentence is evaluated; and the lexer produces the end-of-input token only under a test of its position against the input length, so a NUL byte inside the expression does not cut it short; (R10) the lexer's whitespace skipper is evaluated for each of the 256 byte values: it must skip space, tab, CR and LF and nothing else – any other byte it swallows (vertical tab, form feed, 0x85, 0xA0) is an unknown character accepted inside an expression; a skipper that calls out (unicode.IsSpace) cannot be evaluated and is reported; (R11) SET stores a copy of its operand (= C07.R11): no self-containing document, serialisation terminates; (R12) the section parser of update clauses returns a list only on paths where the next token was tested to be EOF; (R13) error objects propagate to the top of the evaluation (= C16.R10); (R14) methods of the list type invoke methods on their elements only where the element is known to be non-nil.",
		NotDecided: "that every ungrammatical string is rejected by the inner productions (R3/R6 decide the top-level acceptance condition and 'nil implies error'); stack depth for deeply nested but finite inputs; arithmetic overflow in list indexes converted from float64.",
		Assumes:    []string{"objects and AST nodes are finite acyclic trees built from finite inputs (structural-descent recursion terminates)", "Lexer.readPosition/position are only ever increased from zero (verified: the only stores are in readChar)"},
		Rules: []RuleDef{
			{ID: "R1", Desc: "type assertions guarded by dominating type facts (T-GUARD)", Run: c09R1},
			{ID: "R2", Desc: "indexing and slicing within bounds (T-GUARD)", Run: c09R2},
			{ID: "R3", Desc: "nil results imply a recorded error; errors tested before evaluation (T-GUARD nil / T-DOM)", Run: c09R3},
			{ID: "R4", Desc: "loops make progress (T-PROG)", Run: c09R4},
			{ID: "R5", Desc: "recursive cycles contain a progressing edge (T-PROG)", Run: c09R5},
			{ID: "R6", Desc: "the whole input is one sentence (strictness)", Run: c09R6},
			{ID: "R7", Desc: "evaluation errors surface as errors of Match/Update (T-DOM)", Run: c09R7},
			{ID: "R9", Desc: "strictness: every operand and every list member is evaluated before a non-error result (= C16.R8)", Run: aliasRule("R9", c16R8, nil)},
			{ID: "R8", Desc: "the parser takes an identifier only from a token known to be one, and the lexer ends the input only at its end (T-GUARD)", Run: c09R8},
			{ID: "R10", Desc: "the lexer skips exactly the four ASCII whitespace bytes (decision table over all 256 byte values)", Run: c09R10},
			{ID: "R11", Desc: "SET stores a copy of whatever its right-hand side evaluates to (= C07.R11): a document never ends up containing itself, so serialising the result terminates", Run: aliasRule("R11", c07R11, nil)},
			{ID: "R12", Desc: "an update clause section returns its actions only after the next token was tested to be the end of the input (T-DOM): a statement nested in a group is not a sentence", Run: c09R12},
			{ID: "R13", Desc: "a rejected expression surfaces as an error: error objects produced during evaluation reach the top (= C16.R10)", Run: aliasRule("R13", c16R10, nil)},
			{ID: "R14", Desc: "list elements may be nil between a REMOVE and the compaction: every method of the list type invokes methods on its elements only under a nil test (T-GUARD)", Run: c09R14},
		},
	})
}

func c09R1(e *Engine) {
	g := e.newGuard()
	scope := e.frontEndScope()
	n := 0
	for _, fn := range sortedFns(e, scope) {
		k := 0
		instrs(fn, func(in ssa.Instruction) {
			ta, ok := in.(*ssa.TypeAssert)
			if !ok || ta.CommaOk {
				return
			}
			nt := namedOf(ta.AssertedType)
			if nt == nil {
				return
			}
			if _, isIface := ta.AssertedType.Underlying().(*types.Interface); isIface {
				return
			}
			n++
			k++
			want := g.tagOf[nt.Obj().Name()]
			// which operand: name the parameter if it is one
			what := ta.X.Name()
			if p, ok := strip(ta.X).(*ssa.Parameter); ok {
				what = p.Name()
			}
			construct := fmt.Sprintf("%s:%s.(*%s)", e.fname(fn), what, nt.Obj().Name())
			got := g.dynTag(ta.X, in.Block(), 0)
			switch {
			case want == "":
				e.undecided("R1", construct, e.ipos(in), "asserted type has no type tag in the Type() table")
			case got == want:
				e.pass("R1", construct, e.ipos(in), "dynamic type established: tag %q on every path and in every calling context", got)
			case got == "":
				e.fail("R1", construct, e.ipos(in), "single-result assertion to *%s without a dominating fact that the operand has that type (in some calling context): an operand of another type panics (interface conversion)", nt.Obj().Name())
			default:
				e.fail("R1", construct, e.ipos(in), "operand is known to carry tag %q but is asserted to *%s", got, nt.Obj().Name())
			}
		})
	}
	if n < 5 {
		e.fail("R1", "count:R1", "-", "only %d single-result assertions found in the front end (13 on the reference tree)", n)
	}
}

func c09R2(e *Engine) {
	g := e.newGuard()
	scope := e.frontEndScope()
	// field-monotonicity assumption for the lexer: every store to readPosition/position is an increment or a copy of readPosition
	for _, fname := range []string{"readPosition", "position"} {
		f := e.field("lang", "Lexer", fname)
		if f == nil {
			continue
		}
		ok := true
		for _, a := range e.fieldAccesses(f, e.funcs("lang")) {
			if !a.Write || a.Fresh {
				continue
			}
			st, isSt := a.Instr.(*ssa.Store)
			if !isSt {
				ok = false
				continue
			}
			v := strip(st.Val)
			if b, isB := v.(*ssa.BinOp); isB && b.Op == token.ADD {
				if n, isC := constInt(b.Y); isC && n == 1 {
					continue
				}
			}
			if isLoadOfField(v, e.field("lang", "Lexer", "readPosition")) {
				continue
			}
			ok = false
		}
		e.check(ok, "R2", "lang.Lexer."+fname+":monotone", "-", "Lexer.%s is only ever incremented by one or set to readPosition (never negative, never decreasing)", fname)
	}
	n := 0
	type res struct {
		construct, pos, detail string
		v                      Verdict
	}
	agg := map[string]*res{}
	var order []string
	record := func(construct, pos string, v Verdict, detail string) {
		if r, ok := agg[construct]; ok {
			if v == Fail || (v == Assumed && r.v == Pass) {
				r.v, r.detail, r.pos = v, detail, pos
			}
			return
		}
		agg[construct] = &res{construct, pos, detail, v}
		order = append(order, construct)
	}
	for _, fn := range sortedFns(e, scope) {
		instrs(fn, func(in ssa.Instruction) {
			var x, idx ssa.Value
			kind := ""
			switch s := in.(type) {
			case *ssa.IndexAddr:
				if pt, isArr := s.X.Type().Underlying().(*types.Pointer); isArr {
					if arr, ok := pt.Elem().Underlying().(*types.Array); ok {
						if v, bad := arrayIndexVerdict(arr, s.Index, in); bad {
							n++
							record(e.fname(fn)+":array["+describeIndex(s.Index)+"]", e.ipos(in), Fail, v)
						}
					}
					return
				}
				x, idx, kind = s.X, s.Index, "index"
			case *ssa.Index:
				if arr, isArr := s.X.Type().Underlying().(*types.Array); isArr {
					if v, bad := arrayIndexVerdict(arr, s.Index, in); bad {
						n++
						record(e.fname(fn)+":array["+describeIndex(s.Index)+"]", e.ipos(in), Fail, v)
					}
					return
				}
				x, idx, kind = s.X, s.Index, "index"
			case *ssa.Lookup:
				if b, ok := s.X.Type().Underlying().(*types.Basic); !ok || b.Info()&types.IsString == 0 {
					return
				}
				x, idx, kind = s.X, s.Index, "index"
			case *ssa.Slice:
				if _, isArr := s.X.Type().Underlying().(*types.Pointer); isArr {
					return
				}
				if s.Low == nil && s.High == nil {
					return
				}
				x, kind = s.X, "slice"
				idx = s.Low
				if idx == nil {
					idx = s.High
				}
			default:
				return
			}
			n++
			xname := describeIndexed(x)
			construct := e.fname(fn) + ":" + xname + "[" + describeIndex(idx) + "]"
			// named exceptions
			for key, reason := range indexExceptions {
				parts := strings.SplitN(key, "|", 2)
				if e.fname(fn) == parts[0] && (parts[1] == kind || strings.HasPrefix(xname+"["+describeIndex(idx)+"]", parts[1]) || strings.HasPrefix(xname, parts[1])) {
					record(construct, e.ipos(in), Assumed, "named exception: "+reason)
					e.assumef("%s", key+": "+reason)
					return
				}
			}
			// lexer string reads: upper bound by the readPosition >= len(input) test, lower bound by monotonicity
			if kind == "index" {
				if f, _ := loadedFieldDeep(idx); f != nil && f.Name() == "readPosition" {
					guarded := false
					for _, cd := range condsAt(in.Block()) {
						cd = normCond(cd)
						if bo, ok := cd.V.(*ssa.BinOp); ok && bo.Op == token.GEQ && !cd.Val {
							if lf, _ := loadedFieldDeep(bo.X); lf == f {
								if s, isLen := lenOf(bo.Y); isLen && sameSlice(s, x) {
									guarded = true
								}
							}
						}
					}
					if guarded {
						record(construct, e.ipos(in), Pass, "string index readPosition < len(input) (tested) and >= 0 (monotone field)")
						return
					}
				}
			}
			if kind == "slice" {
				// x[:len(y)] under len(x) >= len(y) (the explicit prefix comparison): 0 <= len(y) <= len(x) <= cap(x)
				if sl, isSl := in.(*ssa.Slice); isSl && sl.Low == nil && sl.High != nil && sl.Max == nil {
					if hy, isLen := lenOf(sl.High); isLen {
						for _, cd := range condsAt(in.Block()) {
							cd = normCond(cd)
							bo, ok := cd.V.(*ssa.BinOp)
							if !ok {
								continue
							}
							op, l, r := bo.Op, bo.X, bo.Y
							if !cd.Val {
								op = negOp(op)
							}
							lx, ok1 := lenOf(l)
							ly, ok2 := lenOf(r)
							if !ok1 || !ok2 {
								continue
							}
							if op == token.LEQ || op == token.LSS {
								lx, ly = ly, lx
								op = flipOp(op)
							}
							if (op == token.GEQ || op == token.GTR) && sameSlice(lx, x) && sameSlice(ly, hy) {
								record(construct, e.ipos(in), Pass, "slice bound len(y) with len(x) >= len(y) established")
								return
							}
						}
					}
				}
				record(construct, e.ipos(in), Fail, "slice expression with bounds the fact domain cannot establish")
				return
			}
			safe, how := g.indexVerdict(x, idx, in)
			if safe {
				record(construct, e.ipos(in), Pass, how)
			} else {
				record(construct, e.ipos(in), Fail, how+": an out-of-range index panics at run time (index out of range)")
			}
		})
	}
	sort.Strings(order)
	for _, c := range order {
		r := agg[c]
		e.ob("R2", r.construct, r.pos, r.v, true, "%s", r.detail)
	}
	if n < 20 {
		e.fail("R2", "count:R2", "-", "only %d indexing sites found in the front end (about 75 on the reference tree)", n)
	}
}

func describeIndexed(x ssa.Value) string {
	x = strip(x)
	if p, ok := x.(*ssa.Parameter); ok {
		return p.Name()
	}
	if f, _ := loadedFieldDeep(x); f != nil {
		return fieldOwner(f) + "." + f.Name()
	}
	if c, ok := x.(*ssa.Call); ok {
		return "result-of-" + lastPathElem(strings.ReplaceAll(staticCalleeName(c), ".", "/"))
	}
	if ex, ok := x.(*ssa.Extract); ok {
		if c, ok := ex.Tuple.(*ssa.Call); ok {
			return "result-of-" + lastPathElem(strings.ReplaceAll(staticCalleeName(c), ".", "/"))
		}
	}
	if _, ok := x.(*ssa.Phi); ok {
		return "local"
	}
	if _, ok := x.(*ssa.MakeSlice); ok {
		return "made"
	}
	return "local"
}

func describeIndex(idx ssa.Value) string {
	if idx == nil {
		return ""
	}
	if n, ok := constInt(idx); ok {
		return fmt.Sprint(n)
	}
	v := idx
	if cv, ok := v.(*ssa.Convert); ok {
		v = cv.X
	}
	if p, ok := strip(v).(*ssa.Parameter); ok {
		return p.Name()
	}
	if f, _ := loadedFieldDeep(v); f != nil {
		return f.Name()
	}
	return "i"
}

// errorRecorders: functions of lang that append to Parser.errors.
func (e *Engine) errorRecorders() map[*ssa.Function]bool {
	out := map[*ssa.Function]bool{}
	f := e.field("lang", "Parser", "errors")
	if f == nil {
		return out
	}
	for fn, accs := range e.writersOf(f, e.funcs("lang")) {
		for _, a := range accs {
			if a.Kind == "store-field" && !a.Fresh {
				out[fn] = true
			}
		}
	}
	// a function that calls a recorder on every path to its returns records as well (peekError → addError)
	for changed := true; changed; {
		changed = false
		for _, fn := range e.funcs("lang") {
			if out[fn] || fn.Blocks == nil {
				continue
			}
			rets := returnsOf(fn)
			if len(rets) == 0 {
				continue
			}
			all := true
			for _, r := range rets {
				dom := false
				instrs(fn, func(in ssa.Instruction) {
					if c, ok := in.(*ssa.Call); ok && c.Call.StaticCallee() != nil && out[c.Call.StaticCallee()] && idominates(in, r) {
						dom = true
					}
				})
				if !dom {
					all = false
				}
			}
			if all {
				out[fn] = true
				changed = true
			}
		}
	}
	return out
}

// mayRecord: functions that can record a parser error on some path (recorders and their static callers, two levels).
func (e *Engine) mayRecord() map[*ssa.Function]bool {
	out := map[*ssa.Function]bool{}
	for fn := range e.errorRecorders() {
		out[fn] = true
	}
	for i := 0; i < 2; i++ {
		for _, fn := range e.funcs("lang") {
			if out[fn] {
				continue
			}
			instrs(fn, func(in ssa.Instruction) {
				if c, ok := in.(*ssa.Call); ok && c.Call.StaticCallee() != nil && out[c.Call.StaticCallee()] {
					out[fn] = true
				}
			})
		}
	}
	return out
}

// recordsErrorAt: instruction in is (a call of) an error recorder, or a direct append to Parser.errors.
func (e *Engine) isErrorRecord(in ssa.Instruction, rec map[*ssa.Function]bool) bool {
	if c, ok := in.(*ssa.Call); ok {
		if g := c.Call.StaticCallee(); g != nil && rec[g] {
			return true
		}
	}
	if st, ok := in.(*ssa.Store); ok {
		if f := fieldOf(st.Addr); f != nil && f.Name() == "errors" && fieldOwner(f) == "Parser" {
			return true
		}
	}
	return false
}

func c09R3(e *Engine) {
	rec := e.errorRecorders()
	if !e.anchor("R3", "lang.Parser.errors writers", len(rec) == 0) {
		return
	}
	// functions whose false result implies a recorded error (expectPeek)
	falseImplies := map[*ssa.Function]bool{}
	for _, fn := range e.funcs("lang") {
		if fn.Parent() != nil || fn.Signature.Results().Len() != 1 {
			continue
		}
		if b, ok := fn.Signature.Results().At(0).Type().Underlying().(*types.Basic); !ok || b.Kind() != types.Bool {
			continue
		}
		nFalse, ok := 0, true
		for _, r := range returnsOf(fn) {
			v, isC := constBool(retVals(r)[0])
			if !isC {
				ok = false
				continue
			}
			if v {
				continue
			}
			nFalse++
			dom := false
			instrs(fn, func(in ssa.Instruction) {
				if e.isErrorRecord(in, rec) && idominates(in, r) {
					dom = true
				}
			})
			if !dom {
				ok = false
			}
		}
		if ok && nFalse > 0 {
			falseImplies[fn] = true
		}
	}
	// (a) every nil result of a parser method is accompanied by a recorded error
	parserT := e.namedType("lang", "Parser")
	n := 0
	for _, fn := range e.funcs("lang") {
		if fn.Signature.Recv() == nil || namedOf(fn.Signature.Recv().Type()) != parserT || fn.Signature.Results().Len() != 1 {
			continue
		}
		rt := fn.Signature.Results().At(0).Type()
		switch rt.Underlying().(type) {
		case *types.Interface, *types.Pointer, *types.Slice:
		default:
			continue
		}
		if rec[fn] && strings.HasPrefix(fn.Name(), "Parse") {
			continue // entry points: (b)
		}
		for _, r := range returnsOf(fn) {
			if !isNilConst(strip(retVals(r)[0])) {
				continue
			}
			n++
			construct := fmt.Sprintf("%s:return-nil", e.fname(fn))
			ok := false
			instrs(fn, func(in ssa.Instruction) {
				if e.isErrorRecord(in, rec) && idominates(in, r) {
					ok = true
				}
			})
			for _, cd := range condsAt(r.Block()) {
				cd = normCond(cd)
				if c, isC := cd.V.(*ssa.Call); isC && !cd.Val && c.Call.StaticCallee() != nil && falseImplies[c.Call.StaticCallee()] {
					ok = true
				}
			}
			if ok {
				e.pass("R3", construct, e.ipos(r), "nil result is dominated by a recorded parse error")
			} else {
				e.fail("R3", construct, e.ipos(r), "a parse function returns nil without recording an error: the nil node reaches the evaluator and is dereferenced")
			}
		}
	}
	// (b) entry points: on every path to return either the result's Expression was assigned or an error was recorded
	for _, name := range []string{"Parser.ParseConditionalExpression", "Parser.ParseUpdateExpression"} {
		fn := e.fn("lang", name)
		if !e.anchor("R3", "lang."+name, fn == nil) {
			continue
		}
		construct := "lang." + name + ":result-or-error"
		bad := ""
		for _, r := range returnsOf(fn) {
			ok := false
			instrs(fn, func(in ssa.Instruction) {
				if !idominates(in, r) {
					return
				}
				if e.isErrorRecord(in, rec) {
					ok = true
				}
				if st, isSt := in.(*ssa.Store); isSt {
					if f := fieldOf(st.Addr); f != nil && f.Name() == "Expression" && !isNilConst(st.Val) {
						ok = true
					}
				}
			})
			if !ok {
				bad = e.ipos(r)
			}
		}
		if bad != "" && e.nilTolerantConsumers(fn) {
			e.pass("R3", construct, e.pos(fn.Pos()), "a path leaves the Expression unset, but every consumer of this statement's Expression tests it (comma-ok assertion or nil comparison) before use")
			continue
		}
		if bad != "" {
			e.fail("R3", construct, bad, "the return at %s can be reached without having parsed an expression and without a recorded error (empty or blank input): the statement's Expression is nil and evaluation dereferences it", bad)
		} else {
			e.pass("R3", construct, e.pos(fn.Pos()), "every return is dominated by an assignment of the parsed expression or by a recorded error")
		}
	}
	// (c) Match/Update evaluate only when the parser recorded no error
	for _, name := range []string{"Language.Match", "Language.Update"} {
		fn := e.fn("interp", name)
		if !e.anchor("R3", "interp."+name, fn == nil) {
			continue
		}
		var evalCall *ssa.Call
		var evalTop ssa.Instruction // the evaluation as seen from the entry point: the call itself or the helper call leading to it
		var errsTest ssa.Value
		e.walkLocal("interp", fn, 2, func(in ssa.Instruction, ctx []callCtx) {
			c, ok := in.(*ssa.Call)
			if !ok {
				return
			}
			if g := c.Call.StaticCallee(); g != nil && e.fnRole(g) == "lang" && (g.Name() == "Eval" || g.Name() == "EvalUpdate") {
				evalCall, evalTop = c, in
				if len(ctx) > 0 {
					evalTop = ctx[0].call.(ssa.Instruction)
				}
			}
		})
		ok := false
		if evalCall != nil && evalTop != ssa.Instruction(evalCall) {
			// parse and evaluation are separate helpers: the entry point evaluates only on the nil side of the error of a
			// helper that returns nil only when the parser recorded no error
			instrs(fn, func(in ssa.Instruction) {
				pc, isC := in.(*ssa.Call)
				if !isC || pc.Call.StaticCallee() == nil || e.fnRole(pc.Call.StaticCallee()) != "interp" || !parseGate(pc.Call.StaticCallee()) || !idominates(pc, evalTop) {
					return
				}
				pei := errResultIndex(pc.Call.StaticCallee())
				var perr []ssa.Value
				if pc.Call.StaticCallee().Signature.Results().Len() == 1 {
					perr = append(perr, pc)
				} else {
					for _, ex := range extractOf(pc, pei) {
						perr = append(perr, ex)
					}
				}
				isNil, _ := knownNilness(evalTop.Block(), func(v ssa.Value) bool {
					for _, pe := range perr {
						if strip(v) == strip(pe) {
							return true
						}
					}
					return false
				})
				if isNil {
					ok = true
				}
			})
		}
		if evalCall != nil && !ok {
			for _, cd := range condsAt(evalCall.Block()) {
				cd = normCond(cd)
				bo, isB := cd.V.(*ssa.BinOp)
				if !isB {
					continue
				}
				if s, isLen := lenOf(bo.X); isLen {
					if c, isC := strip(s).(*ssa.Call); isC && c.Call.StaticCallee() != nil && c.Call.StaticCallee().Name() == "Errors" {
						if n, isK := constInt(bo.Y); isK && n == 0 && ((bo.Op == token.NEQ && !cd.Val) || (bo.Op == token.EQL && cd.Val)) {
							ok = true
							errsTest = cd.V
						}
					}
				}
			}
		}
		_ = errsTest
		e.check(ok, "R3", "interp."+name+":errors-before-eval", e.pos(fn.Pos()), "evaluation is confined to the len(p.Errors()) == 0 edge")
	}
	if n < 3 {
		e.fail("R3", "count:R3", "-", "only %d nil-returns found in the parser (6 on the reference tree)", n)
	}
}

// natural loops of fn: header -> set of body blocks.
func naturalLoops(fn *ssa.Function) map[*ssa.BasicBlock]map[*ssa.BasicBlock]bool {
	loops := map[*ssa.BasicBlock]map[*ssa.BasicBlock]bool{}
	for _, b := range fn.Blocks {
		for _, h := range b.Succs {
			if !h.Dominates(b) {
				continue
			}
			body := loops[h]
			if body == nil {
				body = map[*ssa.BasicBlock]bool{h: true}
				loops[h] = body
			}
			work := []*ssa.BasicBlock{b}
			for len(work) > 0 {
				x := work[len(work)-1]
				work = work[:len(work)-1]
				if body[x] {
					continue
				}
				body[x] = true
				work = append(work, x.Preds...)
			}
		}
	}
	return loops
}

// consumers: functions that consume input on every path (must-call of the primitive that advances Lexer.readPosition).
func (e *Engine) consumers() map[*ssa.Function]bool {
	out := map[*ssa.Function]bool{}
	rp := e.field("lang", "Lexer", "readPosition")
	if rp == nil {
		return out
	}
	for fn, accs := range e.writersOf(rp, e.funcs("lang")) {
		for _, a := range accs {
			if !a.Fresh {
				out[fn] = true
			}
		}
	}
	// conditional consumers: a function whose loop `for P(l.F) { …consume… }` runs at least once when called under P(l.F)
	type condC struct {
		pred  *ssa.Function
		field *types.Var
	}
	cond := map[*ssa.Function]condC{}
	findCond := func() {
		for _, fn := range e.funcs("lang") {
			if out[fn] {
				continue
			}
			for h, body := range naturalLoops(fn) {
				ifi, ok := h.Instrs[len(h.Instrs)-1].(*ssa.If)
				if !ok {
					continue
				}
				pc, ok := ifi.Cond.(*ssa.Call)
				if !ok || pc.Call.StaticCallee() == nil || len(pc.Call.Args) != 1 {
					continue
				}
				f, _ := loadedFieldDeep(pc.Call.Args[0])
				if f == nil || h != fn.Blocks[0] && !(len(fn.Blocks) > 1 && fn.Blocks[0].Succs[0] == h) {
					continue
				}
				consumes := false
				for b := range body {
					for _, in := range b.Instrs {
						if c, ok := in.(*ssa.Call); ok && c.Call.StaticCallee() != nil && out[c.Call.StaticCallee()] {
							consumes = true
						}
					}
				}
				if consumes {
					cond[fn] = condC{pc.Call.StaticCallee(), f}
				}
			}
		}
	}
	for changed := true; changed; {
		changed = false
		findCond()
		for _, fn := range e.funcs("lang") {
			if out[fn] || len(fn.Blocks) == 0 {
				continue
			}
			pd := e.pdomOf(fn)
			entry := fn.Blocks[0]
			must := false
			// all returns dominated by some consuming call (covers switch-shaped functions where each branch consumes)
			allRets := true
			for _, r := range returnsOf(fn) {
				dom := false
				instrs(fn, func(in ssa.Instruction) {
					c, ok := in.(*ssa.Call)
					if !ok || isBuiltin(c) || !idominates(in, r) {
						return
					}
					g := c.Call.StaticCallee()
					if g == nil {
						return
					}
					if out[g] {
						dom = true
					}
					if cc, isCond := cond[g]; isCond {
						for _, cd := range condsAt(in.Block()) {
							cd = normCond(cd)
							if pc, ok := cd.V.(*ssa.Call); ok && cd.Val && pc.Call.StaticCallee() == cc.pred {
								if f, _ := loadedFieldDeep(pc.Call.Args[0]); f == cc.field {
									dom = true
								}
							}
						}
					}
				})
				if !dom {
					allRets = false
				}
			}
			if allRets && len(returnsOf(fn)) > 0 {
				must = true
			}
			instrs(fn, func(in ssa.Instruction) {
				c, ok := in.(*ssa.Call)
				if !ok || isBuiltin(c) {
					return
				}
				g := c.Call.StaticCallee()
				if g == nil || !out[g] {
					return
				}
				if in.Block() == entry || (pd.canReturn[entry] && pd.pdom[entry][in.Block()]) {
					must = true
				}
			})
			if must {
				out[fn] = true
				changed = true
			}
		}
	}
	return out
}

func c09R4(e *Engine) {
	scope := e.frontEndScope()
	cons := e.consumers()
	n := 0
	for _, fn := range sortedFns(e, scope) {
		loops := naturalLoops(fn)
		var headers []*ssa.BasicBlock
		for h := range loops {
			headers = append(headers, h)
		}
		sort.Slice(headers, func(i, j int) bool { return headers[i].Index < headers[j].Index })
		for li, h := range headers {
			body := loops[h]
			n++
			construct := fmt.Sprintf("%s:loop#%d", e.fname(fn), li+1)
			pos := e.pos(fn.Pos())
			for _, in := range h.Instrs {
				if in.Pos().IsValid() {
					pos = e.ipos(in)
					break
				}
			}
			// bounded iteration: the exit test of some block in the loop is a range/index/count-down progress test
			bounded := ""
			for b := range body {
				ifi, ok := b.Instrs[len(b.Instrs)-1].(*ssa.If)
				if !ok {
					continue
				}
				exits := !body[b.Succs[0]] || !body[b.Succs[1]]
				if !exits {
					continue
				}
				if ex, ok := ifi.Cond.(*ssa.Extract); ok {
					if _, isNext := ex.Tuple.(*ssa.Next); isNext && ex.Index == 0 {
						bounded = "range over a map/string"
					}
				}
				if isIndexLoopCond(ifi.Cond) {
					bounded = "range over a slice"
				}
				if bo, ok := ifi.Cond.(*ssa.BinOp); ok && (bo.Op == token.GEQ || bo.Op == token.GTR) {
					if ph, isPhi := bo.X.(*ssa.Phi); isPhi {
						dec := false
						for _, ed := range ph.Edges {
							if sb, ok := ed.(*ssa.BinOp); ok && sb.Op == token.SUB && sb.X == ssa.Value(ph) {
								dec = true
							}
						}
						if n0, isC := constInt(bo.Y); isC && n0 >= 0 && dec {
							bounded = "count-down loop"
						}
					}
				}
			}
			if bounded != "" {
				e.ob("R4", construct, pos, Pass, false, "bounded iteration (%s)", bounded)
				continue
			}
			// consuming call on every cycle: remove blocks with a consuming call; the header must not reach itself
			consuming := map[*ssa.BasicBlock]bool{}
			for b := range body {
				for _, in := range b.Instrs {
					if c, ok := in.(*ssa.Call); ok && !isBuiltin(c) {
						if g := c.Call.StaticCallee(); g != nil && cons[g] {
							consuming[b] = true
						}
					}
				}
			}
			cyc := false
			if !consuming[h] {
				seen := map[*ssa.BasicBlock]bool{}
				work := []*ssa.BasicBlock{}
				for _, s := range h.Succs {
					if body[s] {
						work = append(work, s)
					}
				}
				for len(work) > 0 {
					x := work[len(work)-1]
					work = work[:len(work)-1]
					if x == h {
						cyc = true
						break
					}
					if seen[x] || consuming[x] {
						continue
					}
					seen[x] = true
					for _, s := range x.Succs {
						if body[s] {
							work = append(work, s)
						}
					}
				}
			}
			if !cyc {
				e.pass("R4", construct, pos, "every cycle through the loop passes a call that consumes input (readChar/nextToken or a function that always calls them)")
				continue
			}
			// structural descent: a loop-carried variable is replaced by a field of itself
			descent := false
			for _, in := range h.Instrs {
				ph, ok := in.(*ssa.Phi)
				if !ok {
					continue
				}
				for _, ed := range ph.Edges {
					if descendsFrom(ed, ph, 0) {
						descent = true
					}
				}
			}
			if descent {
				e.pass("R4", construct, pos, "the loop variable is replaced by a strict sub-term of itself on every iteration (finite tree descent)")
				continue
			}
			e.fail("R4", construct, pos, "a cycle through this loop neither consumes input nor descends into a sub-term: it may not terminate")
		}
	}
	if n < 10 {
		e.fail("R4", "count:R4", "-", "only %d loops found in the front end", n)
	}
	// the lexer reaches EOF: NextToken consumes at least one byte unless at end – checked for all but the identifier path
	nt := e.fn("lang", "Lexer.NextToken")
	if nt != nil {
		e.ob("R4", "lang.Lexer.NextToken:consumes", e.pos(nt.Pos()), map[bool]Verdict{true: Pass, false: Assumed}[cons[nt]], true, "NextToken always consumes input (must-call of readChar: %v); on the identifier path readIdentifier's loop runs at least once because its only call site is guarded by the loop's own predicate", cons[nt])
	}
}

// descendsFrom: v is obtained from root by at least one field/element selection (through loads, asserts, phis).
func descendsFrom(v, root ssa.Value, depth int) bool {
	if depth > 8 {
		return false
	}
	v = strip(v)
	switch x := v.(type) {
	case *ssa.UnOp:
		if x.Op != token.MUL {
			return false
		}
		switch a := x.X.(type) {
		case *ssa.FieldAddr:
			return reaches(a.X, root, depth+1)
		case *ssa.IndexAddr:
			return reaches(a.X, root, depth+1)
		}
	case *ssa.Field:
		return reaches(x.X, root, depth+1)
	case *ssa.Index:
		return reaches(x.X, root, depth+1)
	case *ssa.Lookup:
		return reaches(x.X, root, depth+1)
	case *ssa.Extract:
		switch t := x.Tuple.(type) {
		case *ssa.TypeAssert:
			return descendsFrom(t.X, root, depth+1)
		case *ssa.Next:
			if rg, ok := t.Iter.(*ssa.Range); ok {
				return reaches(rg.X, root, depth+1)
			}
		case *ssa.Lookup:
			return reaches(t.X, root, depth+1)
		}
	case *ssa.TypeAssert:
		return descendsFrom(x.X, root, depth+1)
	case *ssa.Phi:
		for _, ed := range x.Edges {
			if ed != ssa.Value(x) && descendsFrom(ed, root, depth+1) {
				return true
			}
		}
	}
	return false
}

// reaches: v is root or derived from it by selections/asserts (zero or more steps).
func reaches(v, root ssa.Value, depth int) bool {
	if depth > 8 {
		return false
	}
	v = strip(v)
	if v == strip(root) {
		return true
	}
	switch x := v.(type) {
	case *ssa.Extract:
		if t, ok := x.Tuple.(*ssa.TypeAssert); ok {
			return reaches(t.X, root, depth+1)
		}
	case *ssa.TypeAssert:
		return reaches(x.X, root, depth+1)
	case *ssa.FieldAddr:
		return reaches(x.X, root, depth+1)
	case *ssa.IndexAddr:
		return reaches(x.X, root, depth+1)
	case *ssa.Phi:
		for _, ed := range x.Edges {
			if ed != ssa.Value(x) && reaches(ed, root, depth+1) {
				return true
			}
		}
		return false
	}
	return descendsFrom(v, root, depth+1)
}

func c09R5(e *Engine) {
	scope := e.frontEndScope()
	cons := e.consumers()
	// call edges within scope
	type edge struct {
		from, to *ssa.Function
		site     ssa.CallInstruction
		prog     string
	}
	var edges []edge
	for fn := range scope {
		instrs(fn, func(in ssa.Instruction) {
			c, ok := in.(ssa.CallInstruction)
			if !ok || isBuiltin(c) {
				return
			}
			for _, g := range e.callees(c) {
				if scope[g] {
					edges = append(edges, edge{from: fn, to: g, site: c})
				}
			}
		})
	}
	// SCCs (Tarjan)
	index := map[*ssa.Function]int{}
	low := map[*ssa.Function]int{}
	onStack := map[*ssa.Function]bool{}
	var stack []*ssa.Function
	comp := map[*ssa.Function]int{}
	adj := map[*ssa.Function][]*ssa.Function{}
	for _, ed := range edges {
		adj[ed.from] = append(adj[ed.from], ed.to)
	}
	idx, ncomp := 0, 0
	var strong func(v *ssa.Function)
	strong = func(v *ssa.Function) {
		idx++
		index[v], low[v] = idx, idx
		stack = append(stack, v)
		onStack[v] = true
		for _, w := range adj[v] {
			if index[w] == 0 {
				strong(w)
				if low[w] < low[v] {
					low[v] = low[w]
				}
			} else if onStack[w] && index[w] < low[v] {
				low[v] = index[w]
			}
		}
		if low[v] == index[v] {
			ncomp++
			for {
				w := stack[len(stack)-1]
				stack = stack[:len(stack)-1]
				onStack[w] = false
				comp[w] = ncomp
				if w == v {
					break
				}
			}
		}
	}
	for _, fn := range sortedFns(e, scope) {
		if index[fn] == 0 {
			strong(fn)
		}
	}
	members := map[int][]*ssa.Function{}
	for fn, c := range comp {
		members[c] = append(members[c], fn)
	}
	nrec := 0
	for c, fns := range members {
		var inner []edge
		for _, ed := range edges {
			if comp[ed.from] == c && comp[ed.to] == c {
				inner = append(inner, ed)
			}
		}
		if len(inner) == 0 {
			continue
		}
		nrec++
		sort.Slice(fns, func(i, j int) bool { return e.fname(fns[i]) < e.fname(fns[j]) })
		name := e.fname(fns[0])
		if len(fns) > 1 {
			name += fmt.Sprintf("+%d", len(fns)-1)
		}
		// classify edges
		var rest []edge
		nprog := 0
		for _, ed := range inner {
			in := ed.site.(ssa.Instruction)
			prog := ""
			// (a) a consuming call dominates the recursive call in the same activation
			instrs(ed.from, func(j ssa.Instruction) {
				cc, ok := j.(*ssa.Call)
				if !ok || isBuiltin(cc) || j == in {
					return
				}
				if g := cc.Call.StaticCallee(); g != nil && cons[g] && idominates(j, in) {
					prog = "input consumed before the call"
				}
			})
			// (b) some argument is a strict sub-term of a parameter of the caller
			if prog == "" {
				args := ed.site.Common().Args
				if ed.site.Common().IsInvoke() {
					args = append([]ssa.Value{ed.site.Common().Value}, args...)
				}
				for _, a := range args {
					for _, p := range ed.from.Params {
						if isRefType(p.Type()) && descendsFrom(a, p, 0) {
							prog = "argument is a strict sub-term of parameter " + p.Name()
						}
					}
					for _, fv := range ed.from.FreeVars {
						_ = fv
					}
				}
			}
			// (c) visited-set idiom: the call is guarded by a lookup in a map that is updated with the same key before the call
			if prog == "" {
				for _, cd := range condsAt(in.Block()) {
					cd = normCond(cd)
					if ex, ok := cd.V.(*ssa.Extract); ok && !cd.Val {
						if lk, ok := ex.Tuple.(*ssa.Lookup); ok && lk.CommaOk {
							instrs(ed.from, func(j ssa.Instruction) {
								if mu, ok := j.(*ssa.MapUpdate); ok && strip(mu.Key) == strip(lk.Index) && idominates(j, in) {
									prog = "guarded by a visited set"
								}
							})
						}
					}
					if lk, ok := cd.V.(*ssa.Lookup); ok && !cd.Val && !lk.CommaOk {
						instrs(ed.from, func(j ssa.Instruction) {
							if mu, ok := j.(*ssa.MapUpdate); ok && strip(mu.Key) == strip(lk.Index) && idominates(j, in) {
								prog = "guarded by a visited set"
							}
						})
					}
				}
			}
			if prog == "" {
				rest = append(rest, ed)
			} else {
				nprog++
			}
		}
		// is the remaining graph acyclic?
		radj := map[*ssa.Function][]*ssa.Function{}
		for _, ed := range rest {
			radj[ed.from] = append(radj[ed.from], ed.to)
		}
		var cyc []string
		state := map[*ssa.Function]int{}
		var dfs func(v *ssa.Function) bool
		dfs = func(v *ssa.Function) bool {
			state[v] = 1
			for _, w := range radj[v] {
				if state[w] == 1 {
					cyc = append(cyc, e.fname(v)+" -> "+e.fname(w))
					return true
				}
				if state[w] == 0 && dfs(w) {
					return true
				}
			}
			state[v] = 2
			return false
		}
		bad := false
		for _, fn := range fns {
			if state[fn] == 0 && dfs(fn) {
				bad = true
				break
			}
		}
		construct := "scc:" + name
		if bad {
			pos := "-"
			for _, ed := range rest {
				if e.fname(ed.from)+" -> "+e.fname(ed.to) == cyc[0] {
					pos = e.ipos(ed.site.(ssa.Instruction))
				}
			}
			e.fail("R5", construct, pos, "recursive cycle without a progressing edge (%s): neither input is consumed before the call nor does an argument shrink – unbounded recursion overflows the stack (not recoverable)", strings.Join(cyc, ", "))
		} else {
			e.pass("R5", construct, e.pos(fns[0].Pos()), "%d function(s), %d recursive edge(s), %d progressing; removing the progressing edges leaves no cycle", len(fns), len(inner), nprog)
		}
	}
	if nrec < 4 {
		e.fail("R5", "count:R5", "-", "only %d recursive components found (parser, evaluators, printers, mappers expected)", nrec)
	}
}

func c09R6(e *Engine) {
	rec := e.errorRecorders()
	may := e.mayRecord()
	for _, name := range []string{"Parser.ParseConditionalExpression", "Parser.ParseUpdateExpression"} {
		fn := e.fn("lang", name)
		if !e.anchor("R6", "lang."+name, fn == nil) {
			continue
		}
		construct := "lang." + name + ":single-sentence"
		var stores []*ssa.Store
		instrs(fn, func(in ssa.Instruction) {
			if st, ok := in.(*ssa.Store); ok {
				if f := fieldOf(st.Addr); f != nil && f.Name() == "Expression" && !isNilConst(st.Val) {
					stores = append(stores, st)
				}
			}
		})
		if len(stores) == 0 {
			e.fail("R6", construct, e.pos(fn.Pos()), "the entry point never assigns the parsed expression")
			continue
		}
		loops := naturalLoops(fn)
		ok := true
		why := ""
		for _, st := range stores {
			var loop map[*ssa.BasicBlock]bool
			for _, body := range loops {
				if body[st.Block()] {
					loop = body
				}
			}
			if loop == nil {
				// assigned once: afterwards the next token must be tested against EOF with an error on mismatch
				tested := false
				instrs(fn, func(in ssa.Instruction) {
					if (e.isErrorRecord(in, rec) || e.isErrorRecord(in, may)) && mayFollow(st, in) {
						tested = true
					}
					if c, isC := in.(*ssa.Call); isC && mayFollow(st, in) {
						if g := c.Call.StaticCallee(); g != nil && g.Name() == "expectPeek" {
							tested = true
						}
					}
				})
				if !tested {
					ok, why = false, "after the single parse nothing checks that the input is exhausted"
				}
				continue
			}
			// assigned inside a loop: a further iteration must record an error
			recInLoop := false
			for b := range loop {
				for _, in := range b.Instrs {
					if e.isErrorRecord(in, rec) {
						recInLoop = true
					}
				}
			}
			if !recInLoop {
				ok, why = false, "the expression is (re)assigned on every iteration of the sentence loop and no iteration records an error: for `a = :x b = :y` only the last sentence is kept and evaluated"
			}
		}
		if ok {
			e.pass("R6", construct, e.ipos(stores[0]), "a second sentence is rejected: the loop (or the trailing check) records an error")
		} else {
			e.fail("R6", construct, e.ipos(stores[0]), "%s", why)
		}
	}
}

func c09R7(e *Engine) {
	for _, name := range []string{"Language.Match", "Language.Update"} {
		fn := e.fn("interp", name)
		if !e.anchor("R7", "interp."+name, fn == nil) {
			continue
		}
		// the evaluation call, in the entry point or in a helper it is split into
		var evalCall *ssa.Call
		var evalCtx []callCtx
		e.walkLocal("interp", fn, 2, func(in ssa.Instruction, ctx []callCtx) {
			if c, ok := in.(*ssa.Call); ok {
				if g := c.Call.StaticCallee(); g != nil && e.fnRole(g) == "lang" && (g.Name() == "Eval" || g.Name() == "EvalUpdate") {
					evalCall, evalCtx = c, append([]callCtx{}, ctx...)
				}
			}
		})
		if evalCall == nil {
			e.fail("R7", "interp."+name+":error-object-surfaces", e.pos(fn.Pos()), "no evaluation call found")
			continue
		}
		ok := true
		nsucc := 0
		// level 0: the function that evaluates – success only on the not-an-error-object edge
		host := evalCall.Parent()
		ei := errResultIndex(host)
		for _, r := range returnsOf(host) {
			if ei < 0 || !mayFollow(evalCall, r) || !isNilConst(retVals(r)[ei]) {
				continue
			}
			nsucc++
			guarded := false
			for _, cd := range condsAt(r.Block()) {
				cd = normCond(cd)
				bo, isB := cd.V.(*ssa.BinOp)
				if !isB {
					continue
				}
				if o, isT := typeCallOn(bo.X); isT && sameObj(o, evalCall) {
					if s, isC := constString(bo.Y); isC && s == "ERR" && ((bo.Op == token.EQL && !cd.Val) || (bo.Op == token.NEQ && cd.Val)) {
						guarded = true
					}
				}
				// … or the test is made by a helper that turns an error object into a Go error: h(result) == nil
				if x, nonNilOnTrue, isNT := nilTest(bo); isNT && cd.Val != nonNilOnTrue {
					if hc, isCall := strip(x).(*ssa.Call); isCall && len(hc.Call.Args) == 1 && sameObj(hc.Call.Args[0], evalCall) && errorObjectGate(hc.Call.StaticCallee()) {
						guarded = true
					}
				}
			}
			if !guarded {
				ok = false
			}
		}
		// levels above: the caller either hands the helper's results on or succeeds only on the nil side of its error
		for lvl := len(evalCtx) - 1; lvl >= 0; lvl-- {
			call := evalCtx[lvl].call
			caller := call.Parent()
			cei := errResultIndex(caller)
			hei := errResultIndex(evalCtx[lvl].callee)
			var herr []ssa.Value
			if cv, isV := call.(ssa.Value); isV {
				if evalCtx[lvl].callee.Signature.Results().Len() == 1 {
					herr = append(herr, cv)
				} else {
					for _, ex := range extractOf(cv, hei) {
						herr = append(herr, ex)
					}
				}
			}
			isHerr := func(v ssa.Value) bool {
				for _, h := range herr {
					if strip(v) == strip(h) {
						return true
					}
				}
				return false
			}
			for _, r := range returnsOf(caller) {
				if cei < 0 || !mayFollow(call.(ssa.Instruction), r) {
					continue
				}
				rv := retVals(r)[cei]
				if isHerr(rv) {
					continue // forwards the helper's verdict
				}
				if !isNilConst(rv) {
					continue
				}
				nsucc++
				isNil, _ := knownNilness(r.Block(), isHerr)
				if !isNil {
					ok = false
				}
			}
		}
		e.check(ok && nsucc > 0, "R7", "interp."+name+":error-object-surfaces", e.ipos(evalCall), "success is returned only on the edge where the evaluation result is not an error object")
	}
}

// nilTolerantConsumers: every read of the Expression field of the statement type returned by entry point fn (outside the
// parser itself) feeds only a comma-ok type assertion, a nil comparison, or a use dominated by a non-nil test.
func (e *Engine) nilTolerantConsumers(fn *ssa.Function) bool {
	st := namedOf(fn.Signature.Results().At(0).Type())
	if st == nil {
		return false
	}
	reads, ok := 0, true
	for _, g := range e.funcs("lang") {
		if g.Signature.Recv() != nil && namedOf(g.Signature.Recv().Type()) != nil && namedOf(g.Signature.Recv().Type()).Obj().Name() == "Parser" {
			continue
		}
		instrs(g, func(in ssa.Instruction) {
			fa, isFA := in.(*ssa.FieldAddr)
			if !isFA || fieldOf(fa).Name() != "Expression" || namedOf(fa.X.Type()) != st {
				return
			}
			for _, r := range refsOf(fa) {
				ld, isLd := r.(*ssa.UnOp)
				if !isLd {
					continue
				}
				reads++
				for _, u := range refsOf(ld) {
					switch x := u.(type) {
					case *ssa.TypeAssert:
						if !x.CommaOk {
							ok = false
						}
					case *ssa.BinOp:
						if !(isNilConst(x.X) || isNilConst(x.Y)) {
							ok = false
						}
					default:
						// any other use must be dominated by a non-nil test of this same load or of an equal earlier load
						_, nn := knownNilness(u.Block(), func(v ssa.Value) bool {
							if v == ssa.Value(ld) {
								return true
							}
							if l2, isL := v.(*ssa.UnOp); isL {
								if fa2, isF := l2.X.(*ssa.FieldAddr); isF && fa2.X == fa.X && fa2.Field == fa.Field {
									return true
								}
							}
							return false
						})
						if !nn {
							ok = false
						}
					}
				}
			}
		})
	}
	return ok && reads > 0
}

// arrayIndexVerdict: indexing a fixed-size array with a non-constant index is safe only when the index type cannot
// exceed the array length (e.g. a byte into [256]T) or a dominating comparison bounds it.
func arrayIndexVerdict(arr *types.Array, idx ssa.Value, in ssa.Instruction) (string, bool) {
	if _, isK := constInt(idx); isK {
		return "", false // constant indices into arrays are checked by the compiler
	}
	base := idx
	if cv, ok := base.(*ssa.Convert); ok {
		base = cv.X
	}
	if b, ok := base.Type().Underlying().(*types.Basic); ok {
		var max int64 = -1
		switch b.Kind() {
		case types.Uint8:
			max = 255
		case types.Uint16:
			max = 65535
		}
		if max >= 0 && arr.Len() > max {
			return "", false
		}
	}
	for _, cd := range condsAt(in.Block()) {
		cd = normCond(cd)
		bo, ok := cd.V.(*ssa.BinOp)
		if !ok {
			continue
		}
		if strip(bo.X) == strip(idx) || strip(bo.X) == strip(base) {
			if k, isK := constInt(bo.Y); isK {
				op := bo.Op
				if !cd.Val {
					op = negOp(op)
				}
				if (op == token.LSS && k <= arr.Len()) || (op == token.LEQ && k < arr.Len()) {
					return "", false
				}
			}
		}
	}
	return fmt.Sprintf("a fixed-size array of length %d is indexed with a value of type %s whose range exceeds it and no dominating comparison bounds it: an index beyond the table panics (index out of range)", arr.Len(), typeName(idx.Type())), true
}

// c09R8: (a) Parser.parseIdentifier turns WHATEVER the current token is into an identifier node. Reached through the prefix
// table it is only called for IDENT tokens; every direct call must be preceded by a check of the token kind.
// (b) the lexer marks the end of input with the byte value 0: the EOF token must be issued only when the position has
// reached the end of the input, otherwise a NUL byte inside the expression ends it.
func c09R8(e *Engine) {
	pi := e.fn("lang", "Parser.parseIdentifier")
	if e.anchor("R8", "lang.Parser.parseIdentifier", pi == nil) {
		n := 0
		for _, fn := range e.funcs("lang") {
			instrs(fn, func(in ssa.Instruction) {
				c, ok := in.(*ssa.Call)
				if !ok || c.Call.StaticCallee() != pi {
					return
				}
				n++
				construct := e.fname(fn) + ":identifier-from-checked-token"
				// the nearest preceding token-advancing call on every path must be a successful expectPeek(IDENT) /
				// a test of the current token's type against IDENT
				checked := false
				for _, cd := range condsAt(c.Block()) {
					cd = normCond(cd)
					if t, ok := cd.V.(*ssa.Call); ok && cd.Val && t.Call.StaticCallee() != nil {
						for _, a := range t.Call.Args {
							if k, isK := constString(a); isK && k == "IDENT" {
								// no token is consumed between the check and the use
								consumed := false
								instrs(fn, func(j ssa.Instruction) {
									if jc, ok := j.(*ssa.Call); ok && jc.Call.StaticCallee() != nil && jc.Call.StaticCallee().Name() == "nextToken" && idominates(t, jc) && idominates(jc, c) {
										consumed = true
									}
								})
								if !consumed {
									checked = true
								}
							}
						}
					}
					if b, ok := cd.V.(*ssa.BinOp); ok && ((b.Op == token.EQL) == cd.Val) {
						if k, isK := constString(b.Y); isK && k == "IDENT" {
							checked = true
						}
					}
				}
				if checked {
					e.pass("R8", construct, e.ipos(c), "the token has just been checked to be an identifier")
				} else {
					e.fail("R8", construct, e.ipos(c), "an identifier node is built from the current token without a check of its kind: an operator, a parenthesis or the end of the input is taken for a name, so strings such as `a BETWEEN :x AND`, `a BETWEEN ( AND )` or `a.( = :v` are evaluated instead of rejected")
				}
			})
		}
		if n == 0 {
			e.pass("R8", "lang.Parser:no-direct-identifier-construction", "-", "identifiers are only built through the prefix table")
		}
	}
	nt := e.fn("lang", "Lexer.NextToken")
	if e.anchor("R8", "lang.Lexer.NextToken", nt == nil) {
		// stores of the constant token type EOF
		found, guarded := 0, 0
		instrs(nt, func(in ssa.Instruction) {
			st, ok := in.(*ssa.Store)
			if !ok {
				return
			}
			if k, isK := constString(st.Val); !isK || k != "EOF" {
				return
			}
			found++
			for _, cd := range condsAt(in.Block()) {
				b, ok := normCond(cd).V.(*ssa.BinOp)
				if !ok {
					continue
				}
				for _, side := range []ssa.Value{b.X, b.Y} {
					if lc, ok := side.(*ssa.Call); ok && staticCalleeName(lc) == "builtin.len" {
						guarded++
					}
				}
			}
		})
		switch {
		case found == 0:
			e.undecided("R8", "lang.Lexer.NextToken:eof-only-at-end", e.pos(nt.Pos()), "the place where the EOF token is produced was not found")
		case guarded < found:
			e.fail("R8", "lang.Lexer.NextToken:eof-only-at-end", e.pos(nt.Pos()), "the end-of-input token is produced for the byte value 0 without comparing the position with the length of the input: a NUL byte inside an expression ends it, `a = :a\\x00 anything` is evaluated as `a = :a`")
		default:
			e.pass("R8", "lang.Lexer.NextToken:eof-only-at-end", e.pos(nt.Pos()), "EOF is produced under a comparison of the position with len(input)")
		}
	}
}

// errorObjectGate: h(obj) error returns nil only on the edge where obj.Type() is not the error type.
func errorObjectGate(h *ssa.Function) bool {
	if h == nil || h.Blocks == nil || len(h.Params) != 1 || h.Signature.Results().Len() != 1 || !isErrorType(h.Signature.Results().At(0).Type()) {
		return false
	}
	n := 0
	for _, r := range returnsOf(h) {
		if !isNilConst(retVals(r)[0]) {
			continue
		}
		n++
		guarded := false
		for _, cd := range condsAt(r.Block()) {
			cd = normCond(cd)
			bo, isB := cd.V.(*ssa.BinOp)
			if !isB {
				continue
			}
			if o, isT := typeCallOn(bo.X); isT && strip(o) == ssa.Value(h.Params[0]) {
				if s, isC := constString(bo.Y); isC && s == "ERR" && ((bo.Op == token.EQL && !cd.Val) || (bo.Op == token.NEQ && cd.Val)) {
					guarded = true
				}
			}
		}
		if !guarded {
			return false
		}
	}
	return n > 0
}

// c09R10: which bytes does the lexer skip between tokens? The skipper is a loop `for <cond on l.ch> { l.readChar() }`. For
// every byte value the loop condition is evaluated abstractly (comparisons of the current byte with constants); the set of
// skipped bytes must be exactly {' ', '\t', '\n', '\r'}.
func c09R10(e *Engine) {
	rc := e.fn("lang", "Lexer.readChar")
	chF := e.field("lang", "Lexer", "ch")
	if !e.anchor("R10", "lang.Lexer.readChar / Lexer.ch", rc == nil || chF == nil) {
		return
	}
	n := 0
	for _, fn := range e.funcs("lang") {
		if fn.Signature.Recv() == nil || fn.Signature.Results().Len() != 0 || fn.Parent() != nil || fn == rc {
			continue
		}
		// a skipper: its only call is readChar, inside a loop
		var body *ssa.BasicBlock
		only := true
		instrs(fn, func(in ssa.Instruction) {
			if c, ok := in.(*ssa.Call); ok && !isBuiltin(c) {
				if c.Call.StaticCallee() == rc {
					body = c.Block()
				} else if !bytePredicate(c.Call.StaticCallee()) && (c.Call.StaticCallee() == nil || e.fnRole(c.Call.StaticCallee()) == "lang") {
					only = false
				}
			}
		})
		if body == nil || !only {
			continue
		}
		inLoop := false
		for _, l := range naturalLoops(fn) {
			if l[body] {
				inLoop = true
			}
		}
		if !inLoop {
			continue
		}
		n++
		construct := e.fname(fn) + ":skips-only-ascii-whitespace"
		// how the decision is made: comparisons / a local byte predicate can be evaluated for every byte; a call into a
		// library predicate is judged by what that library accepts; a lookup in a table filled at start-up cannot be
		// evaluated without running that code and is left undecided (stated, not failed)
		external, table := "", false
		instrs(fn, func(in ssa.Instruction) {
			switch x := in.(type) {
			case *ssa.Call:
				if g := x.Call.StaticCallee(); g != nil && e.fnRole(g) == "" && !isBuiltin(x) {
					external = staticCalleeName(x)
				}
			case *ssa.IndexAddr:
				if globalRoot(x.X) != nil {
					table = true
				}
			case *ssa.Index:
				if globalRoot(x.X) != nil {
					table = true
				}
			case *ssa.Lookup:
				if globalRoot(x.X) != nil {
					table = true
				}
			}
		})
		if external != "" {
			e.fail("R10", construct, e.pos(fn.Pos()), "which bytes are skipped between tokens is decided by %s: the unicode-aware predicates of the standard library also accept \\v, \\f, 0x85 and 0xA0 – unknown characters that must be rejected are swallowed instead", external)
			continue
		}
		if table {
			e.ob("R10", construct, e.pos(fn.Pos()), Pass, false, "the skipped bytes are looked up in a table filled at start-up: its contents cannot be established without running that code – not decided for this form")
			continue
		}
		var skipped []int
		undecided := false
		for b := 0; b < 256; b++ {
			isCh := func(v ssa.Value) bool { f, _ := loadedField(v); return f == chF }
			reached, ok := interpReaches(fn, func(v ssa.Value) (bool, bool) {
				// a predicate on the byte, extracted into a function of its own: isWhitespace(l.ch)
				if c, isC := v.(*ssa.Call); isC && bytePredicate(c.Call.StaticCallee()) && len(c.Call.Args) == 1 && isCh(c.Call.Args[0]) {
					g := c.Call.StaticCallee()
					ret, evalAt, ok := interpBool(g, func(w ssa.Value) (bool, bool) {
						return byteCompare(w, func(x ssa.Value) bool { return strip(x) == ssa.Value(g.Params[0]) }, b)
					})
					if !ok {
						return false, false
					}
					return evalAt(retVals(ret)[0])
				}
				return byteCompare(v, isCh, b)
			}, body)
			if !ok {
				undecided = true
				break
			}
			if reached {
				skipped = append(skipped, b)
			}
		}
		want := []int{9, 10, 13, 32}
		switch {
		case undecided:
			e.fail("R10", construct, e.pos(fn.Pos()), "the condition under which a byte is skipped is not a comparison of the current byte with constants (it calls out or uses a table): which bytes are swallowed between tokens cannot be established – unicode-aware predicates also skip \\v, \\f, 0x85 and 0xA0, unknown characters that must be rejected")
		case fmt.Sprint(skipped) != fmt.Sprint(want):
			e.fail("R10", construct, e.pos(fn.Pos()), "the bytes skipped between tokens are %v, not exactly space, tab, LF and CR %v: the others are unknown characters accepted inside an expression", skipped, want)
		default:
			e.pass("R10", construct, e.pos(fn.Pos()), "evaluated for all 256 byte values: exactly %v are skipped", want)
		}
	}
	if n == 0 {
		e.undecided("R10", "lang.Lexer:whitespace-skipper", "-", "no whitespace-skipping loop found in the lexer")
	}
}

// bytePredicate: a package-local func(byte) bool without calls.
func bytePredicate(g *ssa.Function) bool {
	if g == nil || g.Blocks == nil || len(g.Params) != 1 || g.Signature.Results().Len() != 1 || !isBoolType(g.Signature.Results().At(0).Type()) {
		return false
	}
	if b, ok := g.Params[0].Type().Underlying().(*types.Basic); !ok || b.Kind() != types.Uint8 {
		return false
	}
	pure := true
	instrs(g, func(in ssa.Instruction) {
		if _, isCall := in.(ssa.CallInstruction); isCall {
			pure = false
		}
	})
	return pure
}

// byteCompare evaluates `x op const` for x denoting the byte (per isByte) with value b.
func byteCompare(v ssa.Value, isByte func(ssa.Value) bool, b int) (bool, bool) {
	bo, isB := v.(*ssa.BinOp)
	if !isB {
		return false, false
	}
	x, y, op := bo.X, bo.Y, bo.Op
	if isByte(y) {
		x, y, op = y, x, flipOp(op)
	}
	if !isByte(x) {
		return false, false
	}
	k, isK := constInt(y)
	if !isK {
		return false, false
	}
	switch op {
	case token.EQL:
		return int64(b) == k, true
	case token.NEQ:
		return int64(b) != k, true
	case token.LSS:
		return int64(b) < k, true
	case token.LEQ:
		return int64(b) <= k, true
	case token.GTR:
		return int64(b) > k, true
	case token.GEQ:
		return int64(b) >= k, true
	}
	return false, false
}

// parseGate: h returns a nil error only on the edge where the parser recorded no error (len(p.Errors()) == 0).
func parseGate(h *ssa.Function) bool {
	ei := errResultIndex(h)
	if h == nil || h.Blocks == nil || ei < 0 {
		return false
	}
	n := 0
	for _, r := range returnsOf(h) {
		if !isNilConst(retVals(r)[ei]) {
			continue
		}
		n++
		guarded := false
		for _, cd := range condsAt(r.Block()) {
			cd = normCond(cd)
			bo, isB := cd.V.(*ssa.BinOp)
			if !isB {
				continue
			}
			if s, isLen := lenOf(bo.X); isLen {
				if c, isC := strip(s).(*ssa.Call); isC && c.Call.StaticCallee() != nil && c.Call.StaticCallee().Name() == "Errors" {
					if k, isK := constInt(bo.Y); isK && k == 0 && ((bo.Op == token.NEQ && !cd.Val) || (bo.Op == token.EQL && cd.Val)) {
						guarded = true
					}
				}
			}
		}
		if !guarded {
			return false
		}
	}
	return n > 0
}

// c09R12: an update statement is the whole input. The parser of a clause section (the Parser method that returns the
// list of actions of SET/ADD/REMOVE/DELETE) hands back a list only on a path on which the NEXT token was tested to be the
// end of the input: a section that is closed by something else – the `)` of a group it was opened in, say – is not a
// sentence of the grammar ("(SET a = :x)" must be rejected, not applied).
func c09R12(e *Engine) {
	n := 0
	for _, fn := range e.funcs("lang") {
		if fn.Parent() != nil || fn.Signature.Recv() == nil {
			continue
		}
		if nt := namedOf(fn.Signature.Recv().Type()); nt == nil || nt.Obj().Name() != "Parser" {
			continue
		}
		res := fn.Signature.Results()
		if res.Len() != 1 {
			continue
		}
		sl, ok := res.At(0).Type().Underlying().(*types.Slice)
		if !ok || !strings.HasSuffix(typeName(sl.Elem()), "Expression") {
			continue
		}
		takesToken := false
		for _, p := range fn.Params {
			if strings.HasSuffix(typeName(p.Type()), "language.Token") {
				takesToken = true
			}
		}
		if !takesToken {
			continue
		}
		n++
		construct := e.fname(fn) + ":section-ends-the-input"
		bad := ""
		for _, r := range returnsOf(fn) {
			if isNilConst(retVals(r)[0]) {
				continue
			}
			eofChecked := false
			for _, cd := range condsAt(r.Block()) {
				cd = normCond(cd)
				c, isCall := cd.V.(*ssa.Call)
				if !isCall || !cd.Val || c.Call.StaticCallee() == nil || len(c.Call.Args) != 2 {
					continue
				}
				if s, isK := constString(c.Call.Args[1]); isK && s == "EOF" {
					eofChecked = true
				}
			}
			if !eofChecked {
				bad = e.ipos(r)
			}
		}
		if bad != "" {
			e.fail("R12", construct, bad, "the section parser returns its actions on a path on which the next token was not tested to be the end of the input: an update statement wrapped in parentheses (or followed by a closing token of an enclosing construct) is accepted and applied")
		} else {
			e.pass("R12", construct, e.pos(fn.Pos()), "actions are returned only after the next token was tested to be EOF")
		}
	}
	if n == 0 {
		e.undecided("R12", "lang:section-parser", "-", "the parser of update clause sections was not found")
	}
}

// c09R14: removed list elements are nil until the list is compacted (List.Remove stores nil into the slot, compaction
// happens once after all actions). Every method of that list type that invokes a method on an element of its Value does
// so only where the element is known to be non-nil: serialising, printing or copying a list with a pending removal
// (`REMOVE l[0] SET c = l`) would otherwise be a nil dereference – a runtime fault, not an error.
func c09R14(e *Engine) {
	n := 0
	for _, tname := range []string{"List"} {
		valF := e.field("lang", tname, "Value")
		if valF == nil {
			continue
		}
		// can an element be nil at all?
		mayBeNil := false
		for _, fn := range e.funcs("lang") {
			instrs(fn, func(in ssa.Instruction) {
				st, ok := in.(*ssa.Store)
				if !ok || !isNilConst(st.Val) {
					return
				}
				if ia, isIA := st.Addr.(*ssa.IndexAddr); isIA {
					if f, _ := loadedField(ia.X); f == valF {
						mayBeNil = true
					}
				}
			})
		}
		if !mayBeNil {
			e.ob("R14", "lang."+tname+":elements-never-nil", "-", Pass, false, "no function stores nil into an element of %s.Value", tname)
			continue
		}
		for _, fn := range sortedFns(e, fnSet(e.funcs("lang"))) {
			if fn.Signature.Recv() == nil {
				continue
			}
			if nt := namedOf(fn.Signature.Recv().Type()); nt == nil || nt.Obj().Name() != tname {
				continue
			}
			instrs(fn, func(in ssa.Instruction) {
				c, ok := in.(*ssa.Call)
				if !ok || !c.Call.IsInvoke() {
					return
				}
				// the receiver of the invoke is an element of this list's Value
				el := strip(c.Call.Value)
				isElem := false
				switch x := el.(type) {
				case *ssa.UnOp:
					if ia, isIA := x.X.(*ssa.IndexAddr); isIA {
						if f, _ := loadedField(ia.X); f == valF {
							isElem = true
						}
					}
				case *ssa.Extract:
					if nx, isNext := x.Tuple.(*ssa.Next); isNext {
						if rg, isRg := nx.Iter.(*ssa.Range); isRg {
							if f, _ := loadedField(rg.X); f == valF {
								isElem = true
							}
						}
					}
				}
				if !isElem {
					return
				}
				n++
				guarded := false
				for _, cd := range condsAt(c.Block()) {
					if v, nonNilOnTrue, isNil := nilTest(cd.V); isNil && strip(v) == el && cd.Val == nonNilOnTrue {
						guarded = true
					}
				}
				construct := fmt.Sprintf("%s:element.%s()", e.fname(fn), c.Call.Method.Name())
				if guarded {
					e.pass("R14", construct, e.ipos(in), "the element is known to be non-nil where its method is invoked")
				} else {
					e.fail("R14", construct, e.ipos(in), "a method is invoked on an element of %s.Value without a nil test: elements removed earlier in the same update are nil until the list is compacted, so serialising or printing the list (SET c = l after REMOVE l[0]) dereferences nil – a runtime fault instead of a result", tname)
				}
			})
		}
	}
	if n == 0 {
		e.undecided("R14", "lang.List:element-invokes", "-", "no method invocation on list elements found")
	}
}
