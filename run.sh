#!/bin/bash
# usage: ./run.sh <property-id> [quick|thorough]
# Decides one property by static analysis of /repo's current working tree (nothing from /repo is executed).
set -u
cd "$(dirname "$0")"
ID=${1:?property id}; TIER=${2:-${VERIF_TIER:-quick}}
export GOFLAGS=-mod=mod GOPROXY=off GOSUMDB=off GOTOOLCHAIN=local
unset GOWORK
REPO=${VERIF_REPO:-/repo}
if [ ! -x bin/minicheck ] || [ -n "$(find checker -name '*.go' -newer bin/minicheck 2>/dev/null | head -1)" ]; then
  mkdir -p bin
  (cd checker && go build -o ../bin/minicheck .) || { echo "ERROR: cannot build the checker"; exit 2; }
fi
if [ "$TIER" = thorough ] && [ -x tools/thorough.sh ]; then
  exec tools/thorough.sh "$ID" "$REPO"
fi
exec bin/minicheck -repo "$REPO" -verif "$(pwd)" -prop "$ID" -tier "$TIER"
