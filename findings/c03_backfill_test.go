package findings

import (
	"testing"

	"github.com/aws/aws-sdk-go-v2/aws"
	"github.com/aws/aws-sdk-go-v2/service/dynamodb"
	v2 "github.com/truora/minidyn/aws-v2/client"
)

// C03.R6: an index created after items were written was left empty.
func TestC03NewIndexIsBackfilled(t *testing.T) {
	c := newV2(t, "t", "id", "")
	put(t, c, "t", item{"id": S("a"), "g": S("g1")})
	put(t, c, "t", item{"id": S("b")})
	if err := v2.AddIndex(ctx, c, "t", "byg", "g", ""); err != nil {
		t.Fatal(err)
	}
	if got := scanIndex(t, c, "t", "byg"); len(got) != 1 || str(got[0], "id") != "a" {
		t.Fatalf("index created after the writes lists %v, want item a", got)
	}
	// C03.R7: per-index item count
	d, err := c.DescribeTable(ctx, &dynamodb.DescribeTableInput{TableName: aws.String("t")})
	if err != nil {
		t.Fatal(err)
	}
	if n := aws.ToInt64(d.Table.GlobalSecondaryIndexes[0].ItemCount); n != 1 {
		t.Fatalf("GSI ItemCount=%d want 1", n)
	}
}
