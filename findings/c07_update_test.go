package findings

import (
	"testing"

	"github.com/truora/minidyn/interpreter"
	"github.com/truora/minidyn/types"
)

func update(t *testing.T, expr string, it map[string]*types.Item, vals map[string]*types.Item) error {
	t.Helper()
	li := interpreter.Language{}
	return li.Update(interpreter.UpdateInput{TableName: "t", Expression: expr, Item: it, Attributes: vals})
}

// C07.R5: REMOVE of a top-level attribute must remove it.
func TestC07RemoveMeansGone(t *testing.T) {
	it := map[string]*types.Item{"a": {S: str1("x")}, "b": {S: str1("y")}}
	if err := update(t, "REMOVE b", it, nil); err != nil {
		t.Fatal(err)
	}
	if _, still := it["b"]; still {
		t.Fatalf("REMOVE b left b in the item: %v", it)
	}
}

// C07.R2: DELETE from an absent attribute is a no-op, it must not create the attribute.
func TestC07DeleteDoesNotCreate(t *testing.T) {
	it := map[string]*types.Item{"a": {S: str1("x")}}
	if err := update(t, "DELETE ss :v", it, map[string]*types.Item{":v": {SS: []*string{str1("q")}}}); err != nil {
		t.Fatal(err)
	}
	if _, created := it["ss"]; created {
		t.Fatalf("DELETE created the attribute ss: %v", it["ss"])
	}
}

// C07.R3: ADD on a document path is not supported by the handler; it must fail, not silently do nothing.
func TestC07AddOnPathIsNotSilent(t *testing.T) {
	it := map[string]*types.Item{"m": {M: map[string]*types.Item{"c": {N: str1("1")}}}}
	err := update(t, "ADD m.c :v", it, map[string]*types.Item{":v": {N: str1("1")}})
	if err == nil && *it["m"].M["c"].N == "1" {
		t.Fatalf("ADD m.c :v reported success and changed nothing")
	}
}

// C07.R8 (known finding): right-hand sides must read the pre-update item.
func TestC07RightHandSidesReadOldItem(t *testing.T) {
	it := map[string]*types.Item{"a": {S: str1("old")}}
	if err := update(t, "SET a = :x, b = a", it, map[string]*types.Item{":x": {S: str1("new")}}); err != nil {
		t.Fatal(err)
	}
	if got := *it["b"].S; got != "old" {
		t.Fatalf("b = %q, want the pre-update value of a (old)", got)
	}
}

// C07.R6 / C12.R4 (known finding): an update rewrites numbers it does not target.
func TestC07UntouchedNumberKeepsItsValue(t *testing.T) {
	it := map[string]*types.Item{"n": {N: str1("9007199254740993")}, "a": {S: str1("x")}}
	if err := update(t, "SET a = :x", it, map[string]*types.Item{":x": {S: str1("y")}}); err != nil {
		t.Fatal(err)
	}
	if got := *it["n"].N; got != "9007199254740993" {
		t.Fatalf("untouched number changed to %s", got)
	}
}
