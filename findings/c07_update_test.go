package findings

import (
	"testing"

	"github.com/truora/minidyn/interpreter"
	"github.com/truora/minidyn/types"
)

func update(t *testing.T, expr string, it map[string]*types.Item, vals map[string]*types.Item) error {
	t.Helper()
	li := interpreter.Language{}
	return li.Update(interpreter.UpdateInput{TableName: "t", Expression: expr, Item: it, Attributes: vals})
}

// C07.R5: REMOVE of a top-level attribute must remove it.
func TestC07RemoveMeansGone(t *testing.T) {
	it := map[string]*types.Item{"a": {S: str1("x")}, "b": {S: str1("y")}}
	if err := update(t, "REMOVE b", it, nil); err != nil {
		t.Fatal(err)
	}
	if _, still := it["b"]; still {
		t.Fatalf("REMOVE b left b in the item: %v", it)
	}
}

// C07.R2: DELETE from an absent attribute is a no-op, it must not create the attribute.
func TestC07DeleteDoesNotCreate(t *testing.T) {
	it := map[string]*types.Item{"a": {S: str1("x")}}
	if err := update(t, "DELETE ss :v", it, map[string]*types.Item{":v": {SS: []*string{str1("q")}}}); err != nil {
		t.Fatal(err)
	}
	if _, created := it["ss"]; created {
		t.Fatalf("DELETE created the attribute ss: %v", it["ss"])
	}
}

// C07.R3: ADD on a document path is not supported by the handler; it must fail, not silently do nothing.
func TestC07AddOnPathIsNotSilent(t *testing.T) {
	it := map[string]*types.Item{"m": {M: map[string]*types.Item{"c": {N: str1("1")}}}}
	err := update(t, "ADD m.c :v", it, map[string]*types.Item{":v": {N: str1("1")}})
	if err == nil && *it["m"].M["c"].N == "1" {
		t.Fatalf("ADD m.c :v reported success and changed nothing")
	}
}

// C07.R8 (known finding): right-hand sides must read the pre-update item.
func TestC07RightHandSidesReadOldItem(t *testing.T) {
	it := map[string]*types.Item{"a": {S: str1("old")}}
	if err := update(t, "SET a = :x, b = a", it, map[string]*types.Item{":x": {S: str1("new")}}); err != nil {
		t.Fatal(err)
	}
	if got := *it["b"].S; got != "old" {
		t.Fatalf("b = %q, want the pre-update value of a (old)", got)
	}
}

// C07.R6 / C12.R4 (known finding): an update rewrites numbers it does not target.
func TestC07UntouchedNumberKeepsItsValue(t *testing.T) {
	it := map[string]*types.Item{"n": {N: str1("9007199254740993")}, "a": {S: str1("x")}}
	if err := update(t, "SET a = :x", it, map[string]*types.Item{":x": {S: str1("y")}}); err != nil {
		t.Fatal(err)
	}
	if got := *it["n"].N; got != "9007199254740993" {
		t.Fatalf("untouched number changed to %s", got)
	}
}

// C07.R11 (known finding): `SET a = b` stores b's own object under a; a later clause that changes b in place
// (SET b[0] = …, REMOVE b[0], list_append-free list element assignment) changes a as well, although a was assigned the
// pre-update value of b. The two paths (a, b[0]) do not overlap, so the expression is valid.
func TestC07SetCopiesTheOperand(t *testing.T) {
	it := map[string]*types.Item{"b": {L: []*types.Item{{S: str1("old")}}}}
	if err := update(t, "SET a = b, b[0] = :x", it, map[string]*types.Item{":x": {S: str1("new")}}); err != nil {
		t.Fatal(err)
	}
	if got := *it["a"].L[0].S; got != "old" {
		t.Fatalf("a[0] = %q, want the pre-update value of b[0] (old): a shares b's list object", got)
	}
}

// the copy made by SET copes with a list that has an element removed earlier in the same expression
func TestC07SetCopyOfListWithRemovedElement(t *testing.T) {
	for _, expr := range []string{"REMOVE b[0] SET a = b", "SET a = b REMOVE b[0]", "SET m.c = b REMOVE b[1]", "REMOVE m.l[0] SET a = m"} {
		it := map[string]*types.Item{
			"b": {L: []*types.Item{{S: str1("x")}, {S: str1("y")}}},
			"m": {M: map[string]*types.Item{"l": {L: []*types.Item{{S: str1("p")}, {S: str1("q")}}}}},
		}
		if err := update(t, expr, it, nil); err != nil {
			t.Fatalf("%s: %v", expr, err)
		}
		for k, v := range it {
			if v == nil || (v.L == nil && v.M == nil) {
				t.Fatalf("%s: attribute %s lost its type: %#v", expr, k, v)
			}
		}
	}
}

// C07.R14 / C06: an attribute literally named like an alias key of the request ("#s") is an attribute of its own: it is
// neither the attribute the alias stands for nor touched by an update that does not target it.
func TestC07AttributeNamedLikeAnAlias(t *testing.T) {
	li := interpreter.Language{}
	for i := 0; i < 30; i++ {
		it := map[string]*types.Item{"#s": {S: str1("x")}, "status": {S: str1("open")}}
		m, err := li.Match(interpreter.MatchInput{TableName: "t", Expression: "#s = :v", ExpressionType: interpreter.ExpressionTypeConditional, Item: it,
			Attributes: map[string]*types.Item{":v": {S: str1("open")}}, Aliases: map[string]string{"#s": "status"}})
		if err != nil || !m {
			t.Fatalf("#s (alias of status) = :v: matched=%v err=%v", m, err)
		}
		err = li.Update(interpreter.UpdateInput{TableName: "t", Expression: "SET extra1 = :v", Item: it,
			Attributes: map[string]*types.Item{":v": {S: str1("1")}}, Aliases: map[string]string{"#s": "status"}})
		if err != nil || it["#s"] == nil || *it["#s"].S != "x" || *it["status"].S != "open" {
			t.Fatalf("an update that targets `extra1` changed the item: %v (err %v)", it, err)
		}
		// the literal attribute is reachable through a placeholder of its own
		m, err = li.Match(interpreter.MatchInput{TableName: "t", Expression: "#lit = :x", ExpressionType: interpreter.ExpressionTypeConditional, Item: it,
			Attributes: map[string]*types.Item{":x": {S: str1("x")}}, Aliases: map[string]string{"#lit": "#s"}})
		if err != nil || !m {
			t.Fatalf("#lit (alias of the attribute named #s) = :x: matched=%v err=%v", m, err)
		}
	}
}
