package findings

import (
	"github.com/aws/aws-sdk-go-v2/aws"
	"testing"

	"github.com/aws/aws-sdk-go-v2/service/dynamodb"
	ddbtypes "github.com/aws/aws-sdk-go-v2/service/dynamodb/types"
)

// C19.R4 (known finding, blocked by the baseline test TestPutAndGetBatchItem which asserts this behaviour):
// a key with no stored item is reported in UnprocessedKeys instead of simply being absent from Responses.
func TestC19AbsentKeyIsNotUnprocessed(t *testing.T) {
	c := newV2(t, "t", "id", "")
	put(t, c, "t", item{"id": S("a")})
	out, err := c.BatchGetItem(ctx, &dynamodb.BatchGetItemInput{RequestItems: map[string]ddbtypes.KeysAndAttributes{
		"t": {Keys: []map[string]ddbtypes.AttributeValue{{"id": S("a")}, {"id": S("zz")}}}}})
	if err != nil {
		t.Fatal(err)
	}
	if n := len(out.UnprocessedKeys["t"].Keys); n != 0 {
		t.Fatalf("absent key reported as unprocessed (%d unprocessed keys): a retry-until-empty loop never terminates", n)
	}
}

// C19.R4 (known finding): a malformed key fails GetItem with a validation error; BatchGetItem reports it as
// unprocessed and succeeds. Not repaired: the baseline test TestPutAndGetBatchItem requests the key {"t1": …} on a
// table keyed by id and asserts NoError.
func TestC19BatchGetRejectsMalformedKey(t *testing.T) {
	c := newV2(t, "t", "id", "")
	put(t, c, "t", item{"id": S("a")})
	_, gerr := c.GetItem(ctx, &dynamodb.GetItemInput{TableName: aws.String("t"), Key: item{"other": S("a")}})
	_, berr := c.BatchGetItem(ctx, &dynamodb.BatchGetItemInput{RequestItems: map[string]ddbtypes.KeysAndAttributes{"t": {Keys: []map[string]ddbtypes.AttributeValue{{"other": S("a")}}}}})
	if (gerr == nil) != (berr == nil) {
		t.Fatalf("GetItem with a malformed key: %v; BatchGetItem with the same key: %v", gerr, berr)
	}
}
