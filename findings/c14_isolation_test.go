package findings

import (
	"testing"

	"github.com/aws/aws-sdk-go-v2/aws"
	"github.com/aws/aws-sdk-go-v2/service/dynamodb"
	ddbtypes "github.com/aws/aws-sdk-go-v2/service/dynamodb/types"
	aws1 "github.com/aws/aws-sdk-go/aws"
	ddb1 "github.com/aws/aws-sdk-go/service/dynamodb"
	v1 "github.com/truora/minidyn/aws-v1/client"
)

// C14.R1 (v1): the adapter stored the caller's *string; writing through it after PutItem changed the stored item.
func TestC14V1InputIsCopied(t *testing.T) {
	c := v1.NewClient()
	if err := v1.AddTable(c, "tbl", "id", ""); err != nil {
		t.Fatal(err)
	}
	name := aws1.String("before")
	in := map[string]*ddb1.AttributeValue{"id": {S: aws1.String("a")}, "name": {S: name}}
	if _, err := c.PutItem(&ddb1.PutItemInput{TableName: aws1.String("tbl"), Item: in}); err != nil {
		t.Fatal(err)
	}
	*name = "after" // caller reuses its buffer
	out, err := c.GetItem(&ddb1.GetItemInput{TableName: aws1.String("tbl"), Key: map[string]*ddb1.AttributeValue{"id": {S: aws1.String("a")}}})
	if err != nil {
		t.Fatal(err)
	}
	if got := aws1.StringValue(out.Item["name"].S); got != "before" {
		t.Fatalf("stored item changed without an API call: name=%q", got)
	}
	*out.Item["name"].S = "scribble" // mutate a returned structure
	out2, _ := c.GetItem(&ddb1.GetItemInput{TableName: aws1.String("tbl"), Key: map[string]*ddb1.AttributeValue{"id": {S: aws1.String("a")}}})
	if got := aws1.StringValue(out2.Item["name"].S); got != "before" {
		t.Fatalf("mutating a read result changed the stored item: name=%q", got)
	}
}

// C14.R1 (v2): binary values were shared with the caller's slice.
func TestC14V2BinaryIsCopied(t *testing.T) {
	c := newV2(t, "t", "id", "")
	buf := []byte{1, 2, 3}
	put(t, c, "t", item{"id": S("a"), "b": &ddbtypes.AttributeValueMemberB{Value: buf}})
	buf[0] = 9
	out, err := c.GetItem(ctx, &dynamodb.GetItemInput{TableName: aws.String("t"), Key: item{"id": S("a")}})
	if err != nil {
		t.Fatal(err)
	}
	if got := out.Item["b"].(*ddbtypes.AttributeValueMemberB).Value; got[0] != 1 {
		t.Fatalf("stored binary changed with the caller's buffer: %v", got)
	}
}
