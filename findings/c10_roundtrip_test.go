package findings

import (
	"testing"

	"github.com/aws/aws-sdk-go-v2/aws"
	"github.com/aws/aws-sdk-go-v2/service/dynamodb"
	ddbtypes "github.com/aws/aws-sdk-go-v2/service/dynamodb/types"
)

func roundTrip(t *testing.T, v ddbtypes.AttributeValue) ddbtypes.AttributeValue {
	c := newV2(t, "t", "id", "")
	put(t, c, "t", item{"id": S("a"), "v": v})
	out, err := c.GetItem(ctx, &dynamodb.GetItemInput{TableName: aws.String("t"), Key: item{"id": S("a")}})
	if err != nil {
		t.Fatal(err)
	}
	return out.Item["v"]
}

// C10.R2 (fixed): an empty binary came back as NULL through the v2 adapter.
func TestC10EmptyBinaryRoundTrip(t *testing.T) {
	if got, ok := roundTrip(t, &ddbtypes.AttributeValueMemberB{Value: []byte{}}).(*ddbtypes.AttributeValueMemberB); !ok {
		t.Fatalf("empty binary came back as %T", got)
	}
}

// C10.R2 (known findings, the baseline suite asserts the lossy behaviour): empty lists and maps come back as NULL.
func TestC10EmptyListRoundTrip(t *testing.T) {
	got := roundTrip(t, &ddbtypes.AttributeValueMemberL{Value: []ddbtypes.AttributeValue{}})
	if _, ok := got.(*ddbtypes.AttributeValueMemberL); !ok {
		t.Fatalf("empty list came back as %T", got)
	}
}

func TestC10EmptyMapRoundTrip(t *testing.T) {
	got := roundTrip(t, &ddbtypes.AttributeValueMemberM{Value: map[string]ddbtypes.AttributeValue{}})
	if _, ok := got.(*ddbtypes.AttributeValueMemberM); !ok {
		t.Fatalf("empty map came back as %T", got)
	}
}
