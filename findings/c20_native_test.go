package findings

import (
	"testing"

	"github.com/truora/minidyn/interpreter"
	"github.com/truora/minidyn/types"
)

// C20.R2: the registry key was the expression's characters sorted, so anagram expressions collided.
func TestC20AnagramExpressionsCollide(t *testing.T) {
	ni := interpreter.NewNativeInterpreter()
	ni.AddMatcher("t", interpreter.ExpressionTypeFilter, "ab = :x", func(_, _ map[string]*types.Item) bool { return true })
	_, err := ni.Match(interpreter.MatchInput{TableName: "t", ExpressionType: interpreter.ExpressionTypeFilter, Expression: "ba = :x"})
	if err == nil {
		t.Fatal(`matcher registered for "ab = :x" fired for the different expression "ba = :x"`)
	}
	if _, err := ni.Match(interpreter.MatchInput{TableName: "t", ExpressionType: interpreter.ExpressionTypeFilter, Expression: "  ab  =   :x "}); err != nil {
		t.Fatalf("whitespace variant must still match: %v", err)
	}
}
