package findings

import (
	"testing"

	"github.com/aws/aws-sdk-go-v2/aws"
	"github.com/aws/aws-sdk-go-v2/service/dynamodb"
	v2 "github.com/truora/minidyn/aws-v2/client"
)

// C08.R1 Table.Put: an index key of the wrong type is detected only after the base table was written.
func TestC08PutFailsAfterWrite(t *testing.T) {
	c := newV2(t, "t", "id", "")
	if err := v2.AddIndex(ctx, c, "t", "byg", "g", ""); err != nil {
		t.Fatal(err)
	}
	_, err := c.PutItem(ctx, &dynamodb.PutItemInput{TableName: aws.String("t"), Item: item{"id": S("a"), "g": N("1")}})
	if err == nil {
		t.Fatal("expected a validation error: index key attribute g must be a string")
	}
	if got := scanIndex(t, c, "t", ""); len(got) != 0 {
		t.Fatalf("failed PutItem left %d item(s) in the table", len(got))
	}
}

// C08.R1 Table.Update: the stored map is mutated in place before the index step can fail.
func TestC08UpdateFailsAfterWrite(t *testing.T) {
	c := newV2(t, "t", "id", "")
	if err := v2.AddIndex(ctx, c, "t", "byg", "g", ""); err != nil {
		t.Fatal(err)
	}
	put(t, c, "t", item{"id": S("a"), "g": S("g1"), "v": S("old")})
	_, err := c.UpdateItem(ctx, &dynamodb.UpdateItemInput{TableName: aws.String("t"), Key: item{"id": S("a")},
		UpdateExpression: aws.String("SET g = :g, v = :v"), ExpressionAttributeValues: item{":g": N("1"), ":v": S("new")}})
	if err == nil {
		t.Fatal("expected a validation error")
	}
	out, _ := c.GetItem(ctx, &dynamodb.GetItemInput{TableName: aws.String("t"), Key: item{"id": S("a")}})
	if str(out.Item, "v") != "old" {
		t.Fatalf("failed UpdateItem changed the stored item: v=%q", str(out.Item, "v"))
	}
}
