package findings

import (
	"testing"

	"github.com/aws/aws-sdk-go-v2/aws"
	"github.com/aws/aws-sdk-go-v2/service/dynamodb"
)

// C04.R3 (known finding): the page boundary item is deleted between two pages; the rest of the result is lost.
func TestC04ResumeAfterBoundaryItemDeleted(t *testing.T) {
	c := newV2(t, "t", "id", "")
	for _, k := range []string{"a", "b", "c", "d"} {
		put(t, c, "t", item{"id": S(k)})
	}
	p1, err := c.Scan(ctx, &dynamodb.ScanInput{TableName: aws.String("t"), Limit: aws.Int32(2)})
	if err != nil || len(p1.Items) != 2 {
		t.Fatalf("page 1: %v %v", p1, err)
	}
	if _, err := c.DeleteItem(ctx, &dynamodb.DeleteItemInput{TableName: aws.String("t"), Key: item{"id": S("b")}}); err != nil {
		t.Fatal(err)
	}
	p2, err := c.Scan(ctx, &dynamodb.ScanInput{TableName: aws.String("t"), Limit: aws.Int32(2), ExclusiveStartKey: p1.LastEvaluatedKey})
	if err != nil {
		t.Fatal(err)
	}
	if len(p2.Items) != 2 {
		t.Fatalf("page 2 after deleting the boundary item has %d items, want c and d", len(p2.Items))
	}
}

// C12 (known findings): numbers are float64 and keys are text.
func TestC12NumbersAreExactDecimals(t *testing.T) {
	it := map[string]*types_Item{}
	_ = it
	res, err, p := match(t, "n = :v", mapN("n", "9007199254740993"), mapN(":v", "9007199254740992"), nil)
	if p != nil || err != nil {
		t.Fatal(err, p)
	}
	if res {
		t.Fatalf("9007199254740993 = 9007199254740992 evaluated to true")
	}
}

func TestC12NumericSortKeysOrderByValue(t *testing.T) {
	c := newV2(t, "t", "h", "")
	_ = c
	// table with a numeric range key needs CreateTable with N; AddTable only declares S keys, so go through core ordering by text:
	// "10" < "9" as strings – demonstrated at the interpreter level instead
	res, err, p := match(t, "a < b", map2("a", "9", "b", "10"), nil, nil)
	if p != nil || err != nil || !res {
		t.Fatalf("9 < 10 = %v (%v %v)", res, err, p)
	}
}
