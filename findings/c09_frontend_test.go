package findings

import (
	"testing"

	"github.com/truora/minidyn/interpreter"
	"github.com/truora/minidyn/types"
)

func str1(s string) *string { return &s }

func match(t *testing.T, expr string, it map[string]*types.Item, vals map[string]*types.Item, names map[string]string) (res bool, err error, panicked interface{}) {
	t.Helper()
	defer func() { panicked = recover() }()
	li := interpreter.Language{}
	res, err = li.Match(interpreter.MatchInput{TableName: "t", Expression: expr, ExpressionType: interpreter.ExpressionTypeFilter, Item: it, Attributes: vals, Aliases: names})
	return
}

// C09: the front end must never crash and must reject strings that are not one sentence.
func TestC09FrontEndTotalAndStrict(t *testing.T) {
	it := map[string]*types.Item{"a": {N: str1("1")}, "l": {L: []*types.Item{{S: str1("x")}}}}
	vals := map[string]*types.Item{":s": {S: str1("z")}, ":x": {N: str1("1")}, ":y": {N: str1("2")}}
	for _, tc := range []struct {
		name, expr string
		wantErr    bool
	}{
		{"R1 number compared with string", "a < :s", true},
		{"R1 equality across types is false, not a crash", "a = :s", false},
		{"R2 missing function argument", "attribute_exists()", true},
		{"R2 begins_with with one argument", "begins_with(a)", true},
		{"R2 list index past the end", "l[5] = :s", false},
		{"R3 blank condition", "   ", true},
		{"R6 juxtaposed sentences", "a = :x a = :y", true},
		{"R6 lower-case and splits the condition", "a = :y and a = :x", true},
	} {
		_, err, p := match(t, tc.expr, it, vals, nil)
		if p != nil {
			t.Errorf("%s: %q crashed: %v", tc.name, tc.expr, p)
			continue
		}
		if tc.wantErr && err == nil {
			t.Errorf("%s: %q was accepted", tc.name, tc.expr)
		}
		if !tc.wantErr && err != nil {
			t.Errorf("%s: %q unexpectedly failed: %v", tc.name, tc.expr, err)
		}
	}
	// update grammar: a stray leading word must not be accepted
	li := interpreter.Language{}
	if err := li.Update(interpreter.UpdateInput{TableName: "t", Expression: "x SET a = :x", Item: map[string]*types.Item{"a": {N: str1("1")}}, Attributes: vals}); err == nil {
		t.Errorf(`update expression "x SET a = :x" was accepted`)
	}
}

// C09.R5: an alias cycle in ExpressionAttributeNames recursed until the stack overflowed (fatal, not recoverable).
func TestC09AliasCycleTerminates(t *testing.T) {
	_, _, p := match(t, "#a = :x", map[string]*types.Item{"b": {N: str1("1")}}, map[string]*types.Item{":x": {N: str1("1")}}, map[string]string{"#a": "#a"})
	if p != nil {
		t.Fatalf("crashed: %v", p)
	}
}

// C09.R8: strings that are not sentences of the condition grammar must be rejected, not partly evaluated.
func TestC09ConditionNonSentencesAreRejected(t *testing.T) {
	li := interpreter.Language{}
	it := map[string]*types.Item{"a": {S: str1("x")}, "b": {S: str1("x")}}
	vals := map[string]*types.Item{":a": {S: str1("x")}}
	for _, ex := range []string{"a IN b :a)", "a BETWEEN :a AND", "a BETWEEN ( AND )", "a IN ()", "a.( = :a", "a[] = :a", "a = :a\x00 garbage"} {
		func() {
			defer func() { recover() }() // a panic carrying the error is the documented rejection at some layers
			_, err := li.Match(interpreter.MatchInput{TableName: "t", Expression: ex, ExpressionType: interpreter.ExpressionTypeConditional, Item: it, Attributes: vals})
			if err == nil {
				t.Errorf("%q is accepted", ex)
			}
		}()
	}
}

// C09.R8: non-sentences of the update grammar.
func TestC09UpdateNonSentencesAreRejected(t *testing.T) {
	li := interpreter.Language{}
	vals := map[string]*types.Item{":a": {S: str1("x")}}
	for _, ex := range []string{"SET x = :a REMOVE", "SET x = :a SET y = :a", "REMOVE y ADD", "SET x = :a\x00 REMOVE y"} {
		item := map[string]*types.Item{"y": {S: str1("x")}}
		if err := li.Update(interpreter.UpdateInput{TableName: "t", Expression: ex, Item: item, Attributes: vals}); err == nil {
			t.Errorf("%q is accepted (item now %d attributes)", ex, len(item))
		}
	}
}
