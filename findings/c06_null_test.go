package findings

import (
	"testing"

	"github.com/truora/minidyn/types"
)

// C06.R5: a NULL-typed attribute exists; attribute_exists decided by the type tag said it does not.
func TestC06NullAttributeExists(t *testing.T) {
	yes := true
	it := map[string]*types.Item{"a": {NULL: &yes}}
	res, err, p := match(t, "attribute_exists(a)", it, nil, nil)
	if p != nil || err != nil || !res {
		t.Fatalf("attribute_exists(a) on a NULL attribute = %v (err %v, panic %v), want true", res, err, p)
	}
	res, err, p = match(t, "attribute_not_exists(a)", it, nil, nil)
	if p != nil || err != nil || res {
		t.Fatalf("attribute_not_exists(a) on a NULL attribute = %v (err %v), want false", res, err)
	}
}
