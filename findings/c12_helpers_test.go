package findings

import "github.com/truora/minidyn/types"

type types_Item = types.Item

func mapN(name, n string) map[string]*types.Item { return map[string]*types.Item{name: {N: &n}} }
func map2(a, av, b, bv string) map[string]*types.Item {
	return map[string]*types.Item{a: {N: &av}, b: {N: &bv}}
}
