package findings

import (
	"testing"

	"github.com/aws/aws-sdk-go-v2/aws"
	"github.com/aws/aws-sdk-go-v2/service/dynamodb"
	v2 "github.com/truora/minidyn/aws-v2/client"
)

// C18.R9: IndexesDescription takes the address of the range variable; under the module's `go 1.20` loop semantics every
// index description of one kind ends up with the same (last) index name.
func TestC18DescribeTableNamesEveryIndex(t *testing.T) {
	c := newV2(t, "t", "id", "")
	for _, ix := range []string{"by_a", "by_b", "by_c"} {
		if err := v2.AddIndex(ctx, c, "t", ix, ix[3:], ""); err != nil {
			t.Fatal(err)
		}
	}
	d, err := c.DescribeTable(ctx, &dynamodb.DescribeTableInput{TableName: aws.String("t")})
	if err != nil {
		t.Fatal(err)
	}
	names := map[string]bool{}
	for _, g := range d.Table.GlobalSecondaryIndexes {
		names[aws.ToString(g.IndexName)] = true
	}
	if len(names) != 3 {
		t.Fatalf("DescribeTable names %d distinct indexes out of 3: %v", len(names), names)
	}
}
