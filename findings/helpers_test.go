package findings

// Demonstrations of the defects found by the static checks (documentation for triage; not part of any check).
// Each test exhibits one finding against the real code through the public API: it fails while the defect is
// present and passes once it is repaired.  Run: cd /verif/findings && GOFLAGS=-mod=mod go test ./...

import (
	"context"
	"testing"

	"github.com/aws/aws-sdk-go-v2/aws"
	"github.com/aws/aws-sdk-go-v2/service/dynamodb"
	ddbtypes "github.com/aws/aws-sdk-go-v2/service/dynamodb/types"
	v2 "github.com/truora/minidyn/aws-v2/client"
)

var ctx = context.Background()

func S(s string) ddbtypes.AttributeValue { return &ddbtypes.AttributeValueMemberS{Value: s} }
func N(s string) ddbtypes.AttributeValue { return &ddbtypes.AttributeValueMemberN{Value: s} }

type item = map[string]ddbtypes.AttributeValue

func newV2(t *testing.T, table, hash, rng string) *v2.Client {
	t.Helper()
	c := v2.NewClient()
	if err := v2.AddTable(ctx, c, table, hash, rng); err != nil {
		t.Fatal(err)
	}
	return c
}

func put(t *testing.T, c *v2.Client, table string, it item) {
	t.Helper()
	if _, err := c.PutItem(ctx, &dynamodb.PutItemInput{TableName: aws.String(table), Item: it}); err != nil {
		t.Fatalf("put: %v", err)
	}
}

func scanIndex(t *testing.T, c *v2.Client, table, index string) []item {
	t.Helper()
	in := &dynamodb.ScanInput{TableName: aws.String(table)}
	if index != "" {
		in.IndexName = aws.String(index)
	}
	out, err := c.Scan(ctx, in)
	if err != nil {
		t.Fatalf("scan: %v", err)
	}
	return out.Items
}

func str(it item, k string) string {
	if v, ok := it[k].(*ddbtypes.AttributeValueMemberS); ok {
		return v.Value
	}
	return ""
}
