package findings

import (
	"testing"

	"github.com/aws/aws-sdk-go-v2/aws"
	"github.com/aws/aws-sdk-go-v2/service/dynamodb"
)

// C05.R2: DeleteItem evaluated its condition by searching the whole table, so a bystander item let the delete through.
func TestC05DeleteConditionSeesBystander(t *testing.T) {
	c := newV2(t, "t", "id", "")
	put(t, c, "t", item{"id": S("a")})
	put(t, c, "t", item{"id": S("b"), "x": S("1")})
	_, err := c.DeleteItem(ctx, &dynamodb.DeleteItemInput{TableName: aws.String("t"), Key: item{"id": S("a")},
		ConditionExpression: aws.String("attribute_exists(x)")})
	if err == nil {
		t.Fatal("delete of a (which has no x) succeeded because bystander b has x")
	}
	if got := scanIndex(t, c, "t", ""); len(got) != 2 {
		t.Fatalf("refused delete changed the table: %d items", len(got))
	}
}
