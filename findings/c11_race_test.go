package findings

import (
	"fmt"
	"sync"
	"testing"

	"github.com/aws/aws-sdk-go-v2/aws"
	"github.com/aws/aws-sdk-go-v2/service/dynamodb"
	v2 "github.com/truora/minidyn/aws-v2/client"
)

// C11.L1: table-management methods touched Client.tables without the mutex.
// Run with -race: before the fix the detector reports races (or the runtime aborts with
// "concurrent map read and map write"); after it the test is silent.
func TestC11ManagementMethodsRace(t *testing.T) {
	c := v2.NewClient()
	var wg sync.WaitGroup
	for g := 0; g < 4; g++ {
		wg.Add(1)
		go func(g int) {
			defer wg.Done()
			for i := 0; i < 50; i++ {
				name := fmt.Sprintf("t%d_%d", g, i)
				_ = v2.AddTable(ctx, c, name, "id", "")
				_, _ = c.DescribeTable(ctx, &dynamodb.DescribeTableInput{TableName: aws.String(name)})
				_, _ = c.PutItem(ctx, &dynamodb.PutItemInput{TableName: aws.String(name), Item: item{"id": S("a")}})
				_ = v2.ClearTable(c, name)
				_, _ = c.DeleteTable(ctx, &dynamodb.DeleteTableInput{TableName: aws.String(name)})
			}
		}(g)
	}
	wg.Wait()
}
