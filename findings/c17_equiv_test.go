package findings

import (
	"errors"
	"testing"

	"github.com/aws/aws-sdk-go-v2/aws"
	"github.com/aws/aws-sdk-go-v2/service/dynamodb"
	aws1 "github.com/aws/aws-sdk-go/aws"
	ddb1 "github.com/aws/aws-sdk-go/service/dynamodb"
	"github.com/aws/smithy-go"
	v1 "github.com/truora/minidyn/aws-v1/client"
)

// C17.R2: a validation error of the engine must be an API error in v2 as it is in v1.
func TestC17ValidationErrorIsAPIErrorInV2(t *testing.T) {
	c := newV2(t, "t", "id", "")
	_, err := c.PutItem(ctx, &dynamodb.PutItemInput{TableName: aws.String("t"), Item: item{"other": S("x")}})
	var api smithy.APIError
	if err == nil || !errors.As(err, &api) || api.ErrorCode() != "ValidationException" {
		t.Fatalf("PutItem without the key attribute: %T %v is not a smithy ValidationException", err, err)
	}
}

// C17.R4: leaving out an optional request field must not crash one of the clients.
func TestC17MissingOptionalFieldsDoNotPanic(t *testing.T) {
	defer func() {
		if p := recover(); p != nil {
			t.Fatalf("panic: %v", p)
		}
	}()
	c1 := v1.NewClient()
	if err := v1.AddTable(c1, "tbl", "id", ""); err != nil {
		t.Fatal(err)
	}
	_, _ = c1.Query(&ddb1.QueryInput{TableName: aws1.String("tbl")})
	c2 := newV2(t, "t", "id", "")
	_, _ = c2.UpdateItem(ctx, &dynamodb.UpdateItemInput{TableName: aws.String("t"), Key: item{"id": S("a")}})
}
