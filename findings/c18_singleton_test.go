package findings

import (
	"testing"

	"github.com/aws/aws-sdk-go/aws"
	ddb1 "github.com/aws/aws-sdk-go/service/dynamodb"
	v1 "github.com/truora/minidyn/aws-v1/client"
)

// C18.R6 / C14.R2: Boolean.ToDynamoDB returned &TRUE.Value; through the v1 adapter (which passes *bool through)
// a caller flipping a returned BOOL flips the process-wide TRUE for every client.
func TestC18SingletonTrueCannotBeFlipped(t *testing.T) {
	a := v1.NewClient()
	if err := v1.AddTable(a, "tbl-a", "id", ""); err != nil {
		t.Fatal(err)
	}
	_, err := a.PutItem(&ddb1.PutItemInput{TableName: aws.String("tbl-a"), Item: map[string]*ddb1.AttributeValue{"id": {S: aws.String("a")}, "f": {BOOL: aws.Bool(true)}}})
	if err != nil {
		t.Fatal(err)
	}
	// any update re-serialises every attribute through the object layer
	_, err = a.UpdateItem(&ddb1.UpdateItemInput{TableName: aws.String("tbl-a"), Key: map[string]*ddb1.AttributeValue{"id": {S: aws.String("a")}},
		UpdateExpression: aws.String("SET x = :x"), ExpressionAttributeValues: map[string]*ddb1.AttributeValue{":x": {S: aws.String("1")}}})
	if err != nil {
		t.Fatal(err)
	}
	out, err := a.GetItem(&ddb1.GetItemInput{TableName: aws.String("tbl-a"), Key: map[string]*ddb1.AttributeValue{"id": {S: aws.String("a")}}})
	if err != nil {
		t.Fatal(err)
	}
	*out.Item["f"].BOOL = false // the caller scribbles on its own result

	// a completely fresh client now evaluates conditions with a corrupted TRUE
	b := v1.NewClient()
	if err := v1.AddTable(b, "tbl-b", "id", ""); err != nil {
		t.Fatal(err)
	}
	_, err = b.PutItem(&ddb1.PutItemInput{TableName: aws.String("tbl-b"), Item: map[string]*ddb1.AttributeValue{"id": {S: aws.String("k")}},
		ConditionExpression: aws.String("attribute_not_exists(id) AND attribute_not_exists(q)")})
	if err != nil {
		t.Fatalf("an unrelated client is affected by a write to a returned value: %v", err)
	}
}
