package findings

import (
	"testing"

	"github.com/aws/aws-sdk-go-v2/aws"
	"github.com/aws/aws-sdk-go-v2/service/dynamodb"
)

// C13.R4: an update expression could change a key attribute, leaving an item whose key differs from its address.
func TestC13UpdateCannotChangeKey(t *testing.T) {
	c := newV2(t, "t", "id", "")
	put(t, c, "t", item{"id": S("a"), "v": S("1")})
	_, err := c.UpdateItem(ctx, &dynamodb.UpdateItemInput{TableName: aws.String("t"), Key: item{"id": S("a")},
		UpdateExpression: aws.String("SET id = :g"), ExpressionAttributeValues: item{":g": S("zz")}})
	out, _ := c.GetItem(ctx, &dynamodb.GetItemInput{TableName: aws.String("t"), Key: item{"id": S("a")}})
	if err == nil || str(out.Item, "id") != "a" {
		t.Fatalf("update changed the key attribute: err=%v, item retrievable under a has id=%q", err, str(out.Item, "id"))
	}
}

// C13.R1 (known finding): hash and range renderings are joined with '.', so distinct keys collide.
func TestC13KeyEncodingCollides(t *testing.T) {
	c := newV2(t, "t", "h", "r")
	put(t, c, "t", item{"h": S("a.b"), "r": S("c"), "v": S("first")})
	put(t, c, "t", item{"h": S("a"), "r": S("b.c"), "v": S("second")})
	if got := scanIndex(t, c, "t", ""); len(got) != 2 {
		t.Fatalf("two distinct keys collapsed into %d item(s)", len(got))
	}
}
